import FxVerif.Model.C14
import FxVerif.Proofs.C14
import FxVerif.Proofs.C14Bank
import FxVerif.Proofs.C14Queue
import FxVerif.Proofs.C14Exec
import FxVerif.Proofs.C14Sim
import FxVerif.Proofs.C14SimInit
import FxVerif.Proofs.C14Inv
import FxVerif.Proofs.C14InvQ
import FxVerif.Proofs.C14InvS
import FxVerif.Proofs.C14InvI
import FxVerif.Proofs.C14InvG
import FxVerif.Proofs.C14Gen
import FxVerif.Proofs.C14Prog
import FxVerif.Proofs.C14InvK
import FxVerif.Proofs.C14Acct
/-!
# C14 — account migration moves everything, once, to the address that authorised it

Property theorems only.  `cfg` is computed from `Gen/C14.lean`, which is regenerated from `/repo` on every run: which
keys `Execute` rewrites, how far the gov scan walks the proposal queues, the signed bytes, the handler order, the
`Validate` checks.  `cfg_from_code` is the obligation tying the theorems to the code; when the code loses the 0x71 /
0x38 rewrite, walks the proposal queues only up to the block time, signs other bytes or drops a check, it stops
checking.
-/
namespace FxVerif.Props.C14
open FxVerif.Model.C14 FxVerif.Proofs.C14

/-- obligation over the regenerated facts: the code rewrites the delegations-by-validator and unbonding-id indexes,
walks both proposal queues completely, runs validate-all / execute-all / record in this order, compares the recovered
signer with the target, and rejects validator operators and targets with staking records -/
theorem cfg_from_code :
    cfg = { rewriteDelIdx := true, rewriteUnbId := true, govScanAll := true, orderOk := true,
            sigRequired := true, checkOperator := true, checkTarget := true,
            recKeyFrom := "GetMigratedRecordKey", recKeyTo := "GetMigratedRecordKey",
            wRecFrom := true, wRecTo := true, wDirFrom := true, wDirTo := true, bankAll := true,
            gProposerFrom := true, gProposerTo := true, gDepositFrom := true, gDepositTo := true,
            gVoteDeposit := true, gVoteFrom := true, gVoteTo := true, qEveryEntry := true, qByDelegator := true,
            toParseVB := "ValidateEthereumAddress+HexToAddress", toParseSrv := "HexToAddress",
            gExportSkip := "ValuePrefixMigrateToFlag", gExportStop := false, gImportSets := true } := by
  decide

/-- the bytes `ValidateBasic` hashes are prefix ++ source ++ target, in this order -/
theorem signed_bytes_order (pfx : List Nat) (enc : Addr → List Nat) (frm to : Addr) :
    signedBytes Gen.C14.signedFields pfx enc frm to = pfx ++ (enc frm ++ enc to) := by
  have h : Gen.C14.signedFields = ["prefix", "from", "to"] := by decide
  rw [h]
  simp [signedBytes]

/-- what `migrate` does once every check passed -/
def moved (s : State) (frm to : Addr) : State :=
  setRecord cfg (stakingExecute cfg (bankExecute cfg s frm to) frm to) frm to

theorem cfg_bankAll : cfg.bankAll = true := by rw [cfg_from_code]
theorem cfg_queue : cfg.qEveryEntry = true ∧ cfg.qByDelegator = true := by rw [cfg_from_code]; exact ⟨rfl, rfl⟩

/-- the already-migrated guards read from the code are `HasMigrateRecord` (the record key family, keyed by the raw
address whatever its role was) for the source and for the target -/
theorem recGuard_cfg (s : State) (a : Addr) :
    recGuard cfg.recKeyFrom s a = (get s.recs a).isSome ∧ recGuard cfg.recKeyTo s a = (get s.recs a).isSome := by
  rw [cfg_from_code]
  exact ⟨by simp [recGuard], by simp [recGuard]⟩

/-- `SetMigrateRecord` as read from the code: the record under both addresses, both direction flags -/
theorem setRecord_cfg (s : State) (frm to : Addr) :
    setRecord cfg s frm to = { s with recs := put (put s.recs frm (true, to)) to (false, frm),
                                      dirFrom := ins s.dirFrom frm, dirTo := ins s.dirTo to } := by
  unfold setRecord
  rw [cfg_from_code]
  rfl

/-- inversion of an accepted migration: every check passed, and the state is the executed one -/
theorem migrate_ok_inv {s s' : State} {frm to : Addr} {sigOk : Bool} (h : migrate cfg s frm to sigOk = .ok s') :
    frm ≠ to ∧ sigOk = true ∧ get s.recs frm = none ∧ get s.recs to = none ∧ s.hasKey.contains frm = true ∧
    stakingValidate cfg s frm to = none ∧ govRefuses cfg s frm to = false ∧ s' = moved s frm to := by
  unfold migrate at h
  rw [(recGuard_cfg s frm).1, (recGuard_cfg s to).2] at h
  have hsig : cfg.sigRequired = true := by rw [cfg_from_code]
  rw [hsig] at h
  simp only [Bool.true_and] at h
  split at h
  · cases h
  · rename_i h1
    split at h
    · cases h
    · rename_i h2
      split at h
      · cases h
      · rename_i h3
        split at h
        · cases h
        · rename_i h4
          split at h
          · cases h
          · rename_i h5
            split at h
            · cases h
            · rename_i h6
              split at h
              · cases h
              · cases h
                refine ⟨?_, ?_, ?_, ?_, ?_, h5, ?_, rfl⟩
                · intro e; subst e; simp at h1
                · simpa using h2
                · cases hh : get s.recs frm <;> simp_all
                · cases hh : get s.recs to <;> simp_all
                · simpa using h4
                · simpa using h6

/-- an accepted migration found no coin of the source that its single `SendCoins` could not move -/
theorem migrate_ok_not_blocked {s s' : State} {frm to : Addr} {sigOk : Bool} (h : migrate cfg s frm to sigOk = .ok s') :
    bankBlocked cfg s frm = false := by
  unfold migrate at h
  repeat (split at h; · cases h)
  rename_i hb
  simpa using hb

/-! ## the message server: regenerated program = hand-written reading -/

/-- the statement list of `MigrateAccount` and the handlers registered in the app wiring, as read from the source -/
theorem handler_lists_from_code :
    Gen.C14.handlerOrder = ["check-record-from", "check-record-to", "check-from-account", "validate-all",
                            "ensure-to-account", "execute-all", "set-record"] ∧
    Gen.C14.migrateHandlers = ["NewBankMigrate", "NewDistrStakingMigrate", "NewGovMigrate"] := by decide

/-- **`DistrStakingMigrate.Validate` as regenerated check list = the hand-written reading**: the five checks in source
order, first refusal wins, give `stakingValidate` for every state and pair -/
theorem staking_validate_program_as_modelled (s : State) (frm to : Addr) :
    stakingValidateP Gen.C14.stakingValidateProgram s frm to = stakingValidate cfg s frm to := by
  have hp : Gen.C14.stakingValidateProgram =
      ["validator-from", "validator-to", "delegations-to", "unbonding-to", "redelegations-to"] := by decide
  rw [hp]
  have c1 : cfg.checkOperator = true := by rw [cfg_from_code]
  have c2 : cfg.checkTarget = true := by rw [cfg_from_code]
  have e1 : stakingCheck s frm to "validator-from" = (if s.vals.contains frm then some .validator else none) := by
    simp only [stakingCheck, beq_self_eq_true, ↓reduceIte]
  have e2 : stakingCheck s frm to "validator-to" = (if s.vals.contains to then some .validator else none) := by
    have q1 : ("validator-to" == "validator-from") = false := by decide
    simp only [stakingCheck, q1, beq_self_eq_true, Bool.false_eq_true, ↓reduceIte]
  have e3 : stakingCheck s frm to "delegations-to" = (if s.dels.any (fun p => p.1.1 == to) then some .toStaking else none) := by
    have q2 : ("delegations-to" == "validator-from") = false := by decide
    have q3 : ("delegations-to" == "validator-to") = false := by decide
    simp only [stakingCheck, q2, q3, beq_self_eq_true, Bool.false_eq_true, ↓reduceIte]
  have e4 : stakingCheck s frm to "unbonding-to" = (if s.ubds.any (fun p => p.1.1 == to) then some .toStaking else none) := by
    have q4 : ("unbonding-to" == "validator-from") = false := by decide
    have q5 : ("unbonding-to" == "validator-to") = false := by decide
    have q6 : ("unbonding-to" == "delegations-to") = false := by decide
    simp only [stakingCheck, q4, q5, q6, beq_self_eq_true, Bool.false_eq_true, ↓reduceIte]
  have e5 : stakingCheck s frm to "redelegations-to" = (if s.reds.any (fun p => p.1.1 == to) then some .toStaking else none) := by
    have q7 : ("redelegations-to" == "validator-from") = false := by decide
    have q8 : ("redelegations-to" == "validator-to") = false := by decide
    have q9 : ("redelegations-to" == "delegations-to") = false := by decide
    have q10 : ("redelegations-to" == "unbonding-to") = false := by decide
    simp only [stakingCheck, q7, q8, q9, q10, beq_self_eq_true, Bool.false_eq_true, ↓reduceIte]
  unfold stakingValidateP stakingValidate
  rw [c1, c2]
  simp only [List.findSome?_cons, List.findSome?_nil, e1, e2, e3, e4, e5, Bool.true_and]
  by_cases h1 : frm ∈ s.vals
  · simp [h1]
  by_cases h2 : to ∈ s.vals
  · simp [h1, h2]
  by_cases h3 : s.dels.any (fun p => p.1.1 == to) = true
  · simp [h1, h2, h3]
  by_cases h4 : s.ubds.any (fun p => p.1.1 == to) = true
  · simp [h1, h2, h3, h4]
  by_cases h5 : s.reds.any (fun p => p.1.1 == to) = true
  · simp [h1, h2, h3, h4, h5]
  · simp [h1, h2, h3, h4, h5]

/-- **the gov callbacks as regenerated check lists = the hand-written reading**: interpreting what `DepositPeriodCallback`
and `VotePeriodCallback` refuse (regenerated, in source order; the vote callback runs the deposit callback first) over both
proposal queues gives `govRefuses` for every state and pair — a check that is dropped, or a vote callback that no longer runs
the deposit callback, stops this from checking while the driver follows the code -/
theorem gov_program_as_modelled (s : State) (frm to : Addr) :
    govRefusesP cfg (Gen.C14.govDepositChecks.map parseG) (Gen.C14.govVoteChecks.map parseG) s frm to =
      govRefuses cfg s frm to := by
  have hd : Gen.C14.govDepositChecks.map parseG = [.proposerFrom, .proposerTo, .depositFrom, .depositTo] := by decide
  have hv : Gen.C14.govVoteChecks.map parseG = [.depositCallback, .voteFrom, .voteTo] := by decide
  rw [hd, hv]
  have e1 : ∀ id, depositCbP [.proposerFrom, .proposerTo, .depositFrom, .depositTo] s frm to id = depositCb cfg s frm to id := by
    intro id
    unfold depositCbP depositCb
    rw [cfg_from_code]
    cases get s.props id with
    | none => rfl
    | some pr => simp [govCheck, Bool.or_assoc]
  have e2 : ∀ id, voteCbP [.proposerFrom, .proposerTo, .depositFrom, .depositTo] [.depositCallback, .voteFrom, .voteTo] s frm to id =
      voteCb cfg s frm to id := by
    intro id
    unfold voteCbP voteCb depositCb
    rw [cfg_from_code]
    cases get s.props id with
    | none => rfl
    | some pr => simp [govCheck, Bool.or_assoc]
  unfold govRefusesP govRefuses
  simp only [e1, e2]

theorem handlerValidate_code (s : State) (frm to : Addr) :
    handlerValidate cfg s frm to "NewBankMigrate" = none ∧
    handlerValidate cfg s frm to "NewDistrStakingMigrate" = stakingValidate cfg s frm to ∧
    handlerValidate cfg s frm to "NewGovMigrate" = (if govRefuses cfg s frm to then some .gov else none) := by
  have t1 : handlerType "NewBankMigrate" = "BankMigrate" := by decide
  have t2 : handlerType "NewDistrStakingMigrate" = "DistrStakingMigrate" := by decide
  have t3 : handlerType "NewGovMigrate" = "GovMigrate" := by decide
  have b1 : bodyNil ("BankMigrate" ++ ".Validate") = true := by decide
  have b2 : bodyNil ("DistrStakingMigrate" ++ ".Validate") = false := by decide
  have b3 : bodyNil ("GovMigrate" ++ ".Validate") = false := by decide
  refine ⟨?_, ?_, ?_⟩
  · simp only [handlerValidate, t1, b1, ↓reduceIte]
  · simp only [handlerValidate, t2, b2, Bool.false_eq_true, ↓reduceIte, beq_self_eq_true]
    exact staking_validate_program_as_modelled s frm to
  · simp only [handlerValidate, t3, b3, Bool.false_eq_true, ↓reduceIte, beq_self_eq_true]
    have n1 : ("GovMigrate" == "DistrStakingMigrate") = false := by decide
    simp only [n1, Bool.false_eq_true, ↓reduceIte, gov_program_as_modelled]


/-- the statement lists of `DistrStakingMigrate.Execute` as read from the source (`Gen.C14.executeProgram`), parsed per
loop: the delegation loop reads the starting info, deletes it, sets it under the target, deletes the record, sets it
(relabelled) under the target, deletes and sets the delegations-by-validator index element; the unbonding / redelegation
loops re-key the record and its one / two by-validator index elements and, per entry, re-point the unbonding-id index and
rewrite the time slice -/
theorem execute_program_from_code :
    progOf Gen.C14.executeProgram "del" = delProg ∧
    progOf Gen.C14.executeProgram "ubd" = ubdProg ∧ progOf Gen.C14.executeProgram "ubd.entry" = entryProg ∧
    progOf Gen.C14.executeProgram "red" = redProg ∧ progOf Gen.C14.executeProgram "red.entry" = entryProg ∧
    (Gen.C14.executeProgram.map parseX).all (· != .unknown) = true := by decide

/-- **`DistrStakingMigrate.Execute` as regenerated program = the hand-written reading**: interpreting the store statements
of the three iterator loops and the two entry loops (regenerated from the source on every run, every statement recognised)
gives, for every state and pair, exactly `stakingExecute` — the function `portfolio_moved_*`, `queues_rewritten_*`, the
invariants and the simulation are about.  The driver runs the interpretation: a dropped, added or re-ordered `Delete` /
`Set`, a wrong key constructor or argument order, a record no longer relabelled, stops this from checking while the driver
follows the code. -/
theorem execute_program_as_modelled (s : State) (frm to : Addr) :
    stakingExecuteP cfg Gen.C14.executeProgram s frm to = stakingExecute cfg s frm to := by
  obtain ⟨e1, e2, e3, e4, e5, _⟩ := execute_program_from_code
  have c1 : cfg.rewriteDelIdx = true := by rw [cfg_from_code]
  have c2 : cfg.rewriteUnbId = true := by rw [cfg_from_code]
  have c3 : cfg.qEveryEntry = true := by rw [cfg_from_code]
  have f1 : moveDelegationP delProg frm to = moveDelegation cfg frm to := by
    funext s p; exact moveDelegationP_eq cfg c1 frm to s p
  have f2 : moveUbdP cfg ubdProg entryProg frm to = moveUbd cfg frm to := by
    funext s p; exact moveUbdP_eq cfg c2 c3 frm to s p
  have f3 : moveRedP cfg redProg entryProg frm to = moveRed cfg frm to := by
    funext s p; exact moveRedP_eq cfg c2 c3 frm to s p
  unfold stakingExecuteP stakingExecute
  rw [e1, e2, e3, e4, e5, f1, f2, f3]

theorem handlerExecute_code (c : Cfg) (s : State) (frm to : Addr) :
    handlerExecute c frm to s "NewBankMigrate" =
      (if bankBlocked c s frm then .error .exec else .ok (bankExecute c s frm to)) ∧
    handlerExecute c frm to s "NewDistrStakingMigrate" = .ok (stakingExecuteP c Gen.C14.executeProgram s frm to) ∧
    handlerExecute c frm to s "NewGovMigrate" = .ok s := by
  have t1 : handlerType "NewBankMigrate" = "BankMigrate" := by decide
  have t2 : handlerType "NewDistrStakingMigrate" = "DistrStakingMigrate" := by decide
  have t3 : handlerType "NewGovMigrate" = "GovMigrate" := by decide
  have b1 : bodyNil ("BankMigrate" ++ ".Execute") = false := by decide
  have b2 : bodyNil ("DistrStakingMigrate" ++ ".Execute") = false := by decide
  have b3 : bodyNil ("GovMigrate" ++ ".Execute") = true := by decide
  have n1 : ("DistrStakingMigrate" == "BankMigrate") = false := by decide
  refine ⟨?_, ?_, ?_⟩
  · simp only [handlerExecute, t1, b1, Bool.false_eq_true, ↓reduceIte, beq_self_eq_true]
  · simp only [handlerExecute, t2, b2, n1, Bool.false_eq_true, ↓reduceIte, beq_self_eq_true]
  · simp only [handlerExecute, t3, b3, ↓reduceIte]

/-- **the message server as regenerated program = the hand-written reading**: interpreting the statement list of
`Keeper.MigrateAccount` over the handlers registered in the app wiring (both regenerated from the source on every run)
gives, for every state, pair and signature verdict, exactly `migrate` — the function all theorems of this file are
about.  The driver runs the interpretation; if a statement is moved, dropped or added, or a handler is unregistered or
its `Validate` / `Execute` becomes / stops being a bare `return nil`, this stops checking while the driver follows the
code. -/
theorem handler_program_as_modelled (s : State) (frm to : Addr) (sigOk : Bool) :
    migrateProg cfg Gen.C14.handlerOrder Gen.C14.migrateHandlers s frm to sigOk = migrate cfg s frm to sigOk := by
  rw [handler_lists_from_code.1, handler_lists_from_code.2]
  unfold migrateProg migrate
  split
  · rfl
  split
  · rfl
  have q1 : ("check-record-to" == "check-record-from") = false := by decide
  have q2 : ("check-from-account" == "check-record-from") = false := by decide
  have q3 : ("check-from-account" == "check-record-to") = false := by decide
  have q4 : ("validate-all" == "check-record-from") = false := by decide
  have q5 : ("validate-all" == "check-record-to") = false := by decide
  have q6 : ("validate-all" == "check-from-account") = false := by decide
  have q7 : ("execute-all" == "check-record-from") = false := by decide
  have q8 : ("execute-all" == "check-record-to") = false := by decide
  have q9 : ("execute-all" == "check-from-account") = false := by decide
  have q10 : ("execute-all" == "validate-all") = false := by decide
  have q11 : ("set-record" == "check-record-from") = false := by decide
  have q12 : ("set-record" == "check-record-to") = false := by decide
  have q13 : ("set-record" == "check-from-account") = false := by decide
  have q14 : ("set-record" == "validate-all") = false := by decide
  have q15 : ("set-record" == "execute-all") = false := by decide
  have e1 : ("ensure-to-account" == "check-record-from") = false := by decide
  have e2 : ("ensure-to-account" == "check-record-to") = false := by decide
  have e3 : ("ensure-to-account" == "check-from-account") = false := by decide
  have e4 : ("ensure-to-account" == "validate-all") = false := by decide
  have e5 : ("ensure-to-account" == "execute-all") = false := by decide
  have e6 : ("ensure-to-account" == "set-record") = false := by decide
  simp only [runStmts, handlerStmt, q1, q2, q3, q4, q5, q6, q7, q8, q9, q10, q11, q12, q13, q14, q15, e1, e2, e3, e4, e5, e6,
    beq_self_eq_true, Bool.false_eq_true, ↓reduceIte, List.findSome?, execAll,
    (handlerValidate_code _ frm to).1, (handlerValidate_code _ frm to).2.1, (handlerValidate_code _ frm to).2.2,
    (handlerExecute_code cfg _ frm to).1, (handlerExecute_code cfg _ frm to).2.1, (handlerExecute_code cfg _ frm to).2.2,
    execute_program_as_modelled]
  by_cases h1 : recGuard cfg.recKeyFrom s frm = true
  · simp [h1]
  by_cases h2 : recGuard cfg.recKeyTo s to = true
  · simp [h1, h2]
  by_cases h3 : frm ∈ s.hasKey
  · cases hv : stakingValidate cfg s frm to with
    | some e => simp [h1, h2, h3, hv]
    | none =>
      by_cases h4 : govRefuses cfg s frm to = true
      · simp [h1, h2, h3, hv, h4]
      · by_cases h5 : bankBlocked cfg s frm = true
        · simp [h1, h2, h3, hv, h4, h5]
        · simp [h1, h2, h3, hv, h4, h5]
  · simp [h1, h2, h3]

/-- the step function the driver runs is `step` -/
theorem stepP_eq_step (s : State) (op : Op) :
    stepP cfg Gen.C14.handlerOrder Gen.C14.migrateHandlers s op = step cfg s op := by
  cases op <;> try rfl
  simp only [stepP, step, handler_program_as_modelled]

/-- and the spelled message the driver runs is `migrateMsg` -/
theorem migrateMsgP_eq {H S : Type} (hash : List Nat → H) (recover : H → S → Option Addr) (pfx : List Nat)
    (enc : Addr → List Nat) (s : State) (frm : Addr) (w : Spelling) (sig : S) :
    migrateMsgP hash recover pfx enc cfg Gen.C14.handlerOrder Gen.C14.migrateHandlers s frm w sig =
      migrateMsg hash recover pfx enc cfg s frm w sig := by
  unfold migrateMsgP migrateMsg
  split <;> simp only [handler_program_as_modelled]

/-- **needs_target_signature**: an accepted migration carries a signature from which the (opaque) recovery function,
applied to the (opaque) hash of prefix ++ source ++ target, yields exactly the target address -/
theorem needs_target_signature {H S : Type} (hash : List Nat → H) (recover : H → S → Option Addr)
    (pfx : List Nat) (enc : Addr → List Nat) (s s' : State) (frm to : Addr) (sig : S)
    (h : migrate cfg s frm to (sigAccepted hash recover pfx enc frm to sig) = .ok s') :
    recover (hash (pfx ++ (enc frm ++ enc to))) sig = some to := by
  have h2 := (migrate_ok_inv h).2.1
  unfold sigAccepted at h2
  rw [signed_bytes_order] at h2
  exact eq_of_beq h2

/-- **the address that receives is the address whose key signed**: the message carries the target as a string; the code
derives an address from it in `ValidateBasic` (the one the recovered signer is compared with) and again in the message
server (the one that receives the portfolio and is recorded).  As read from the code, `ValidateBasic` accepts the
canonical hex spelling only and both sites decode it with `HexToAddress`.  Hence whenever the migration is accepted, the
two addresses are one: the 20 bytes the string spells, recovered from the signature over (prefix, source, those bytes),
and the state is the one in which exactly that address received everything.  Hypothesis `hcanon`: go-ethereum's
`HexToAddress` decodes a canonical hex spelling to the bytes it spells (checked for every generated spelling by the
harness). -/
theorem receiver_is_signer {H S : Type} (hash : List Nat → H) (recover : H → S → Option Addr)
    (pfx : List Nat) (enc : Addr → List Nat) (s s' : State) (frm : Addr) (w : Spelling) (sig : S)
    (hcanon : w.cls = 0 → w.hex = w.bytes)
    (h : migrateMsg hash recover pfx enc cfg s frm w sig = .ok s') :
    w.cls = 0 ∧ parseAt cfg.toParseVB w = some w.bytes ∧ parseAt cfg.toParseSrv w = some w.bytes ∧
    recover (hash (pfx ++ (enc frm ++ enc w.bytes))) sig = some w.bytes ∧ s' = moved s frm w.bytes := by
  have e1 : cfg.toParseVB = "ValidateEthereumAddress+HexToAddress" := by rw [cfg_from_code]
  have e2 : cfg.toParseSrv = "HexToAddress" := by rw [cfg_from_code]
  unfold migrateMsg at h
  rw [e1, e2] at h ⊢
  have hv : parseAt "ValidateEthereumAddress+HexToAddress" w = if w.cls == 0 then some w.hex else none := by
    simp [parseAt]
  have hs : parseAt "HexToAddress" w = some w.hex := by simp [parseAt]
  rw [hv, hs] at h ⊢
  by_cases hc : w.cls = 0
  · have hb : (w.cls == 0) = true := by simp [hc]
    rw [hb] at h ⊢
    simp only [↓reduceIte] at h ⊢
    rw [hcanon hc] at h ⊢
    exact ⟨hc, rfl, rfl, needs_target_signature hash recover pfx enc s s' frm w.bytes sig h,
      (migrate_ok_inv h).2.2.2.2.2.2.2⟩
  · have hb : (w.cls == 0) = false := by simp [hc]
    rw [hb] at h
    simp at h


/-- the signed bytes determine the (source, target) pair when addresses are encoded with a fixed width -/
theorem signed_pair_injective (pfx : List Nat) (enc : Addr → List Nat) (w : Nat) (hw : ∀ a, (enc a).length = w)
    (hinj : ∀ a b, enc a = enc b → a = b) (f t f' t' : Addr)
    (h : pfx ++ (enc f ++ enc t) = pfx ++ (enc f' ++ enc t')) : f = f' ∧ t = t' := by
  have h1 := List.append_cancel_left h
  have h2 := List.append_inj h1 (by rw [hw, hw])
  exact ⟨hinj _ _ h2.1, hinj _ _ h2.2⟩

/-- **not_validator_operator**: neither side of an accepted migration is a validator operator -/
theorem not_validator_operator {s s' : State} {frm to : Addr} {sigOk : Bool}
    (h : migrate cfg s frm to sigOk = .ok s') : s.vals.contains frm = false ∧ s.vals.contains to = false := by
  have h5 := (migrate_ok_inv h).2.2.2.2.2.1
  unfold stakingValidate at h5
  rw [cfg_from_code] at h5
  simp only [Bool.true_and] at h5
  split at h5
  · cases h5
  · rename_i hv
    simpa using hv

/-- **target_without_staking_records**: the target of an accepted migration has no delegation, unbonding delegation or
redelegation record -/
theorem target_without_staking_records {s s' : State} {frm to : Addr} {sigOk : Bool}
    (h : migrate cfg s frm to sigOk = .ok s') :
    (∀ p ∈ s.dels, p.1.1 ≠ to) ∧ (∀ p ∈ s.ubds, p.1.1 ≠ to) ∧ (∀ p ∈ s.reds, p.1.1 ≠ to) := by
  have h5 := (migrate_ok_inv h).2.2.2.2.2.1
  unfold stakingValidate at h5
  rw [cfg_from_code] at h5
  simp only [Bool.true_and] at h5
  split at h5
  · cases h5
  · split at h5
    · cases h5
    · rename_i ht
      simp only [Bool.or_eq_true, List.any_eq_true, not_or, not_exists, not_and] at ht
      refine ⟨fun p hp e => ?_, fun p hp e => ?_, fun p hp e => ?_⟩
      · exact ht.1.1 p hp (by simp [e])
      · exact ht.1.2 p hp (by simp [e])
      · exact ht.2 p hp (by simp [e])


/-! ## what `Execute` does to each store (component folds) -/

theorem moveUbd_dels (c : Cfg) (frm to : Addr) (s : State) (p) : (moveUbd c frm to s p).dels = s.dels := by
  unfold moveUbd; exact (foldl_keep (fun s : State => s.dels) _ (by intros; rfl) _ _).trans (foldl_keep (fun s : State => s.dels) _ (by intros; rfl) _ _)
theorem moveRed_dels (c : Cfg) (frm to : Addr) (s : State) (p) : (moveRed c frm to s p).dels = s.dels := by
  unfold moveRed; exact (foldl_keep (fun s : State => s.dels) _ (by intros; rfl) _ _).trans (foldl_keep (fun s : State => s.dels) _ (by intros; rfl) _ _)
theorem moveUbd_startInfo (c : Cfg) (frm to : Addr) (s : State) (p) : (moveUbd c frm to s p).startInfo = s.startInfo := by
  unfold moveUbd; exact (foldl_keep (fun s : State => s.startInfo) _ (by intros; rfl) _ _).trans (foldl_keep (fun s : State => s.startInfo) _ (by intros; rfl) _ _)
theorem moveRed_startInfo (c : Cfg) (frm to : Addr) (s : State) (p) : (moveRed c frm to s p).startInfo = s.startInfo := by
  unfold moveRed; exact (foldl_keep (fun s : State => s.startInfo) _ (by intros; rfl) _ _).trans (foldl_keep (fun s : State => s.startInfo) _ (by intros; rfl) _ _)
theorem moveUbd_delIdx (c : Cfg) (frm to : Addr) (s : State) (p) : (moveUbd c frm to s p).delIdx = s.delIdx := by
  unfold moveUbd; exact (foldl_keep (fun s : State => s.delIdx) _ (by intros; rfl) _ _).trans (foldl_keep (fun s : State => s.delIdx) _ (by intros; rfl) _ _)
theorem moveRed_delIdx (c : Cfg) (frm to : Addr) (s : State) (p) : (moveRed c frm to s p).delIdx = s.delIdx := by
  unfold moveRed; exact (foldl_keep (fun s : State => s.delIdx) _ (by intros; rfl) _ _).trans (foldl_keep (fun s : State => s.delIdx) _ (by intros; rfl) _ _)
theorem moveRed_ubds (c : Cfg) (frm to : Addr) (s : State) (p) : (moveRed c frm to s p).ubds = s.ubds := by
  unfold moveRed; exact (foldl_keep (fun s : State => s.ubds) _ (by intros; rfl) _ _).trans (foldl_keep (fun s : State => s.ubds) _ (by intros; rfl) _ _)
theorem moveRed_ubdIdx (c : Cfg) (frm to : Addr) (s : State) (p) : (moveRed c frm to s p).ubdIdx = s.ubdIdx := by
  unfold moveRed; exact (foldl_keep (fun s : State => s.ubdIdx) _ (by intros; rfl) _ _).trans (foldl_keep (fun s : State => s.ubdIdx) _ (by intros; rfl) _ _)
theorem moveUbd_ubds (c : Cfg) (frm to : Addr) (s : State) (p) :
    (moveUbd c frm to s p).ubds = rekeyStep frm to s.ubds p := by
  unfold moveUbd; exact (foldl_keep (fun s : State => s.ubds) _ (by intros; rfl) _ _).trans (foldl_keep (fun s : State => s.ubds) _ (by intros; rfl) _ _)
theorem moveUbd_ubdIdx (c : Cfg) (frm to : Addr) (s : State) (p) :
    (moveUbd c frm to s p).ubdIdx = ins (rem s.ubdIdx (p.1.2, frm)) (p.1.2, to) := by
  unfold moveUbd; exact (foldl_keep (fun s : State => s.ubdIdx) _ (by intros; rfl) _ _).trans (foldl_keep (fun s : State => s.ubdIdx) _ (by intros; rfl) _ _)

theorem exec_dels (c : Cfg) (s : State) (frm to : Addr) :
    (stakingExecute c s frm to).dels = (entriesOf s.dels frm).foldl (rekeyStep frm to) s.dels := by
  unfold stakingExecute
  refine (foldl_keep (fun s : State => s.dels) _ (moveRed_dels c frm to) _ _).trans ?_
  refine (foldl_keep (fun s : State => s.dels) _ (moveUbd_dels c frm to) _ _).trans ?_
  exact foldl_proj (fun s : State => s.dels) (moveDelegation c frm to) (rekeyStep frm to) (fun _ _ => rfl) _ _

theorem fold1_ubds (c : Cfg) (s : State) (frm to : Addr) (L) :
    (List.foldl (moveDelegation c frm to) s L).ubds = s.ubds :=
  foldl_keep (fun s : State => s.ubds) _ (by intros; rfl) _ _
theorem fold1_ubdIdx (c : Cfg) (s : State) (frm to : Addr) (L) :
    (List.foldl (moveDelegation c frm to) s L).ubdIdx = s.ubdIdx :=
  foldl_keep (fun s : State => s.ubdIdx) _ (by intros; rfl) _ _

theorem exec_ubds (c : Cfg) (s : State) (frm to : Addr) :
    (stakingExecute c s frm to).ubds = (entriesOf s.ubds frm).foldl (rekeyStep frm to) s.ubds := by
  unfold stakingExecute
  refine (foldl_keep (fun s : State => s.ubds) _ (moveRed_ubds c frm to) _ _).trans ?_
  refine (foldl_proj (fun s : State => s.ubds) (moveUbd c frm to) (rekeyStep frm to) (moveUbd_ubds c frm to) _ _).trans ?_
  simp only [fold1_ubds]
  rfl

/-- the index component of a loop: for every record moved, drop (x, from), add (x, to) -/
def idxStep {β ν : Type} [DecidableEq β] (frm to : Addr) (i : List (β × Addr)) (p : (Addr × β) × ν) : List (β × Addr) :=
  ins (rem i (p.1.2, frm)) (p.1.2, to)

theorem idx_fold_mem {β ν : Type} [DecidableEq β] (frm to : Addr) (hne : frm ≠ to) (L : List ((Addr × β) × ν))
    (i : List (β × Addr)) (x : β) (a : Addr) :
    (x, a) ∈ L.foldl (idxStep frm to) i ↔
      if ∃ p ∈ L, p.1.2 = x then (a = to ∨ (a ≠ frm ∧ (x, a) ∈ i)) else (x, a) ∈ i := by
  induction L generalizing i with
  | nil => simp
  | cons p L ih =>
    simp only [List.foldl_cons]
    rw [ih]
    by_cases hL : ∃ q ∈ L, q.1.2 = x
    · have : ∃ q ∈ p :: L, q.1.2 = x := by obtain ⟨q, hq, e⟩ := hL; exact ⟨q, List.mem_cons_of_mem _ hq, e⟩
      simp only [hL, this, ↓reduceIte, idxStep, mem_ins, mem_rem]
      constructor
      · rintro (h | ⟨h1, h2 | ⟨h3, h4⟩⟩)
        · exact Or.inl h
        · cases h2; exact Or.inl rfl
        · exact Or.inr ⟨h1, h4⟩
      · rintro (h | ⟨h1, h2⟩)
        · exact Or.inl h
        · refine Or.inr ⟨h1, Or.inr ⟨?_, h2⟩⟩
          intro e; cases e; exact h1 rfl
    · simp only [hL, ↓reduceIte, idxStep, mem_ins, mem_rem]
      by_cases hp : p.1.2 = x
      · have : ∃ q ∈ p :: L, q.1.2 = x := ⟨p, List.mem_cons_self .., hp⟩
        simp only [this, ↓reduceIte, hp]
        constructor
        · rintro (h | ⟨h3, h4⟩)
          · cases h; exact Or.inl rfl
          · refine Or.inr ⟨?_, h4⟩
            intro e; subst e; exact h3 rfl
        · rintro (h | ⟨h1, h2⟩)
          · subst h; exact Or.inl rfl
          · refine Or.inr ⟨?_, h2⟩
            intro e; cases e; exact h1 rfl
      · have : ¬ ∃ q ∈ p :: L, q.1.2 = x := by
          rintro ⟨q, hq, e⟩
          rcases List.mem_cons.mp hq with rfl | hq'
          · exact hp e
          · exact hL ⟨q, hq', e⟩
        simp only [this, ↓reduceIte]
        constructor
        · rintro (h | ⟨_, h4⟩)
          · cases h; exact absurd rfl hp
          · exact h4
        · intro h
          refine Or.inr ⟨?_, h⟩
          intro e; cases e; exact hp rfl

theorem exec_delIdx (s : State) (frm to : Addr) :
    (stakingExecute cfg s frm to).delIdx = (entriesOf s.dels frm).foldl (idxStep frm to) s.delIdx := by
  unfold stakingExecute
  refine (foldl_keep (fun s : State => s.delIdx) _ (moveRed_delIdx cfg frm to) _ _).trans ?_
  refine (foldl_keep (fun s : State => s.delIdx) _ (moveUbd_delIdx cfg frm to) _ _).trans ?_
  exact foldl_proj (fun s : State => s.delIdx) (moveDelegation cfg frm to) (idxStep frm to)
      (fun s p => by simp only [moveDelegation, cfg_from_code]; rfl) _ _

theorem exec_ubdIdx (c : Cfg) (s : State) (frm to : Addr) :
    (stakingExecute c s frm to).ubdIdx = (entriesOf s.ubds frm).foldl (idxStep frm to) s.ubdIdx := by
  unfold stakingExecute
  refine (foldl_keep (fun s : State => s.ubdIdx) _ (moveRed_ubdIdx c frm to) _ _).trans ?_
  refine (foldl_proj (fun s : State => s.ubdIdx) (moveUbd c frm to) (idxStep frm to) (moveUbd_ubdIdx c frm to) _ _).trans ?_
  simp only [fold1_ubds, fold1_ubdIdx]
  rfl


/-! ## portfolio_moved, queues_rewritten -/

/-- **portfolio_moved** (delegations): after an accepted migration the target holds exactly the source's delegations,
the source none, every other delegator's are untouched -/
theorem portfolio_moved_delegations {s s' : State} {frm to : Addr} {sigOk : Bool}
    (h : migrate cfg s frm to sigOk = .ok s') (d : Addr) (v : Val) :
    get s'.dels (d, v) = if d = to then get s.dels (frm, v) else if d = frm then none else get s.dels (d, v) := by
  obtain ⟨hne, _, _, _, _, _, _, rfl⟩ := migrate_ok_inv h
  have hto := (target_without_staking_records h).1
  show get (stakingExecute cfg (bankExecute cfg s frm to) frm to).dels (d, v) = _
  rw [exec_dels]
  exact rekey_spec s.dels frm to hne hto d v

/-- **portfolio_moved** (unbonding delegations, with all their entries: completion time, balance, unbonding id) -/
theorem portfolio_moved_unbonding {s s' : State} {frm to : Addr} {sigOk : Bool}
    (h : migrate cfg s frm to sigOk = .ok s') (d : Addr) (v : Val) :
    get s'.ubds (d, v) = if d = to then get s.ubds (frm, v) else if d = frm then none else get s.ubds (d, v) := by
  obtain ⟨hne, _, _, _, _, _, _, rfl⟩ := migrate_ok_inv h
  have hto := (target_without_staking_records h).2.1
  show get (stakingExecute cfg (bankExecute cfg s frm to) frm to).ubds (d, v) = _
  rw [exec_ubds]
  exact rekey_spec s.ubds frm to hne hto d v

/-- validator tokens, validator set, reward periods, withdraw addresses, proposals, deposits, votes, the proposal queues
and the clock are not touched by a migration -/
theorem portfolio_moved_frame {s s' : State} {frm to : Addr} {sigOk : Bool}
    (h : migrate cfg s frm to sigOk = .ok s') :
    s'.valTok = s.valTok ∧ s'.vals = s.vals ∧ s'.period = s.period ∧ s'.now = s.now := by
  obtain ⟨_, _, _, _, _, _, _, rfl⟩ := migrate_ok_inv h
  have key : ∀ (g : State → Nat) , True := fun _ => trivial
  refine ⟨?_, ?_, ?_, ?_⟩ <;>
  · show _ = _
    unfold moved setRecord stakingExecute
    first
      | refine (foldl_keep (fun s : State => s.valTok) _ (fun s p => by
          unfold moveRed; exact (foldl_keep (fun s : State => s.valTok) _ (by intros; rfl) _ _).trans (foldl_keep (fun s : State => s.valTok) _ (by intros; rfl) _ _)) _ _).trans ?_
        refine (foldl_keep (fun s : State => s.valTok) _ (fun s p => by
          unfold moveUbd; exact (foldl_keep (fun s : State => s.valTok) _ (by intros; rfl) _ _).trans (foldl_keep (fun s : State => s.valTok) _ (by intros; rfl) _ _)) _ _).trans ?_
        exact foldl_keep (fun s : State => s.valTok) _ (by intros; rfl) _ _
      | refine (foldl_keep (fun s : State => s.vals) _ (fun s p => by
          unfold moveRed; exact (foldl_keep (fun s : State => s.vals) _ (by intros; rfl) _ _).trans (foldl_keep (fun s : State => s.vals) _ (by intros; rfl) _ _)) _ _).trans ?_
        refine (foldl_keep (fun s : State => s.vals) _ (fun s p => by
          unfold moveUbd; exact (foldl_keep (fun s : State => s.vals) _ (by intros; rfl) _ _).trans (foldl_keep (fun s : State => s.vals) _ (by intros; rfl) _ _)) _ _).trans ?_
        exact foldl_keep (fun s : State => s.vals) _ (by intros; rfl) _ _
      | refine (foldl_keep (fun s : State => s.period) _ (fun s p => by
          unfold moveRed; exact (foldl_keep (fun s : State => s.period) _ (by intros; rfl) _ _).trans (foldl_keep (fun s : State => s.period) _ (by intros; rfl) _ _)) _ _).trans ?_
        refine (foldl_keep (fun s : State => s.period) _ (fun s p => by
          unfold moveUbd; exact (foldl_keep (fun s : State => s.period) _ (by intros; rfl) _ _).trans (foldl_keep (fun s : State => s.period) _ (by intros; rfl) _ _)) _ _).trans ?_
        exact foldl_keep (fun s : State => s.period) _ (by intros; rfl) _ _
      | refine (foldl_keep (fun s : State => s.now) _ (fun s p => by
          unfold moveRed; exact (foldl_keep (fun s : State => s.now) _ (by intros; rfl) _ _).trans (foldl_keep (fun s : State => s.now) _ (by intros; rfl) _ _)) _ _).trans ?_
        refine (foldl_keep (fun s : State => s.now) _ (fun s p => by
          unfold moveUbd; exact (foldl_keep (fun s : State => s.now) _ (by intros; rfl) _ _).trans (foldl_keep (fun s : State => s.now) _ (by intros; rfl) _ _)) _ _).trans ?_
        exact foldl_keep (fun s : State => s.now) _ (by intros; rfl) _ _

/-- **queues_rewritten** (delegations-by-validator index, 0x71): afterwards no index entry mentions the source and
every delegation of the target is indexed.  Hypothesis: before, the index held no entry of the source without a
delegation record (an index is written and deleted together with its record). -/
theorem queues_rewritten_delegation_index {s s' : State} {frm to : Addr} {sigOk : Bool}
    (h : migrate cfg s frm to sigOk = .ok s')
    (hidx : ∀ v, (v, frm) ∈ s.delIdx → ∃ sh, get s.dels (frm, v) = some sh) :
    (∀ v, (v, frm) ∉ s'.delIdx) ∧ (∀ v sh, get s'.dels (to, v) = some sh → (v, to) ∈ s'.delIdx) := by
  have hd := portfolio_moved_delegations h
  obtain ⟨hne, _, _, _, _, _, _, rfl⟩ := migrate_ok_inv h
  have hx : ∀ v a, (v, a) ∈ (moved s frm to).delIdx ↔
      if ∃ p ∈ entriesOf s.dels frm, p.1.2 = v then (a = to ∨ (a ≠ frm ∧ (v, a) ∈ s.delIdx))
      else (v, a) ∈ s.delIdx := fun v a => by
    show (v, a) ∈ (stakingExecute cfg (bankExecute cfg s frm to) frm to).delIdx ↔ _
    rw [exec_delIdx]
    exact idx_fold_mem frm to hne (entriesOf s.dels frm) s.delIdx v a
  constructor
  · intro v hm
    rw [hx] at hm
    split at hm
    · rcases hm with e | ⟨e, _⟩
      · exact hne e
      · exact e rfl
    · rename_i hno
      obtain ⟨sh, hsh⟩ := hidx v hm
      exact hno (entriesOf_of_get s.dels frm v sh hsh)
  · intro v sh hg
    rw [hd to v] at hg
    simp only [↓reduceIte] at hg
    rw [hx]
    have := entriesOf_of_get s.dels frm v sh hg
    simp only [this, ↓reduceIte, true_or]

/-- **queues_rewritten** (unbonding-delegations-by-validator index, 0x33) -/
theorem queues_rewritten_unbonding_index {s s' : State} {frm to : Addr} {sigOk : Bool}
    (h : migrate cfg s frm to sigOk = .ok s')
    (hidx : ∀ v, (v, frm) ∈ s.ubdIdx → ∃ es, get s.ubds (frm, v) = some es) :
    (∀ v, (v, frm) ∉ s'.ubdIdx) ∧ (∀ v es, get s'.ubds (to, v) = some es → (v, to) ∈ s'.ubdIdx) := by
  have hd := portfolio_moved_unbonding h
  obtain ⟨hne, _, _, _, _, _, _, rfl⟩ := migrate_ok_inv h
  have hx : ∀ v a, (v, a) ∈ (moved s frm to).ubdIdx ↔
      if ∃ p ∈ entriesOf s.ubds frm, p.1.2 = v then (a = to ∨ (a ≠ frm ∧ (v, a) ∈ s.ubdIdx))
      else (v, a) ∈ s.ubdIdx := fun v a => by
    show (v, a) ∈ (stakingExecute cfg (bankExecute cfg s frm to) frm to).ubdIdx ↔ _
    rw [exec_ubdIdx]
    exact idx_fold_mem frm to hne (entriesOf s.ubds frm) s.ubdIdx v a
  constructor
  · intro v hm
    rw [hx] at hm
    split at hm
    · rcases hm with e | ⟨e, _⟩
      · exact hne e
      · exact e rfl
    · rename_i hno
      obtain ⟨es, hes⟩ := hidx v hm
      exact hno (entriesOf_of_get s.ubds frm v es hes)
  · intro v es hg
    rw [hd to v] at hg
    simp only [↓reduceIte] at hg
    rw [hx]
    have := entriesOf_of_get s.ubds frm v es hg
    simp only [this, ↓reduceIte, true_or]


/-! ## portfolio_moved: balances, redelegations, reward entitlement; totals -/

theorem moved_bal (s : State) (frm to : Addr) : (moved s frm to).bal = (bankExecute cfg s frm to).bal :=
  exec_bal cfg (bankExecute cfg s frm to) frm to

/-- **portfolio_moved** (bank balances, every denomination): after an accepted migration the target holds its prior
balance plus the source's, the source holds nothing, every other account (users, module pools) is untouched -/
theorem portfolio_moved_balances {s s' : State} {frm to : Addr} {sigOk : Bool}
    (h : migrate cfg s frm to sigOk = .ok s') (a : Addr) (d : Denom) :
    balOf s'.bal a d =
      if a = to then balOf s.bal to d + balOf s.bal frm d else if a = frm then 0 else balOf s.bal a d := by
  obtain ⟨hne, _, _, _, _, _, _, rfl⟩ := migrate_ok_inv h
  rw [moved_bal]
  exact bankExecute_spec cfg cfg_bankAll s frm to hne a d

/-- **portfolio_moved** (redelegations, with all their entries: completion time, balance, unbonding id) -/
theorem portfolio_moved_redelegations {s s' : State} {frm to : Addr} {sigOk : Bool}
    (h : migrate cfg s frm to sigOk = .ok s') (d : Addr) (src dst : Val) :
    get s'.reds (d, src, dst) =
      if d = to then get s.reds (frm, src, dst) else if d = frm then none else get s.reds (d, src, dst) := by
  obtain ⟨hne, _, _, _, _, _, _, rfl⟩ := migrate_ok_inv h
  have hto := (target_without_staking_records h).2.2
  show get (stakingExecute cfg (bankExecute cfg s frm to) frm to).reds (d, src, dst) = _
  rw [exec_reds]
  exact rekey_spec s.reds frm to hne hto d (src, dst)

/-- **portfolio_moved** (reward entitlement): for every validator the source delegates to, the distribution starting
info (previous period, stake) of the source is moved under the target and the source keeps none; together with
`portfolio_moved_frame` (validator reward periods untouched) and `portfolio_moved_delegations` (shares) these are the
inputs of the F1 reward formula.  Starting infos of all other delegators, and of validators the source does not
delegate to, are untouched. -/
theorem portfolio_moved_starting_info {s s' : State} {frm to : Addr} {sigOk : Bool}
    (h : migrate cfg s frm to sigOk = .ok s') (v : Val) :
    ((∃ sh, get s.dels (frm, v) = some sh) →
        get s'.startInfo (v, to) = (get s.startInfo (v, frm) <|> get s.startInfo (v, to)) ∧
        get s'.startInfo (v, frm) = none) ∧
    ((get s.dels (frm, v) = none) →
        get s'.startInfo (v, to) = get s.startInfo (v, to) ∧ get s'.startInfo (v, frm) = get s.startInfo (v, frm)) ∧
    (∀ a, a ≠ frm → a ≠ to → get s'.startInfo (v, a) = get s.startInfo (v, a)) := by
  obtain ⟨hne, _, _, _, _, _, _, rfl⟩ := migrate_ok_inv h
  have key : ∀ a, get (moved s frm to).startInfo (v, a) =
      if ∃ p ∈ entriesOf s.dels frm, p.1.2 = v then
        (if a = frm then none else if a = to then (get s.startInfo (v, frm) <|> get s.startInfo (v, to))
         else get s.startInfo (v, a))
      else get s.startInfo (v, a) := fun a => by
    show get (stakingExecute cfg (bankExecute cfg s frm to) frm to).startInfo (v, a) = _
    rw [exec_startInfo]
    exact get_siFold frm to hne _ _ v a
  refine ⟨fun ⟨sh, hsh⟩ => ?_, fun hnone => ?_, fun a h1 h2 => ?_⟩
  · have hex := entriesOf_of_get s.dels frm v sh hsh
    refine ⟨?_, ?_⟩
    · rw [key, if_pos hex, if_neg (fun e : to = frm => hne e.symm), if_pos rfl]
    · rw [key, if_pos hex, if_pos rfl]
  · have hno : ¬ ∃ p ∈ entriesOf s.dels frm, p.1.2 = v := fun ⟨p, hp, e⟩ => entriesOf_none s.dels frm v hnone p hp e
    refine ⟨?_, ?_⟩ <;> rw [key, if_neg hno]
  · rw [key, if_neg h1, if_neg h2]
    split <;> rfl

/-- delegated shares of an account with a validator (0 without a record) -/
def sharesOf (s : State) (v : Val) (a : Addr) : Nat := (get s.dels (a, v)).getD 0
/-- total balance of the unbonding entries of an account with a validator -/
def unbondingOf (s : State) (v : Val) (a : Addr) : Nat := (((get s.ubds (a, v)).getD []).map (·.2.1)).sum
/-- total balance of the redelegation entries of an account for a (source, destination) pair -/
def redelegatingOf (s : State) (src dst : Val) (a : Addr) : Nat :=
  (((get s.reds (a, src, dst)).getD []).map (·.2.1)).sum

/-- **totals_unchanged**: over any duplicate-free set of accounts that contains both the source and the target (or
neither) — in particular over all accounts — the total balance of every denomination, the total shares delegated to
every validator, and the total unbonding and redelegating balance per validator (pair) are the same before and after an
accepted migration; validator tokens are untouched (`portfolio_moved_frame`), and the module pools (bonded, not-bonded,
gov), not being the source or the target, keep their balances (`portfolio_moved_balances`). -/
theorem totals_unchanged {s s' : State} {frm to : Addr} {sigOk : Bool} (h : migrate cfg s frm to sigOk = .ok s')
    (A : List Addr) (hA : A.Nodup) (hboth : frm ∈ A ↔ to ∈ A) :
    (∀ d, sumOver A (fun a => balOf s'.bal a d) = sumOver A (fun a => balOf s.bal a d)) ∧
    (∀ v, sumOver A (sharesOf s' v) = sumOver A (sharesOf s v)) ∧
    (∀ v, sumOver A (unbondingOf s' v) = sumOver A (unbondingOf s v)) ∧
    (∀ src dst, sumOver A (redelegatingOf s' src dst) = sumOver A (redelegatingOf s src dst)) := by
  have hne := (migrate_ok_inv h).1
  have hto := target_without_staking_records h
  refine ⟨fun d => ?_, fun v => ?_, fun v => ?_, fun src dst => ?_⟩
  · exact sumOver_moved _ _ frm to hne (fun a => portfolio_moved_balances h a d) A hA hboth
  · exact sumOver_moved _ _ frm to hne (fun a => moved_measure s.dels s'.dels frm to hne hto.1
      (fun d x => portfolio_moved_delegations h d x) (fun o => o.getD 0) rfl v a) A hA hboth
  · exact sumOver_moved _ _ frm to hne (fun a => moved_measure s.ubds s'.ubds frm to hne hto.2.1
      (fun d x => portfolio_moved_unbonding h d x) (fun o => ((o.getD []).map (·.2.1)).sum) rfl v a) A hA hboth
  · exact sumOver_moved _ _ frm to hne (fun a => moved_measure s.reds s'.reds frm to hne hto.2.2
      (fun d x => portfolio_moved_redelegations h d x.1 x.2) (fun o => ((o.getD []).map (·.2.1)).sum) rfl (src, dst) a)
      A hA hboth

/-- **all or refuse** (bank): an accepted migration leaves the source without any balance in any denomination; a
refused one leaves the whole state — balances, records, the one-shot migration record — as it was; and a source that
holds a coin it cannot spend (a vesting account with locked coins) is refused as a whole, because the bank handler sends
`GetAllBalances(from)` in one `SendCoins`. -/
theorem migrate_all_or_refuse (s : State) (frm to : Addr) (sigOk : Bool) :
    (∀ s', migrate cfg s frm to sigOk = .ok s' → ∀ d, balOf s'.bal frm d = 0) ∧
    (∀ e, migrate cfg s frm to sigOk = .error e → (step cfg s (.migrate frm to sigOk)).1 = s) ∧
    ((∃ d n, get s.bal (frm, d) = some n ∧ 0 < n ∧ 0 < lockedOf s frm d) → ∀ s', migrate cfg s frm to sigOk ≠ .ok s') := by
  refine ⟨fun s' h d => ?_, fun e h => ?_, fun ⟨d, n, hg, hn, hl⟩ s' h => ?_⟩
  · rw [portfolio_moved_balances h frm d]
    have hne := (migrate_ok_inv h).1
    simp [hne]
  · simp only [step, h]
  · have hb := migrate_ok_not_blocked h
    unfold bankBlocked bankAmounts at hb
    rw [cfg_bankAll] at hb
    simp only [↓reduceIte] at hb
    have := List.any_eq_false.mp hb (d, n) (balancesOf_mem s.bal frm d n hg)
    have hbal : balOf s.bal frm d = n := by simp [balOf, hg]
    simp only [hbal] at this
    apply this
    simp only [Bool.and_eq_true, decide_eq_true_eq]
    exact ⟨hn, by omega⟩


/-! ## queues_rewritten: redelegation indexes, time-queue slices -/

theorem moved_reds_eq (s : State) (frm to : Addr) :
    (moved s frm to).redSrcIdx = (entriesOf s.reds frm).foldl (idxStepG mkSrc frm to) s.redSrcIdx ∧
    (moved s frm to).redDstIdx = (entriesOf s.reds frm).foldl (idxStepG mkDst frm to) s.redDstIdx :=
  ⟨exec_redSrcIdx cfg (bankExecute cfg s frm to) frm to, exec_redDstIdx cfg (bankExecute cfg s frm to) frm to⟩

/-- **queues_rewritten** (redelegations-by-source-validator 0x35 and by-destination-validator 0x36 indexes): afterwards
no entry of either index mentions the source, every redelegation of the target is indexed in both, and the entries of
other delegators are untouched.  Hypothesis: before, neither index held an entry of the source without a redelegation
record (an index entry is written and deleted together with its record). -/
theorem queues_rewritten_redelegation_indexes {s s' : State} {frm to : Addr} {sigOk : Bool}
    (h : migrate cfg s frm to sigOk = .ok s')
    (hsrc : ∀ a b, (a, frm, b) ∈ s.redSrcIdx → ∃ es, get s.reds (frm, a, b) = some es)
    (hdst : ∀ a b, (b, frm, a) ∈ s.redDstIdx → ∃ es, get s.reds (frm, a, b) = some es) :
    (∀ a b, (a, frm, b) ∉ s'.redSrcIdx ∧ (b, frm, a) ∉ s'.redDstIdx) ∧
    (∀ a b es, get s'.reds (to, a, b) = some es → (a, to, b) ∈ s'.redSrcIdx ∧ (b, to, a) ∈ s'.redDstIdx) ∧
    (∀ a b d, d ≠ frm → d ≠ to →
      (((a, d, b) ∈ s'.redSrcIdx ↔ (a, d, b) ∈ s.redSrcIdx) ∧ ((b, d, a) ∈ s'.redDstIdx ↔ (b, d, a) ∈ s.redDstIdx))) := by
  have hr := portfolio_moved_redelegations h
  obtain ⟨hne, _, _, _, _, _, _, rfl⟩ := migrate_ok_inv h
  obtain ⟨e1, e2⟩ := moved_reds_eq s frm to
  obtain ⟨s1, s2, s3⟩ := idxG_after mkSrc mkSrc_inj frm to hne s.reds s.redSrcIdx (fun x hx => hsrc x.1 x.2 hx)
  obtain ⟨d1, d2, d3⟩ := idxG_after mkDst mkDst_inj frm to hne s.reds s.redDstIdx (fun x hx => hdst x.1 x.2 hx)
  rw [← e1] at s1 s2 s3
  rw [← e2] at d1 d2 d3
  refine ⟨fun a b => ⟨s1 (a, b), d1 (a, b)⟩, fun a b es hg => ?_, fun a b d h1 h2 => ⟨s3 (a, b) d h1 h2, d3 (a, b) d h1 h2⟩⟩
  rw [hr to a b] at hg
  simp only [↓reduceIte] at hg
  exact ⟨s2 (a, b) es hg, d2 (a, b) es hg⟩

/-- **queues_rewritten** (time-queue slices, 0x41 unbonding queue and 0x42 redelegation queue), for every state: the
slice stored under a completion time at which the source holds an entry (in whatever record, however many records or
entries share that time, whoever else is in the slice) is the old slice with every element of the source renamed to the
target, order kept; every other slice is untouched. -/
theorem queues_rewritten_time_slices {s s' : State} {frm to : Addr} {sigOk : Bool}
    (h : migrate cfg s frm to sigOk = .ok s') (t : Time) :
    (hasEntryAt s.ubds frm t → get s'.ubdQ t = (get s.ubdQ t).map (List.map (renPair frm to))) ∧
    (¬ hasEntryAt s.ubds frm t → get s'.ubdQ t = get s.ubdQ t) ∧
    (hasEntryAt s.reds frm t → get s'.redQ t = (get s.redQ t).map (List.map (renTriple frm to))) ∧
    (¬ hasEntryAt s.reds frm t → get s'.redQ t = get s.redQ t) := by
  obtain ⟨hne, _, _, _, _, _, _, rfl⟩ := migrate_ok_inv h
  have hu : get (moved s frm to).ubdQ t = if t ∈ entryTimes s.ubds frm then
      (get s.ubdQ t).map (List.map (renG frm to)) else get s.ubdQ t := by
    show get (stakingExecute cfg (bankExecute cfg s frm to) frm to).ubdQ t = _
    rw [exec_ubdQ cfg cfg_queue.1 cfg_queue.2]; exact get_qFold frm to hne _ _ t
  have hr : get (moved s frm to).redQ t = if t ∈ entryTimes s.reds frm then
      (get s.redQ t).map (List.map (renG frm to)) else get s.redQ t := by
    show get (stakingExecute cfg (bankExecute cfg s frm to) frm to).redQ t = _
    rw [exec_redQ cfg cfg_queue.1 cfg_queue.2]; exact get_qFold frm to hne _ _ t
  refine ⟨fun he => ?_, fun he => ?_, fun he => ?_, fun he => ?_⟩
  · rw [hu, if_pos ((mem_entryTimes _ _ _).mpr he)]; rfl
  · rw [hu, if_neg (fun e => he ((mem_entryTimes _ _ _).mp e))]
  · rw [hr, if_pos ((mem_entryTimes _ _ _).mpr he)]; rfl
  · rw [hr, if_neg (fun e => he ((mem_entryTimes _ _ _).mp e))]

/-- **queues_rewritten** (no stale queue element, every moved entry still queued).  Hypothesis `hq`: before, every queue
element of the source stands in the slice of a completion time at which the source holds an entry (queue elements are
inserted together with their entry and leave with the slice; `MsgCancelUnbondingDelegation` is outside the modelled
histories).  Then afterwards every slice is the old one with the source renamed, no slice mentions the source, and
every entry of the target is announced in the slice of its completion time whenever the source's was. -/
theorem queues_rewritten_no_stale_element {s s' : State} {frm to : Addr} {sigOk : Bool}
    (h : migrate cfg s frm to sigOk = .ok s')
    (hq : ∀ t sl, get s.ubdQ t = some sl → ∀ x ∈ sl, x.1 = frm → hasEntryAt s.ubds frm t)
    (hr : ∀ t sl, get s.redQ t = some sl → ∀ x ∈ sl, x.1 = frm → hasEntryAt s.reds frm t) :
    (∀ t, get s'.ubdQ t = (get s.ubdQ t).map (List.map (renPair frm to))) ∧
    (∀ t, get s'.redQ t = (get s.redQ t).map (List.map (renTriple frm to))) ∧
    (∀ t sl, get s'.ubdQ t = some sl → ∀ x ∈ sl, x.1 ≠ frm) ∧
    (∀ t sl, get s'.redQ t = some sl → ∀ x ∈ sl, x.1 ≠ frm) ∧
    (∀ v es e, get s'.ubds (to, v) = some es → e ∈ es →
      (∃ sl, get s.ubdQ e.1 = some sl ∧ (frm, v) ∈ sl) → ∃ sl, get s'.ubdQ e.1 = some sl ∧ (to, v) ∈ sl) ∧
    (∀ a b es e, get s'.reds (to, a, b) = some es → e ∈ es →
      (∃ sl, get s.redQ e.1 = some sl ∧ (frm, a, b) ∈ sl) → ∃ sl, get s'.redQ e.1 = some sl ∧ (to, a, b) ∈ sl) := by
  have hne := (migrate_ok_inv h).1
  have hts := queues_rewritten_time_slices h
  have clean : ∀ {γ : Type} (sl : List (Addr × γ)), (∀ x ∈ sl, x.1 ≠ frm) → sl.map (renG frm to) = sl := by
    intro γ sl hsl
    apply map_renG_of_clean
    apply List.any_eq_false.mpr
    intro x hx
    have := hsl x hx
    simpa using this
  have hU : ∀ t, get s'.ubdQ t = (get s.ubdQ t).map (List.map (renPair frm to)) := fun t => by
    by_cases he : hasEntryAt s.ubds frm t
    · exact (hts t).1 he
    · rw [(hts t).2.1 he]
      cases hg : get s.ubdQ t with
      | none => rfl
      | some sl =>
        have : ∀ x ∈ sl, x.1 ≠ frm := fun x hx e => he (hq t sl hg x hx e)
        simp only [Option.map_some, renPair_eq, clean sl this]
  have hR : ∀ t, get s'.redQ t = (get s.redQ t).map (List.map (renTriple frm to)) := fun t => by
    by_cases he : hasEntryAt s.reds frm t
    · exact (hts t).2.2.1 he
    · rw [(hts t).2.2.2 he]
      cases hg : get s.redQ t with
      | none => rfl
      | some sl =>
        have : ∀ x ∈ sl, x.1 ≠ frm := fun x hx e => he (hr t sl hg x hx e)
        simp only [Option.map_some, renTriple_eq, clean sl this]
  refine ⟨hU, hR, fun t sl hg x hx => ?_, fun t sl hg x hx => ?_, fun v es e _ _ ⟨sl, hsl, hm⟩ => ?_,
    fun a b es e _ _ ⟨sl, hsl, hm⟩ => ?_⟩
  · rw [hU t] at hg
    cases hg0 : get s.ubdQ t with
    | none => rw [hg0] at hg; cases hg
    | some sl0 =>
      rw [hg0] at hg; cases hg
      exact renG_clean frm to hne sl0 x hx
  · rw [hR t] at hg
    cases hg0 : get s.redQ t with
    | none => rw [hg0] at hg; cases hg
    | some sl0 =>
      rw [hg0] at hg; cases hg
      exact renG_clean frm to hne sl0 x hx
  · refine ⟨sl.map (renPair frm to), by rw [hU, hsl]; rfl, ?_⟩
    exact List.mem_map.mpr ⟨(frm, v), hm, by simp [renPair]⟩
  · refine ⟨sl.map (renTriple frm to), by rw [hR, hsl]; rfl, ?_⟩
    exact List.mem_map.mpr ⟨(frm, a, b), hm, by simp [renTriple]⟩


/-- **queues_rewritten** (unbonding-id index, 0x38).  Hypothesis `IdWF`: before, the index points every entry id of the
source's unbonding delegations and redelegations at the key of its record, nothing else at a key of the source, nothing
at a key of the target.  Then afterwards every id reads the old value with the source replaced by the target: ids of
moved entries point at the target's records, no id points at a key of the source, all other ids are untouched. -/
theorem queues_rewritten_unbonding_id_index {s s' : State} {frm to : Addr} {sigOk : Bool}
    (h : migrate cfg s frm to sigOk = .ok s') (wf : IdWF s frm to) :
    (∀ id, get s'.unbId id = (get s.unbId id).map (swP frm to)) ∧ (∀ id r, get s'.unbId id = some r → r.1 ≠ frm) := by
  obtain ⟨hne, _, _, _, _, _, _, rfl⟩ := migrate_ok_inv h
  have hc2 : cfg.rewriteUnbId = true := by rw [cfg_from_code]
  have wfB : IdWF (bankExecute cfg s frm to) frm to := ⟨wf.id_ubd, wf.id_red, wf.id_of, wf.id_to⟩
  have key : ∀ id, get (moved s frm to).unbId id = (get s.unbId id).map (swP frm to) :=
    fun id => unbId_ExtRel cfg hc2 (bankExecute cfg s frm to) wfB id
  refine ⟨key, fun id r hr e => ?_⟩
  rw [key] at hr
  cases hg : get s.unbId id with
  | none => rw [hg] at hr; cases hr
  | some r0 =>
    rw [hg] at hr
    simp only [Option.map_some, Option.some.injEq] at hr
    subst hr
    simp only [swP] at e
    by_cases h1 : r0.1 = frm
    · rw [h1, sw_frm] at e; exact hne e.symm
    · have h2 := wf.id_to id r0 hg
      rw [sw_fix frm to r0.1 h1 h2] at e
      exact h1 e


/-! ## the index invariant of every history, and the index theorems without hypothesis on the pre-state -/

/-- every operation keeps: a by-validator index entry (0x71, 0x33, 0x35, 0x36) exists exactly together with its record -/
theorem idxInv_step {s : State} (h : IdxInv s) (op : Op) : IdxInv (step cfg s op).1 := by
  have keep : ∀ (o : Option State), (∀ s', o = some s' → IdxInv s') → IdxInv (ofOpt s o).1 := by
    intro o ho
    cases o with
    | none => exact h
    | some s' => exact ho s' rfl
  cases op with
  | send x y d n =>
    simp only [step]
    apply keep
    intro s' hs
    cases hb : sendUnlocked s.bal (lockedOf s x d) x y d n <;> simp [hb] at hs
    subst hs; exact idxInv_of_fields h rfl rfl rfl rfl rfl rfl rfl
  | mint x d n => exact idxInv_of_fields h rfl rfl rfl rfl rfl rfl rfl
  | delegate d v amt rw => exact keep _ (fun s' hs => idxInv_delegate h hs)
  | undelegate d v amt rw => exact keep _ (fun s' hs => idxInv_undelegate h hs)
  | redelegate d x y amt r1 r2 => exact keep _ (fun s' hs => idxInv_redelegate h hs)
  | withdraw d v rw => exact keep _ (fun s' hs => idxInv_withdraw h hs)
  | setWithdraw d w => exact idxInv_of_fields h rfl rfl rfl rfl rfl rfl rfl
  | submit x dep =>
    refine keep _ (fun s' hs => ?_)
    unfold submit at hs
    split at hs
    · cases hs
    · cases hs; exact idxInv_of_fields h rfl rfl rfl rfl rfl rfl rfl
  | deposit x id amt =>
    refine keep _ (fun s' hs => ?_)
    unfold deposit at hs
    split at hs
    · cases hs
    · split at hs
      · cases hs
      · split at hs
        · cases hs
        · cases hs; exact idxInv_of_fields h rfl rfl rfl rfl rfl rfl rfl
  | vote x id =>
    refine keep _ (fun s' hs => ?_)
    unfold vote at hs
    split at hs
    · cases hs
    · split at hs
      · cases hs
      · cases hs; exact idxInv_of_fields h rfl rfl rfl rfl rfl rfl rfl
  | block dt => exact idxInv_endBlock h dt
  | setPeriods dp vp => exact idxInv_of_fields h rfl rfl rfl rfl rfl rfl rfl
  | setUnbond n => exact idxInv_of_fields h rfl rfl rfl rfl rfl rfl rfl
  | migrate f t sg =>
    simp only [step]
    cases hm : migrate cfg s f t sg with
    | error e => exact h
    | ok s' =>
      have hto := target_without_staking_records hm
      obtain ⟨hne, _, _, _, _, _, _, rfl⟩ := migrate_ok_inv hm
      have hc : cfg.rewriteDelIdx = true := by rw [cfg_from_code]
      have hB : IdxInv (bankExecute cfg s f t) := idxInv_of_fields h rfl rfl rfl rfl rfl rfl rfl
      exact idxInv_of_fields (idxInv_stakingExecute cfg hc hB f t hne hto) rfl rfl rfl rfl rfl rfl rfl

/-- **invariant of every history**: from a state in which the indexes agree with the records (for instance one without
staking records), after ANY list of operations — migrations included — they still do -/
theorem idxInv_run {s : State} (h : IdxInv s) (ops : List Op) : IdxInv (run cfg s ops) := by
  induction ops generalizing s with
  | nil => exact h
  | cons op ops ih => exact ih (idxInv_step h op)

/-- a state without staking records satisfies the invariant -/
theorem idxInv_base (s : State) (h1 : s.dels = []) (h2 : s.delIdx = []) (h3 : s.ubds = []) (h4 : s.ubdIdx = [])
    (h5 : s.reds = []) (h6 : s.redSrcIdx = []) (h7 : s.redDstIdx = []) : IdxInv s := by
  refine ⟨?_, ?_, ?_, ?_⟩ <;> intro a x <;> simp [h1, h2, h3, h4, h5, h6, h7, get_nil]

/-- **queues_rewritten** (all four by-validator indexes) for every reachable state, without any hypothesis on the state
in which the migration happens: after any history from a state without staking records, an accepted migration leaves no
index entry of the source in any of the four indexes, and afterwards (and after any further history) every index still
holds an entry exactly for the records in the store — in particular every record of the target is indexed. -/
theorem queues_rewritten_indexes_reachable {s0 : State} (h0 : IdxInv s0) (before : List Op) {s' : State} {frm to : Addr}
    {sigOk : Bool} (h : migrate cfg (run cfg s0 before) frm to sigOk = .ok s') (later : List Op) :
    (∀ v, (v, frm) ∉ s'.delIdx ∧ (v, frm) ∉ s'.ubdIdx) ∧
    (∀ a b, (a, frm, b) ∉ s'.redSrcIdx ∧ (b, frm, a) ∉ s'.redDstIdx) ∧
    IdxInv s' ∧ IdxInv (run cfg s' later) := by
  have hs' : IdxInv s' := by
    have := idxInv_step (idxInv_run h0 before) (.migrate frm to sigOk)
    simpa [step, h] using this
  have hne := (migrate_ok_inv h).1
  have hd := portfolio_moved_delegations h
  have hu := portfolio_moved_unbonding h
  have hr := portfolio_moved_redelegations h
  refine ⟨fun v => ⟨fun e => ?_, fun e => ?_⟩, fun a b => ⟨fun e => ?_, fun e => ?_⟩, hs', idxInv_run hs' later⟩
  · obtain ⟨y, hy⟩ := (hs'.del frm v).mp e
    rw [hd frm v] at hy; simp [hne] at hy
  · obtain ⟨y, hy⟩ := (hs'.ubd frm v).mp e
    rw [hu frm v] at hy; simp [hne] at hy
  · obtain ⟨y, hy⟩ := (hs'.rsrc frm (a, b)).mp e
    rw [hr frm a b] at hy; simp [hne] at hy
  · obtain ⟨y, hy⟩ := (hs'.rdst frm (a, b)).mp e
    rw [hr frm a b] at hy; simp [hne] at hy


/-! ## the queue invariant of every history, and the queue theorem without hypothesis on the pre-state -/

/-- every operation keeps: each time queue has one slice per completion time, and every element of a slice names a
record holding an entry that completes at the slice's time -/
theorem qInv_step {s : State} (h : QInv s) (op : Op) : QInv (step cfg s op).1 := by
  have keep : ∀ (o : Option State), (∀ s', o = some s' → QInv s') → QInv (ofOpt s o).1 := by
    intro o ho
    cases o with
    | none => exact h
    | some s' => exact ho s' rfl
  cases op with
  | send x y d n =>
    simp only [step]
    apply keep
    intro s' hs
    cases hb : sendUnlocked s.bal (lockedOf s x d) x y d n <;> simp [hb] at hs
    subst hs; exact qInv_of_fields h rfl rfl rfl rfl
  | mint x d n => exact qInv_of_fields h rfl rfl rfl rfl
  | delegate d v amt rw => exact keep _ (fun s' hs => h.frame (qframe_delegate hs))
  | undelegate d v amt rw => exact keep _ (fun s' hs => qInv_undelegate h hs)
  | redelegate d x y amt r1 r2 => exact keep _ (fun s' hs => qInv_redelegate h hs)
  | withdraw d v rw => exact keep _ (fun s' hs => h.frame (qframe_withdraw hs))
  | setWithdraw d w => exact qInv_of_fields h rfl rfl rfl rfl
  | submit x dep =>
    refine keep _ (fun s' hs => ?_)
    unfold submit at hs
    split at hs
    · cases hs
    · cases hs; exact qInv_of_fields h rfl rfl rfl rfl
  | deposit x id amt =>
    refine keep _ (fun s' hs => ?_)
    unfold deposit at hs
    split at hs
    · cases hs
    · split at hs
      · cases hs
      · split at hs
        · cases hs
        · cases hs; exact qInv_of_fields h rfl rfl rfl rfl
  | vote x id =>
    refine keep _ (fun s' hs => ?_)
    unfold vote at hs
    split at hs
    · cases hs
    · split at hs
      · cases hs
      · cases hs; exact qInv_of_fields h rfl rfl rfl rfl
  | block dt => exact qInv_endBlock h dt
  | setPeriods dp vp => exact qInv_of_fields h rfl rfl rfl rfl
  | setUnbond n => exact qInv_of_fields h rfl rfl rfl rfl
  | migrate f t sg =>
    simp only [step]
    cases hm : migrate cfg s f t sg with
    | error e => exact h
    | ok s' =>
      have hto := target_without_staking_records hm
      obtain ⟨hne, _, _, _, _, _, _, rfl⟩ := migrate_ok_inv hm
      have hB : QInv (bankExecute cfg s f t) := qInv_of_fields h rfl rfl rfl rfl
      exact qInv_of_fields (qInv_stakingExecute cfg cfg_queue.1 cfg_queue.2 hB f t hne ⟨hto.2.1, hto.2.2⟩) rfl rfl rfl rfl

/-- **invariant of every history** (time queues) -/
theorem qInv_run {s : State} (h : QInv s) (ops : List Op) : QInv (run cfg s ops) := by
  induction ops generalizing s with
  | nil => exact h
  | cons op ops ih => exact ih (qInv_step h op)

/-- a state with empty time queues satisfies the invariant -/
theorem qInv_base (s : State) (h1 : s.ubdQ = []) (h2 : s.redQ = []) : QInv s := by
  refine ⟨⟨?_, ?_⟩, ⟨?_, ?_⟩⟩ <;> simp [h1, h2]

/-- **queues_rewritten** (time-queue slices) for every reachable state, without any hypothesis on the state in which
the migration happens: after any history from a state with empty queues, an accepted migration leaves every slice of
both queues equal to the old slice with the source renamed to the target, no slice names the source any more, and every
element of every slice — those of the target included — still names a record with an entry completing at that time, so
that the end blocker finds and completes it; the same holds after any further history. -/
theorem queues_rewritten_time_slices_reachable {s0 : State} (h0 : QInv s0) (before : List Op) {s' : State}
    {frm to : Addr} {sigOk : Bool} (h : migrate cfg (run cfg s0 before) frm to sigOk = .ok s') (later : List Op) :
    (∀ t, get s'.ubdQ t = (get (run cfg s0 before).ubdQ t).map (List.map (renPair frm to))) ∧
    (∀ t, get s'.redQ t = (get (run cfg s0 before).redQ t).map (List.map (renTriple frm to))) ∧
    (∀ t sl, get s'.ubdQ t = some sl → ∀ x ∈ sl, x.1 ≠ frm) ∧
    (∀ t sl, get s'.redQ t = some sl → ∀ x ∈ sl, x.1 ≠ frm) ∧
    QInv s' ∧ QInv (run cfg s' later) := by
  have hs := qInv_run h0 before
  have hs' : QInv s' := by
    have := qInv_step hs (.migrate frm to sigOk)
    simpa [step, h] using this
  have hq : ∀ t sl, get (run cfg s0 before).ubdQ t = some sl → ∀ x ∈ sl, x.1 = frm →
      hasEntryAt (run cfg s0 before).ubds frm t := by
    intro t sl hg x hx e
    obtain ⟨es, hes, en, hen, het⟩ := hs.u.ann (t, sl) (get_some_mem _ _ _ hg) x hx
    exact ⟨x.2, es, by rw [← e]; exact hes, en, hen, het⟩
  have hr : ∀ t sl, get (run cfg s0 before).redQ t = some sl → ∀ x ∈ sl, x.1 = frm →
      hasEntryAt (run cfg s0 before).reds frm t := by
    intro t sl hg x hx e
    obtain ⟨es, hes, en, hen, het⟩ := hs.r.ann (t, sl) (get_some_mem _ _ _ hg) x hx
    exact ⟨x.2, es, by rw [← e]; exact hes, en, hen, het⟩
  obtain ⟨a1, a2, a3, a4, _, _⟩ := queues_rewritten_no_stale_element h hq hr
  exact ⟨a1, a2, a3, a4, hs', qInv_run hs' later⟩


/-! ## starting infos and unbonding ids: invariants of every history -/

/-- every operation keeps: a starting info exists only with its delegation (`SiInv`), and the unbonding-id index agrees
with the entries of the records — every entry indexed at its record's key, every index entry backed by an entry, ids
below the counter, ids of a record distinct (`IdInv`) -/
theorem siIdInv_step {s : State} (h : SiInv s ∧ IdInv s) (op : Op) : SiInv (step cfg s op).1 ∧ IdInv (step cfg s op).1 := by
  obtain ⟨hs, hi⟩ := h
  have keep : ∀ (o : Option State), (∀ s', o = some s' → SiInv s' ∧ IdInv s') →
      SiInv (ofOpt s o).1 ∧ IdInv (ofOpt s o).1 := by
    intro o ho
    cases o with
    | none => exact ⟨hs, hi⟩
    | some s' => exact ho s' rfl
  have same : ∀ s' : State, s'.dels = s.dels → s'.startInfo = s.startInfo → IFrame s s' → SiInv s' ∧ IdInv s' :=
    fun s' e1 e2 f => ⟨siInv_of_fields hs e1 e2, hi.frame f⟩
  cases op with
  | send x y d n =>
    simp only [step]
    apply keep
    intro s' hh
    cases hb : sendUnlocked s.bal (lockedOf s x d) x y d n <;> simp [hb] at hh
    subst hh; exact same _ rfl rfl ⟨rfl, rfl, rfl, rfl⟩
  | mint x d n => exact same _ rfl rfl ⟨rfl, rfl, rfl, rfl⟩
  | delegate d v amt rw => exact keep _ (fun s' hh => ⟨siInv_delegate hs hh, hi.frame (iframe_delegate hh)⟩)
  | undelegate d v amt rw =>
    refine keep _ (fun s' hh => ⟨?_, idInv_undelegate hi hh⟩)
    unfold undelegate at hh
    split at hh
    · cases hh
    · simp only [] at hh
      split at hh
      · cases hh
      · split at hh
        · cases hh
        · rename_i s1 h1
          split at hh
          · cases hh
          · cases hh; exact siInv_of_fields (siInv_unbond hs h1) rfl rfl
  | redelegate d x y amt r1 r2 =>
    refine keep _ (fun s' hh => ⟨?_, idInv_redelegate hi hh⟩)
    unfold redelegate at hh
    split at hh
    · cases hh
    · split at hh
      · cases hh
      · simp only [] at hh
        split at hh
        · cases hh
        · split at hh
          · cases hh
          · rename_i s1 h1
            split at hh
            · cases hh
            · rename_i s2 h2
              cases hh; exact siInv_of_fields (siInv_addShares (siInv_unbond hs h1) h2) rfl rfl
  | withdraw d v rw => exact keep _ (fun s' hh => ⟨siInv_withdraw hs hh, hi.frame (iframe_withdraw hh)⟩)
  | setWithdraw d w => exact same _ rfl rfl ⟨rfl, rfl, rfl, rfl⟩
  | submit x dep =>
    refine keep _ (fun s' hh => ?_)
    unfold submit at hh
    split at hh
    · cases hh
    · cases hh; exact same _ rfl rfl ⟨rfl, rfl, rfl, rfl⟩
  | deposit x id amt =>
    refine keep _ (fun s' hh => ?_)
    unfold deposit at hh
    split at hh
    · cases hh
    · split at hh
      · cases hh
      · split at hh
        · cases hh
        · cases hh; exact same _ rfl rfl ⟨rfl, rfl, rfl, rfl⟩
  | vote x id =>
    refine keep _ (fun s' hh => ?_)
    unfold vote at hh
    split at hh
    · cases hh
    · split at hh
      · cases hh
      · cases hh; exact same _ rfl rfl ⟨rfl, rfl, rfl, rfl⟩
  | block dt => exact ⟨siInv_frame hs (sframe_endBlock s dt), idInv_endBlock hi dt⟩
  | setPeriods dp vp => exact same _ rfl rfl ⟨rfl, rfl, rfl, rfl⟩
  | setUnbond n => exact same _ rfl rfl ⟨rfl, rfl, rfl, rfl⟩
  | migrate f t sg =>
    simp only [step]
    cases hm : migrate cfg s f t sg with
    | error e => exact ⟨hs, hi⟩
    | ok s' =>
      have hto := target_without_staking_records hm
      obtain ⟨hne, _, _, _, _, _, _, rfl⟩ := migrate_ok_inv hm
      have hc2 : cfg.rewriteUnbId = true := by rw [cfg_from_code]
      have hsB : SiInv (bankExecute cfg s f t) := siInv_of_fields hs rfl rfl
      have hiB : IdInv (bankExecute cfg s f t) := hi.frame ⟨rfl, rfl, rfl, rfl⟩
      exact ⟨siInv_of_fields (siInv_stakingExecute cfg hsB f t hne hto.1) rfl rfl,
        (idInv_stakingExecute cfg hc2 hiB f t hne ⟨hto.2.1, hto.2.2⟩).frame ⟨rfl, rfl, rfl, rfl⟩⟩

theorem siIdInv_run {s : State} (h : SiInv s ∧ IdInv s) (ops : List Op) : SiInv (run cfg s ops) ∧ IdInv (run cfg s ops) := by
  induction ops generalizing s with
  | nil => exact h
  | cons op ops ih => exact ih (siIdInv_step h op)

/-- a state without delegations, unbonding delegations, redelegations and unbonding ids satisfies both -/
theorem siIdInv_base (s : State) (h1 : s.startInfo = []) (h2 : s.ubds = []) (h3 : s.reds = []) (h4 : s.unbId = []) :
    SiInv s ∧ IdInv s := by
  refine ⟨fun a v _ => by rw [h1]; rfl, ⟨?_, ?_, ?_, ?_, ?_, ?_⟩⟩
  · intro k es e hg; rw [h2, get_nil] at hg; cases hg
  · intro k es e hg; rw [h3, get_nil] at hg; cases hg
  · intro id r hg; rw [h4, get_nil] at hg; cases hg
  · intro id r hg; rw [h4, get_nil] at hg; cases hg
  · intro k es hg; rw [h2, get_nil] at hg; cases hg
  · intro k es hg; rw [h3, get_nil] at hg; cases hg


/-! ## never_reused -/

/-- every operation keeps existing migration records -/
theorem records_kept (s : State) (op : Op) (a : Addr) (h : (get s.recs a).isSome = true) :
    (get (step cfg s op).1.recs a).isSome = true := by
  have keep : ∀ (o : Option State), (∀ s', o = some s' → s'.recs = s.recs) → (get (ofOpt s o).1.recs a).isSome = true := by
    intro o ho
    cases o with
    | none => exact h
    | some s' => simp only [ofOpt]; rw [ho s' rfl]; exact h
  cases op with
  | send x y d n =>
    simp only [step]
    apply keep
    intro s' hs
    cases hb : sendUnlocked s.bal (lockedOf s x d) x y d n <;> simp [hb] at hs
    subst hs; rfl
  | mint x d n => exact h
  | delegate d v amt rw => exact keep _ (fun s' hs => delegate_recs hs)
  | undelegate d v amt rw => exact keep _ (fun s' hs => undelegate_recs hs)
  | redelegate d x y amt r1 r2 => exact keep _ (fun s' hs => redelegate_recs hs)
  | withdraw d v rw => exact keep _ (fun s' hs => withdraw_recs hs)
  | setWithdraw d w => exact h
  | submit x dep => exact keep _ (fun s' hs => submit_recs hs)
  | deposit x id amt => exact keep _ (fun s' hs => deposit_recs hs)
  | vote x id => exact keep _ (fun s' hs => vote_recs hs)
  | block dt => simp only [step]; rw [endBlock_recs]; exact h
  | setPeriods dp vp => exact h
  | setUnbond n => exact h
  | migrate f t sg =>
    simp only [step]
    cases hm : migrate cfg s f t sg with
    | error e => exact h
    | ok s' =>
      obtain ⟨_, _, _, _, _, _, _, rfl⟩ := migrate_ok_inv hm
      show (get (put (put _ f (true, t)) t (false, f)) a).isSome = true
      by_cases h1 : a = t
      · subst h1; rw [get_put_eq]; rfl
      · rw [get_put_ne _ _ _ _ h1]
        by_cases h2 : a = f
        · subst h2; rw [get_put_eq]; rfl
        · rw [get_put_ne _ _ _ _ h2]
          have hrec : (stakingExecute cfg (bankExecute cfg s f t) f t).recs = s.recs := by
            unfold stakingExecute
            refine (foldl_keep (fun s : State => s.recs) _ (fun s p => by
              unfold moveRed; exact (foldl_keep (fun s : State => s.recs) _ (by intros; rfl) _ _).trans (foldl_keep (fun s : State => s.recs) _ (by intros; rfl) _ _)) _ _).trans ?_
            refine (foldl_keep (fun s : State => s.recs) _ (fun s p => by
              unfold moveUbd; exact (foldl_keep (fun s : State => s.recs) _ (by intros; rfl) _ _).trans (foldl_keep (fun s : State => s.recs) _ (by intros; rfl) _ _)) _ _).trans ?_
            exact foldl_keep (fun s : State => s.recs) _ (by intros; rfl) _ _
          rw [hrec]; exact h

theorem records_kept_run (s : State) (ops : List Op) (a : Addr) (h : (get s.recs a).isSome = true) :
    (get (run cfg s ops).recs a).isSome = true := by
  induction ops generalizing s with
  | nil => exact h
  | cons op ops ih => exact ih _ (records_kept s op a h)

/-- **never_reused**: once a migration of `frm` to `to` was accepted, then after any later history, every migration
whose source or target is `frm` or `to` is rejected -/
theorem never_reused {s s' : State} {frm to : Addr} {sigOk : Bool} (h : migrate cfg s frm to sigOk = .ok s')
    (later : List Op) (a b : Addr) (sg : Bool) (hab : a = frm ∨ a = to ∨ b = frm ∨ b = to) :
    ∀ s'', migrate cfg (run cfg s' later) a b sg ≠ .ok s'' := by
  intro s'' h2
  obtain ⟨hne, _, _, _, _, _, _, rfl⟩ := migrate_ok_inv h
  have hf : (get (moved s frm to).recs frm).isSome = true := by
    show (get (put (put _ frm (true, to)) to (false, frm)) frm).isSome = true
    rw [get_put_ne _ _ _ _ hne, get_put_eq]; rfl
  have ht : (get (moved s frm to).recs to).isSome = true := by
    show (get (put (put _ frm (true, to)) to (false, frm)) to).isSome = true
    rw [get_put_eq]; rfl
  have hf' := records_kept_run _ later frm hf
  have ht' := records_kept_run _ later to ht
  obtain ⟨_, _, ha, hb, _⟩ := migrate_ok_inv h2
  rcases hab with rfl | rfl | rfl | rfl
  · rw [ha] at hf'; cases hf'
  · rw [ha] at ht'; cases ht'
  · rw [hb] at hf'; cases hf'
  · rw [hb] at ht'; cases ht'

/-! ## later_behaviour_equal -/

/-- **later_behaviour_equal** (undelegate): whatever amount the source could have undelegated from a validator before the
migration, the target can undelegate afterwards — the operation is accepted under the same conditions (shares, entry
count of the moved unbonding delegation, starting info) -/
theorem later_behaviour_equal_records {s s' : State} {frm to : Addr} {sigOk : Bool}
    (h : migrate cfg s frm to sigOk = .ok s') (v : Val) :
    get s'.dels (to, v) = get s.dels (frm, v) ∧ get s'.ubds (to, v) = get s.ubds (frm, v) ∧
    get s'.dels (frm, v) = none ∧ get s'.ubds (frm, v) = none := by
  have hne := (migrate_ok_inv h).1
  have h1 := portfolio_moved_delegations h
  have h2 := portfolio_moved_unbonding h
  refine ⟨?_, ?_, ?_, ?_⟩
  · rw [h1]; simp
  · rw [h2]; simp
  · rw [h1]; simp [hne]
  · rw [h2]; simp [hne]

/-! ## later_behaviour_equal as a simulation over every later history -/

/-- **later_behaviour_equal** (simulation).  Let a migration of `frm` to `to` be accepted in `s`, giving `s'`, and let
`s0` be `s` with the target's prior coins handed to the source (if the target held nothing, `s0` has the ledger of `s`).
Then for EVERY later history without a further migration — sends, delegations, undelegations, redelegations, reward
withdrawals, withdraw-address settings, proposals, deposits, votes, and blocks whose end blockers mature unbonding and
redelegation entries, refund deposits and close proposals — the history run from `s0` and the same history with source
and target swapped (`swOp`: the target acts where the source did) run from `s'` give the same answer at every step and
end in states that are each other's image under the swap (`Sim`): balances of every denomination, delegations with
their starting infos, unbonding and redelegation records, all four indexes, the unbonding-id index, both time queues
(slice by slice, in order), withdraw addresses, proposals, deposits and votes.  In particular every matured entry and
every reward the source would have been paid is paid to the target.

Hypothesis `wf : MigWF s frm to`: the keepers' bookkeeping for the source's records is consistent in `s` (an index
entry, a queue element, an unbonding id and a starting info exist exactly together with their record), the target is
unknown to staking, neither address is a module pool, and no withdraw-address setting, deposit, vote or vesting schedule
mentions either address. -/
theorem later_behaviour_equal {s s' : State} {frm to : Addr} {sigOk : Bool}
    (h : migrate cfg s frm to sigOk = .ok s') (wf : MigWF s frm to)
    (later : List Op) (hl : ∀ op ∈ later, isMigrate op = false) :
    Sim frm to (run cfg (bankExecute cfg s to frm) later) (run cfg s' (later.map (swOp frm to))) ∧
    trace cfg (bankExecute cfg s to frm) later = trace cfg s' (later.map (swOp frm to)) := by
  have hto := target_without_staking_records h
  obtain ⟨hne, _, _, _, _, _, _, rfl⟩ := migrate_ok_inv h
  have hc1 : cfg.rewriteDelIdx = true := by rw [cfg_from_code]
  have hc2 : cfg.rewriteUnbId = true := by rw [cfg_from_code]
  exact sim_run wf.modFix cfg later hl (sim_init cfg hc1 hc2 cfg_bankAll cfg_queue.1 cfg_queue.2 s hne hto wf)

/-- **later_behaviour_equal** (what the target holds and can do): after any such later history the target holds, in
every denomination, exactly what the source would hold (matured unbonding entries and rewards included), has exactly the
delegations, unbonding delegations and redelegations the source would have, and the retired source address holds what
the unused target address would. -/
theorem later_behaviour_equal_holdings {s s' : State} {frm to : Addr} {sigOk : Bool}
    (h : migrate cfg s frm to sigOk = .ok s') (wf : MigWF s frm to)
    (later : List Op) (hl : ∀ op ∈ later, isMigrate op = false) :
    let a := run cfg (bankExecute cfg s to frm) later
    let b := run cfg s' (later.map (swOp frm to))
    (∀ d, balOf b.bal to d = balOf a.bal frm d ∧ balOf b.bal frm d = balOf a.bal to d) ∧
    (∀ v, get b.dels (to, v) = get a.dels (frm, v) ∧ get b.startInfo (v, to) = get a.startInfo (v, frm) ∧
          get b.ubds (to, v) = get a.ubds (frm, v)) ∧
    (∀ x y, get b.reds (to, x, y) = get a.reds (frm, x, y)) ∧ b.now = a.now := by
  intro a b
  have hs := (later_behaviour_equal h wf later hl).1
  refine ⟨fun d => ⟨?_, ?_⟩, fun v => ⟨?_, ?_, ?_⟩, fun x y => ?_, hs.now⟩
  · have := hs.bal frm d; rwa [sw_frm] at this
  · have := hs.bal to d; rwa [sw_to] at this
  · have := hs.dels.get_id (frm, v); simpa [swP, sw_frm] using this
  · have := hs.startInfo.get_id (v, frm); simpa [swS, sw_frm] using this
  · have := hs.ubds.get_id (frm, v); simpa [swP, sw_frm] using this
  · have := hs.reds.get_id (frm, x, y); simpa [swP, sw_frm] using this


/-! ## later_behaviour_equal for every reachable state -/

/-- what remains to be assumed about the state in which the migration happens once the invariants are known: it is
about things the staking keepers do not maintain — neither address is a module pool, no delegator-withdraw-address
setting, deposit, vote or vesting schedule mentions the source or the target -/
structure MigEnv (s : State) (frm to : Addr) : Prop where
  modFix : ModFix frm to
  wd_frm : get s.wdAddr frm = none
  wd_to : get s.wdAddr to = none
  wd_val : ∀ a w, get s.wdAddr a = some w → w ≠ frm ∧ w ≠ to
  dep : ∀ p ∈ s.deposits, p.1.2 ≠ frm ∧ p.1.2 ≠ to
  vote : ∀ p ∈ s.votes, p.2 ≠ frm ∧ p.2 ≠ to
  vest_frm : get s.vest frm = none
  vest_to : get s.vest to = none

/-- the consistency hypothesis of `later_behaviour_equal` follows from the four invariants, the target being unknown to
staking (which an accepted migration guarantees), and `MigEnv` -/
theorem migWF_of_invariants {s : State} {frm to : Addr} (hx : IdxInv s) (hq : QInv s) (hs : SiInv s) (hi : IdInv s)
    (hto : (∀ p ∈ s.dels, p.1.1 ≠ to) ∧ (∀ p ∈ s.ubds, p.1.1 ≠ to) ∧ (∀ p ∈ s.reds, p.1.1 ≠ to))
    (env : MigEnv s frm to) : MigWF s frm to := by
  have nd : ∀ v, get s.dels (to, v) = none := fun v => get_none_of_no_key _ _ (fun p hp e => hto.1 p hp (by rw [e]))
  have nu : ∀ v, get s.ubds (to, v) = none := fun v => get_none_of_no_key _ _ (fun p hp e => hto.2.1 p hp (by rw [e]))
  have nr : ∀ x, get s.reds (to, x) = none := fun x => get_none_of_no_key _ _ (fun p hp e => hto.2.2 p hp (by rw [e]))
  have idwf := hi.idWF frm to ⟨hto.2.1, hto.2.2⟩
  refine ⟨env.modFix, fun v => hx.del frm v, fun v e => ?_, fun v => hs frm v, fun v => hs to v (nd v),
    fun v => hx.ubd frm v, fun v e => ?_, fun x => hx.rsrc frm x, fun x e => ?_, fun x => hx.rdst frm x, fun x e => ?_,
    hq.u.nodup, fun p hp x hx' e => ?_, fun p hp x hx' e => ?_, hq.r.nodup, fun p hp x hx' e => ?_, fun p hp x hx' e => ?_,
    idwf.id_ubd, idwf.id_red, idwf.id_of, idwf.id_to, env.wd_frm, env.wd_to, env.wd_val, env.dep, env.vote,
    env.vest_frm, env.vest_to⟩
  · obtain ⟨y, hy⟩ := (hx.del to v).mp e; rw [nd v] at hy; cases hy
  · obtain ⟨y, hy⟩ := (hx.ubd to v).mp e; rw [nu v] at hy; cases hy
  · obtain ⟨y, hy⟩ := (hx.rsrc to x).mp e; rw [nr x] at hy; cases hy
  · obtain ⟨y, hy⟩ := (hx.rdst to x).mp e; rw [nr x] at hy; cases hy
  · obtain ⟨es, hes, en, hen, het⟩ := hq.u.ann p hp x hx'
    exact ⟨x.2, es, by rw [← e]; exact hes, en, hen, het⟩
  · obtain ⟨es, hes, _⟩ := hq.u.ann p hp x hx'
    have : get s.ubds (to, x.2) = some es := by rw [← e]; exact hes
    rw [nu x.2] at this; cases this
  · obtain ⟨es, hes, en, hen, het⟩ := hq.r.ann p hp x hx'
    exact ⟨x.2, es, by rw [← e]; exact hes, en, hen, het⟩
  · obtain ⟨es, hes, _⟩ := hq.r.ann p hp x hx'
    have : get s.reds (to, x.2) = some es := by rw [← e]; exact hes
    rw [nr x.2] at this; cases this

/-- **later_behaviour_equal for every reachable state**: let `s0` be any state in which the four invariants hold (for
instance one without staking records), `before` ANY history (migrations included), and let a migration of `frm` to `to`
be accepted in the state `s` reached, under `MigEnv s frm to`.  Then for EVERY later history without a further migration
the state after the migration simulates `s` (with the target's prior coins handed to the source) under the swap of
source and target: same answers step by step, swapped states, every matured entry and every reward paid to the target
(see `later_behaviour_equal`, `later_behaviour_equal_holdings`). -/
theorem later_behaviour_equal_reachable {s0 : State} (hx : IdxInv s0) (hq : QInv s0) (hsi : SiInv s0 ∧ IdInv s0)
    (before : List Op) {s' : State} {frm to : Addr} {sigOk : Bool}
    (h : migrate cfg (run cfg s0 before) frm to sigOk = .ok s') (env : MigEnv (run cfg s0 before) frm to)
    (later : List Op) (hl : ∀ op ∈ later, isMigrate op = false) :
    Sim frm to (run cfg (bankExecute cfg (run cfg s0 before) to frm) later) (run cfg s' (later.map (swOp frm to))) ∧
    trace cfg (bankExecute cfg (run cfg s0 before) to frm) later = trace cfg s' (later.map (swOp frm to)) := by
  have h2 := siIdInv_run hsi before
  exact later_behaviour_equal h
    (migWF_of_invariants (idxInv_run hx before) (qInv_run hq before) h2.1 h2.2 (target_without_staking_records h) env)
    later hl


/-- involvement of `a` in proposal `id`: proposer, depositor, or (for proposals in the voting period) voter -/
def involvedDeposit (s : State) (a : Addr) (id : Nat) : Prop :=
  (∃ pr, get s.props id = some pr ∧ pr.proposer = a) ∨ (get s.deposits (id, a)).isSome = true

def involvedVote (s : State) (a : Addr) (id : Nat) : Prop :=
  involvedDeposit s a id ∨ (id, a) ∈ s.votes

/-- **refused_while_in_open_proposal**: a proposal is open exactly while it sits in the inactive queue (deposit period)
or the active queue (voting period) — the gov end blocker removes it at its end time.  If the source or the target is
proposer or depositor of a proposal in the inactive queue, or proposer, depositor or voter of one in the active queue,
whatever its end time, the migration is rejected. -/
theorem refused_while_in_open_proposal (s : State) (frm to a : Addr) (sigOk : Bool) (id : Nat) (t : Time)
    (ha : a = frm ∨ a = to)
    (hopen : ((t, id) ∈ s.inactiveQ ∧ involvedDeposit s a id) ∨ ((t, id) ∈ s.activeQ ∧ involvedVote s a id)) :
    ∀ s', migrate cfg s frm to sigOk ≠ .ok s' := by
  intro s' h
  have h6 := (migrate_ok_inv h).2.2.2.2.2.2.1
  unfold govRefuses at h6
  have hscan : cfg.govScanAll = true := by rw [cfg_from_code]
  rw [hscan] at h6
  simp only [Bool.true_or, Bool.or_eq_false_iff, List.any_eq_false] at h6
  -- the refusals read from the two callbacks
  have g1 : cfg.gProposerFrom = true := by rw [cfg_from_code]
  have g2 : cfg.gProposerTo = true := by rw [cfg_from_code]
  have g3 : cfg.gDepositFrom = true := by rw [cfg_from_code]
  have g4 : cfg.gDepositTo = true := by rw [cfg_from_code]
  have g5 : cfg.gVoteDeposit = true := by rw [cfg_from_code]
  have g6 : cfg.gVoteFrom = true := by rw [cfg_from_code]
  have g7 : cfg.gVoteTo = true := by rw [cfg_from_code]
  have hdep : ∀ id, involvedDeposit s a id → depositCb cfg s frm to id = true := by
    intro id hi
    unfold depositCb
    rw [g1, g2, g3, g4]
    simp only [Bool.true_and]
    rcases hi with ⟨pr, hp, he⟩ | hd
    · rw [hp]; rcases ha with rfl | rfl <;> simp [he]
    · cases hp : get s.props id with
      | none => rfl
      | some pr => rcases ha with rfl | rfl <;> simp [hd]
  rcases hopen with ⟨hq, hi⟩ | ⟨hq, hi⟩
  · exact h6.1 (t, id) (List.mem_filter.mpr ⟨hq, rfl⟩) (hdep id hi)
  · apply h6.2 (t, id) (List.mem_filter.mpr ⟨hq, rfl⟩)
    unfold voteCb
    rw [g5, g6, g7]
    simp only [Bool.true_and]
    rcases hi with hi | hv
    · simp [hdep id hi]
    · rcases ha with rfl | rfl <;> simp [hv]


/-! ## the gov invariant of every history: no deposit or vote outlives its proposal's queue entry -/

/-- every operation keeps: an open proposal sits in the queue of its period, every deposit belongs to a queued proposal
and every vote to a proposal in the active queue -/
theorem govInv_step {s : State} (h : GovInv s) (op : Op) : GovInv (step cfg s op).1 := by
  have keep : ∀ (o : Option State), (∀ s', o = some s' → GovInv s') → GovInv (ofOpt s o).1 := by
    intro o ho
    cases o with
    | none => exact h
    | some s' => exact ho s' rfl
  cases op with
  | send x y d n =>
    simp only [step]
    apply keep
    intro s' hs
    cases hb : sendUnlocked s.bal (lockedOf s x d) x y d n <;> simp [hb] at hs
    subst hs; exact govInv_of_govOf h rfl
  | mint x d n => exact govInv_of_govOf h rfl
  | delegate d v amt rw => exact keep _ (fun s' hs => govInv_of_govOf h (delegate_gov hs))
  | undelegate d v amt rw => exact keep _ (fun s' hs => govInv_of_govOf h (undelegate_gov hs))
  | redelegate d x y amt r1 r2 => exact keep _ (fun s' hs => govInv_of_govOf h (redelegate_gov hs))
  | withdraw d v rw => exact keep _ (fun s' hs => govInv_of_govOf h (withdraw_gov hs))
  | setWithdraw d w => exact govInv_of_govOf h rfl
  | submit x dep => exact keep _ (fun s' hs => govInv_submit h hs)
  | deposit x id amt => exact keep _ (fun s' hs => govInv_deposit h hs)
  | vote x id => exact keep _ (fun s' hs => govInv_vote h hs)
  | block dt => exact govInv_endBlock h dt
  | setPeriods dp vp => exact govInv_of_govOf h rfl
  | setUnbond n => exact govInv_of_govOf h rfl
  | migrate f t sg =>
    simp only [step]
    cases hm : migrate cfg s f t sg with
    | error e => exact h
    | ok s' =>
      obtain ⟨_, _, _, _, _, _, _, rfl⟩ := migrate_ok_inv hm
      exact govInv_of_govOf h (migrated_gov cfg s f t)

/-- **invariant of every history**: from a state in which the gov bookkeeping is consistent (for instance one without
proposals, deposits and votes), after ANY list of operations — submissions, deposits, votes, blocks whose end blocker
drops, refunds and closes proposals, parameter changes, migrations — it still is -/
theorem govInv_run {s : State} (h : GovInv s) (ops : List Op) : GovInv (run cfg s ops) := by
  induction ops generalizing s with
  | nil => exact h
  | cons op ops ih => exact ih (govInv_step h op)

/-- **an accepted migration finds no deposit and no vote of source or target anywhere in the store** — not only none
of a proposal that is still open: in every state reachable by any history from a state with consistent gov bookkeeping,
when the migration is accepted, no deposit record and no vote record names the source or the target (the gov end blocker
refunds the deposits and drops the votes of a proposal exactly when it takes it out of its queue, and the migration's
scan walks both queues completely) -/
theorem no_deposit_or_vote_of_migrated {s0 : State} (hg : GovInv s0) (before : List Op) {s' : State} {frm to : Addr}
    {sigOk : Bool} (h : migrate cfg (run cfg s0 before) frm to sigOk = .ok s') :
    (∀ p ∈ (run cfg s0 before).deposits, p.1.2 ≠ frm ∧ p.1.2 ≠ to) ∧
    (∀ p ∈ (run cfg s0 before).votes, p.2 ≠ frm ∧ p.2 ≠ to) ∧
    (∀ p ∈ s'.deposits, p.1.2 ≠ frm ∧ p.1.2 ≠ to) ∧ (∀ p ∈ s'.votes, p.2 ≠ frm ∧ p.2 ≠ to) := by
  have h6 := (migrate_ok_inv h).2.2.2.2.2.2.1
  have hc := gov_clear_of_scan cfg (by rw [cfg_from_code]) (by rw [cfg_from_code]) (by rw [cfg_from_code])
    (by rw [cfg_from_code]) (by rw [cfg_from_code]) (by rw [cfg_from_code]) (govInv_run hg before) frm to h6
  obtain ⟨_, _, _, _, _, _, _, rfl⟩ := migrate_ok_inv h
  have e := migrated_gov cfg (run cfg s0 before) frm to
  simp only [govOf, Prod.mk.injEq] at e
  refine ⟨hc.1, hc.2, ?_, ?_⟩
  · show ∀ p ∈ (moved (run cfg s0 before) frm to).deposits, _
    unfold moved; rw [e.2.1]; exact hc.1
  · show ∀ p ∈ (moved (run cfg s0 before) frm to).votes, _
    unfold moved; rw [e.2.2.1]; exact hc.2

/-- **refused while involved in a proposal whose status is open**: in every reachable state, if the source or the
target is proposer, depositor or voter of a proposal whose stored status is deposit period (0) or voting period (1) —
whatever the queues look like: the invariant puts it in its queue — the migration is rejected; and so it is whenever ANY
deposit or vote record of source or target exists -/
theorem refused_while_proposal_status_open {s0 : State} (hg : GovInv s0) (before : List Op) (frm to a : Addr)
    (sigOk : Bool) (ha : a = frm ∨ a = to) (id : Nat)
    (hopen : (∃ pr, get (run cfg s0 before).props id = some pr ∧ (pr.status = 0 ∨ pr.status = 1) ∧ pr.proposer = a) ∨
             (get (run cfg s0 before).deposits (id, a)).isSome = true ∨ (id, a) ∈ (run cfg s0 before).votes) :
    ∀ s', migrate cfg (run cfg s0 before) frm to sigOk ≠ .ok s' := by
  intro s' h
  have gi := govInv_run hg before
  have hc := no_deposit_or_vote_of_migrated hg before h
  rcases hopen with ⟨pr, hp, hst, hpa⟩ | hd | hv
  · rcases hst with h0 | h1
    · exact refused_while_in_open_proposal _ frm to a sigOk id pr.depEnd ha
        (Or.inl ⟨gi.open0 id pr hp h0, Or.inl ⟨pr, hp, hpa⟩⟩) s' h
    · exact refused_while_in_open_proposal _ frm to a sigOk id pr.voteEnd ha
        (Or.inr ⟨gi.open1 id pr hp h1, Or.inl (Or.inl ⟨pr, hp, hpa⟩)⟩) s' h
  · cases hgd : get (run cfg s0 before).deposits (id, a) with
    | none => rw [hgd] at hd; cases hd
    | some n =>
      have hm := get_some_mem _ _ _ hgd
      have := hc.1 _ hm
      rcases ha with rfl | rfl
      · exact this.1 rfl
      · exact this.2 rfl
  · have := hc.2.1 _ hv
    rcases ha with rfl | rfl
    · exact this.1 rfl
    · exact this.2 rfl

/-- what remains of `MigEnv` once the gov invariant is known: neither address is a module pool, and no
delegator-withdraw-address setting or vesting schedule mentions the source or the target -/
structure MigEnvNoGov (s : State) (frm to : Addr) : Prop where
  modFix : ModFix frm to
  wd_frm : get s.wdAddr frm = none
  wd_to : get s.wdAddr to = none
  wd_val : ∀ a w, get s.wdAddr a = some w → w ≠ frm ∧ w ≠ to
  vest_frm : get s.vest frm = none
  vest_to : get s.vest to = none

/-- **later_behaviour_equal for every reachable state, without any assumption about deposits and votes**: as
`later_behaviour_equal_reachable`, with the deposit / vote part of `MigEnv` PROVED from the gov invariant of every
history instead of assumed -/
theorem later_behaviour_equal_reachable_gov {s0 : State} (hx : IdxInv s0) (hq : QInv s0) (hsi : SiInv s0 ∧ IdInv s0)
    (hg : GovInv s0) (before : List Op) {s' : State} {frm to : Addr} {sigOk : Bool}
    (h : migrate cfg (run cfg s0 before) frm to sigOk = .ok s') (env : MigEnvNoGov (run cfg s0 before) frm to)
    (later : List Op) (hl : ∀ op ∈ later, isMigrate op = false) :
    Sim frm to (run cfg (bankExecute cfg (run cfg s0 before) to frm) later) (run cfg s' (later.map (swOp frm to))) ∧
    trace cfg (bankExecute cfg (run cfg s0 before) to frm) later = trace cfg s' (later.map (swOp frm to)) := by
  have hc := no_deposit_or_vote_of_migrated hg before h
  exact later_behaviour_equal_reachable hx hq hsi before h
    ⟨env.modFix, env.wd_frm, env.wd_to, env.wd_val, hc.1, hc.2.1, env.vest_frm, env.vest_to⟩ later hl


/-! ## the source of an accepted migration is never a module pool -/

/-- no operation changes which accounts have a usable key -/
theorem hasKey_step (s : State) (op : Op) : (step cfg s op).1.hasKey = s.hasKey := by
  have keep : ∀ (o : Option State), (∀ s', o = some s' → keyOf s' = keyOf s) → (ofOpt s o).1.hasKey = s.hasKey := by
    intro o ho
    cases o with
    | none => rfl
    | some s' => exact ho s' rfl
  cases op with
  | send x y d n =>
    simp only [step]
    apply keep
    intro s' hs
    cases hb : sendUnlocked s.bal (lockedOf s x d) x y d n <;> simp [hb] at hs
    subst hs; rfl
  | mint x d n => rfl
  | delegate d v amt rw => exact keep _ (fun s' hs => delegate_key hs)
  | undelegate d v amt rw => exact keep _ (fun s' hs => undelegate_key hs)
  | redelegate d x y amt r1 r2 => exact keep _ (fun s' hs => redelegate_key hs)
  | withdraw d v rw => exact keep _ (fun s' hs => withdraw_key hs)
  | setWithdraw d w => rfl
  | submit x dep => exact keep _ (fun s' hs => submit_key hs)
  | deposit x id amt => exact keep _ (fun s' hs => deposit_key hs)
  | vote x id => exact keep _ (fun s' hs => vote_key hs)
  | block dt => exact endBlock_key s dt
  | setPeriods dp vp => rfl
  | setUnbond n => rfl
  | migrate f t sg =>
    simp only [step]
    cases hm : migrate cfg s f t sg with
    | error e => rfl
    | ok s' =>
      obtain ⟨_, _, _, _, _, _, _, rfl⟩ := migrate_ok_inv hm
      exact migrated_key cfg s f t

theorem hasKey_run (s : State) (ops : List Op) : (run cfg s ops).hasKey = s.hasKey := by
  induction ops generalizing s with
  | nil => rfl
  | cons op ops ih => exact (ih _).trans (hasKey_step s op)

/-- what remains to be assumed about the pair once module pools are known to have no key: the TARGET is not a module
pool, and no delegator-withdraw-address setting or vesting schedule mentions the source or the target -/
structure MigEnvMin (s : State) (frm to : Addr) : Prop where
  to_pool : to ≠ bondedPool ∧ to ≠ notBondedPool ∧ to ≠ govMod
  wd_frm : get s.wdAddr frm = none
  wd_to : get s.wdAddr to = none
  wd_val : ∀ a w, get s.wdAddr a = some w → w ≠ frm ∧ w ≠ to
  vest_frm : get s.vest frm = none
  vest_to : get s.vest to = none

/-- **later_behaviour_equal for every reachable state, the source's side of `ModFix` proved**: if no module pool has a
key in the initial state (the pools are module accounts: they never have one), then after ANY history the source of an
accepted migration is not a module pool — `checkMigrateFrom` demands a key and no operation hands one out — and the
simulation of `later_behaviour_equal_reachable_gov` holds under `MigEnvMin` -/
theorem later_behaviour_equal_reachable_min {s0 : State} (hx : IdxInv s0) (hq : QInv s0) (hsi : SiInv s0 ∧ IdInv s0)
    (hg : GovInv s0) (hk : bondedPool ∉ s0.hasKey ∧ notBondedPool ∉ s0.hasKey ∧ govMod ∉ s0.hasKey)
    (before : List Op) {s' : State} {frm to : Addr} {sigOk : Bool}
    (h : migrate cfg (run cfg s0 before) frm to sigOk = .ok s') (env : MigEnvMin (run cfg s0 before) frm to)
    (later : List Op) (hl : ∀ op ∈ later, isMigrate op = false) :
    Sim frm to (run cfg (bankExecute cfg (run cfg s0 before) to frm) later) (run cfg s' (later.map (swOp frm to))) ∧
    trace cfg (bankExecute cfg (run cfg s0 before) to frm) later = trace cfg s' (later.map (swOp frm to)) := by
  have hkey := (migrate_ok_inv h).2.2.2.2.1
  rw [hasKey_run] at hkey
  have hmem : frm ∈ s0.hasKey := List.contains_iff_mem.mp hkey
  have f1 : frm ≠ bondedPool := fun e => hk.1 (e ▸ hmem)
  have f2 : frm ≠ notBondedPool := fun e => hk.2.1 (e ▸ hmem)
  have f3 : frm ≠ govMod := fun e => hk.2.2 (e ▸ hmem)
  exact later_behaviour_equal_reachable_gov hx hq hsi hg before h
    ⟨⟨sw_fix frm to _ f1.symm env.to_pool.1.symm, sw_fix frm to _ f2.symm env.to_pool.2.1.symm,
      sw_fix frm to _ f3.symm env.to_pool.2.2.symm⟩, env.wd_frm, env.wd_to, env.wd_val, env.vest_frm, env.vest_to⟩ later hl


/-! ## non-vacuity -/

/-- a portfolio: balances in two denoms, delegations to two validators, an unbonding delegation sharing its completion
time with another delegator, a redelegation; account 2 is proposer of a proposal still in its deposit period -/
def exState : State :=
  { now := 10, vals := [100, 101, 102], hasKey := [1, 2],
    bal := [((1, 0), 500), ((1, 1), 7), ((11, 0), 3), ((2, 0), 50)],
    dels := [((1, 100), 90), ((1, 102), 20), ((2, 100), 70)], delIdx := [(100, 1), (102, 1), (100, 2)],
    startInfo := [((100, 1), (3, 90)), ((102, 1), (2, 20)), ((100, 2), (2, 70))],
    ubds := [((1, 100), [(305, 10, 1)]), ((2, 100), [(305, 10, 2)])], ubdIdx := [(100, 1), (100, 2)],
    ubdQ := [(305, [(1, 100), (2, 100)])],
    reds := [((1, 101, 102), [(305, 20, 3)])], redSrcIdx := [(101, 1, 102)], redDstIdx := [(102, 1, 101)],
    redQ := [(305, [(1, 101, 102)])], unbId := [(1, (1, 100, none)), (2, (2, 100, none)), (3, (1, 101, some 102))],
    props := [(1, { proposer := 2, status := 0, depEnd := 210, voteEnd := 0, total := 10 })],
    deposits := [((1, 2), 10)], inactiveQ := [(210, 1)] }

/-- the migration of account 1 to 11 is accepted (hypotheses of the theorems above are satisfiable) … -/
example : ∃ s', migrate cfg exState 1 11 true = .ok s' ∧ get s'.dels (11, 100) = some 90 ∧
    get s'.ubds (11, 100) = some [(305, 10, 1)] ∧ get s'.ubdQ 305 = some [(11, 100), (2, 100)] ∧
    (100, 11) ∈ s'.delIdx ∧ (100, 1) ∉ s'.delIdx ∧ balOf s'.bal 11 0 = 503 ∧ balOf s'.bal 1 0 = 0 :=
  ⟨_, rfl, by decide, by decide, by decide, by decide, by decide, by decide, by decide⟩

/-- … while account 2, proposer and depositor of the proposal in its deposit period (end time 210 > now 10), is refused,
and so is a validator operator, a missing signature, and a second use of 11 -/
example : migrate cfg exState 2 12 true = .error .gov := rfl
example : migrate cfg exState 100 12 true = .error .account := rfl
example : migrate cfg { exState with hasKey := [100] } 100 12 true = .error .validator := rfl
example : migrate cfg exState 1 11 false = .error .sig := rfl
example : migrate cfg exState 1 2 true = .error .toStaking := rfl
example : (2 = 2 ∨ 2 = 12) ∧ ((210, 1) ∈ exState.inactiveQ ∧ involvedDeposit exState 2 1) :=
  ⟨Or.inl rfl, by decide, Or.inl ⟨_, rfl, rfl⟩⟩


/-! ### the theorems depend on the regenerated facts: witnesses for other readings of the code -/

/-- a source whose unbonding delegation with validator 100 has two entries completing at different times -/
def exTwo : State :=
  { now := 10, vals := [100], hasKey := [1, 2],
    dels := [((1, 100), 90)], delIdx := [(100, 1)], startInfo := [((100, 1), (3, 90))],
    ubds := [((1, 100), [(305, 10, 1), (400, 5, 2)])], ubdIdx := [(100, 1)],
    ubdQ := [(305, [(1, 100)]), (400, [(1, 100)])], unbId := [(1, (1, 100, none)), (2, (1, 100, none))] }

/-- with the code as it is, both slices are rewritten … -/
example : get (stakingExecute cfg exTwo 1 11).ubdQ 305 = some [(11, 100)] ∧
    get (stakingExecute cfg exTwo 1 11).ubdQ 400 = some [(11, 100)] := by decide

/-- … were the entry loop left after the first entry of a record (`qEveryEntry = false`: a `continue`/`break`, or a
rewrite flag shared by the entries), the second entry's queue element would keep naming the source, and the end blocker
would never complete it … -/
example : get (stakingExecute { cfg with qEveryEntry := false } exTwo 1 11).ubdQ 400 = some [(1, 100)] := by decide

/-- … were the already-migrated guards the role-specific direction flags (`recKeyFrom = GetMigratedDirectionFrom`,
`recKeyTo = GetMigratedDirectionTo`), the source 1 of an accepted migration 1 → 11 could be the target of a later one … -/
example : ∃ s1 s2,
    migrate { cfg with recKeyFrom := "GetMigratedDirectionFrom", recKeyTo := "GetMigratedDirectionTo" } exState 1 11 true = .ok s1 ∧
    migrate { cfg with recKeyFrom := "GetMigratedDirectionFrom", recKeyTo := "GetMigratedDirectionTo" }
      { s1 with props := [], deposits := [], inactiveQ := [] } 2 1 true = .ok s2 ∧
    migrate cfg { s1 with props := [], deposits := [], inactiveQ := [] } 2 1 true = .error .migrated :=
  ⟨_, _, rfl, rfl, rfl⟩

/-- … and were the target's deposit not looked at (`gDepositTo = false`), a target that is depositor of a proposal in its
deposit period would be accepted -/
example : migrate cfg { exState with deposits := [((1, 11), 10)], props := [(1, { proposer := 3, status := 0, depEnd := 210, voteEnd := 0, total := 10 })] } 1 11 true = .error .gov ∧
    ∃ s', migrate { cfg with gDepositTo := false }
      { exState with deposits := [((1, 11), 10)], props := [(1, { proposer := 3, status := 0, depEnd := 210, voteEnd := 0, total := 10 })] } 1 11 true = .ok s' :=
  ⟨rfl, _, rfl⟩


/-! ### non-vacuity of later_behaviour_equal_reachable -/

/-- a state without any staking record: one validator, a funded user with key, funded pools -/
def exBase : State :=
  { vals := [100], hasKey := [1], valTok := [(100, 1000)], period := [(100, 2)],
    bal := [((1, 0), 500), ((1, 1), 7), ((bondedPool, 0), 1000), ((notBondedPool, 0), 5)] }

/-- delegate, undelegate part of it, let a block pass -/
def exBefore : List Op := [.delegate 1 100 90 0, .undelegate 1 100 10 0, .block 5]

/-- the four invariants hold in `exBase` (no staking records), the migration of 1 to 11 after `exBefore` is accepted, and
`MigEnv` holds in the state reached: all hypotheses of `later_behaviour_equal_reachable` are satisfiable together; 300
seconds later the unbonding entry has matured and is paid to the target -/
example : IdxInv exBase ∧ QInv exBase ∧ (SiInv exBase ∧ IdInv exBase) ∧
    (∃ s', migrate cfg (run cfg exBase exBefore) 1 11 true = .ok s' ∧
      balOf (run cfg s' [.block 300, .block 1]).bal 11 0 = balOf s'.bal 11 0 + 10) ∧
    MigEnv (run cfg exBase exBefore) 1 11 := by
  refine ⟨idxInv_base exBase rfl rfl rfl rfl rfl rfl rfl, qInv_base exBase rfl rfl, siIdInv_base exBase rfl rfl rfl rfl,
    ⟨_, rfl, by decide⟩, ⟨⟨by decide, by decide, by decide⟩, rfl, rfl, fun a w h => ?_, fun p hp => ?_, fun p hp => ?_, rfl, rfl⟩⟩
  · have : (run cfg exBase exBefore).wdAddr = [] := rfl
    rw [this, get_nil] at h; cases h
  · have : (run cfg exBase exBefore).deposits = [] := rfl
    rw [this] at hp; cases hp
  · have : (run cfg exBase exBefore).votes = [] := rfl
    rw [this] at hp; cases hp

/-! ### other readings of the message-server program (what `handler_program_as_modelled` excludes) -/

/-- the order of the two loops matters: with `execute-all` before `validate-all` the staking check would meet the
delegations it has just moved under the target and refuse every source that holds one -/
example : (∃ s', migrateProg cfg Gen.C14.handlerOrder Gen.C14.migrateHandlers exState 1 11 true = .ok s') ∧
    migrateProg cfg ["check-record-from", "check-record-to", "check-from-account", "execute-all", "validate-all", "set-record"]
      Gen.C14.migrateHandlers exState 1 11 true = .error .toStaking :=
  ⟨⟨_, rfl⟩, rfl⟩

/-- and so does the wiring: without the gov handler among the registered ones the proposer of a proposal still in its
deposit period migrates -/
example : migrateProg cfg Gen.C14.handlerOrder Gen.C14.migrateHandlers exState 2 12 true = .error .gov ∧
    ∃ s', migrateProg cfg Gen.C14.handlerOrder ["NewBankMigrate", "NewDistrStakingMigrate"] exState 2 12 true = .ok s' :=
  ⟨rfl, _, rfl⟩

/-! ### non-vacuity of the gov invariant theorems -/

/-- a state without staking records and without proposals: one validator, two funded users with key, funded pools -/
def exBaseG : State :=
  { vals := [100], hasKey := [1, 2], valTok := [(100, 1000)], period := [(100, 2)],
    bal := [((1, 0), 5000), ((2, 0), 5000), ((bondedPool, 0), 1000), ((notBondedPool, 0), 5)] }

/-- user 1 delegates and undelegates, user 2 submits a proposal below the minimum deposit, user 1 deposits on it -/
def exBeforeG : List Op := [.delegate 1 100 90 0, .undelegate 1 100 10 0, .submit 2 100, .deposit 1 1 50, .block 5]

/-- while the proposal is in its deposit period user 1 is refused (hypotheses of `refused_while_proposal_status_open`:
the invariant holds in `exBaseG`, the deposit record exists); the deposit period ends unfunded at time 200, the end
blocker of the first block at or after it refunds user 1 and deletes the proposal; then the migration is accepted, no
deposit record is left, and all hypotheses of `later_behaviour_equal_reachable_gov` hold together -/
example : GovInv exBaseG ∧
    (get (run cfg exBaseG exBeforeG).deposits (1, 1)).isSome = true ∧
    migrate cfg (run cfg exBaseG exBeforeG) 1 11 true = .error .gov ∧
    (∃ s', migrate cfg (run cfg exBaseG (exBeforeG ++ [.block 200, .block 1])) 1 11 true = .ok s' ∧ s'.deposits = [] ∧
      balOf s'.bal 11 0 = 4910) ∧
    IdxInv exBaseG ∧ QInv exBaseG ∧ (SiInv exBaseG ∧ IdInv exBaseG) ∧
    MigEnvNoGov (run cfg exBaseG (exBeforeG ++ [.block 200, .block 1])) 1 11 := by
  refine ⟨govInv_base exBaseG rfl rfl rfl, by decide, rfl, ⟨_, rfl, by decide, by decide⟩,
    idxInv_base exBaseG rfl rfl rfl rfl rfl rfl rfl, qInv_base exBaseG rfl rfl, siIdInv_base exBaseG rfl rfl rfl rfl,
    ⟨⟨by decide, by decide, by decide⟩, rfl, rfl, fun a w h => ?_, rfl, rfl⟩⟩
  have : (run cfg exBaseG (exBeforeG ++ [.block 200, .block 1])).wdAddr = [] := rfl
  rw [this, get_nil] at h; cases h

/-- the hypotheses of `later_behaviour_equal_reachable_min` hold together in the same example: no pool has a key in
`exBaseG`, and `MigEnvMin` holds in the state in which the migration is accepted -/
example : (bondedPool ∉ exBaseG.hasKey ∧ notBondedPool ∉ exBaseG.hasKey ∧ govMod ∉ exBaseG.hasKey) ∧
    MigEnvMin (run cfg exBaseG (exBeforeG ++ [.block 200, .block 1])) 1 11 := by
  refine ⟨by decide, ⟨by decide, rfl, rfl, fun a w h => ?_, rfl, rfl⟩⟩
  have : (run cfg exBaseG (exBeforeG ++ [.block 200, .block 1])).wdAddr = [] := rfl
  rw [this, get_nil] at h; cases h

/-! ### non-vacuity of later_behaviour_equal -/

/-- the example state with a funded not-bonded pool -/
def exLater : State := { exState with bal := ((notBondedPool, 0), 40) :: exState.bal }

/-- the consistency hypothesis of `later_behaviour_equal` holds in the example state for the pair (1, 11) -/
theorem exLater_wf : MigWF exLater 1 11 := by
  refine ⟨⟨by decide, by decide, by decide⟩, fun v => ⟨fun h => ?_, fun ⟨sh, h⟩ => ?_⟩, fun v h => ?_, fun v h => ?_, fun v => ?_,
    fun v => ⟨fun h => ?_, fun ⟨es, h⟩ => ?_⟩, fun v h => ?_, fun x => ⟨fun h => ?_, fun ⟨es, h⟩ => ?_⟩, fun x h => ?_,
    fun x => ⟨fun h => ?_, fun ⟨es, h⟩ => ?_⟩, fun x h => ?_, by decide, fun p hp x hx e => ?_, fun p hp x hx => ?_,
    by decide, fun p hp x hx e => ?_, fun p hp x hx => ?_, fun v es e hg he => ?_, fun a b es e hg he => ?_,
    fun id r hg e => ?_, fun id r hg => ?_, rfl, rfl, fun a w h => ?_, fun p hp => ?_, fun p hp => ?_, rfl, rfl⟩
  · have : v = 100 ∨ v = 102 := by simpa [exLater, exState] using h
    rcases this with rfl | rfl <;> exact ⟨_, rfl⟩
  · have := get_some_mem _ _ _ h
    simp [exLater, exState] at this ⊢
    rcases this with ⟨rfl, _⟩ | ⟨rfl, _⟩ <;> simp
  · simp [exLater, exState] at h
  · apply get_none_of_no_key
    intro p hp e
    simp only [exLater, exState, List.mem_cons, List.not_mem_nil, or_false] at hp
    rcases hp with rfl | rfl | rfl <;> cases e <;> exact absurd h (by decide)
  · apply get_none_of_no_key
    intro p hp e
    simp only [exLater, exState, List.mem_cons, List.not_mem_nil, or_false] at hp
    rcases hp with rfl | rfl | rfl <;> cases e
  · have : v = 100 := by simpa [exLater, exState] using h
    subst this; exact ⟨_, rfl⟩
  · have := get_some_mem _ _ _ h
    simp [exLater, exState] at this ⊢
    exact this.1
  · simp [exLater, exState] at h
  · obtain ⟨a, b⟩ := x
    have : a = 101 ∧ b = 102 := by simpa [exLater, exState] using h
    obtain ⟨rfl, rfl⟩ := this; exact ⟨_, rfl⟩
  · obtain ⟨a, b⟩ := x
    have := get_some_mem _ _ _ h
    simp [exLater, exState] at this ⊢
    exact ⟨this.1.1, this.1.2⟩
  · simp [exLater, exState] at h
  · obtain ⟨a, b⟩ := x
    have : b = 102 ∧ a = 101 := by simpa [exLater, exState] using h
    obtain ⟨rfl, rfl⟩ := this; exact ⟨_, rfl⟩
  · obtain ⟨a, b⟩ := x
    have := get_some_mem _ _ _ h
    simp [exLater, exState] at this ⊢
    exact ⟨this.1.2, this.1.1⟩
  · simp [exLater, exState] at h
  · simp only [exLater, exState, List.mem_cons, List.not_mem_nil, or_false] at hp
    subst hp
    exact ⟨100, _, rfl, _, List.mem_cons_self .., rfl⟩
  · simp only [exLater, exState, List.mem_cons, List.not_mem_nil, or_false] at hp
    subst hp
    simp only [List.mem_cons, List.not_mem_nil, or_false] at hx
    rcases hx with rfl | rfl <;> decide
  · simp only [exLater, exState, List.mem_cons, List.not_mem_nil, or_false] at hp
    subst hp
    exact ⟨(101, 102), _, rfl, _, List.mem_cons_self .., rfl⟩
  · simp only [exLater, exState, List.mem_cons, List.not_mem_nil, or_false] at hp
    subst hp
    simp only [List.mem_cons, List.not_mem_nil, or_false] at hx
    subst hx; decide
  · have := get_some_mem _ _ _ hg
    simp [exLater, exState] at this
    obtain ⟨rfl, rfl⟩ := this
    simp only [List.mem_cons, List.not_mem_nil, or_false] at he
    subst he; rfl
  · have := get_some_mem _ _ _ hg
    simp [exLater, exState] at this
    obtain ⟨⟨rfl, rfl⟩, rfl⟩ := this
    simp only [List.mem_cons, List.not_mem_nil, or_false] at he
    subst he; rfl
  · have := get_some_mem _ _ _ hg
    simp only [exLater, exState, List.mem_cons, List.not_mem_nil, or_false] at this
    rcases this with h1 | h1 | h1 <;> cases h1
    · exact Or.inl ⟨100, _, _, rfl, List.mem_cons_self .., rfl⟩
    · cases e
    · exact Or.inr ⟨101, 102, _, _, rfl, List.mem_cons_self .., rfl⟩
  · have := get_some_mem _ _ _ hg
    simp only [exLater, exState, List.mem_cons, List.not_mem_nil, or_false] at this
    rcases this with h1 | h1 | h1 <;> cases h1 <;> decide
  · exact absurd h (by simp [exLater, exState, get_nil])
  · simp only [exLater, exState, List.mem_cons, List.not_mem_nil, or_false] at hp
    subst hp; decide
  · simp [exLater, exState] at hp
/-- the migration of 1 to 11 is accepted in `exLater`; two blocks later (time 311 > 305) the unbonding entry of the
former source has matured and its 10 coins are paid to the target 11, whose unbonding record is gone; the retired
source 1 holds nothing -/
example : ∃ s', migrate cfg exLater 1 11 true = .ok s' ∧
    balOf (run cfg s' [.block 300, .block 1]).bal 11 0 = balOf s'.bal 11 0 + 10 ∧
    get s'.ubds (11, 100) = some [(305, 10, 1)] ∧ get (run cfg s' [.block 300, .block 1]).ubds (11, 100) = none ∧
    balOf (run cfg s' [.block 300, .block 1]).bal 1 0 = 0 :=
  ⟨_, rfl, by decide, by decide, by decide, by decide⟩

/-! ## a migration delivered as a transaction of a block -/

/-- **tx_block_is_a_history**: the block that carries a migration as a signed transaction (what the driver runs for a
`txblock` line: `ValidateBasic`, ante handler with fee payment, message server as regenerated program, end blockers) ends in
the state of the op list `txOps` run by `run` — fee payment, migration, block, or the block alone when the transaction is
refused before the fee is taken — so every theorem about histories (`run`) covers transactions delivered through
`FinalizeBlock` -/
theorem tx_block_is_a_history (s : State) (dt fee : Nat) (txSigner frm to : Addr) (sigOk : Bool) :
    (txBlock cfg Gen.C14.handlerOrder Gen.C14.migrateHandlers s dt fee txSigner frm to sigOk).1 =
      run cfg s (txOps cfg s dt fee txSigner frm to sigOk).1 := by
  unfold txBlock run
  simp only [stepP_eq_step]

/-- a transaction not signed by the source's account key, or one whose source cannot pay the fee, moves nothing: the block
is the empty block -/
theorem tx_block_needs_source_signature (s : State) (dt fee : Nat) (txSigner frm to : Addr) (sigOk : Bool)
    (h : txSigner ≠ frm) : (txOps cfg s dt fee txSigner frm to sigOk).1 = [.block dt] := by
  unfold txOps
  split
  · rfl
  split
  · rfl
  have : (txSigner != frm) = true := by simpa using h
  simp [this]

/-- non-vacuity: in `exState` the migration of 1 to 11 delivered as a transaction with fee 5 is accepted, the fee is paid by
the source before its balances move, and a transaction signed by account 2 is refused by the ante handler -/
example : (txOps cfg exState 1 5 1 1 11 true).2 = "ok" ∧
    (txOps cfg exState 1 5 1 1 11 true).1 = [.send 1 feeCollector 0 5, .migrate 1 11 true, .block 1] ∧
    (txOps cfg exState 1 5 2 1 11 true).2 = "err:ante" := by decide

/-! ## genesis export / import: the one-shot records survive a restart -/

/-- every operation keeps the pairing of the migration records (only an accepted migration writes them) -/
theorem recInv_step {s : State} (h : RecInv s) (op : Op) : RecInv (step cfg s op).1 := by
  have keep : ∀ (o : Option State), (∀ s', o = some s' → recT s' = recT s) → RecInv (ofOpt s o).1 := by
    intro o ho
    cases o with
    | none => exact h
    | some s' => exact h.of_recT (ho s' rfl)
  cases op with
  | send x y d n =>
    simp only [step]
    apply keep
    intro s' hs
    cases hb : sendUnlocked s.bal (lockedOf s x d) x y d n <;> simp [hb] at hs
    subst hs; rfl
  | mint x d n => exact h.of_recT rfl
  | delegate d v amt rw => exact keep _ (fun s' hs => delegate_recT hs)
  | undelegate d v amt rw => exact keep _ (fun s' hs => undelegate_recT hs)
  | redelegate d x y amt r1 r2 => exact keep _ (fun s' hs => redelegate_recT hs)
  | withdraw d v rw => exact keep _ (fun s' hs => withdraw_recT hs)
  | setWithdraw d w => exact h.of_recT rfl
  | submit x dep => exact keep _ (fun s' hs => submit_recT hs)
  | deposit x id amt => exact keep _ (fun s' hs => deposit_recT hs)
  | vote x id => exact keep _ (fun s' hs => vote_recT hs)
  | block dt => simp only [step]; exact h.of_recT (endBlock_recT s dt)
  | setPeriods dp vp => exact h.of_recT rfl
  | setUnbond n => exact h.of_recT rfl
  | migrate f t sg =>
    simp only [step]
    cases hm : migrate cfg s f t sg with
    | error e => exact h
    | ok s' =>
      obtain ⟨hne, _, hf, ht, _, _, _, rfl⟩ := migrate_ok_inv hm
      have hx : recT (stakingExecute cfg (bankExecute cfg s f t) f t) = recT s :=
        (stakingExecute_recT cfg _ f t).trans rfl
      have e1 : (stakingExecute cfg (bankExecute cfg s f t) f t).recs = s.recs := congrArg (·.1) hx
      have e2 : (stakingExecute cfg (bankExecute cfg s f t) f t).dirFrom = s.dirFrom := congrArg (·.2.1) hx
      have e3 : (stakingExecute cfg (bankExecute cfg s f t) f t).dirTo = s.dirTo := congrArg (·.2.2) hx
      refine h.set f t hne hf ht (s' := moved s f t) ?_ ?_ ?_
      · show put (put _ f (true, t)) t (false, f) = _; rw [e1]
      · show ins _ f = _; rw [e2]
      · show ins _ t = _; rw [e3]

/-- the pairing holds after every history (migrations included) from a state where it holds -/
theorem recInv_run {s : State} (h : RecInv s) (ops : List Op) : RecInv (run cfg s ops) := by
  induction ops generalizing s with
  | nil => exact h
  | cons op ops ih => exact ih (recInv_step h op)

theorem recInv_base (s : State) (h1 : s.recs = []) (h2 : s.dirFrom = []) (h3 : s.dirTo = []) : RecInv s := by
  refine ⟨?_, ?_, ?_⟩
  · intro a b fl hab; rw [h1, get_nil] at hab; cases hab
  · intro a; rw [h2, h1]; simp [get_nil]
  · intro a; rw [h3, h1]; simp [get_nil]

/-- `ExportGenesis` as read from the code exports exactly the records stored under their source -/
theorem export_spec (s : State) (r : Addr × Addr) :
    r ∈ exportGenesis cfg s ↔ get s.recs r.1 = some (true, r.2) := by
  unfold exportGenesis
  rw [cfg_from_code]
  simp only [beq_self_eq_true, ↓reduceIte, Bool.false_eq_true, List.mem_map, List.mem_filter, visible, beq_iff_eq]
  constructor
  · rintro ⟨p, ⟨⟨_, hg⟩, hfl⟩, rfl⟩
    obtain ⟨a, fl, b⟩ := p
    simp only at hfl hg ⊢
    subst hfl; exact hg
  · intro hg
    exact ⟨(r.1, true, r.2), ⟨⟨get_some_mem _ _ _ hg, hg⟩, rfl⟩, rfl⟩

/-- `InitGenesis` as read from the code: the fold of `SetMigrateRecord` over the exported records -/
theorem import_fields (s : State) (E : List (Addr × Addr)) :
    (initGenesis cfg s E).recs = impRecs [] E ∧
    (initGenesis cfg s E).dirFrom = (E.map (·.1)).foldl ins [] ∧
    (initGenesis cfg s E).dirTo = (E.map (·.2)).foldl ins [] := by
  have hi : cfg.gImportSets = true := by rw [cfg_from_code]
  unfold initGenesis
  simp only [hi, ↓reduceIte]
  have gen : ∀ s0 : State,
      (E.foldl (fun s r => setRecord cfg s r.1 r.2) s0).recs = impRecs s0.recs E ∧
      (E.foldl (fun s r => setRecord cfg s r.1 r.2) s0).dirFrom = (E.map (·.1)).foldl ins s0.dirFrom ∧
      (E.foldl (fun s r => setRecord cfg s r.1 r.2) s0).dirTo = (E.map (·.2)).foldl ins s0.dirTo := by
    induction E with
    | nil => intro s0; exact ⟨rfl, rfl, rfl⟩
    | cons r E ih =>
      intro s0
      simp only [List.foldl_cons, List.map_cons, impRecs]
      have := ih (setRecord cfg s0 r.1 r.2)
      rw [setRecord_cfg] at this ⊢
      exact this
  exact gen _

/-- **genesis_round_trip**: in every state whose records are paired (every reachable state: `recInv_run`), a chain restarted
from its own exported genesis — `ExportGenesis` then `InitGenesis` as read from the code — finds, for every address, the same
record and the same direction flags as before; nothing else is touched and the pairing holds again -/
theorem genesis_round_trip {s : State} (h : RecInv s) (a : Addr) :
    get (genesisRoundTrip cfg s).recs a = get s.recs a ∧
    (a ∈ (genesisRoundTrip cfg s).dirFrom ↔ a ∈ s.dirFrom) ∧
    (a ∈ (genesisRoundTrip cfg s).dirTo ↔ a ∈ s.dirTo) := by
  obtain ⟨e1, e2, e3⟩ := import_fields s (exportGenesis cfg s)
  unfold genesisRoundTrip
  rw [e1, e2, e3]
  refine ⟨import_export_get h _ (export_spec s) a, ?_, ?_⟩
  · rw [mem_foldl_ins, h.dirF]
    simp only [List.mem_map, List.not_mem_nil, or_false]
    constructor
    · rintro ⟨r, hr, rfl⟩; exact ⟨r.2, (export_spec s r).mp hr⟩
    · rintro ⟨b, hb⟩; exact ⟨(a, b), (export_spec s (a, b)).mpr hb, rfl⟩
  · rw [mem_foldl_ins, h.dirT]
    simp only [List.mem_map, List.not_mem_nil, or_false]
    constructor
    · rintro ⟨r, hr, rfl⟩
      have := h.pair _ _ _ ((export_spec s r).mp hr)
      exact ⟨r.1, this⟩
    · rintro ⟨b, hb⟩
      have := h.pair _ _ _ hb
      exact ⟨(b, a), (export_spec s (b, a)).mpr this, rfl⟩

theorem genesis_round_trip_inv {s : State} (h : RecInv s) : RecInv (genesisRoundTrip cfg s) := by
  refine ⟨?_, ?_, ?_⟩
  · intro a b fl hab
    rw [(genesis_round_trip h a).1] at hab
    rw [(genesis_round_trip h b).1]
    exact h.pair a b fl hab
  · intro a; rw [(genesis_round_trip h a).2.1, (genesis_round_trip h a).1]; exact h.dirF a
  · intro a; rw [(genesis_round_trip h a).2.2, (genesis_round_trip h a).1]; exact h.dirT a

/-- **never_reused_across_restart**: once a migration of `frm` to `to` was accepted, then after any later history, a restart
of the chain from its exported genesis, and any further history, every migration whose source or target is `frm` or `to`
is still rejected (`s0`: any state with paired records, e.g. the empty module store — `recInv_base`) -/
theorem never_reused_across_restart {s0 : State} (h0 : RecInv s0) (before : List Op) {s' : State} {frm to : Addr}
    {sigOk : Bool} (h : migrate cfg (run cfg s0 before) frm to sigOk = .ok s')
    (later further : List Op) (a b : Addr) (sg : Bool) (hab : a = frm ∨ a = to ∨ b = frm ∨ b = to) :
    ∀ s'', migrate cfg (run cfg (genesisRoundTrip cfg (run cfg s' later)) further) a b sg ≠ .ok s'' := by
  intro s'' h2
  have hs' : RecInv s' := by
    have := recInv_step (recInv_run h0 before) (.migrate frm to sigOk)
    simp only [step, h] at this
    exact this
  have hl := recInv_run hs' later
  obtain ⟨hne, _, _, _, _, _, _, rfl⟩ := migrate_ok_inv h
  have hf : (get (moved (run cfg s0 before) frm to).recs frm).isSome = true := by
    show (get (put (put _ frm (true, to)) to (false, frm)) frm).isSome = true
    rw [get_put_ne _ _ _ _ hne, get_put_eq]; rfl
  have ht : (get (moved (run cfg s0 before) frm to).recs to).isSome = true := by
    show (get (put (put _ frm (true, to)) to (false, frm)) to).isSome = true
    rw [get_put_eq]; rfl
  have hf' := records_kept_run _ later frm hf
  have ht' := records_kept_run _ later to ht
  rw [← (genesis_round_trip hl frm).1] at hf'
  rw [← (genesis_round_trip hl to).1] at ht'
  have hf'' := records_kept_run _ further frm hf'
  have ht'' := records_kept_run _ further to ht'
  obtain ⟨_, _, ha, hb, _⟩ := migrate_ok_inv h2
  rcases hab with rfl | rfl | rfl | rfl
  · rw [ha] at hf''; cases hf''
  · rw [ha] at ht''; cases ht''
  · rw [hb] at hf''; cases hf''
  · rw [hb] at ht''; cases ht''

/-- non-vacuity: the empty module store is paired; the migration of 1 to 11 is accepted in `exState`, and after a restart
from the exported genesis both records and both direction flags are there again and the same pair is refused -/
example : RecInv exBase := recInv_base exBase rfl rfl rfl
example : ∃ s', migrate cfg exState 1 11 true = .ok s' ∧
    exportGenesis cfg s' = [(1, 11)] ∧
    get (genesisRoundTrip cfg s').recs 1 = some (true, 11) ∧ get (genesisRoundTrip cfg s').recs 11 = some (false, 1) ∧
    (genesisRoundTrip cfg s').dirFrom = [1] ∧ (genesisRoundTrip cfg s').dirTo = [11] ∧
    (match migrate cfg (genesisRoundTrip cfg s') 1 12 true with | .error .migrated => true | _ => false) = true ∧
    (match migrate cfg (genesisRoundTrip cfg s') 2 11 true with | .error .migrated => true | _ => false) = true :=
  ⟨_, rfl, by decide, by decide, by decide, by decide, by decide, by decide, by decide⟩

/-! ## accounts: a migrated unbonding entry matures into an existing account (repair `13ce831`)

`Model/C14Acct.lean`: the state with the set of existing accounts, the pay-out with `UndelegateCoins`' account lookup (a
delegator without account: the pool is debited, the call fails, the error is ignored — coins destroyed, entry stuck), the
account set produced by the statement list of `MigrateAccount` (regenerated) and by bank credits.  The driver runs `stepA`. -/

/-- the statement list of `MigrateAccount` as it is in the source creates the target account (`ensure-to-account`: `if
GetAccount(to) == nil { SetAccount(NewAccountWithAddress(to)) }`, recognised only with both addresses `toAddress` and the
new account stored) -/
theorem target_account_created_from_code (to : Addr) : stmtAccounts Gen.C14.handlerOrder to = [to] := by
  rw [handler_lists_from_code.1]
  rfl

/-- an accepted migration leaves delegations / unbonding records only where they were, or under the target -/
theorem accept_keys_from_code : AcceptKeys cfg Gen.C14.handlerOrder Gen.C14.migrateHandlers := by
  intro s s' frm to sigOk h
  rw [handler_program_as_modelled] at h
  refine ⟨fun x v hk => ?_, fun x v hk => ?_⟩
  · rw [portfolio_moved_delegations h x v] at hk
    by_cases e : x = to
    · exact Or.inl e
    · rw [if_neg e] at hk
      by_cases e2 : x = frm
      · rw [if_pos e2] at hk; cases hk
      · rw [if_neg e2] at hk; exact Or.inr ⟨v, hk⟩
  · rw [portfolio_moved_unbonding h x v] at hk
    by_cases e : x = to
    · exact Or.inl e
    · rw [if_neg e] at hk
      by_cases e2 : x = frm
      · rw [if_pos e2] at hk; cases hk
      · rw [if_neg e2] at hk; exact Or.inr ⟨v, hk⟩

/-- the history the driver runs (operations with accounts, message server as regenerated program) -/
abbrev runAcct (a : AState) (ops : List Op) : AState := runA cfg Gen.C14.handlerOrder Gen.C14.migrateHandlers a ops

/-- **no pay-out ever fails** (what the repair makes true): from any state in which every holder of a coin, a delegation or
an unbonding record exists as an account (`AcctInv`; in particular any state without staking records whose funded addresses
exist), along EVERY history — migrations to targets that never existed included — the invariant holds, the account lookup
of `UndelegateCoins` never fails (the store-level state is exactly the one `run` computes without the lookup, so every
matured entry is paid in full to its delegator, and all theorems about `run` apply), no coin is destroyed, and no account
disappears -/
theorem no_payout_fails (a : AState) (inv : AcctInv a) (ops : List Op) :
    AcctInv (runAcct a ops) ∧ (runAcct a ops).s = run cfg a.s ops ∧ (runAcct a ops).burnt = a.burnt ∧
    (∀ x, x ∈ a.accts → x ∈ (runAcct a ops).accts) := by
  obtain ⟨i, e, b, m⟩ := acctInv_runA accept_keys_from_code
    (fun to => by rw [target_account_created_from_code]; exact List.mem_singleton.mpr rfl) ops inv
  refine ⟨i, ?_, b, m⟩
  rw [e]
  unfold run
  congr 1
  funext s o
  rw [stepP_eq_step]

/-- **every migrated unbonding entry matures into an existing account**: after any history, an accepted migration and any
later history, the target exists as an account (whether or not it existed, whether or not the source had a liquid coin),
every unbonding record it holds is one whose pay-out finds the account, and the block that matures them is the block of
`step`: `later_behaviour_equal` / `portfolio_moved_*` say the full amount reaches the target, `totals_unchanged` + the
bank lemmas that nothing is lost -/
theorem migrated_entries_mature_into_account (a : AState) (inv : AcctInv a) (before later : List Op) (frm to : Addr)
    (s' : State) (h : migrate cfg (run cfg a.s before) frm to true = .ok s') :
    let a2 := runAcct a (before ++ [Op.migrate frm to true] ++ later)
    to ∈ a2.accts ∧ a2.burnt = a.burnt ∧ a2.s = run cfg s' later ∧
    (∀ dt, (stepA cfg Gen.C14.handlerOrder Gen.C14.migrateHandlers a2 (.block dt)).1.s = endBlock a2.s dt ∧
           (stepA cfg Gen.C14.handlerOrder Gen.C14.migrateHandlers a2 (.block dt)).1.burnt = a.burnt) := by
  intro a2
  obtain ⟨i1, e1, b1, _⟩ := no_payout_fails a inv before
  have hstep : stepA cfg Gen.C14.handlerOrder Gen.C14.migrateHandlers (runAcct a before) (.migrate frm to true) =
      (acceptA Gen.C14.handlerOrder (runAcct a before) s' to, "ok") := by
    simp only [stepA]
    rw [handler_program_as_modelled, e1, h]
  have hmid : runAcct a (before ++ [Op.migrate frm to true]) = acceptA Gen.C14.handlerOrder (runAcct a before) s' to := by
    show List.foldl _ a (before ++ [Op.migrate frm to true]) = _
    rw [List.foldl_append]
    show (stepA cfg Gen.C14.handlerOrder Gen.C14.migrateHandlers (runAcct a before) (.migrate frm to true)).1 = _
    rw [hstep]
  have i2 : AcctInv (acceptA Gen.C14.handlerOrder (runAcct a before) s' to) := by
    have := (acctInv_stepA accept_keys_from_code
      (fun to => by rw [target_account_created_from_code]; exact List.mem_singleton.mpr rfl) i1 (.migrate frm to true)).1
    rw [hstep] at this
    exact this
  have hto : to ∈ (acceptA Gen.C14.handlerOrder (runAcct a before) s' to).accts := by
    simp [acceptA, target_account_created_from_code]
  have ha2 : a2 = runAcct (acceptA Gen.C14.handlerOrder (runAcct a before) s' to) later := by
    show List.foldl _ a (before ++ [Op.migrate frm to true] ++ later) = _
    rw [List.foldl_append]
    show runAcct (runAcct a (before ++ [Op.migrate frm to true])) later = _
    rw [hmid]
  obtain ⟨i3, e3, b3, m3⟩ := no_payout_fails _ i2 later
  rw [← ha2] at i3 e3 b3 m3
  refine ⟨m3 to hto, by rw [b3]; exact b1, e3, fun dt => ?_⟩
  rw [stepA_block i3]
  exact ⟨rfl, by rw [b3]; exact b1⟩

/-- **the statement is necessary**: with a statement list that does not create the target account, an accepted migration
of a source without any liquid coin (the bank handler sends nothing) to an address that does not exist leaves it without
account — while `portfolio_moved_unbonding` puts every unbonding record of the source under it: `AcctInv` is lost and the
pay-out of the first matured entry fails (the `example` below runs it) -/
theorem unensured_target_stays_without_account (a : AState) (stmts : List String) (frm to : Addr) (sigOk : Bool)
    (s' : State) (hst : stmtAccounts stmts to = []) (h : migrate cfg a.s frm to sigOk = .ok s')
    (hliq : ∀ d, balOf a.s.bal frm d = 0) (hno : to ∉ a.accts) : to ∉ (acceptA stmts a s' to).accts := by
  intro hm
  simp only [acceptA, hst, List.append_nil, List.mem_append] at hm
  rcases hm with hm | hm
  · exact hno hm
  · unfold credited at hm
    obtain ⟨p, hp, e⟩ := List.mem_map.mp hm
    have hlt := (List.mem_filter.mp hp).2
    simp only [decide_eq_true_eq] at hlt
    rw [e, portfolio_moved_balances h to p.1.2, if_pos rfl, hliq p.1.2] at hlt
    omega

/-- a source without liquid coin (everything delegated), a target (17) that never existed -/
def exFresh : AState :=
  { s := { vals := [100], hasKey := [1], valTok := [(100, 1000)], period := [(100, 2)],
           bal := [((1, 0), 90), ((bondedPool, 0), 1000), ((notBondedPool, 0), 5)] },
    accts := [1, bondedPool, notBondedPool] }

def exFreshOps : List Op :=
  [.delegate 1 100 90 0, .undelegate 1 100 10 0, .block 5, .migrate 1 17 true, .block 300, .block 1]

/-- non-vacuity of `unensured_target_stays_without_account`: after delegate (everything) / undelegate / block the source 1 has
no liquid coin, 17 has no account, and the migration of 1 to 17 is accepted -/
example : let a := runAcct exFresh [.delegate 1 100 90 0, .undelegate 1 100 10 0, .block 5]
    (∀ d, balOf a.s.bal 1 d = 0) ∧ 17 ∉ a.accts ∧ (∃ s', migrate cfg a.s 1 17 true = .ok s') ∧
    stmtAccounts ["check-record-from", "check-record-to", "check-from-account", "validate-all", "execute-all", "set-record"] 17 = [] := by
  intro a
  refine ⟨fun d => ?_, by decide, ⟨_, rfl⟩, rfl⟩
  have hb : a.s.bal = [((notBondedPool, 0), 15), ((bondedPool, 0), 1080)] := by decide
  have hn : Model.C14.get a.s.bal (1, d) = none := by
    apply get_none_of_no_key
    intro p hp
    rw [hb] at hp
    simp only [List.mem_cons, List.not_mem_nil, or_false] at hp
    rcases hp with rfl | rfl <;> intro e <;> cases e
  unfold balOf
  rw [hn]
  rfl

theorem exFresh_inv : AcctInv exFresh := by
  refine ⟨fun x d hp => ?_, fun x v hk => ?_, fun x v hk => ?_⟩
  · show x ∈ [1, bondedPool, notBondedPool]
    by_cases h1 : x = 1
    · simp [h1]
    by_cases h2 : x = bondedPool
    · simp [h2]
    by_cases h3 : x = notBondedPool
    · simp [h3]
    exfalso
    have hn : Model.C14.get exFresh.s.bal (x, d) = none := by
      apply get_none_of_no_key
      intro p hp
      have hb : exFresh.s.bal = [((1, 0), 90), ((bondedPool, 0), 1000), ((notBondedPool, 0), 5)] := rfl
      rw [hb] at hp
      simp only [List.mem_cons, List.not_mem_nil, or_false] at hp
      rcases hp with rfl | rfl | rfl <;> intro e <;> cases e <;> first | exact h1 rfl | exact h2 rfl | exact h3 rfl
    unfold balOf at hp
    rw [hn] at hp
    simp at hp
  · have : exFresh.s.dels = [] := rfl
    rw [this, get_nil] at hk; cases hk
  · have : exFresh.s.ubds = [] := rfl
    rw [this, get_nil] at hk; cases hk

/-- **totals unchanged at maturity**: in every state in which the holders exist as accounts (by `no_payout_fails`: every state
of every history from such a state), the staking end blocker destroys nothing and keeps, per denomination, the total over any
duplicate-free set of accounts that contains the not-bonded pool and the existing accounts (the pool itself holding no
unbonding record) — every matured entry, migrated or not, leaves the pool and arrives at its delegator in full -/
theorem totals_unchanged_at_maturity (a : AState) (inv : AcctInv a) (A : List Addr) (hA : A.Nodup)
    (hp : notBondedPool ∈ A) (hall : ∀ x, x ∈ a.accts → x ∈ A)
    (hpool : ∀ v, Model.C14.get a.s.ubds (notBondedPool, v) = none) (den : Denom) :
    (stakingEndA a.accts a.s a.burnt).2 = a.burnt ∧
    sumOver A (fun x => balOf (stakingEndA a.accts a.s a.burnt).1.bal x den) = sumOver A (fun x => balOf a.s.bal x den) := by
  rw [stakingEndA_eq a.accts a.s a.burnt (fun k hk => inv.ubd k.1 k.2 hk)]
  refine ⟨rfl, stakingEnd_supply a.s A hA hp (fun k hk => ⟨hall _ (inv.ubd k.1 k.2 hk), fun e => ?_⟩) den⟩
  have := hpool k.2
  rw [← e] at this
  rw [this] at hk
  cases hk

/-- the base case of `no_payout_fails`: a state without delegations and unbonding records in which every address with a
balance entry exists as an account (a chain before any staking activity) -/
theorem accounts_invariant_base (a : AState) (hd : a.s.dels = []) (hu : a.s.ubds = [])
    (hb : ∀ p ∈ a.s.bal, p.1.1 ∈ a.accts) : AcctInv a := acctInv_base a hd hu hb

/-- a migration delivered as a transaction through `FinalizeBlock` (what the driver's `txblock` line runs on the state with
accounts) is a history of `runAcct`: `no_payout_fails` and `migrated_entries_mature_into_account` cover it -/
theorem tx_block_accounts_is_a_history (a : AState) (dt fee : Nat) (txSigner frm to : Addr) (sigOk : Bool) :
    txBlockA cfg Gen.C14.handlerOrder Gen.C14.migrateHandlers a dt fee txSigner frm to sigOk =
      (runAcct a (txOps cfg a.s dt fee txSigner frm to sigOk).1, (txOps cfg a.s dt fee txSigner frm to sigOk).2) := by
  unfold txBlockA
  rfl

example : AcctInv exFresh := accounts_invariant_base exFresh rfl rfl (by decide)

/-- the state of `exFresh` after delegate / undelegate / migration to the never-existing 17, at the block in which the
migrated entry has matured -/
def exFreshMature : AState :=
  runAcct exFresh [.delegate 1 100 90 0, .undelegate 1 100 10 0, .block 5, .migrate 1 17 true, .block 300]

/-- non-vacuity of `totals_unchanged_at_maturity`: its hypotheses hold in `exFreshMature` for the set {1, 17, pools}, and the
end blocker there pays the migrated entry (10) to the target -/
example : AcctInv exFreshMature ∧ (∀ x, x ∈ exFreshMature.accts → x ∈ [1, 17, bondedPool, notBondedPool]) ∧
    (∀ v, Model.C14.get exFreshMature.s.ubds (notBondedPool, v) = none) ∧
    balOf exFreshMature.s.bal 17 0 = 0 ∧
    balOf (stakingEndA exFreshMature.accts exFreshMature.s exFreshMature.burnt).1.bal 17 0 = 10 := by
  refine ⟨(no_payout_fails exFresh exFresh_inv _).1, by decide, fun v => ?_, by decide, by decide⟩
  have hu : exFreshMature.s.ubds = [((17, 100), [(300, 10, 1)])] := by decide
  rw [hu]
  apply get_none_of_no_key
  intro p hp
  simp only [List.mem_cons, List.not_mem_nil, or_false] at hp
  subst hp
  intro e
  cases e

/-- non-vacuity, and what the `ensure-to-account` statement is for: `AcctInv` holds in `exFresh`; with the statement list as
it is in the source the target 17 exists after the migration, the matured entry (10) is paid to it and nothing is destroyed;
with the statement list of the code before the repair (no `ensure-to-account`) the same history leaves 17 without account,
the pay-out debits the pool and fails: 10 coins destroyed, the target holds nothing -/
example : (17 ∈ (runAcct exFresh exFreshOps).accts ∧ (runAcct exFresh exFreshOps).burnt = 0 ∧
      balOf (runAcct exFresh exFreshOps).s.bal 17 0 = 10) ∧
    (let old := ["check-record-from", "check-record-to", "check-from-account", "validate-all", "execute-all", "set-record"]
     let b := runA cfg old Gen.C14.migrateHandlers exFresh exFreshOps
     (b.accts.contains 17 = false ∧ b.burnt = 10 ∧ balOf b.s.bal 17 0 = 0 ∧ balOf b.s.bal notBondedPool 0 = 5)) :=
  ⟨⟨by decide, by decide, by decide⟩, ⟨by decide, by decide, by decide, by decide⟩⟩

/-- the hypotheses of `migrated_entries_mature_into_account` are satisfiable: the migration of 1 to the never-existing 17 is
accepted after delegate / undelegate / block -/
example : ∃ s', migrate cfg (run cfg exFresh.s [.delegate 1 100 90 0, .undelegate 1 100 10 0, .block 5]) 1 17 true = .ok s' :=
  ⟨_, rfl⟩

end FxVerif.Props.C14
