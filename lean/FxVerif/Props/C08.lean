import FxVerif.Model.C08
import FxVerif.Model.C08U
import FxVerif.Proofs.Ledger
import FxVerif.Proofs.C08Index
import FxVerif.Proofs.C08Books
import FxVerif.Proofs.C08Run
import FxVerif.Proofs.C08Ext
import FxVerif.Proofs.C08Fam
import FxVerif.Proofs.C08Hist
import FxVerif.Proofs.C08Hist4
import FxVerif.Model.C08Cache
import FxVerif.Proofs.C08Cache
import FxVerif.Model.C08Journal
import FxVerif.Proofs.C08Journal
import FxVerif.Proofs.C08Journal4
import FxVerif.Gen.C04
import FxVerif.Gen.C08
import FxVerif.Gen.C08b
import FxVerif.Gen.C08c
import FxVerif.Proofs.C08Wrap
import FxVerif.Model.C08Gen
import FxVerif.Proofs.C08Gen
import FxVerif.Model.C08Sol
import FxVerif.Gen.C08d
import FxVerif.Model.C08DepI
import FxVerif.Proofs.C08Dep
import FxVerif.Proofs.C08DepX
import FxVerif.Proofs.C08ExtMix
/-!
# C08 — coin ↔ ERC-20 conversion conserves value and keeps the token-pair books balanced

Property theorems only.  The conversion flows are obliged to make exactly the keeper calls of the Go handlers
(`Gen/C04.lean`, regenerated every run); the index operations are obliged to make the index calls read from
`proposals.go` (`Gen/C08.lean`).
-/
namespace FxVerif.Props.C08
open FxVerif.Model.Ledger FxVerif.Model.Flows FxVerif.Model.C08 FxVerif.Proofs.Ledger

/-! ### translator tie -/

open FxVerif.Gen.C04 in
theorem conversion_flows_match_code :
    (∀ g s r n, calls (convertCoin .moduleOwned g (.user s) r n) = convertCoinNativeCoin_other) ∧
    (∀ g s r n, calls (convertCoin .fx g (.user s) r n) = convertCoinNativeCoin_fx) ∧
    (∀ g s r n, calls (convertCoin .externalOwned g (.user s) r n) = convertCoinNativeERC20) ∧
    (∀ g s r n, calls (convertERC20 .moduleOwned g s r n) = convertERC20NativeCoin_other) ∧
    (∀ g s r n, calls (convertERC20 .fx g s r n) = convertERC20NativeCoin_fx) ∧
    (∀ g s r n, calls (convertERC20 .externalOwned g s r n) = convertERC20NativeToken) := by
  refine ⟨?_, ?_, ?_, ?_, ?_, ?_⟩ <;> intros <;> rfl

/-- the index-maintaining calls of the model's index operations (`stepIdx`), branch by branch, as read from the code:
adding an alias sets the alias index and the metadata, removing one deletes the index entry and rewrites the
metadata; registration sets aliases, metadata, and the three pair keys; toggling rewrites only the pair -/
theorem index_ops_match_code :
    FxVerif.Gen.C08.updateAlias_add = [[.setAliases, .setMetadata]] ∧
    FxVerif.Gen.C08.updateAlias_remove = [[.deleteAliases, .setMetadata]] ∧
    FxVerif.Gen.C08.registerCoin_newMetadata = [[.setAliases, .setMetadata, .addTokenPair]] ∧
    FxVerif.Gen.C08.registerCoin_existingMetadata = [[.setAliases, .addTokenPair]] ∧
    FxVerif.Gen.C08.registerERC20_aliases = [[.setAliases, .setMetadata, .addTokenPair]] ∧
    FxVerif.Gen.C08.toggle = [[.setTokenPair]] ∧
    FxVerif.Gen.C08.addTokenPair_store =
      ["Set:KeyPrefixTokenPair", "Set:KeyPrefixTokenPairByDenom", "Set:KeyPrefixTokenPairByERC20"] ∧
    FxVerif.Gen.C08.removeTokenPair_store =
      ["Delete:KeyPrefixTokenPair", "Delete:KeyPrefixTokenPairByDenom", "Delete:KeyPrefixTokenPairByERC20", "DeleteAliases"] := by
  decide

/-- **the guards of the index operations as modelled are the guards as written** (conditions and errors regenerated from
the AST, in source order, loops over the aliases included).  `stepIdx` checks, in the same order: registration —
denomination not registered, denomination not an alias, every alias ≠ the denomination / not a registered denomination /
not an alias of anything (`aliasesOk`), stored metadata equal (coin) or absent (ERC-20), contract not registered
(ERC-20); alias update — denomination registered, alias not a registered denomination, metadata present; and the alias
list is rebuilt by skipping exactly the removed alias (`old.filter (· ≠ a)`) or extended at the end (`old ++ [a]`). -/
theorem index_guards_match_code :
    FxVerif.Gen.C08.registerNativeCoin_guards =
      [("!k.GetEnableErc20(ctx)", "ErrERC20Disabled"),
       ("k.IsDenomRegistered(ctx, coinMetadata.Base)", "ErrTokenPairAlreadyExists"),
       ("k.IsAliasDenomRegistered(ctx, coinMetadata.Base)", "ErrInvalidMetadata"),
       ("alias == coinMetadata.Base || alias == coinMetadata.Display || alias == coinMetadata.Symbol", "ErrInvalidMetadata"),
       ("k.IsDenomRegistered(ctx, alias)", "ErrInvalidMetadata"),
       ("k.IsAliasDenomRegistered(ctx, alias)", "ErrInvalidMetadata"),
       ("err := types.EqualMetadata(meta, coinMetadata); err != nil", "ErrInvalidMetadata")] ∧
    FxVerif.Gen.C08.registerNativeERC20_guards =
      [("!k.GetEnableErc20(ctx)", "ErrERC20Disabled"),
       ("k.IsERC20Registered(ctx, contract)", "ErrTokenPairAlreadyExists"),
       ("erc20Data.Symbol == fxtypes.DefaultDenom || k.IsDenomRegistered(ctx, base)", "ErrInternalTokenPair"),
       ("k.IsAliasDenomRegistered(ctx, base)", "ErrInternalTokenPair"),
       ("alias == base || alias == erc20Data.Symbol", "ErrInvalidAlias"),
       ("k.IsDenomRegistered(ctx, alias)", "ErrInvalidAlias"),
       ("k.IsAliasDenomRegistered(ctx, alias)", "ErrInvalidAlias"),
       ("k.bankKeeper.HasDenomMetaData(ctx, base)", "ErrInternalTokenPair")] ∧
    FxVerif.Gen.C08.updateDenomAliases_guards =
      [("!k.IsDenomRegistered(ctx, denom)", "ErrInvalidDenom"), ("k.IsDenomRegistered(ctx, alias)", "ErrInvalidDenom"),
       ("!found", "ErrInvalidMetadata")] ∧
    FxVerif.Gen.C08.updateAlias_removeFilter =
      ["range oldAliases", "if denomAlias == alias { continue }", "newAliases = append(newAliases, denomAlias)"] ∧
    FxVerif.Gen.C08.updateAlias_addExpr = "append(oldAliases, alias)" := by
  decide

/-! ### convert_exact -/

macro "bal_done" : tactic =>
  `(tactic| (simp [Obs.flowDelta, balObs, E] <;> (repeat' split) <;> (try simp_all) <;> (try omega)))

/-- **convert_exact (coin → ERC-20)**: for every asset and every account other than the erc20 module account and the
WFX contract, the balance changes by exactly: sender −n of the base coin, receiver +n of the ERC-20, nothing else -/
theorem convertCoin_exact (k : Kind) (g s r n : Nat) (L L' : Ledger)
    (h : runFlow (convertCoin k g (.user s) (.user r) n) L = .ok L') (a : Asset) (x : Addr)
    (hx : x ≠ .erc20Mod ∧ x ≠ .wfx) :
    (L'.bal a x : Int) = L.bal a x + (if a = .erc g ∧ x = .user r then (n : Int) else 0)
      - (if a = .base g ∧ x = .user s then (n : Int) else 0) := by
  have := runFlow_obs (balObs_sound a x) _ L L' h
  simp only [balObs] at this
  rw [this]
  obtain ⟨h1, h2⟩ := hx
  have h1' : ¬ Addr.erc20Mod = x := fun e => h1 e.symm
  have h2' : ¬ Addr.wfx = x := fun e => h2 e.symm
  by_cases ha1 : a = .erc g <;> by_cases ha2 : a = .base g <;> by_cases hx1 : x = .user r <;>
    by_cases hx2 : x = .user s <;> cases k <;>
    simp [convertCoin, Obs.flowDelta, balObs, E, ha1, ha2, hx1, hx2, h1, h2, h1', h2', eq_comm] <;>
    (try simp_all) <;> (try omega)

/-- **convert_exact (ERC-20 → coin)** -/
theorem convertERC20_exact (k : Kind) (g s r n : Nat) (L L' : Ledger)
    (h : runFlow (convertERC20 k g (.user s) (.user r) n) L = .ok L') (a : Asset) (x : Addr)
    (hx : x ≠ .erc20Mod ∧ x ≠ .wfx) :
    (L'.bal a x : Int) = L.bal a x + (if a = .base g ∧ x = .user r then (n : Int) else 0)
      - (if a = .erc g ∧ x = .user s then (n : Int) else 0) := by
  have := runFlow_obs (balObs_sound a x) _ L L' h
  simp only [balObs] at this
  rw [this]
  obtain ⟨h1, h2⟩ := hx
  have h1' : ¬ Addr.erc20Mod = x := fun e => h1 e.symm
  have h2' : ¬ Addr.wfx = x := fun e => h2 e.symm
  by_cases ha1 : a = .erc g <;> by_cases ha2 : a = .base g <;> by_cases hx1 : x = .user r <;>
    by_cases hx2 : x = .user s <;> cases k <;>
    simp [convertERC20, Obs.flowDelta, balObs, E, ha1, ha2, hx1, hx2, h1, h2, h1', h2', eq_comm] <;>
    (try simp_all) <;> (try omega)

/-! ### books: I_module, I_external -/

/-- the book-keeping equation of group `g`, as "left side − right side" (0 = balanced):
module-owned: coins escrowed by the erc20 module − ERC-20 supply; FX: FX held by the WFX contract − WFX supply;
externally-owned: ERC-20 escrowed by the module − Σ coin supply over base + bridge denominations -/
def bookObs (k : Kind) (g : Nat) : Obs :=
  match k with
  | .moduleOwned => (balObs (.base g) .erc20Mod).add (supplyObs (.erc g)).neg
  | .fx => (balObs (.base g) .wfx).add (supplyObs (.erc g)).neg
  | .externalOwned => (balObs (.erc g) .erc20Mod).add
      (Obs.sum [supplyObs (.base g), supplyObs (.bridge g 0), supplyObs (.bridge g 1), supplyObs (.bridge g 2)]).neg

theorem bookObs_sound (k : Kind) (g : Nat) : (bookObs k g).Sound := by
  cases k <;> simp only [bookObs]
  · exact add_sound (balObs_sound _ _) (neg_sound (supplyObs_sound _))
  · exact add_sound (balObs_sound _ _) (neg_sound (supplyObs_sound _))
  · refine add_sound (balObs_sound _ _) (neg_sound (sum_sound ?_))
    intro o ho
    simp only [List.mem_cons, List.not_mem_nil, or_false] at ho
    rcases ho with rfl | rfl | rfl | rfl <;> exact supplyObs_sound _

macro "book_done" : tactic =>
  `(tactic| (simp [Obs.flowDelta, bookObs, Obs.sum, Obs.add, Obs.neg, Obs.zero, balObs, supplyObs, E, Den.asset] <;>
      (repeat' split) <;> (try simp_all) <;> (try omega)))

/-- a consistent assignment of kinds: the flow of group `g'` is run with the kind of `g'` -/
theorem book_convertCoin (kind : Nat → Kind) (g g' s r n : Nat) :
    (bookObs (kind g) g).flowDelta (convertCoin (kind g') g' (.user s) (.user r) n) = 0 := by
  by_cases hg : g' = g
  · subst hg; cases kind g' <;> simp only [convertCoin] <;> book_done
  · have hg' : ¬ g = g' := fun e => hg e.symm
    cases kind g <;> cases kind g' <;> simp only [convertCoin] <;> book_done

theorem book_convertERC20 (kind : Nat → Kind) (g g' s r n : Nat) :
    (bookObs (kind g) g).flowDelta (convertERC20 (kind g') g' (.user s) (.user r) n) = 0 := by
  by_cases hg : g' = g
  · subst hg; cases kind g' <;> simp only [convertERC20] <;> book_done
  · have hg' : ¬ g = g' := fun e => hg e.symm
    cases kind g <;> cases kind g' <;> simp only [convertERC20] <;> book_done

/-- **I_module / I_external preserved by ConvertCoin and ConvertERC20** (induction over arbitrary sequences of the two
messages, any groups, any users, any amounts, any outcomes): the book equation of every group keeps its value — in
particular stays balanced.  `kind` total = every group that is operated on has its registered kind. -/
theorem books_preserved (kind : Nat → Kind) (enabled : Nat → Bool) (hasAlias : Nat → Nat → Bool) (L : Ledger)
    (ops : List COp) (hops : ∀ op ∈ ops, ∀ g u r n a b, op ≠ .den g u r n a b) (g : Nat) :
    (bookObs (kind g) g).val (runC ⟨fun g => some (kind g), enabled, hasAlias⟩ L ops) = (bookObs (kind g) g).val L := by
  induction ops generalizing L with
  | nil => rfl
  | cons op ops ih =>
    simp only [runC, List.foldl_cons] at ih ⊢
    rw [ih _ (fun o ho => hops o (by simp [ho]))]
    unfold stepCT
    cases h : stepC ⟨fun g => some (kind g), enabled, hasAlias⟩ L op with
    | error e => rfl
    | ok L' =>
      simp only
      cases op with
      | coin g' u r n =>
        simp only [stepC, CCfg.kindOf] at h
        split at h
        · rename_i k hk
          split at hk
          · cases hk
            rw [runFlow_obs (bookObs_sound _ _) _ L L' h, book_convertCoin]; omega
          · cases hk
        · cases h
      | erc g' u r n =>
        simp only [stepC, CCfg.kindOf] at h
        split at h
        · rename_i k hk
          split at hk
          · cases hk
            rw [runFlow_obs (bookObs_sound _ _) _ L L' h, book_convertERC20]; omega
          · cases hk
        · cases h
      | den g' u r n a b => exact absurd rfl (hops _ (by simp) g' u r n a b)

/-- **I_external is NOT preserved by `MsgConvertDenom`** on an externally-owned token: base → alias mints the alias
while the base coin stays locked in the erc20 module account (`convertNativeERC20`), so the coin supply summed over
base + aliases exceeds the escrowed ERC-20 amount by the converted amount. -/
theorem convertDenom_breaks_external_book (g u n : Nat) :
    (bookObs .externalOwned g).flowDelta (convertDenom .externalOwned g (.user u) n .base (.chain 0)) = -(n : Int) := by
  simp only [convertDenom, List.cons_append, List.nil_append]; book_done

/-- `MsgConvertDenom` keeps the module-owned book (I_module) -/
theorem book_convertDenom_module (g g' u n : Nat) (src dst : Den) (hne : src ≠ dst) :
    (bookObs .moduleOwned g).flowDelta (convertDenom .moduleOwned g' (.user u) n src dst) = 0 := by
  cases src <;> cases dst <;> (try exact absurd rfl hne) <;> simp only [convertDenom, List.cons_append, List.nil_append, List.append_nil] <;> book_done

/-! ### mixed transactions (partial) -/

/-- one step of an EVM transaction that mixes direct token calls with conversions of the same token: a direct ERC-20
transfer between accounts other than the erc20 module account, or a conversion flow -/
inductive TxStep where
  | direct (g : Nat) (x y : Addr) (n : Nat)
  | toErc (g s r n : Nat)
  | toCoin (g s r n : Nat)

def TxStep.flow (kind : Nat → Kind) : TxStep → List Prim
  | .direct g x y n => [.send (.erc g) x y n]
  | .toErc g s r n => convertCoin (kind g) g (.user s) (.user r) n
  | .toCoin g s r n => convertERC20 (kind g) g (.user s) (.user r) n

theorem book_direct (k : Kind) (g g' : Nat) (x y : Addr) (n : Nat) (hx : x ≠ .erc20Mod) (hy : y ≠ .erc20Mod) :
    (bookObs k g).flowDelta [.send (.erc g') x y n] = 0 := by
  have hx' : ¬ Addr.erc20Mod = x := fun e => hx e.symm
  have hy' : ¬ Addr.erc20Mod = y := fun e => hy e.symm
  cases k <;> simp [Obs.flowDelta, bookObs, Obs.sum, Obs.add, Obs.neg, Obs.zero, balObs, supplyObs, hx, hy, hx', hy']

/-- **mixed_tx_preserves_invariants_partial**: a transaction that mixes direct transfers of a token with conversions
of the same token keeps every group's book equation, PROVIDED all its steps act on one coherent ledger — i.e. the
conversion sees the caller's pending writes.  That hypothesis is exactly what fails on the real code when the
precompile `bridgeCall` converts through a keeper-level nested EVM execution while the running StateDB holds dirty
storage of the token (witness replayed by the harness: transfer 10 then bridgeCall 50 out of a balance of 50 leaves
Σ balances = 80, totalSupply = 30).  The hypothesis is built into the statement: the whole program is one `runFlow`. -/
theorem mixed_tx_preserves_invariants_partial (kind : Nat → Kind) (prog : List TxStep)
    (hd : ∀ st ∈ prog, ∀ g x y n, st = .direct g x y n → x ≠ .erc20Mod ∧ y ≠ .erc20Mod)
    (L L' : Ledger) (h : runFlow (prog.flatMap (TxStep.flow kind)) L = .ok L') (g : Nat) :
    (bookObs (kind g) g).val L' = (bookObs (kind g) g).val L := by
  rw [runFlow_obs (bookObs_sound _ _) _ L L' h]
  suffices hs : (bookObs (kind g) g).flowDelta (prog.flatMap (TxStep.flow kind)) = 0 by omega
  clear h
  induction prog with
  | nil => rfl
  | cons st rest ih =>
    have hrest := ih (fun s hs => hd s (by simp [hs]))
    simp only [List.flatMap_cons]
    have happ : ∀ a b : List Prim, (bookObs (kind g) g).flowDelta (a ++ b) =
        (bookObs (kind g) g).flowDelta a + (bookObs (kind g) g).flowDelta b := by
      intro a b; induction a with
      | nil => simp [Obs.flowDelta]
      | cons p ps iha => simp only [List.cons_append, Obs.flowDelta, iha]; omega
    rw [happ, hrest]
    cases st with
    | direct g' x y n =>
      obtain ⟨hx, hy⟩ := hd _ (by simp) g' x y n rfl
      simp only [TxStep.flow, book_direct _ _ _ _ _ _ hx hy]; rfl
    | toErc g' s r n => simp only [TxStep.flow, book_convertCoin]; rfl
    | toCoin g' s r n => simp only [TxStep.flow, book_convertERC20]; rfl

/-! ### I_sum -/

/-- **I_sum**: every conversion message keeps "Σ balances = totalSupply" of every ERC-20 (and "Σ balances = supply" of
every coin), for every finite universe of accounts containing the users involved, the erc20 module account and the
WFX contract -/
theorem sum_preserved (cf : CCfg) (univ : List Addr) (hn : univ.Nodup) (hE : Addr.erc20Mod ∈ univ) (hW : Addr.wfx ∈ univ)
    (L L' : Ledger) (op : COp)
    (hu : match op with | .coin _ u r _ => Addr.user u ∈ univ ∧ Addr.user r ∈ univ
                        | .erc _ u r _ => Addr.user u ∈ univ ∧ Addr.user r ∈ univ
                        | .den _ u r _ _ _ => Addr.user u ∈ univ ∧ Addr.user r ∈ univ)
    (h : stepC cf L op = .ok L') (a : Asset) (hwf : L.WF univ a) : L'.WF univ a := by
  cases op with
  | coin g u r n =>
    simp only [stepC] at h
    split at h
    · rename_i k _
      refine runFlow_WF univ hn _ L L' h ?_ a hwf
      intro p hp
      cases k <;> simp only [convertCoin, List.mem_cons, List.not_mem_nil, or_false] at hp <;>
        rcases hp with rfl | rfl | rfl <;> simp [Prim.addrsIn, E, hu.1, hu.2, hE, hW]
    · cases h
  | erc g u r n =>
    simp only [stepC] at h
    split at h
    · rename_i k _
      refine runFlow_WF univ hn _ L L' h ?_ a hwf
      intro p hp
      cases k <;> simp only [convertERC20, List.mem_cons, List.not_mem_nil, or_false] at hp <;>
        rcases hp with rfl | rfl | rfl <;> simp [Prim.addrsIn, E, hu.1, hu.2, hE, hW]
    · cases h
  | den g u r n src dst =>
    simp only [stepC] at h
    cases hk : cf.kindReg g with
    | none => simp [hk] at h
    | some k =>
      simp only [hk] at h
      generalize (if okDen cf g dst = true then dst else Den.base) = dst' at h
      simp only [Bool.not_eq_true'] at h
      by_cases hc : k = .fx ∨ src = dst' ∨ okDen cf g src = false
      · rw [if_pos hc] at h; cases h
      · rw [if_neg hc] at h
        refine runFlow_WF univ hn _ L L' h ?_ a hwf
        intro p hp
        simp only [List.mem_append] at hp
        rcases hp with hp | hp
        · cases k <;> cases src <;> cases dst' <;>
            simp only [convertDenom, List.cons_append, List.nil_append, List.append_nil, List.mem_cons, List.not_mem_nil,
              or_false] at hp <;>
            (try rcases hp with rfl | rfl | rfl) <;> (try rcases hp with rfl | rfl) <;>
            simp [Prim.addrsIn, E, hu.1, hu.2, hE, hW]
        · split at hp
          · simp at hp
          · simp only [List.mem_cons, List.not_mem_nil, or_false] at hp
            rcases hp with rfl | rfl <;> simp [Prim.addrsIn, E, hu.1, hu.2, hE, hW]

/-! ### I_index (alias part, per operation) -/

theorem lookup_setKV_same {α β : Type} [DecidableEq α] (k : α) (v : β) (l : List (α × β)) :
    lookup k (setKV k v l) = some v := by
  induction l with
  | nil => simp [setKV, lookup]
  | cons p ps ih =>
    obtain ⟨k', v'⟩ := p
    by_cases h : k' = k
    · simp [setKV, lookup, h]
    · simp [setKV, lookup, h, ih]

theorem lookup_delKV_same {α β : Type} [DecidableEq α] (k : α) (l : List (α × β)) :
    lookup k (delKV k l) = none := by
  induction l with
  | nil => simp [delKV, lookup]
  | cons p ps ih =>
    obtain ⟨k', v'⟩ := p
    by_cases h : k' = k
    · simpa [delKV, List.filter, h] using ih
    · simp only [delKV, List.filter, ne_eq, h, not_false_eq_true, decide_true, lookup, ↓reduceIte]
      simpa [delKV] using ih

/-- **UpdateDenomAlias keeps the alias index and the bank metadata in step**: after a successful update the alias is
either in both (added: index entry → the denomination, metadata lists it) or in neither (removed: no index entry,
metadata no longer lists it) — for every index state, denomination and alias -/
theorem updateAlias_keeps_alias_index_and_metadata_in_step (i i' : Idx) (d a : Nat)
    (h : stepIdx i (.updateAlias d a) = .ok i') :
    (lookup a i'.aliasIdx = some d ∧ ∃ as, lookup d i'.md = some as ∧ a ∈ as) ∨
    (lookup a i'.aliasIdx = none ∧ ∃ as, lookup d i'.md = some as ∧ a ∉ as) := by
  simp only [stepIdx] at h
  split at h
  · cases h
  · split at h
    · cases h
    · cases hm : lookup d i.md with
      | none => simp [hm] at h
      | some old =>
        simp only [hm] at h
        cases ha : lookup a i.aliasIdx with
        | none =>
          simp only [ha, Except.ok.injEq] at h; subst h
          left
          exact ⟨lookup_setKV_same a d _, old ++ [a], lookup_setKV_same d _ _, by simp⟩
        | some d' =>
          simp only [ha] at h
          split at h
          · simp only [Except.ok.injEq] at h; subst h
            right
            exact ⟨lookup_delKV_same a _, old.filter (· ≠ a), lookup_setKV_same d _ _, by simp⟩
          · cases h

/-- toggling a pair touches nothing but the pair's `Enabled` flag: no index, no alias, no metadata changes -/
theorem toggle_frame (i i' : Idx) (d : Nat) (h : stepIdx i (.toggle d) = .ok i') :
    i'.byDenom = i.byDenom ∧ i'.byErc = i.byErc ∧ i'.aliasIdx = i.aliasIdx ∧ i'.md = i.md := by
  simp only [stepIdx] at h
  split at h
  · cases h
  · split at h
    · cases h
    · cases h; exact ⟨rfl, rfl, rfl, rfl⟩

/-! ### translator tie of the unified model (Model/C08U.lean) -/

theorem call_send_coin (d : Nat) (s t : Addr) (n : Nat) :
    Prim.call (.send (coinAsset d) s t n) = if isModule s then .sendModToAcc else .sendAccToMod := by
  unfold coinAsset; split <;> rfl

theorem call_mint_coin (d : Nat) (b t : Addr) (n : Nat) : Prim.call (.mint (coinAsset d) b t n) = .mintCoins := by
  unfold coinAsset; split <;> rfl

theorem call_burn_coin (d : Nat) (b t : Addr) (n : Nat) : Prim.call (.burn (coinAsset d) b t n) = .burnCoins := by
  unfold coinAsset; split <;> rfl

open FxVerif.Gen.C04 in
/-- the flows of the unified model make exactly the keeper calls of the Go conversion functions, for every
denomination, contract, sender, receiver and amount (call sequences regenerated from the AST) -/
theorem unified_flows_match_code :
    (∀ d ct s r n, calls (convertCoinU .moduleOwned d ct (.user s) r n) = convertCoinNativeCoin_other) ∧
    (∀ d ct s r n, calls (convertCoinU .fx d ct (.user s) r n) = convertCoinNativeCoin_fx) ∧
    (∀ d ct s r n, calls (convertCoinU .externalOwned d ct (.user s) r n) = convertCoinNativeERC20) ∧
    (∀ d ct s r n, calls (convertERC20U .moduleOwned d ct s r n) = convertERC20NativeCoin_other) ∧
    (∀ d ct s r n, calls (convertERC20U .fx d ct s r n) = convertERC20NativeCoin_fx) ∧
    (∀ d ct s r n, calls (convertERC20U .externalOwned d ct s r n) = convertERC20NativeToken) := by
  refine ⟨?_, ?_, ?_, ?_, ?_, ?_⟩ <;> intros <;>
    simp [calls, convertCoinU, convertERC20U, call_send_coin, call_mint_coin, call_burn_coin, Prim.call, isModule, E,
      convertCoinNativeCoin_other, convertCoinNativeCoin_fx, convertCoinNativeERC20, convertERC20NativeCoin_other,
      convertERC20NativeCoin_fx, convertERC20NativeToken]

/-- the unified flows restricted to a base denomination `g < 100` with contract number `g` are the group-level flows of
`Model/Flows.lean` (so every statement about those transfers to the unified model) -/
theorem unified_flows_extend_group_flows (k : Kind) (g : Nat) (hg : g < 100) (s r : Addr) (n : Nat) :
    convertCoinU k g g s r n = convertCoin k g s r n ∧ convertERC20U k g g s r n = convertERC20 k g s r n := by
  have : coinAsset g = .base g := by simp [coinAsset, hg]
  cases k <;> simp [convertCoinU, convertERC20U, convertCoin, convertERC20, this]

def toD : Call → FxVerif.Gen.C08b.DCall
  | .sendAccToMod => .sendAccToMod | .sendModToAcc => .sendModToAcc | .mintCoins => .mintCoins | .burnCoins => .burnCoins
  | .erc20Mint => .erc20Mint | .erc20Burn => .erc20Burn | .erc20Transfer => .erc20Transfer

open FxVerif.Gen.C08b in
/-- **`MsgConvertDenom` as modelled is `MsgConvertDenom` as written**: the handler's call sequence (conversion, then the
receiver leg only when sender ≠ receiver), `ConvertDenomToTarget` (take the coin, convert, pay the target), the
three-way choice of `convertDenomToContractOwner` and, branch by branch, the mint / burn calls of `convertNativeAlias`,
`convertNativeCoin`, `convertNativeERC20` — all regenerated from the AST — against `convertDenomU` / `convertDenomMid`
for every base, alias list, source, target and amount -/
theorem convertDenom_flows_match_code :
    convertDenom_otherReceiver = [[.toTarget, .sendAccToMod, .sendModToAcc]] ∧
    convertDenom_sameReceiver = [[.toTarget]] ∧
    convertDenomToTarget_same = [[]] ∧
    convertDenomToTarget_convert = [[.sendAccToMod, .toContractOwner, .sendModToAcc]] ∧
    toContractOwner_converted = [[.nativeAlias]] ∧ toContractOwner_nativeCoin = [[.nativeCoin]] ∧
    toContractOwner_nativeERC20 = [[.nativeERC20]] ∧
    (∀ base aliases src dst n, [(calls (convertDenomMid .moduleOwned base aliases src dst n)).map toD] =
      if src = base then nativeCoin_srcIsBase else if dst = base then nativeCoin_dstIsBase else nativeCoin_aliasToAlias) ∧
    (∀ base aliases src dst n, [(calls (convertDenomMid .externalOwned base aliases src dst n)).map toD] =
      if src = base then nativeERC20_srcIsBase else if dst = base then nativeERC20_dstIsBase else nativeERC20_aliasToAlias) ∧
    (∀ base aliases src dst n, [(calls (convertDenomMid .fx base aliases src dst n)).map toD] =
      if src = base ∧ aliases.contains dst then nativeAlias_baseToAlias
      else if dst = base ∧ aliases.contains src then nativeAlias_aliasToBase else nativeAlias_aliasToAlias) ∧
    (∀ k base aliases src dst u r n, (calls (convertDenomU k base aliases src dst u r n)).map toD =
      [.sendAccToMod] ++ (calls (convertDenomMid k base aliases src dst n)).map toD ++ [.sendModToAcc] ++
      (if u = r then [] else [.sendAccToMod, .sendModToAcc])) := by
  refine ⟨by decide, by decide, by decide, by decide, by decide, by decide, by decide, ?_, ?_, ?_, ?_⟩
  · intro base aliases src dst n
    simp only [convertDenomMid]
    split
    · simp [calls, call_burn_coin, toD, nativeCoin_srcIsBase]
    · split <;> simp [calls, call_mint_coin, toD, nativeCoin_dstIsBase, nativeCoin_aliasToAlias]
  · intro base aliases src dst n
    simp only [convertDenomMid]
    split
    · simp [calls, call_mint_coin, toD, nativeERC20_srcIsBase]
    · split <;> simp [calls, call_burn_coin, toD, nativeERC20_dstIsBase, nativeERC20_aliasToAlias]
  · intro base aliases src dst n
    simp only [convertDenomMid]
    split
    · simp [calls, call_mint_coin, toD, nativeAlias_baseToAlias]
    · split <;> simp [calls, call_mint_coin, call_burn_coin, toD, nativeAlias_aliasToBase, nativeAlias_aliasToAlias]
  · intro k base aliases src dst u r n
    by_cases hur : u = r <;> simp [convertDenomU, calls, call_send_coin, isModule, E, toD, hur]

open FxVerif.Gen.C08b in
/-- **the handlers as modelled are the handlers as written**: `MintingEnabled` checks, in this order, the global
switch, the pair's existence, the pair's `Enabled` flag (then the blocked-address and send-enabled checks of the bank);
`ConvertCoin` looks the pair up by the message's coin denomination and `ConvertERC20` by the message's contract address
— nothing else, in particular no alias resolution —, both remove a pair whose contract holds no code and succeed, and
both dispatch on ownership to the function that `unified_flows_match_code` ties to the model, passing the message's own
coin / amount -/
theorem handlers_match_code :
    mintingEnabled_guards.map Prod.snd =
      ["ErrERC20Disabled", "ErrTokenPairNotFound", "ErrERC20TokenPairDisabled", "ErrUnauthorized", "ErrSendDisabled"] ∧
    (mintingEnabled_guards.map Prod.fst).take 3 = ["!k.GetEnableErc20(ctx)", "!found", "!pair.Enabled"] ∧
    convertCoin_lookup = "msg.Coin.Denom" ∧ convertERC20_lookup = "msg.ContractAddress" ∧
    convertCoin_removesDeadPair = true ∧ convertERC20_removesDeadPair = true ∧
    convertCoin_dispatch =
      [("pair.IsNativeCoin()", "ConvertCoinNativeCoin", "ctx, pair, sender, receiver, msg.Coin"),
       ("pair.IsNativeERC20()", "ConvertCoinNativeERC20", "ctx, pair, sender, receiver, msg.Coin")] ∧
    convertERC20_dispatch =
      [("pair.IsNativeCoin()", "ConvertERC20NativeCoin", "ctx, pair, sender, receiver, msg.Amount"),
       ("pair.IsNativeERC20()", "ConvertERC20NativeToken", "ctx, pair, sender, receiver, msg.Amount")] := by
  decide

/-- the model's `MintingEnabled` takes the same decisions in the same order; in particular a blocked receiver (every
module account except gov, in bech32 or EVM form) is refused after the pair checks and before anything moves -/
theorem mintingEnabled_order (s : UState) (recv : Addr) (o : Option Pair) :
    (s.enable = false → mintingEnabled s recv o = .error .disabled) ∧
    (s.enable = true → o = none → mintingEnabled s recv o = .error .notFound) ∧
    (∀ p, s.enable = true → o = some p → p.enabled = false → mintingEnabled s recv o = .error .disabled) ∧
    (∀ p, s.enable = true → o = some p → p.enabled = true → blocked recv = true → mintingEnabled s recv o = .error .invalid) ∧
    (∀ p, s.enable = true → o = some p → p.enabled = true → blocked recv = false → mintingEnabled s recv o = .ok p) := by
  refine ⟨?_, ?_, ?_, ?_, ?_⟩ <;> intros <;>
    simp_all [mintingEnabled, mintingEnabledG, codeGuards, List.findSome?, guardFails]

def guardOfErr : String → Option MGuard
  | "ErrERC20Disabled" => some .globalSwitch
  | "ErrTokenPairNotFound" => some .pairFound
  | "ErrERC20TokenPairDisabled" => some .pairEnabled
  | "ErrUnauthorized" => some .receiverNotBlocked
  | "ErrSendDisabled" => some .sendEnabled
  | _ => none

open FxVerif.Gen.C08b in
/-- **the guard list the model evaluates IS the regenerated guard list of `MintingEnabled`** (same guards, same order):
dropping, adding or reordering a guard in the Go function changes `Gen/C08b.lean` and breaks this equation; the
blocked-receiver guard is the one whose condition mentions `BlockedAddr(receiver` -/
theorem mintingEnabled_guards_match_code :
    mintingEnabled_guards.map (fun g => guardOfErr g.2) = codeGuards.map some ∧
    (mintingEnabled_guards.filter (fun g => g.2 = "ErrUnauthorized")).map Prod.fst =
      ["k.bankKeeper.BlockedAddr(receiver.Bytes())"] := by
  decide

/-- **a conversion to a blocked receiver is rejected and nothing changes** — in both directions, for every state,
token, sender, amount: module accounts (erc20, crosschain chains, fee collector …) in bech32 or EVM form are never the
receiver of a successful `MsgConvertCoin` / `MsgConvertERC20` -/
theorem convert_to_blocked_receiver_rejected (s : UState) (x u r n : Nat) (hb : blocked (partyAddr r) = true) :
    (∃ e, stepU s (.convertCoin x u r n) = .error e) ∧ (∃ e, stepU s (.convertERC20 x u r n) = .error e) ∧
    stepUT s (.convertCoin x u r n) = s ∧ stepUT s (.convertERC20 x u r n) = s := by
  have key : ∀ o, ∃ e, mintingEnabled s (partyAddr r) o = .error e := by
    intro o
    cases h : mintingEnabled s (partyAddr r) o with
    | error e => exact ⟨e, rfl⟩
    | ok p => have := (FxVerif.Proofs.C08.mintingEnabled_ok' h).2.1; rw [hb] at this; cases this
  obtain ⟨e1, h1⟩ := key (pairByDenom s.idx x)
  obtain ⟨e2, h2⟩ := key (pairByErc s.idx x)
  have s1 : stepU s (.convertCoin x u r n) = .error e1 := by simp only [stepU, h1]
  have s2 : stepU s (.convertERC20 x u r n) = .error e2 := by simp only [stepU, h2]
  exact ⟨⟨e1, s1⟩, ⟨e2, s2⟩, by simp only [stepUT, s1], by simp only [stepUT, s2]⟩

open FxVerif.Gen.C08b in
/-- **which precompile conversions are keeper-level nested EVM executions** (the ones `mixed_tx_coherent` needs its
hypothesis for): `bridgeCall` (`EvmToBaseCoin`), `cancelSendToExternal` (the refund of `RemoveFromOutgoingPoolAndRefund`
is converted back by the erc20 keeper's `ConvertCoin`) and `executeClaim` (`ExecuteClaim`); `crossChain` and
`increaseBridgeFee` convert through the running EVM (`handlerERC20Token`, which itself makes no keeper-level EVM call).
A new nested path changes this table. -/
theorem nested_conversion_paths_match_code :
    precompileTokenConversions.filter (fun p => p.2.1 = "keeper") =
      [("BridgeCallMethod", "keeper", "EvmToBaseCoin"),
       ("CancelSendToExternalMethod", "keeper", "RemoveFromOutgoingPoolAndRefund"),
       ("ExecuteClaimMethod", "keeper", "ExecuteClaim")] ∧
    hookOutgoingRefund_usesKeeperConvertCoin = true ∧
    (precompileTokenConversions.filter (fun p => p.2.2 = "handlerERC20Token")).map Prod.fst =
      ["CrossChainMethod", "IncreaseBridgeFeeMethod"] ∧
    handlerERC20Token_usesKeeperLevelEVM = false := by
  decide

open FxVerif.Gen.C08b in
/-- **what `executeClaim` converts through** (the `e<n>` step of the mixed transactions is a keeper-level nested `mint`):
`ExecuteClaim` hands a parked deposit to `SendToFxExecuted` / `BridgeCallHandler`; `SendToFxExecuted` with target `erc20`
and `BridgeCallEvm` credit ERC-20 through `BaseCoinToEvm`, which is the erc20 keeper's `ConvertCoin` — read from the AST -/
theorem executeClaim_conversion_path_matches_code :
    executeClaim_dispatchesDeposits = true ∧ sendToFxExecuted_erc20Target_usesBaseCoinToEvm = true ∧
    bridgeCallEvm_usesBaseCoinToEvm = true ∧ baseCoinToEvm_usesKeeperConvertCoin = true := by
  decide

/-! ### I_index, inductively (unified model: every message of the erc20 module, any order, any arguments) -/

open FxVerif.Proofs.C08 in
/-- the erc20 store at genesis satisfies I_index -/
theorem index_invariant_genesis : IdxInv genesisIdx := by
  constructor
  · intro id p h
    simp only [genesisIdx, addPair, setKV, lookup] at h ⊢
    split at h
    · cases h; rename_i e; subst e; exact ⟨rfl, by simp, by simp⟩
    · cases h
  · intro d id h
    simp only [genesisIdx, addPair, setKV, lookup] at h ⊢
    split at h
    · cases h; rename_i e; subst e; exact ⟨_, rfl, rfl⟩
    · cases h
  · intro ct id h
    simp only [genesisIdx, addPair, setKV, lookup] at h ⊢
    split at h
    · cases h; rename_i e; subst e; exact ⟨_, rfl, rfl⟩
    · cases h
  · intro a d h; simp [genesisIdx, addPair, lookup] at h
  · intro d as _ hm a ha
    simp only [genesisIdx, addPair, lookup] at hm
    split at hm
    · cases hm; cases ha
    · cases hm
  · intro a d h; simp [genesisIdx, addPair, lookup] at h

open FxVerif.Proofs.C08 in
/-- **I_index is an invariant of the message server**: every message — conversions (including the removal of a pair
whose contract self-destructed), registrations, toggles, alias updates, parameter updates — keeps "the pair records, the
denom index, the contract index, the alias index and the bank metadata aliases describe the same set of pairs, and no
denomination is both a registered base denomination and an alias".  Only environment fact used: the contract deployed
by `RegisterNativeCoin` has a new address (`UOp.fresh`). -/
theorem index_invariant_step (s s' : UState) (hi : IdxInv s.idx) (op : UOp) (hf : UOp.fresh s op)
    (h : stepU s op = .ok s') : IdxInv s'.idx :=
  inv_stepU s s' hi op hf h

open FxVerif.Proofs.C08 in
/-- **I_index holds after every sequence of messages from genesis** (induction over the op list; any ledger, any set
of self-destructed contracts) -/
theorem index_invariant_from_genesis (L : Ledger) (dead : List Nat) (ops : List UOp)
    (hf : FreshRun ⟨genesisIdx, L, true, dead⟩ ops) : IdxInv (runU ⟨genesisIdx, L, true, dead⟩ ops).idx :=
  inv_runU _ index_invariant_genesis ops hf

open FxVerif.Proofs.C08 in
/-- the freshness hypothesis is satisfiable by a run that registers, converts, updates an alias and toggles -/
example : FreshRun ⟨genesisIdx, ⟨fun _ _ => 5, fun _ => 5, fun _ => none⟩, true, []⟩
    [.idx (.registerCoin 1 10 [110]), .convertCoin 1 0 1 3, .idx (.updateAlias 1 111), .idx (.registerCoin 2 11 []),
     .idx (.toggle 1)] := by
  refine ⟨?_, trivial, trivial, ?_, trivial, trivial⟩ <;> (simp only [UOp.fresh, IOp.fresh]; decide)

/-! ### I_module over every message (unified model) -/

open FxVerif.Proofs.C08 in
/-- **I_module is kept by every message of the module**, whatever it operates on: for a registered module-owned pair
`(d, ct)` the coins escrowed for it (by the module account; by the WFX contract for the native coin) minus the ERC-20
total supply is unchanged by any `MsgConvertCoin`, `MsgConvertERC20`, `MsgConvertDenom` (of any denomination, towards
any target — including conversions of other tokens' denominations and of this token's own aliases), registration,
toggle, alias update and parameter update, in every state that satisfies I_index. -/
theorem module_book_every_message (s s' : UState) (hi : IdxInv s.idx) (id : PairId) (p : Pair)
    (hp : lookup id s.idx.pairs = some p) (hext : p.external = false) (op : UOp) (h : stepU s op = .ok s') :
    (bookM p.denom p.contract (decide (p.denom = 0))).val s'.L =
      (bookM p.denom p.contract (decide (p.denom = 0))).val s.L + donationM s.dead p.denom p.contract op :=
  bookM_stepU s s' hi id p hp hext op h

open FxVerif.Proofs.C08 in
/-- **I_module along every sequence of messages** (induction): from any state satisfying I_index in which no contract
has self-destructed, every registered module-owned pair keeps its book through any list of messages -/
theorem module_books_preserved_all_messages (s : UState) (hi : IdxInv s.idx) (hdead : s.dead = []) (ops : List UOp)
    (hf : FreshRun s ops) (id : PairId) (p : Pair) (hp : lookup id s.idx.pairs = some p) (hext : p.external = false)
    (hnd : ∀ op ∈ ops, donationM [] p.denom p.contract op = 0) :
    (bookM p.denom p.contract (decide (p.denom = 0))).val (runU s ops).L =
      (bookM p.denom p.contract (decide (p.denom = 0))).val s.L :=
  bookM_runU s hi hdead ops hf id p hp hext hnd

open FxVerif.Proofs.C08 in
/-- **escrow ≥ supply, always** (what holds without excluding donations): along every sequence of messages the escrowed
coins minus the ERC-20 total supply of a registered module-owned pair never decreases — the only messages that move it
are ERC-20 → coin conversions naming the pair's own escrow account (the WFX contract) as receiver of the coins, and they
move it up by the converted amount -/
theorem module_books_never_decrease (s : UState) (hi : IdxInv s.idx) (hdead : s.dead = []) (ops : List UOp)
    (hf : FreshRun s ops) (id : PairId) (p : Pair) (hp : lookup id s.idx.pairs = some p) (hext : p.external = false) :
    (bookM p.denom p.contract (decide (p.denom = 0))).val s.L ≤
      (bookM p.denom p.contract (decide (p.denom = 0))).val (runU s ops).L :=
  bookM_runU_mono s hi hdead ops hf id p hp hext

/-! ### I_external over every message (unified model, dynamic alias sets) -/

open FxVerif.Proofs.C08 in
/-- **I_external, exactly, for every message**: for a registered externally-owned pair `(d, ct)` whose bank metadata
lists the aliases `as`, the ERC-20 amount escrowed by the module minus the coin supply summed over `d :: as` changes,
under ANY message of the module in any state satisfying I_index, by exactly `extDelta`: 0 for every `MsgConvertCoin`,
`MsgConvertERC20`, registration, toggle, alias update, parameter update and every `MsgConvertDenom` of another token's
denominations; −n for `MsgConvertDenom` base → alias of this token (the known finding: the alias is minted while the
base coin stays locked), +n for alias → base, 0 for alias → alias.  (`Nodup`: `Metadata.Validate` rejects duplicates.) -/
theorem external_book_every_message (s s' : UState) (hi : IdxInv s.idx) (id : PairId) (p : Pair)
    (hp : lookup id s.idx.pairs = some p) (hext : p.external = true) (as : List Nat)
    (hmd : lookup p.denom s.idx.md = some as) (hn : (p.denom :: as).Nodup) (op : UOp) (h : stepU s op = .ok s') :
    (bookE p.denom p.contract as).val s'.L = (bookE p.denom p.contract as).val s.L + extDelta s.idx p op :=
  bookE_stepU s s' hi id p hp hext as hmd hn op h

open FxVerif.Proofs.C08 in
/-- what the blocked-receiver guard protects: the same flow with the erc20 module account as receiver (a self-transfer
of the released tokens, the coins burned all the same) would leave the escrow `n` above the coin supply.
`external_book_every_message` uses the guard to exclude it. -/
theorem external_book_without_receiver_guard (d ct : Nat) (as : List Nat) (hn : (d :: as).Nodup) (u n : Nat) :
    (bookE d ct as).flowDelta (convertCoinU .externalOwned d ct (.user u) .erc20Mod n) = (n : Int) :=
  bookE_convertCoinU_to_module d ct as hn u n

open FxVerif.Proofs.C08 in
/-- corollary: every message other than `MsgConvertDenom` keeps I_external of every externally-owned pair -/
theorem external_book_preserved_by_conversions (s s' : UState) (hi : IdxInv s.idx) (id : PairId) (p : Pair)
    (hp : lookup id s.idx.pairs = some p) (hext : p.external = true) (as : List Nat)
    (hmd : lookup p.denom s.idx.md = some as) (hn : (p.denom :: as).Nodup) (op : UOp)
    (hop : ∀ d u r n t, op ≠ .convertDenom d u r n t) (h : stepU s op = .ok s') :
    (bookE p.denom p.contract as).val s'.L = (bookE p.denom p.contract as).val s.L := by
  rw [bookE_stepU s s' hi id p hp hext as hmd hn op h]
  cases op with
  | convertDenom d u r n t => exact absurd rfl (hop d u r n t)
  | _ => simp [extDelta]

open FxVerif.Proofs.C08 in
/-- what `MsgUpdateDenomAlias` itself does to I_external: adding alias `a` to the metadata moves the right-hand side by
exactly the current supply of `a` (0 for a denomination nobody holds) -/
theorem external_book_alias_added (d ct : Nat) (as : List Nat) (a : Nat) (L : Ledger) :
    (bookE d ct (as ++ [a])).val L = (bookE d ct as).val L - (L.supply (coinAsset a) : Int) := by
  have := supplySum_val_append (d :: as) a L
  simp only [List.cons_append] at this
  simp only [bookE, Obs.add, Obs.neg, this]; omega

open FxVerif.Proofs.C08 in
/-- **the denominations of a module-owned coin stay backed** (I_family): for a registered module-owned pair whose bank
metadata lists the aliases `as`, (supply of the base coin − alias coins escrowed by the erc20 module account) is kept
by EVERY message in every state satisfying I_index — alias → base escrows the alias and mints the base, base → alias
burns the base and releases the alias, alias → alias moves escrow only; the native coin's `convertNativeAlias` branch
included; conversions of other tokens and all index operations do not touch it -/
theorem family_book_every_message (s s' : UState) (hi : IdxInv s.idx) (id : PairId) (p : Pair)
    (hp : lookup id s.idx.pairs = some p) (hext : p.external = false) (as : List Nat)
    (hmd : lookup p.denom s.idx.md = some as) (hn : (p.denom :: as).Nodup) (op : UOp) (h : stepU s op = .ok s') :
    (bookF p.denom as).val s'.L = (bookF p.denom as).val s.L :=
  bookF_stepU s s' hi id p hp hext as hmd hn op h

/-! ### convert_exact and I_sum for the unified model -/

section Exact
open FxVerif.Proofs.C08

/-- **convert_exact, `MsgConvertCoin` (unified)**: a successful message on a live pair changes, among all accounts
other than the erc20 module account and the WFX contract and among ALL denominations and ALL contracts, exactly: the
sender's balance of the message's coin denomination (−n) and the receiver's balance of the ERC-20 of the pair
registered for that denomination (+n); the indexes are untouched -/
theorem convertCoin_exact_unified (s s' : UState) (d u r n : Nat) (h : stepU s (.convertCoin d u r n) = .ok s')
    (hlive : ∀ p, pairByDenom s.idx d = some p → s.dead.contains p.contract = false) :
    ∃ p, pairByDenom s.idx d = some p ∧ s'.idx = s.idx ∧ blocked (partyAddr r) = false ∧
      ∀ (a : Asset) (x : Addr), x ≠ .erc20Mod → x ≠ .wfx →
        (s'.L.bal a x : Int) = s.L.bal a x + (if a = .erc p.contract ∧ x = partyAddr r then (n : Int) else 0)
          - (if a = coinAsset d ∧ x = .user u then (n : Int) else 0) := by
  obtain ⟨p, hp, hnb, hcase⟩ := stepU_convertCoin_ok s s' d u r n h
  rcases hcase with ⟨hd, _⟩ | ⟨_, L', hr, rfl⟩
  · rw [hlive p hp] at hd; cases hd
  · refine ⟨p, hp, rfl, hnb, fun a x h1 h2 => ?_⟩
    have := runFlow_obs (balObs_sound a x) _ _ _ hr
    simp only [balObs] at this
    rw [this]
    have h1' : ¬ Addr.erc20Mod = x := fun e => h1 e.symm
    have h2' : ¬ Addr.wfx = x := fun e => h2 e.symm
    have hne : ∀ ct, ¬ coinAsset d = Asset.erc ct := fun ct => coinAsset_ne_erc d ct
    have hne' : ∀ ct, ¬ Asset.erc ct = coinAsset d := fun ct => erc_ne_coinAsset d ct
    generalize partyAddr r = ra
    by_cases ha1 : a = .erc p.contract <;> by_cases ha2 : a = coinAsset d <;> by_cases hx1 : x = ra <;>
      by_cases hx2 : x = .user u <;> cases p.kind <;>
      simp [convertCoinU, Obs.flowDelta, balObs, E, ha1, ha2, hx1, hx2, h1, h2, h1', h2', hne, hne', eq_comm] <;>
      (try simp_all) <;> (try omega)

/-- **convert_exact, `MsgConvertERC20` (unified)** -/
theorem convertERC20_exact_unified (s s' : UState) (ct u r n : Nat) (h : stepU s (.convertERC20 ct u r n) = .ok s')
    (hlive : ∀ p, pairByErc s.idx ct = some p → s.dead.contains p.contract = false) :
    ∃ p, pairByErc s.idx ct = some p ∧ s'.idx = s.idx ∧ blocked (partyAddr r) = false ∧
      ∀ (a : Asset) (x : Addr), x ≠ .erc20Mod → x ≠ .wfx →
        (s'.L.bal a x : Int) = s.L.bal a x + (if a = coinAsset p.denom ∧ x = partyAddr r then (n : Int) else 0)
          - (if a = .erc p.contract ∧ x = .user u then (n : Int) else 0) := by
  obtain ⟨p, hp, hnb, hcase⟩ := stepU_convertERC20_ok s s' ct u r n h
  rcases hcase with ⟨hd, _⟩ | ⟨_, L', hr, rfl⟩
  · rw [hlive p hp] at hd; cases hd
  · refine ⟨p, hp, rfl, hnb, fun a x h1 h2 => ?_⟩
    have := runFlow_obs (balObs_sound a x) _ _ _ hr
    simp only [balObs] at this
    rw [this]
    have h1' : ¬ Addr.erc20Mod = x := fun e => h1 e.symm
    have h2' : ¬ Addr.wfx = x := fun e => h2 e.symm
    have hne : ∀ c, ¬ coinAsset p.denom = Asset.erc c := fun c => coinAsset_ne_erc _ c
    have hne' : ∀ c, ¬ Asset.erc c = coinAsset p.denom := fun c => erc_ne_coinAsset _ c
    generalize partyAddr r = ra
    by_cases ha1 : a = .erc p.contract <;> by_cases ha2 : a = coinAsset p.denom <;> by_cases hx1 : x = ra <;>
      by_cases hx2 : x = .user u <;> cases p.kind <;>
      simp [convertERC20U, Obs.flowDelta, balObs, E, ha1, ha2, hx1, hx2, h1, h2, h1', h2', hne, hne', eq_comm] <;>
      (try simp_all) <;> (try omega)

/-- every flow of the unified model only names the users of the message, the erc20 module account and the WFX contract -/
theorem stepU_ledger_flow (s s' : UState) (op : UOp) (h : stepU s op = .ok s') :
    s'.L = s.L ∨ ∃ fl, runFlow fl s.L = .ok s'.L ∧
      ∀ univ : List Addr, Addr.erc20Mod ∈ univ → Addr.wfx ∈ univ →
        (match op with
          | .convertCoin _ u r _ => Addr.user u ∈ univ ∧ partyAddr r ∈ univ
          | .convertERC20 _ u r _ => Addr.user u ∈ univ ∧ partyAddr r ∈ univ
          | .convertDenom _ u r _ _ => Addr.user u ∈ univ ∧ Addr.user r ∈ univ
          | _ => True) → ∀ p ∈ fl, p.addrsIn univ := by
  cases op with
  | convertCoin d u r n =>
    obtain ⟨p, _, _, hcase⟩ := stepU_convertCoin_ok s s' d u r n h
    rcases hcase with ⟨_, rfl⟩ | ⟨_, L', hr, rfl⟩
    · exact Or.inl rfl
    · refine Or.inr ⟨_, hr, fun univ hE hW hu q hq => ?_⟩
      generalize p.kind = k at hq
      cases k <;> simp only [convertCoinU, List.mem_cons, List.not_mem_nil, or_false] at hq <;>
        rcases hq with rfl | rfl | rfl <;> simp [Prim.addrsIn, E, hu.1, hu.2, hE, hW]
  | convertERC20 ct u r n =>
    obtain ⟨p, _, _, hcase⟩ := stepU_convertERC20_ok s s' ct u r n h
    rcases hcase with ⟨_, rfl⟩ | ⟨_, L', hr, rfl⟩
    · exact Or.inl rfl
    · refine Or.inr ⟨_, hr, fun univ hE hW hu q hq => ?_⟩
      generalize p.kind = k at hq
      cases k <;> simp only [convertERC20U, List.mem_cons, List.not_mem_nil, or_false] at hq <;>
        rcases hq with rfl | rfl | rfl <;> simp [Prim.addrsIn, E, hu.1, hu.2, hE, hW]
  | convertDenom d u r n tgt =>
    simp only [stepU] at h
    split at h; · cases h
    split at h; · cases h
    split at h
    · split at h <;> cases h
    · simp only [UState.withLedger] at h
      split at h
      · rename_i L' hr
        cases h
        refine Or.inr ⟨_, hr, fun univ hE hW hu q hq => ?_⟩
        simp only [convertDenomU, List.mem_append, List.mem_cons, List.not_mem_nil, or_false] at hq
        rcases hq with ((rfl | hq) | rfl) | hq
        · simp [Prim.addrsIn, E, hu.1, hE]
        · rename_i k _ _ _ _ _
          simp only [convertDenomMid] at hq
          (repeat' split at hq) <;> simp only [List.mem_cons, List.not_mem_nil, or_false] at hq <;>
            (try rcases hq with rfl | rfl) <;> (try subst hq) <;> simp_all [Prim.addrsIn, E]
        · simp [Prim.addrsIn, E, hu.1, hE]
        · split at hq
          · cases hq
          · simp only [List.mem_cons, List.not_mem_nil, or_false] at hq
            rcases hq with rfl | rfl <;> simp [Prim.addrsIn, E, hu.1, hu.2, hE]
      · cases h
  | idx iop => obtain ⟨i, _, rfl⟩ := stepU_idx_ok h; exact Or.inl rfl
  | setEnable b => simp only [stepU] at h; cases h; exact Or.inl rfl

/-- **I_sum (unified)**: every message keeps "Σ balances = supply" of every coin denomination and every ERC-20
contract, over any finite universe of accounts containing the message's users, the module account and the WFX contract -/
theorem sum_preserved_unified (s s' : UState) (op : UOp) (h : stepU s op = .ok s')
    (univ : List Addr) (hn : univ.Nodup) (hE : Addr.erc20Mod ∈ univ) (hW : Addr.wfx ∈ univ)
    (hu : match op with
          | .convertCoin _ u r _ => Addr.user u ∈ univ ∧ partyAddr r ∈ univ
          | .convertERC20 _ u r _ => Addr.user u ∈ univ ∧ partyAddr r ∈ univ
          | .convertDenom _ u r _ _ => Addr.user u ∈ univ ∧ Addr.user r ∈ univ
          | _ => True)
    (a : Asset) (hwf : s.L.WF univ a) : s'.L.WF univ a := by
  rcases stepU_ledger_flow s s' op h with e | ⟨fl, hr, hin⟩
  · rw [e]; exact hwf
  · exact runFlow_WF univ hn fl _ _ hr (hin univ hE hW hu) a hwf

end Exact

/-! ### I_external, I_sum and the metadata part of I_index over WHOLE HISTORIES (round 3) -/

section Histories
open FxVerif.Proofs.C08

/-- **the denominations of a registered token are pairwise different and its bank metadata exists, after every history
from genesis** (induction over the op list): `base :: aliases` never has a duplicate — the fact every book over "base plus
per-chain bridge denominations" rests on.  Hypotheses: fresh deployment addresses (`FreshRun`) and the stateless validation
the router runs before the handler (`WellFormedRun`: a registration's alias list has no duplicates). -/
theorem metadata_invariant_from_genesis (L : Ledger) (dead : List Nat) (ops : List UOp)
    (hf : FreshRun ⟨genesisIdx, L, true, dead⟩ ops) (hw : WellFormedRun ops) :
    MdInv (runU ⟨genesisIdx, L, true, dead⟩ ops).idx := by
  suffices H : ∀ (s : UState), IdxInv s.idx → MdInv s.idx → FreshRun s ops → IdxInv (runU s ops).idx ∧ MdInv (runU s ops).idx from
    (H _ index_invariant_genesis mdInv_genesis hf).2
  clear hf
  induction ops with
  | nil => exact fun s hi hm _ => ⟨hi, hm⟩
  | cons op ops ih =>
    intro s hi hm hf'
    simp only [runU, List.foldl_cons]
    have hw' : WellFormedRun ops := fun o ho => hw o (by simp [ho])
    cases h : stepU s op with
    | error e =>
      have hst : stepUT s op = s := by simp [stepUT, h]
      rw [hst]; exact ih hw' s hi hm (by simpa [FreshRun, hst] using hf'.2)
    | ok s' =>
      have hst : stepUT s op = s' := by simp [stepUT, h]
      rw [hst]
      exact ih hw' s' (inv_stepU s s' hi op hf'.1 h) (mdInv_stepU s s' hi hm op (hw op (by simp)) h)
        (by simpa [FreshRun, hst] using hf'.2)

/-- **I_external along EVERY history, exactly** (induction over the op list; any messages of the module in any order, with
any arguments and any outcomes; the alias set of the pair moving along the way): for a registered externally-owned pair,
the ERC-20 amount escrowed by the module minus the coin supply summed over the base denomination and the aliases the
metadata lists AT THE END equals the same difference over the aliases listed at the start plus `extDrift` — the sum, over
the successful messages of the history, of `extDelta` (`MsgConvertDenom` between the token's own denominations: the known
finding) and `aliasShift` (the current supply of an alias entering or leaving the sum). -/
theorem external_books_all_histories (s : UState) (hi : IdxInv s.idx) (hm : MdInv s.idx) (hdead : s.dead = [])
    (ops : List UOp) (hf : FreshRun s ops) (hw : WellFormedRun ops) (id : PairId) (p : Pair)
    (hp : lookup id s.idx.pairs = some p) (hext : p.external = true) :
    extBook (runU s ops) p = extBook s p + extDrift p s ops :=
  extBook_runU s hi hm hdead ops hf hw id p hp hext

/-- **I_external is an invariant of every history of conversions, registrations, toggles and parameter updates**: as long
as no `MsgConvertDenom` and no `MsgUpdateDenomAlias` occurs, every registered externally-owned pair keeps "escrowed ERC-20 =
coin supply over base + aliases" through any list of `MsgConvertCoin` / `MsgConvertERC20` (of this and of every other
token, to any receiver, succeeding or failing), registrations of further tokens, toggles and `MsgUpdateParams`. -/
theorem external_books_preserved_all_histories (s : UState) (hi : IdxInv s.idx) (hm : MdInv s.idx) (hdead : s.dead = [])
    (ops : List UOp) (hf : FreshRun s ops) (hw : WellFormedRun ops) (id : PairId) (p : Pair)
    (hp : lookup id s.idx.pairs = some p) (hext : p.external = true)
    (hops : ∀ op ∈ ops, (∀ d u r n t, op ≠ .convertDenom d u r n t) ∧ (∀ d a, op ≠ .idx (.updateAlias d a))) :
    extBook (runU s ops) p = extBook s p := by
  rw [extBook_runU s hi hm hdead ops hf hw id p hp hext, extDrift_zero p s ops hops]; omega

/-- the hypotheses are met by a history that registers an externally-owned token with an alias, converts in both
directions, registers and converts another token and toggles — and its book is balanced at the end -/
example :
    let s0 : UState := ⟨genesisIdx, ⟨fun a x => if a = .erc 11 ∧ x = .user 1 then 50 else 0, fun a => if a = .erc 11 then 50 else 0,
      fun _ => none⟩, true, []⟩
    let ops : List UOp := [.idx (.registerERC20 2 11 [120]), .convertERC20 11 1 1 30, .idx (.registerCoin 3 12 [130, 131]),
      .convertCoin 2 1 2 10, .idx (.toggle 3)]
    FreshRun s0 ops ∧ WellFormedRun ops ∧
    extBook (runU s0 ops) ⟨2, 11, true, true⟩ = 0 ∧ (runU s0 ops).L.bal (.erc 11) .erc20Mod = 20 := by
  refine ⟨?_, ?_, ?_, ?_⟩
  · refine ⟨trivial, trivial, ?_, trivial, trivial, trivial⟩
    simp only [UOp.fresh, IOp.fresh]; decide
  · intro op hop
    simp only [List.mem_cons, List.not_mem_nil, or_false] at hop
    rcases hop with rfl | rfl | rfl | rfl | rfl <;> simp [UOp.wellFormed]
  · decide
  · decide

/-- **I_sum along EVERY history** (induction over the op list): "Σ balances = supply" of every coin denomination and every
ERC-20 contract, over any finite universe of accounts that contains the erc20 module account, the WFX contract and the
accounts the messages name, is kept by every list of messages — whatever succeeds or fails in between. -/
theorem sum_preserved_all_histories (s : UState) (ops : List UOp) (univ : List Addr) (hn : univ.Nodup)
    (hE : Addr.erc20Mod ∈ univ) (hW : Addr.wfx ∈ univ) (hu : ∀ op ∈ ops, UOp.addrsIn univ op)
    (a : Asset) (hwf : s.L.WF univ a) : (runU s ops).L.WF univ a := by
  induction ops generalizing s with
  | nil => exact hwf
  | cons op ops ih =>
    simp only [runU, List.foldl_cons]
    refine ih _ (fun o ho => hu o (by simp [ho])) ?_
    simp only [stepUT]
    cases h : stepU s op with
    | error e => exact hwf
    | ok s' =>
      refine sum_preserved_unified s s' op h univ hn hE hW ?_ a hwf
      have := hu op (by simp)
      cases op <;> exact this

/-- the universe hypothesis is satisfiable: three users, the module account, the WFX contract and the gov account -/
example : ∀ op ∈ ([.convertCoin 1 0 6 3, .convertERC20 11 1 2 4, .convertDenom 110 2 0 1 none, .idx (.toggle 1)] : List UOp),
    UOp.addrsIn [.user 0, .user 1, .user 2, .erc20Mod, .wfx, partyAddr 6] op := by
  intro op hop
  simp only [List.mem_cons, List.not_mem_nil, or_false] at hop
  rcases hop with rfl | rfl | rfl | rfl <;> simp [UOp.addrsIn, partyAddr]

/-! #### round 4: I_family along whole histories; the pair's own contract alive is all that is assumed about self-destruction -/

/-- **I_family along EVERY history, exactly** (induction over the op list; the alias set of the pair moving along the way):
for a registered module-owned pair whose own contract has not self-destructed, (supply of the base coin − alias coins
escrowed by the erc20 module, over the aliases the metadata lists AT THE END) equals the same difference over the aliases
listed at the start plus `famDrift` — the sum, over the successful `MsgUpdateDenomAlias` on the pair's denomination, of the
alias coins the module already held when the alias entered (−) or left (+) the list.  No conversion, registration, toggle,
parameter update or removal of ANOTHER pair (self-destructed contracts) contributes anything. -/
theorem family_books_all_histories (s : UState) (hi : IdxInv s.idx) (hm : MdInv s.idx) (ops : List UOp)
    (hf : FreshRun s ops) (hw : WellFormedRun ops) (id : PairId) (p : Pair) (hp : lookup id s.idx.pairs = some p)
    (hext : p.external = false) (hlive : s.dead.contains p.contract = false) :
    famBook (runU s ops) p = famBook s p + famDrift p.denom s ops :=
  famBook_runU s hi hm ops hf hw id p hp hext hlive

/-- **I_family is an invariant of every history without an alias update on the pair's own denomination** -/
theorem family_books_preserved_all_histories (s : UState) (hi : IdxInv s.idx) (hm : MdInv s.idx) (ops : List UOp)
    (hf : FreshRun s ops) (hw : WellFormedRun ops) (id : PairId) (p : Pair) (hp : lookup id s.idx.pairs = some p)
    (hext : p.external = false) (hlive : s.dead.contains p.contract = false)
    (hops : ∀ op ∈ ops, ∀ a, op ≠ .idx (.updateAlias p.denom a)) :
    famBook (runU s ops) p = famBook s p := by
  rw [famBook_runU s hi hm ops hf hw id p hp hext hlive, famDrift_zero p.denom s ops hops]; omega

/-- **I_module along EVERY history, exactly, other pairs being removed or not**: escrow − supply at the end = at the start +
the donations of the history (ERC-20 → coin conversions naming the pair's own escrow account as receiver), which are ≥ 0.
Only the pair's OWN contract is assumed alive (`module_books_preserved_all_messages` assumed no self-destructed contract
at all). -/
theorem module_books_all_histories (s : UState) (hi : IdxInv s.idx) (ops : List UOp) (hf : FreshRun s ops)
    (id : PairId) (p : Pair) (hp : lookup id s.idx.pairs = some p) (hext : p.external = false)
    (hlive : s.dead.contains p.contract = false) :
    (bookM p.denom p.contract (decide (p.denom = 0))).val (runU s ops).L =
      (bookM p.denom p.contract (decide (p.denom = 0))).val s.L + donationRun p.denom p.contract s ops ∧
    0 ≤ donationRun p.denom p.contract s ops :=
  ⟨bookM_runU_live s hi ops hf id p hp hext hlive, donationRun_nonneg _ _ _ _⟩

/-- **I_external along EVERY history, exactly, other pairs being removed or not** (`external_books_all_histories` with
`s.dead = []` weakened to "the pair's own contract is alive") -/
theorem external_books_all_histories_live (s : UState) (hi : IdxInv s.idx) (hm : MdInv s.idx)
    (ops : List UOp) (hf : FreshRun s ops) (hw : WellFormedRun ops) (id : PairId) (p : Pair)
    (hp : lookup id s.idx.pairs = some p) (hext : p.external = true) (hlive : s.dead.contains p.contract = false) :
    extBook (runU s ops) p = extBook s p + extDrift p s ops :=
  extBook_runU_live s hi hm ops hf hw id p hp hext hlive

/-- the hypotheses are met by a history in which ANOTHER token's contract has self-destructed and its pair is removed by a
conversion, while the module-owned token 1 (aliases 110, then also 111) converts between its denominations: the pair of
contract 12 disappears, the family book of token 1 moves only by the alias coins the module held when alias 111 entered -/
example :
    let L0 : Ledger := ⟨fun a x => if a = coinAsset 110 ∧ x = .user 0 then 40 else if a = coinAsset 3 ∧ x = .user 1 then 9 else 0,
      fun a => if a = coinAsset 110 then 40 else if a = coinAsset 3 then 9 else 0, fun _ => none⟩
    let s0 : UState := ⟨genesisIdx, L0, true, [12]⟩
    let ops : List UOp := [.idx (.registerCoin 1 10 [110]), .idx (.registerCoin 3 12 []), .convertDenom 110 0 0 15 none,
      .convertCoin 3 1 1 4, .idx (.updateAlias 1 111), .convertDenom 1 0 0 5 (some 0)]
    FreshRun s0 ops ∧ WellFormedRun ops ∧ (runU s0 ops).dead.contains 10 = false ∧
    pairByDenom (runU s0 ops).idx 3 = none ∧ famBook (runU s0 ops) ⟨1, 10, true, false⟩ = 0 := by
  refine ⟨?_, ?_, by decide, by decide, by decide⟩
  · refine ⟨?_, ?_, trivial, trivial, trivial, trivial, trivial⟩ <;> (simp only [UOp.fresh, IOp.fresh]; decide)
  · intro op hop
    simp only [List.mem_cons, List.not_mem_nil, or_false] at hop
    rcases hop with rfl | rfl | rfl | rfl | rfl | rfl <;> simp [UOp.wellFormed]

end Histories

/-! ### keeper-level token calls: the regenerated success predicate of the evm keeper's ERC-20 wrappers -/

section Wrapper
open FxVerif.Proofs.C08 FxVerif.Gen.C08c

/-- **the wrappers as written treat a failing token call as a failure**: `ERC20Transfer` (translated statement by
statement from `x/evm/keeper/erc20.go` into `Gen/C08c.lean erc20Transfer_accepts`) goes on only if the EVM call did not
fail or revert AND the returned data decodes as a bool AND that bool is `true` — so a reverted call is a failure whatever
it returned, a `false` return is a failure, an empty return is a failure (tokens that return nothing are not supported),
a `true` return is a success; `ERC20Mint` / `ERC20Burn` go on iff the EVM call did not fail.  `stepUA` evaluates this very
function. -/
theorem erc20_wrappers_sound :
    Accepts.Sound erc20Transfer_accepts ∧
    erc20Transfer_accepts true true true false = false ∧ erc20Transfer_accepts true false false true = true ∧
    (∀ a b c d, erc20Mint_accepts a b c d = a) ∧ (∀ a b c d, erc20Burn_accepts a b c d = a) ∧
    erc20Transfer_translated = true ∧ erc20Mint_translated = true ∧ erc20Burn_translated = true := by
  refine ⟨⟨fun e u v => by cases e <;> cases u <;> cases v <;> rfl, rfl⟩, rfl, rfl, fun _ _ _ _ => rfl, fun _ _ _ _ => rfl,
    rfl, rfl, rfl⟩

/-- the checks of `ERC20Transfer` in source order: VM error, then unpack error, then the bool — three separate `if`s -/
theorem erc20_wrapper_checks_match_code :
    erc20Transfer_checks = [("err != nil", "err"), ("err != nil", "ErrABIUnpack"), ("!unpackedRet.Value", "ErrLogic")] ∧
    erc20Mint_checks = [] ∧ erc20Burn_checks = [] := by
  decide

/-- **with the wrapper as written, the message server with explicit token signals refines `stepU`**, for tokens of every
style (success signalled by `true` or by nothing; failure by revert, `false` or nothing): whenever a message succeeds, it
is a success of `stepU` with the same resulting state — so every theorem about `stepU` (exact deltas, I_external,
I_module, I_index, I_sum) holds of the implementation's reading of the token -/
theorem regenerated_wrapper_refines_stepU (styleOf : Nat → Style) (s s' : UState) (op : UOp)
    (h : stepUA erc20Transfer_accepts styleOf s op = .ok s') : stepU s op = .ok s' :=
  stepUA_ok_stepU _ erc20_wrappers_sound.1 styleOf (fun _ _ => erc20_wrappers_sound.2.1) s s' op h

/-- **convert_exact for `MsgConvertERC20` through the regenerated wrapper** — depends on "a false or failing return is a
failure" (`erc20_wrappers_sound`): a successful conversion of a token of any style took exactly `n` tokens from the sender
and gave exactly `n` coins to the receiver, nothing else -/
theorem convertERC20_exact_regenerated_wrapper (styleOf : Nat → Style) (s s' : UState) (ct u r n : Nat)
    (h : stepUA erc20Transfer_accepts styleOf s (.convertERC20 ct u r n) = .ok s')
    (hlive : ∀ p, pairByErc s.idx ct = some p → s.dead.contains p.contract = false) :
    ∃ p, pairByErc s.idx ct = some p ∧ s'.idx = s.idx ∧ blocked (partyAddr r) = false ∧
      ∀ (a : Asset) (x : Addr), x ≠ .erc20Mod → x ≠ .wfx →
        (s'.L.bal a x : Int) = s.L.bal a x + (if a = coinAsset p.denom ∧ x = partyAddr r then (n : Int) else 0)
          - (if a = .erc p.contract ∧ x = .user u then (n : Int) else 0) :=
  convertERC20_exact_unified s s' ct u r n (regenerated_wrapper_refines_stepU styleOf s s' _ h) hlive

/-- **I_external through the regenerated wrapper** -/
theorem external_book_regenerated_wrapper (styleOf : Nat → Style) (s s' : UState) (hi : IdxInv s.idx) (id : PairId) (p : Pair)
    (hp : lookup id s.idx.pairs = some p) (hext : p.external = true) (as : List Nat)
    (hmd : lookup p.denom s.idx.md = some as) (hn : (p.denom :: as).Nodup) (op : UOp)
    (h : stepUA erc20Transfer_accepts styleOf s op = .ok s') :
    (bookE p.denom p.contract as).val s'.L = (bookE p.denom p.contract as).val s.L + extDelta s.idx p op :=
  bookE_stepU s s' hi id p hp hext as hmd hn op (regenerated_wrapper_refines_stepU styleOf s s' _ h)

/-- why the soundness matters: a wrapper that lets a `false` return pass (`err != nil && !ok` instead of `||`) turns
`MsgConvertERC20` of a token that signals failure by returning `false` into a mint for nothing — the sender holds 0
tokens, the message succeeds, 7 coins are minted and paid out, the escrow is still empty -/
theorem false_return_accepted_mints_for_nothing :
    let acc : Accepts := fun vmOk retEmpty unpackErr value => if !vmOk then false else if retEmpty then true else
      if unpackErr && !value then false else true
    let s : UState := { idx := addPair genesisIdx ⟨2, 11, true, true⟩, L := ⟨fun _ _ => 0, fun _ => 0, fun _ => none⟩ }
    ∃ s', stepUA acc (fun _ => { ok := .retTrue, fail := .retFalse }) s (.convertERC20 11 1 1 7) = .ok s' ∧
      s'.L.bal (coinAsset 2) (.user 1) = 7 ∧ s'.L.supply (coinAsset 2) = 7 ∧ s'.L.bal (.erc 11) .erc20Mod = 0 := by
  refine ⟨_, rfl, ?_, ?_, ?_⟩ <;> decide

end Wrapper

/-! ### mixed transactions: the running StateDB's caches and keeper-level nested calls (Model/C08Cache.lean) -/

section Mixed
open FxVerif.Model.C08Cache FxVerif.Proofs.C08Cache

/-- **a StateDB is a faithful buffer**: starting from caches that agree with the store (in particular from empty
caches), executing any contract program through `GetState` / `SetState` and committing gives exactly the plain execution
of the program on the store — same outcome, same final storage.  For every program. -/
theorem statedb_is_faithful_buffer (p : TProg) (st : Store) :
    nestedCall p st = ((runPlain p st).1, if (runPlain p st).1 then (runPlain p st).2 else st) :=
  nestedCall_eq_plain p st

/-- **mixed_tx_coherent**: for EVERY transaction — any sequence of contract programs executed by the running EVM and
keeper-level nested calls, any payments out of the escrow — IF no nested call reads or writes a slot that the running
StateDB has cached (origin or dirty) at the moment of the call, THEN the transaction's outcome, final token storage and
final escrow are exactly those of running the same programs one after the other on one store. -/
theorem mixed_tx_coherent (steps : List MStep) (st : Store) (esc : Nat)
    (hc : CoherentTx steps ⟨{ store := st }, esc⟩) : txResult steps st esc = seqResult steps st esc :=
  txResult_coherent steps st esc hc

/-- conversions made through the running EVM (what `crossChain` does with `contract.NewERC20Call`) are always coherent:
no hypothesis at all when the transaction contains no keeper-level nested call -/
theorem mixed_tx_running_evm_only (steps : List MStep) (h : ∀ s ∈ steps, ∃ p pay, s = .evm p pay) (st : Store) (esc : Nat) :
    txResult steps st esc = seqResult steps st esc :=
  txResult_coherent steps st esc (coherent_of_evm_only steps _ h)

/-- **mixed_tx_preserves_sum_partial** (I_sum under mixing): a transaction made of FIP20 method calls (`transfer`,
`approve`, `transferFrom`, `mint`, `burn`, `balanceOf` — by the contract itself, by a precompile through the running EVM
or by keeper-level nested calls) between counted holders keeps "Σ balances − totalSupply", PROVIDED it is coherent
(`CoherentTx`: no nested call touches a slot cached by the running StateDB).  The hypothesis is exactly what
`bridgeCall` violates on the real code; the two theorems below are the witnesses. -/
theorem mixed_tx_preserves_sum_partial (hs : List Nat) (hn : hs.Nodup) (steps : List MStep)
    (hm : ∀ s ∈ steps, ∃ m : Method, s.prog = m.prog ∧ ∀ a ∈ m.holders, a ∈ hs) (st : Store) (esc : Nat)
    (hc : CoherentTx steps ⟨{ store := st }, esc⟩) :
    tokDiff hs (txResult steps st esc).2.1 = tokDiff hs st := by
  rw [txResult_coherent steps st esc hc]
  simp only [seqResult]
  cases hr : runSeq steps (st, esc) with
  | none => rfl
  | some r => exact runSeq_tokDiff hs hn steps hm st esc r.1 r.2 hr

/-- witness 1 (dirty slot): the contract transfers 10 of its 50 tokens, then `bridgeCall` converts 50 through a nested
call that still sees 50: the transaction succeeds, the contract keeps 40, the other holder has 10, the supply dropped by
50 — 50 tokens too many (the numbers the harness observes on the real EVM) -/
theorem mixed_tx_dirty_slot_creates_tokens :
    let r := txResult [.evm (transfer 0 1 10) 0, .nested (burn 0 50) 50 0] (store0 50 0 0 100 0) 100
    r.1 = true ∧ r.2.1 (.bal 0) = 40 ∧ r.2.1 (.bal 1) = 10 ∧ r.2.1 .supply = 50 ∧ r.2.2 = 50 ∧
    tokDiff [0, 1, 2] r.2.1 = tokDiff [0, 1, 2] (store0 50 0 0 100 0) + 50 := by
  decide

/-- witness 2 (stale origin cache): the contract only READS its balance before `bridgeCall` converts 20 and transfers 5
afterwards: the transfer starts from the cached pre-conversion balance and its write-back undoes the burn -/
theorem mixed_tx_stale_read_creates_tokens :
    let r := txResult [.evm (balanceOf 0) 0, .nested (burn 0 20) 20 0, .evm (transfer 0 1 5) 0] (store0 50 0 0 100 0) 100
    r.1 = true ∧ r.2.1 (.bal 0) = 45 ∧ r.2.1 (.bal 1) = 5 ∧ r.2.1 .supply = 80 ∧
    tokDiff [0, 1, 2] r.2.1 = tokDiff [0, 1, 2] (store0 50 0 0 100 0) + 20 := by
  decide

/-- witness 3 (refund lost): the contract transfers 5 tokens away, then `cancelSendToExternal` refunds 20 through a
keeper-level `mint` whose balance write is overwritten at commit: 20 coins enter the escrow, the supply grows by 20, the
contract's balance does not — 20 tokens too few -/
theorem mixed_tx_dirty_slot_loses_refund :
    let r := txResult [.evm (transfer 0 1 5) 0, .nested (mint 0 20) 0 20] (store0 50 0 0 100 0) 100
    r.1 = true ∧ r.2.1 (.bal 0) = 45 ∧ r.2.1 (.bal 1) = 5 ∧ r.2.1 .supply = 120 ∧ r.2.2 = 120 ∧
    tokDiff [0, 1, 2] r.2.1 = tokDiff [0, 1, 2] (store0 50 0 0 100 0) - 20 := by
  decide

/-- the same conversions through the running EVM (`crossChain`: `transferFrom` then `burn` by the precompile) are
coherent although the contract dirtied the token first: nothing is created -/
example :
    let r := txResult [.evm (transfer 0 1 10) 0, .evm (approve 0 3 40) 0, .evm (transferFrom 3 0 2 40) 0, .evm (burn 2 40) 40]
      (store0 50 0 0 100 0) 100
    r.1 = true ∧ r.2.1 (.bal 0) = 0 ∧ r.2.1 (.bal 1) = 10 ∧ r.2.1 .supply = 60 ∧
    tokDiff [0, 1, 2] r.2.1 = tokDiff [0, 1, 2] (store0 50 0 0 100 0) := by
  decide

/-- the coherence hypothesis is satisfiable by a transaction that does mix direct calls with a nested conversion: the
contract reads ANOTHER holder's balance, then `bridgeCall` converts -/
example : CoherentTx [.evm (balanceOf 1) 0, .nested (burn 0 50) 50 0] ⟨{ store := store0 50 0 0 100 0 }, 100⟩ := by
  rw [← coherentTxB_iff]; decide

end Mixed

/-! ### mixed transactions with sub-call frames whose failure the caller swallows (Model/C08Journal.lean, round 3) -/

section Frames
open FxVerif.Model.C08Cache FxVerif.Proofs.C08Cache

/-- **a failed, swallowed sub-call frame is invisible**: for EVERY group of calls run as a frame from ANY StateDB state with
consistent caches, if the frame fails before completing a keeper-level nested call, then after `RevertToSnapshot` the
StateDB presents exactly the values it presented before the frame, would commit exactly the same storage, and its caches
are consistent again — although the frame's dirty entries stay in `dirtyStorage` (holding their pre-write values) and
everything it loaded stays in `originStorage`. -/
theorem failed_frame_is_invisible (g : List MStep) (s : TxSt) (h : Cons s.o) (hn : noNestedSuccess g s = true)
    (hf : (runTxF g s).2 = false) :
    (s.o.revertTo (runTxF g s).1.o).view = s.o.view ∧ (s.o.revertTo (runTxF g s).1.o).commit = s.o.commit ∧
    Cons (s.o.revertTo (runTxF g s).1.o) := by
  obtain ⟨he, hc⟩ := runTxF_fail_ext g s.o s (ext_refl _) h hn hf
  obtain ⟨v1, v2⟩ := revertTo_spec s.o _ h hc he
  exact ⟨v1, by rw [commit_eq_view _ v2, commit_eq_view _ h, v1], v2⟩

/-- **mixed_tx_coherent with frames**: for EVERY transaction made of contract programs, keeper-level nested calls and
sub-call frames whose failure is swallowed, IF every step / frame is coherent where it runs (no nested call touches a slot
the running StateDB has cached) and every frame that fails has completed no keeper-level call before failing, THEN the
outcome, the final token storage and the final escrow are those of running the programs one after the other on one store
with each failed frame skipped. -/
theorem mixed_tx_frames_coherent (steps : List XStep) (st : Store) (esc : Nat)
    (hc : CoherentX steps ⟨{ store := st }, esc⟩) : txResultX steps st esc = seqResultX steps st esc :=
  txResultX_coherent steps st esc hc

/-- I_sum under mixing with frames: FIP20 method calls, alone or grouped into swallowed frames, keep
"Σ balances − totalSupply" when the transaction is coherent -/
theorem mixed_tx_frames_preserve_sum_partial (hs : List Nat) (hn : hs.Nodup) (steps : List XStep)
    (hm : ∀ x ∈ steps, ∀ s ∈ x.steps, ∃ m : Method, s.prog = m.prog ∧ ∀ a ∈ m.holders, a ∈ hs) (st : Store) (esc : Nat)
    (hc : CoherentX steps ⟨{ store := st }, esc⟩) :
    tokDiff hs (txResultX steps st esc).2.1 = tokDiff hs st := by
  rw [txResultX_coherent steps st esc hc]
  simp only [seqResultX]
  cases hr : runSeqX steps (st, esc) with
  | none => rfl
  | some r => exact runSeqX_tokDiff hs hn steps hm st esc r.1 r.2 hr

/-- the hypotheses are satisfiable by a transaction with a failing frame (a transfer of more than the balance), a direct
transfer, a failing `bridgeCall` frame on another holder and a successful frame -/
example : CoherentX [.attempt [.evm (transfer 0 1 200) 0], .plain (.evm (transfer 0 1 5) 0), .attempt [.nested (burn 3 999) 999 0],
    .attempt [.evm (approve 0 3 7) 0, .evm (transferFrom 3 0 2 7) 0]] ⟨{ store := store0 50 0 0 100 0 }, 100⟩ := by
  rw [← coherentXB_iff]; decide

/-- witness 4 (a reverted frame caches what it read): the contract TRIES a transfer of 200 out of 50 and swallows the
failure — the failed `transfer` has loaded the balance slot into `originStorage`, which no revert undoes; `bridgeCall` then
converts 20 through a nested call, and a later transfer of 5 starts from the cached 50: 20 tokens too many -/
theorem mixed_tx_failed_frame_stale_read_creates_tokens :
    let r := txResultX [.attempt [.evm (transfer 0 1 200) 0], .plain (.nested (burn 0 20) 20 0), .plain (.evm (transfer 0 1 5) 0)]
      (store0 50 0 0 100 0) 100
    r.1 = true ∧ r.2.1 (.bal 0) = 45 ∧ r.2.1 (.bal 1) = 5 ∧ r.2.1 .supply = 80 ∧
    tokDiff [0, 1, 2] r.2.1 = tokDiff [0, 1, 2] (store0 50 0 0 100 0) + 20 := by
  decide

/-- witness 5 (a reverted write stays in `dirtyStorage`): a frame transfers 10 and then fails (`bridgeCall` of 999); the
revert puts the old balance back INTO THE DIRTY SET; `bridgeCall` then converts all 50 through a nested call; a transfer of
5 starts from the dirty 50 and its write-back recreates 45 of the 50 burned tokens -/
theorem mixed_tx_reverted_write_creates_tokens :
    let r := txResultX [.attempt [.evm (transfer 0 1 10) 0, .nested (burn 0 999) 999 0], .plain (.nested (burn 0 50) 50 0),
      .plain (.evm (transfer 0 1 5) 0)] (store0 50 0 0 100 0) 100
    r.1 = true ∧ r.2.1 (.bal 0) = 45 ∧ r.2.1 (.bal 1) = 5 ∧ r.2.1 .supply = 50 ∧ r.2.2 = 50 ∧
    tokDiff [0, 1, 2] r.2.1 = tokDiff [0, 1, 2] (store0 50 0 0 100 0) + 50 := by
  decide

/-! #### round 4: frames that fail AFTER completing keeper-level calls -/

/-- **a failed, swallowed sub-call frame is invisible — wherever it fails**: for EVERY group of calls run as a frame from ANY
StateDB state with consistent caches, if the frame is coherent where it runs and fails — before, between or after any
number of COMPLETED keeper-level nested calls — and every value it leaves in `originStorage` is the value the restored
native store holds for that slot (`OriginAgrees`: the running EVM loaded no slot during the frame after a keeper-level call
of the frame had changed it), then after `RevertToSnapshot` the StateDB presents exactly the values it presented before
the frame, would commit exactly the same storage, and its caches are consistent again.  `failed_frame_is_invisible` is the
special case in which the store did not move (`noNestedSuccess`). -/
theorem failed_frame_is_invisible_general (g : List MStep) (s : TxSt) (h : Cons s.o) (hco : CoherentTx g s)
    (hf : (runTxF g s).2 = false) (hag : OriginAgrees s.o (runTxF g s).1.o) :
    (s.o.revertTo (runTxF g s).1.o).view = s.o.view ∧ (s.o.revertTo (runTxF g s).1.o).commit = s.o.commit ∧
    Cons (s.o.revertTo (runTxF g s).1.o) := by
  obtain ⟨he, hc⟩ := runTxF_fail_extC g s.o s (extC_refl _) h hco hf
  obtain ⟨v1, v2⟩ := revertTo_spec_general s.o _ h hc.dirty_ok he hag
  exact ⟨v1, by rw [commit_eq_view _ v2, commit_eq_view _ h, v1], v2⟩

/-- **mixed_tx_coherent with frames, general**: the frames may fail anywhere.  For EVERY transaction made of contract
programs, keeper-level nested calls and swallowed frames: coherent steps / frames + `OriginAgrees` at every failing frame
=> outcome, final token storage and final escrow equal the sequential execution with each failed frame skipped. -/
theorem mixed_tx_frames_coherent_general (steps : List XStep) (st : Store) (esc : Nat)
    (hc : CoherentXG steps ⟨{ store := st }, esc⟩) : txResultX steps st esc = seqResultX steps st esc :=
  txResultX_coherentG steps st esc hc

/-- the general condition is implied by the round-3 one (so `mixed_tx_frames_coherent` is a corollary of the general
theorem), from every consistent StateDB state -/
theorem coherent_frames_general_subsumes (steps : List XStep) (s : TxSt) (h : Cons s.o) (hc : CoherentX steps s) :
    CoherentXG steps s :=
  coherentX_imp_general steps s h hc

/-- I_sum under mixing with frames failing anywhere -/
theorem mixed_tx_frames_preserve_sum_general_partial (hs : List Nat) (hn : hs.Nodup) (steps : List XStep)
    (hm : ∀ x ∈ steps, ∀ s ∈ x.steps, ∃ m : Method, s.prog = m.prog ∧ ∀ a ∈ m.holders, a ∈ hs) (st : Store) (esc : Nat)
    (hc : CoherentXG steps ⟨{ store := st }, esc⟩) :
    tokDiff hs (txResultX steps st esc).2.1 = tokDiff hs st := by
  rw [txResultX_coherentG steps st esc hc]
  simp only [seqResultX]
  cases hr : runSeqX steps (st, esc) with
  | none => rfl
  | some r => exact runSeqX_tokDiff hs hn steps hm st esc r.1 r.2 hr

/-- the general hypothesis is satisfiable by — and strictly wider on — a frame in which `bridgeCall` COMPLETES a keeper-level
burn of 20 and a later `transferFrom` above the allowance fails (harness scenario `[ b20 f999 ] t5`): the failing call
loaded only the allowance slot, which the burn did not change; the round-3 condition rejects this transaction -/
example :
    let tx : List XStep := [.attempt [.nested (burn 0 20) 20 0, .evm (transferFrom 0 4 1 999) 0], .plain (.evm (transfer 0 1 5) 0)]
    CoherentXG tx ⟨{ store := store0X 50 0 0 100 0 30 10 }, 100⟩ ∧
    coherentXB tx ⟨{ store := store0X 50 0 0 100 0 30 10 }, 100⟩ = false ∧
    txResultX tx (store0X 50 0 0 100 0 30 10) 100 = seqResultX tx (store0X 50 0 0 100 0 30 10) 100 := by
  refine ⟨by rw [← coherentXGB_iff]; decide, by decide, ?_⟩
  exact txResultX_coherentG _ _ _ (by rw [← coherentXGB_iff]; decide)

/-- witness 6 (what `OriginAgrees` excludes; observed on the real EVM, `[ b20 t99999 ] t5`): a frame completes a keeper-level
burn of 20, then a transfer of more than the balance fails — it has loaded the POST-burn balance 30 into `originStorage`; the
revert restores the store (balance 50, supply 100) but not the cache, so the later transfer of 5 starts from 30: the holder
loses 20 tokens that were never converted -/
theorem mixed_tx_failed_frame_caches_reverted_burn :
    let tx : List XStep := [.attempt [.nested (burn 0 20) 20 0, .evm (transfer 0 1 99999) 0], .plain (.evm (transfer 0 1 5) 0)]
    let r := txResultX tx (store0 50 0 0 100 0) 100
    coherentXGB tx ⟨{ store := store0 50 0 0 100 0 }, 100⟩ = false ∧
    r.1 = true ∧ r.2.1 (.bal 0) = 25 ∧ r.2.1 (.bal 1) = 5 ∧ r.2.1 .supply = 100 ∧ r.2.2 = 100 ∧
    tokDiff [0, 1, 2] r.2.1 = tokDiff [0, 1, 2] (store0 50 0 0 100 0) - 20 := by
  decide

end Frames


/-! ### erc20 genesis export / import (Model/C08Gen.lean, round 4) -/

section Genesis
open FxVerif.Proofs.C08 FxVerif.Gen.C08d

/-- what `InitGenesis` / `ExportGenesis` are, read off the AST: the exported state is the parameters and the pair records;
the import loop starts with `AddTokenPair`; whether it restores the alias index is `restoresAliases` of the very list -/
theorem genesis_calls_match_code :
    exportGenesis_fields = [("Params", "GetParams"), ("TokenPairs", "GetAllTokenPairs")] ∧
    initGenesis_loop_calls.head? = some "AddTokenPair" := by
  decide

/-- **the round trip keeps every pair**: for EVERY store satisfying I_index, export followed by import into a fresh store
answers every lookup of the pair records, of the denom index and of the contract index exactly as before, and the bank
metadata (imported by the bank module) is the same — whatever the import does about aliases -/
theorem genesis_round_trip_keeps_pairs (r : Bool) (i : Idx) (hi : IdxInv i) :
    (∀ id, lookup id (genesisRoundTrip r i).pairs = lookup id i.pairs) ∧
    (∀ d, lookup d (genesisRoundTrip r i).byDenom = lookup d i.byDenom) ∧
    (∀ ct, lookup ct (genesisRoundTrip r i).byErc = lookup ct i.byErc) ∧ (genesisRoundTrip r i).md = i.md :=
  roundTrip_pairs r i hi

/-- **genesis round trip = identity, PROVIDED the import rebuilds the alias index** (`_partial`: the hypothesis is about the
code — the loop body of `InitGenesis` must call `SetAliasesDenom` with the aliases of the imported pair's bank metadata;
it is evaluated on the regenerated call list): every lookup of all four indexes and the metadata are unchanged, hence
I_index and every book over "base + aliases" survive an export / import -/
theorem genesis_round_trip_identity_partial (i : Idx) (hi : IdxInv i)
    (hcode : restoresAliases initGenesis_loop_calls = true) :
    Idx.Same (genesisRoundTrip (restoresAliases initGenesis_loop_calls) i) i := by
  rw [hcode]
  obtain ⟨h1, h2, h3, h4⟩ := roundTrip_pairs true i hi
  exact ⟨h1, h2, h3, roundTrip_alias_restore i hi, h4⟩

/-- the regenerated loop body of `InitGenesis` rebuilds the alias index (since fix `0243823`; before it the list was
`["AddTokenPair"]` only and `genesis_round_trip_without_alias_restore_breaks_index` described the tree) -/
theorem genesis_import_restores_aliases : restoresAliases initGenesis_loop_calls = true := by decide

/-- **FULL statement for the code as it is**: for EVERY store satisfying I_index, export followed by import into a fresh store
is the identity on all four indexes and the metadata — I_index and every book over "base + aliases" survive a genesis round
trip.  No hypothesis about the code is left: it is `genesis_import_restores_aliases`, decided on the regenerated call list. -/
theorem genesis_round_trip_identity (i : Idx) (hi : IdxInv i) :
    Idx.Same (genesisRoundTrip (restoresAliases initGenesis_loop_calls) i) i :=
  genesis_round_trip_identity_partial i hi genesis_import_restores_aliases

/-- the restoring import on a store with aliases: everything comes back -/
example :
    let i := (stepIdx genesisIdx (.registerCoin 1 10 [110, 111])).toOption.getD genesisIdx
    indexOk i = true ∧ indexOk (genesisRoundTrip true i) = true ∧
    lookup 110 (genesisRoundTrip true i).aliasIdx = some 1 ∧ lookup 111 (genesisRoundTrip true i).aliasIdx = some 1 := by
  decide

/-- witness (an import that only calls `AddTokenPair`): a store satisfying I_index in which denomination 1 owns the aliases
110 and 111 comes back with an EMPTY alias index while the bank metadata still lists both aliases — I_index is broken, the
family of alias 110 is no longer found (`MsgConvertDenom` of alias coins fails) and the alias can be registered again for
another token -/
theorem genesis_round_trip_without_alias_restore_breaks_index :
    let i := (stepIdx genesisIdx (.registerCoin 1 10 [110, 111])).toOption.getD genesisIdx
    let i' := genesisRoundTrip false i
    indexOk i = true ∧ indexOk i' = false ∧ i'.aliasIdx = [] ∧ lookup 1 i'.md = some [110, 111] ∧
    (familyOf i 110).isSome = true ∧ familyOf i' 110 = none ∧
    (stepIdx i (.registerCoin 2 11 [110])).toOption.isSome = false ∧
    (stepIdx i' (.registerCoin 2 11 [110])).toOption.isSome = true := by
  decide

end Genesis

/-! ### the FIP20 slot programs are the Solidity source (Model/C08Sol.lean, Gen/C08d.lean, round 4) -/

section Fip20Source
open FxVerif.Model.C08Cache FxVerif.Gen.C08d

/-- **the token programs of the mixed-transaction model are what FIP20Upgradable.sol says**: for EVERY method call
(`transfer`, `approve`, `transferFrom`, `mint`, `burn`, with any caller and any arguments) the slot program obtained by
compiling the method's body — regenerated statement by statement from the Solidity source on every run, internal calls
(`_transfer`, `_mint`, `_burn`, `_approve`) included — IS the program the StateDB cache / journal theorems are about.  A
changed statement, a reordered pair of statements, a dropped `require`, a `+=` turned into `=` breaks this proof. -/
theorem fip20_programs_match_code (m : Method) : m.compiled = m.prog := by
  cases m <;> rfl

/-- the coherence / I_sum theorems restated over the compiled programs: a transaction whose steps are COMPILED method calls
between counted holders keeps "Σ balances − totalSupply" when coherent -/
theorem mixed_tx_preserves_sum_compiled_partial (hs : List Nat) (hn : hs.Nodup) (steps : List MStep)
    (hm : ∀ s ∈ steps, ∃ m : Method, s.prog = m.compiled ∧ ∀ a ∈ m.holders, a ∈ hs) (st : Store) (esc : Nat)
    (hc : CoherentTx steps ⟨{ store := st }, esc⟩) :
    FxVerif.Proofs.C08Cache.tokDiff hs (txResult steps st esc).2.1 = FxVerif.Proofs.C08Cache.tokDiff hs st :=
  mixed_tx_preserves_sum_partial hs hn steps
    (fun s h => by obtain ⟨m, h1, h2⟩ := hm s h; exact ⟨m, by rw [h1, fip20_programs_match_code], h2⟩) st esc hc

/-- **storage layout**: `_totalSupply`, `_balanceOf` and `_allowance` are the 4th, 5th and 6th state variables of the
contract, each of a type that takes a whole slot, so they live in three different slots (base + 3, + 4, + 5; the harness
reads these raw slots of the deployed token and compares them with `totalSupply()` / `balanceOf()` / `allowance()`), and the
model's `Slot` constructors `.supply`, `.bal`, `.allow` never alias -/
theorem fip20_layout_matches_model :
    varPos fip20_stateVars "_totalSupply" = some 3 ∧ varPos fip20_stateVars "_balanceOf" = some 4 ∧
    varPos fip20_stateVars "_allowance" = some 5 ∧
    (fip20_stateVars.map Prod.snd).take 6 =
      ["string", "string", "uint8", "uint256", "mapping(address=>uint256)", "mapping(address=>mapping(address=>uint256))"] := by
  decide

/-- the compiled `transferFrom` run on a store: allowance and both balances move, the supply does not -/
example :
    let r := runPlain (Method.transferFrom 0 4 1 7).compiled (store0X 50 0 0 100 0 30 10)
    r.1 = true ∧ r.2 (.bal 4) = 23 ∧ r.2 (.bal 1) = 7 ∧ r.2 (.allow 4 0) = 3 ∧ r.2 .supply = 100 := by
  decide

end Fip20Source

/-! ### the StateDB cache / journal model is what the ethermint fork's source says (Model/C08Dep*.lean, Gen/C08e.lean, round 5) -/

section StateDBSource
open FxVerif.Model.C08Cache FxVerif.Model.C08Dep FxVerif.Gen.C08e FxVerif.Proofs.C08Dep

/-- **`GetState` / `SetState` of the hand model are the fork's functions**: interpreting the statement lists of
`(*stateObject).GetState` (→ `GetCommittedState`) and `SetState` (→ `GetState`, journal append, `setState`) — regenerated from
`x/evm/statedb/state_object.go` in the module cache on every run — on ANY state object, slot and value gives exactly
`Outer.read` / `Outer.write` (dirty first, then origin, else load AND cache in origin; a write of the current value records
nothing) and appends exactly the journal entry `(slot, value before the write)`.  A reordered lookup, a dropped
`originStorage[key] = value`, a dropped `prev == value` test or journal append breaks this proof. -/
theorem statedb_read_write_match_code :
    (∀ k o j, iGetState k ⟨o, j⟩ = some ((o.read k).1, ⟨(o.read k).2, j⟩)) ∧
    (∀ k v o j, (iSetState k v ⟨o, j⟩).map (·.o) = some (o.write k v)) ∧
    (∀ k v o j, (iSetState k v ⟨o, j⟩).map (·.journal) =
      some (if (o.read k).1 = v then j else (k, (o.read k).1) :: j)) ∧
    (∀ s a, iStepAcc s a = some (stepAcc s a)) := by
  refine ⟨iGetState_eq, fun k v o j => ?_, fun k v o j => ?_, iStepAcc_eq⟩
  · rw [iSetState_eq]; simp [write_eq_step]
  · rw [iSetState_eq]
    by_cases h : (o.read k).1 = v <;> simp [stepAcc, h]

/-- **every token program runs through the interpreted source as through the hand model**: the slot accesses of any `TProg`
(the compiled FIP20 methods included, `fip20_programs_match_code`), executed statement by statement by the regenerated
`GetState` / `SetState`, never get stuck and leave the StateDB `runOuter` computes -/
theorem statedb_program_run_matches_code (p : TProg) (o : Outer) (j : List (Slot × Nat)) :
    ∃ s', iRunAcc (accsOf p o) ⟨o, j⟩ = some s' ∧ s'.o = (runOuter p o).2 :=
  ⟨_, iRunAcc_eq _ _, runAcc_accsOf p o j⟩

/-- **`Commit` of the hand model is the fork's slot loop**: the regenerated body of
`for _, key := range obj.dirtyStorage.SortedKeys()` (`value := dirtyStorage[key]`; skip when equal to `originStorage[key]`;
`keeper.SetState`) run over the dirty keys of ANY state object never gets stuck and writes, slot by slot, the store
`Outer.commit` describes — in particular a dirty slot whose value equals its origin value is NOT written, so whatever a
nested call stored there survives, and one that differs overwrites it -/
theorem statedb_commit_matches_code (s : ObjSt) :
    ∃ s', iCommit s = some s' ∧ ∀ k, s'.o.store k = s.o.commit k :=
  iCommit_eq s

/-- the facts of the nested-call model read off the source: `Commit` writes the native store before the dirty slots (so the
dirty slots win), a keeper-level call (`ApplyMessageWithConfig`) builds a NEW StateDB over the ctx it is given (so it sees
the store, never the caller's caches: `nestedCall`) and commits it iff asked -/
theorem statedb_nested_call_facts_match_code :
    commit_nativeStoreFirst = true ∧ commit_rangesOverDirtyKeys = true ∧
    applyMessage_freshStateDB = true ∧ applyMessage_commitsIffAsked = true := by
  decide

/-- **`RevertToSnapshot` of the hand model is the fork's journal replay**: take ANY StateDB state at the snapshot (`snap`, with
any journal `j0` below it) and ANY sequence of reads, writes and native-store changes after it (every frame body is one).
Undoing the storage entries appended since the snapshot with the regenerated `storageChange.Revert` (= `setState(key,
prevalue)`), in the order of the regenerated loop header (`journalRevert_newestFirst`), never gets stuck, leaves the journal
truncated to `j0`, leaves `originStorage` as it is at the point of failure (NOT restored) and leaves in `dirtyStorage`, slot
by slot, exactly what `Outer.revertTo snap cur` holds: a slot dirty at the snapshot has its snapshot value back, a slot first
written after the snapshot KEEPS an entry holding its origin value. -/
theorem statedb_revert_matches_code (snap : Outer) (j0 : List (Slot × Nat)) (accs : List Acc) :
    let cur := runAcc accs ⟨snap, j0⟩
    iRunAcc accs ⟨snap, j0⟩ = some cur ∧
    ∃ seg s', cur.journal = seg ++ j0 ∧ iRevertTo seg j0 cur.o = some s' ∧ s'.journal = j0 ∧
      s'.o.origin = cur.o.origin ∧ ∀ k, FxVerif.Model.C08Cache.lookup k s'.o.dirty = FxVerif.Model.C08Cache.lookup k (snap.revertTo cur.o).dirty := by
  intro cur
  refine ⟨iRunAcc_eq _ _, ?_⟩
  obtain ⟨seg, hj, hi⟩ := (JInv.init snap).run (j0 := j0) accs
  simp only [List.nil_append] at hj hi
  refine ⟨seg, ⟨replay seg cur.o, j0⟩, hj, ?_, rfl, (replay_frame seg cur.o).1, fun k => hi.revert k⟩
  simp [iRevertTo, journalRevert_revertsEntry, journalRevert_newestFirst, journalRevert_truncates, revertAll_eq]

/-- the ORDER of the replay matters (and is the regenerated one): a frame that writes the same slot twice (7 → 5 → 9) has the
entries `(k, 5)` (newest) and `(k, 7)`; newest-first ends with the snapshot value 7, oldest-first would end with the
intermediate value 5 -/
theorem journal_revert_order_matters :
    let snap : Outer := { store := fun _ => 7 }
    let cur := runAcc [.wr .supply 5, .wr .supply 9] ⟨snap, []⟩
    cur.journal = [(.supply, 5), (.supply, 7)] ∧
    (revertAll cur.journal cur).map (fun (s : ObjSt) => FxVerif.Model.C08Cache.lookup Slot.supply s.o.dirty) = some (some 7) ∧
    FxVerif.Model.C08Cache.lookup Slot.supply (snap.revertTo cur.o).dirty = some 7 ∧
    (revertAll cur.journal.reverse cur).map (fun (s : ObjSt) => FxVerif.Model.C08Cache.lookup Slot.supply s.o.dirty) = some (some 5) := by
  decide

/-- what the tie catches, on mutated statement lists (the fork lives in the read-only module cache, so these edits cannot be
made through a patched tree): (b) `GetCommittedState` without `s.originStorage[key] = value` — the loaded value is not
cached, unlike `Outer.read`; (c) the `Commit` loop without the `value == originStorage[key]` skip — a slot whose dirty value
equals its origin value is written over what a nested call stored (9), where `Outer.commit` keeps the 9.  With either list
in `Gen/C08e.lean` the `…_match_code` theorems above are FALSE, so their proofs stop compiling. -/
example :
    (let o : Outer := { store := fun _ => 7 }
     (exec noCallees Slot.supply [.overrideGuard, .retIfIn .origin, .load "value", .ret "value"] [] ⟨o, []⟩).2.o.origin = [] ∧
     (o.read Slot.supply).2.origin = [(Slot.supply, 7)]) ∧
    (let o : Outer := { store := fun _ => 9, origin := [(Slot.supply, 7)], dirty := [(Slot.supply, 7)] }
     (exec noCallees Slot.supply [.getMap "value" .dirty, .storeSet "value"] [] ⟨o, []⟩).2.o.store Slot.supply = 7 ∧
     o.commit Slot.supply = 9) := by
  decide

/-- non-vacuity: a frame that reads one slot, writes another twice and a third back to its old value, after a keeper-level
call changed the store: two entries are undone, the read slot stays cached -/
example :
    let snap : Outer := { store := store0 50 0 0 100 0, dirty := [(.bal 1, 3)] }
    let cur := runAcc [.rd (.bal 0), .native (store0 30 0 0 80 0), .wr (.bal 1) 8, .wr (.bal 1) 9, .wr .supply 80] ⟨snap, []⟩
    cur.journal = [(.bal 1, 8), (.bal 1, 3)] ∧
    (iRevertTo cur.journal [] cur.o).map (fun (s : ObjSt) => (FxVerif.Model.C08Cache.lookup (Slot.bal 1) s.o.dirty, FxVerif.Model.C08Cache.lookup (Slot.bal 0) s.o.origin, FxVerif.Model.C08Cache.lookup Slot.supply s.o.origin)) =
      some (some 3, some 50, some 80) := by
  decide

/-- **the mixed-transaction model IS the execution of the fork's source**: for EVERY transaction (any sequence of token
programs run by the running EVM and keeper-level nested calls, any escrow payments, any initial storage) the transaction
executed with every SLOAD / SSTORE going through the regenerated `GetState` / `SetState`, every keeper-level call building a
new StateDB (`applyMessage_freshStateDB`) and committing it with the regenerated `Commit` loop, and the transaction-level
`Commit` at the end (native store first) never gets stuck and yields exactly `txResult` — outcome, final token storage,
final escrow.  So `mixed_tx_coherent`, `mixed_tx_preserves_sum_partial` and the three defect witnesses are statements about
the source as written. -/
theorem mixed_tx_model_matches_statedb_source (steps : List MStep) (st : Store) (esc : Nat) :
    iTxResult steps st esc = some (txResult steps st esc) ∧
    (∀ p st', iNested p st' = some (nestedCall p st')) :=
  ⟨iTxResult_eq steps st esc, iNested_eq⟩

/-- the coherence theorem over the interpreted source: a coherent transaction, executed as the source says, is the
sequential execution on one store -/
theorem mixed_tx_coherent_source (steps : List MStep) (st : Store) (esc : Nat)
    (hc : CoherentTx steps ⟨{ store := st }, esc⟩) : iTxResult steps st esc = some (seqResult steps st esc) := by
  rw [iTxResult_eq, mixed_tx_coherent steps st esc hc]

/-- non-vacuity of `mixed_tx_coherent_source` (a read of another holder's balance, then `bridgeCall`: coherent), and the
first defect witness through the interpreted source: `transfer 10` then `bridgeCall 50` creates 50 tokens -/
example :
    CoherentTx [.evm (balanceOf 1) 0, .nested (burn 0 50) 50 0] ⟨{ store := store0 200 0 0 350 0 }, 350⟩ ∧
    (iTxResult [.evm (transfer 0 1 10) 0, .nested (burn 0 50) 50 0] (store0 150 0 0 300 0) 300).map
      (fun r => (r.1, r.2.1 (.bal 0), r.2.1 (.bal 1), r.2.1 .supply, r.2.2)) = some (true, 140, 10, 250, 250) := by
  refine ⟨by rw [← FxVerif.Proofs.C08Cache.coherentTxB_iff]; decide, ?_⟩
  rw [iTxResult_eq]
  decide

/-- **transactions WITH sub-call frames: the model IS the execution of the fork's source.**  For EVERY transaction of
token programs, keeper-level nested calls and frames whose failure the caller swallows: executed with the regenerated
`GetState` / `SetState`, a frame being `Snapshot` (journal length + native store), the group, and on failure the regenerated
journal replay (`storageChange.Revert` per entry, newest first, truncation) followed by the restore of the native store and
escrow, fresh StateDBs for nested calls, the regenerated `Commit` loop at the end — the interpretation never gets stuck and
yields exactly `txResultX`.  (After a revert the interpreted `dirtyStorage` holds the replayed entries where the model maps
over the list; the proof carries the slot-wise equality of the two through every later read, write, nested call, revert
and the commit.)  So `mixed_tx_frames_coherent_general`, `failed_frame_is_invisible_general` and the frame witnesses
(`mixed_tx_failed_frame_stale_read_creates_tokens`, `mixed_tx_reverted_write_creates_tokens`,
`mixed_tx_failed_frame_caches_reverted_burn`) are statements about the source as written. -/
theorem mixed_tx_frames_model_matches_statedb_source (steps : List XStep) (st : Store) (esc : Nat) :
    iTxResultX steps st esc = some (txResultX steps st esc) :=
  iTxResultX_eq steps st esc

/-- the general coherence theorem for frames over the interpreted source -/
theorem mixed_tx_frames_coherent_source (steps : List XStep) (st : Store) (esc : Nat)
    (hc : CoherentXG steps ⟨{ store := st }, esc⟩) : iTxResultX steps st esc = some (seqResultX steps st esc) := by
  rw [iTxResultX_eq, mixed_tx_frames_coherent_general steps st esc hc]

/-- non-vacuity of `mixed_tx_frames_coherent_source` (`[ b20 f999 ] t5`: a frame that fails after a completed keeper-level
burn without having touched the burnt slot), and the round-4 witness through the interpreted source (`[ b20 t99999 ] t5`:
the holder loses 20 more than it sent) -/
example :
    CoherentXG [.attempt [.nested (burn 0 20) 20 0, .evm (transferFrom 0 4 1 999) 0], .plain (.evm (transfer 0 1 5) 0)]
      ⟨{ store := store0X 50 0 0 100 0 30 10 }, 100⟩ ∧
    (iTxResultX [.attempt [.nested (burn 0 20) 20 0, .evm (transfer 0 1 99999) 0], .plain (.evm (transfer 0 1 5) 0)]
      (store0 50 0 0 100 0) 100).map (fun r => (r.1, r.2.1 (.bal 0), r.2.1 (.bal 1), r.2.1 .supply, r.2.2)) =
      some (true, 25, 5, 100, 100) := by
  refine ⟨by rw [← FxVerif.Proofs.C08Cache.coherentXGB_iff]; decide, ?_⟩
  rw [iTxResultX_eq]
  decide

end StateDBSource

/-! ### mixed transactions on an EXTERNALLY-owned token: the escrow book at slot level (round 5) -/

section ExternalMixed
open FxVerif.Model.C08Cache FxVerif.Proofs.C08Cache

/-- **I_external through mixed transactions (partial: coherence)**.  For EVERY transaction a contract builds from the kind-1
words — direct `transfer` / `balanceOf` / `approve` / `transferFrom` on an externally-owned token mixed with the precompile
conversions `bridgeCall` (keeper-level `transfer(caller → module)`, coins minted), `crossChain` (`transferFrom` through the
running EVM, coins minted by the native action) and `cancelSendToExternal` (keeper-level `transfer(module → caller)`, coins
burnt), any amounts, any initial storage — IF the transaction is coherent (no keeper-level call touches a slot the running
StateDB has cached), THEN "ERC-20 escrowed by the module − coin supply over all denominations" is the same after the
transaction as before it, whether it succeeds or reverts.  The hypothesis is what the known nested-EVM finding violates. -/
theorem mixed_tx_external_book_partial (ws : List EW) (st : Store) (esc : Nat)
    (hc : CoherentTx (ws.flatMap EW.steps) ⟨{ store := st }, esc⟩) :
    extBook ((txResult (ws.flatMap EW.steps) st esc).2.1, (txResult (ws.flatMap EW.steps) st esc).2.2) = extBook (st, esc) := by
  rw [mixed_tx_coherent _ st esc hc]
  unfold seqResult
  cases h : runSeq (ws.flatMap EW.steps) (st, esc) with
  | none => rfl
  | some s' => obtain ⟨st', esc'⟩ := s'; exact words_keep_extBook ws (st, esc) (st', esc') h

/-- without a keeper-level conversion no hypothesis is needed: `crossChain` converts through the running EVM and mints the
coins in its native action -/
theorem mixed_tx_external_book_running_evm (ws : List EW) (hw : ∀ w ∈ ws, ∀ n, w ≠ .b n ∧ w ≠ .c n) (st : Store) (esc : Nat) :
    extBook ((txResult (ws.flatMap EW.steps) st esc).2.1, (txResult (ws.flatMap EW.steps) st esc).2.2) = extBook (st, esc) := by
  apply mixed_tx_external_book_partial
  apply coherent_of_evm_or_native
  intro s hs
  obtain ⟨w, hwm, hsw⟩ := List.mem_flatMap.mp hs
  cases w with
  | t n => simp [EW.steps] at hsw; exact Or.inl ⟨_, _, hsw⟩
  | rm => simp [EW.steps] at hsw; exact Or.inl ⟨_, _, hsw⟩
  | rs => simp [EW.steps] at hsw; exact Or.inl ⟨_, _, hsw⟩
  | a n => simp [EW.steps] at hsw; exact Or.inl ⟨_, _, hsw⟩
  | f n => simp [EW.steps] at hsw; exact Or.inl ⟨_, _, hsw⟩
  | b n => exact absurd rfl (hw _ hwm n).1
  | x n =>
    simp [EW.steps] at hsw
    rcases hsw with hsw | hsw
    · exact Or.inl ⟨_, _, hsw⟩
    · exact Or.inr ⟨_, _, hsw⟩
  | c n => exact absurd rfl (hw _ hwm n).2

/-- non-vacuity (`rs b50`, the control of the harness: coherent) and the witness that the hypothesis is needed (`t10 b50`
from the state the harness observed: 50 tokens created, the book itself unchanged — the damage is in I_sum) -/
example :
    CoherentTx ([EW.rs, .b 50].flatMap EW.steps) ⟨{ store := store0X 200 0 0 350 0 150 100 }, 0⟩ ∧
    (let r := txResult ([EW.t 10, .b 50].flatMap EW.steps) (store0X 150 0 50 350 0 150 100) 50
     r.1 = true ∧ r.2.1 (.bal 0) = 140 ∧ r.2.1 (.bal 1) = 10 ∧ r.2.1 (.bal 2) = 100 ∧ r.2.2 = 100) := by
  refine ⟨by rw [← coherentTxB_iff]; decide, by decide⟩

end ExternalMixed

end FxVerif.Props.C08
