import FxVerif.Proofs.C03View
import FxVerif.Proofs.C03Prog
import FxVerif.Proofs.C03Refine
import FxVerif.Proofs.C03Legacy
import FxVerif.Proofs.C03Addr

/-!
# C03 — the executed event is field-for-field the event the quorum voted for

`Attest` files a vote under the key `nonce ‖ ClaimHash(claim)` and `TryAttestation(ctx, att, claim)` executes the claim
object of the *threshold-crossing voter*.  So the effect applied is the one the quorum voted for iff two claims that
share a `ClaimHash` agree on every field that influences execution.  `ClaimHash = SHA-256(path)`; the theorems below
are about the pre-image `path`, which is **the definition generated from the Go source on every run**
(`Gen/C03.lean`: format string and argument list of each `fmt.Sprintf`).  Collision resistance of SHA-256 is the one
named assumption lifting them from paths to hashes (`claimHash_injective_of_collision_free`).

For every claim type, for *all* field values (unbounded numbers, strings, lists):

    valid k₁ c₁ → valid k₂ c₂ → path c₁ = path c₂ → effect c₁ = effect c₂

* `valid k` = the character classes `ValidateBasic` enforces (a superset of them: checksums are not modelled) for a
  chain whose external addresses are of class `k` (0x-hex 42 chars / base58 34 chars).  The two claims may have been
  validated for chains of *different* address classes (`k₁ ≠ k₂`): `MsgClaim` routes by the wrapper's `chain_name` and
  validates the inner claim by the claim's own `ChainName`, and nothing compares the two, so a claim checked by Tron's
  rules can be filed in an EVM chain's attestation store.  The theorems hold regardless.
* `effect` = every field of the event except `BridgerAddress` (who relays — differs per voter by construction) and
  `ChainName` (routing).  Which fields the handlers read (x/crosschain/keeper):
  - `SendToFxExecuted`: TokenContract, Amount, Receiver, TargetIbc, EventNonce (Sender only hashed/telemetry);
  - `BridgeCallHandler`: TxOrigin (`CreateBridgeAccount`), Sender, To, Refund, TokenContracts, Amounts, Data, Value,
    EventNonce and **Memo** (`IsMemoSendCallTo` switches receiver, EVM caller and calldata; also packed into the callback);
  - `BridgeCallResultHandler`: **TxOrigin** (`CreateBridgeAccount`), Nonce, Success, Cause (event attribute);
  - `OutgoingTxBatchExecuted`: TokenContract, BatchNonce;
  - `AddBridgeTokenExecuted`: TokenContract, **Symbol** (`== "FX"` registers the contract as the native-coin bridge token),
    Decimals; ChannelIbc is only logged; **Name is never read** — it is therefore *not demanded* (`effect` blanks it);
  - `UpdateOracleSetExecuted`: OracleSetNonce, Members;
  - `Attest`/`TryAttestation` (all types): EventNonce, BlockHeight (`SetLastObservedBlockHeight`, per-oracle height).

At commit 6774338 three of the six statements are false (`legacy_*_not_injective`, witnesses replayed on the real
`ClaimHash` by the harness); `fixes/C03-claimhash.patch` repairs the three format strings.
-/
namespace FxVerif.Props.C03
open FxVerif.Model.C03 FxVerif.Gen.C03 FxVerif.Proofs.C03

/-! ## every struct field of every claim message is hashed, unless it is deliberately not demanded -/

theorem claimTypes_covered :
    claimTypes = ["MsgBridgeCallClaim", "MsgBridgeCallResultClaim", "MsgBridgeTokenClaim",
      "MsgOracleSetUpdatedClaim", "MsgSendToExternalClaim", "MsgSendToFxClaim"] := by decide

theorem structFields_hashed :
    (∀ f ∈ MsgSendToFxClaim.structFields, f ∈ MsgSendToFxClaim.hashedFields ∨ f ∈ notDemanded)
    ∧ (∀ f ∈ MsgBridgeCallClaim.structFields, f ∈ MsgBridgeCallClaim.hashedFields ∨ f ∈ notDemanded)
    ∧ (∀ f ∈ MsgBridgeCallResultClaim.structFields, f ∈ MsgBridgeCallResultClaim.hashedFields ∨ f ∈ notDemanded)
    ∧ (∀ f ∈ MsgSendToExternalClaim.structFields, f ∈ MsgSendToExternalClaim.hashedFields ∨ f ∈ notDemanded)
    ∧ (∀ f ∈ MsgBridgeTokenClaim.structFields, f ∈ MsgBridgeTokenClaim.hashedFields ∨ f ∈ notDemandedBridgeToken)
    ∧ (∀ f ∈ MsgOracleSetUpdatedClaim.structFields, f ∈ MsgOracleSetUpdatedClaim.hashedFields ∨ f ∈ notDemanded) := by
  decide

/-- every `ClaimHash` returns `tmhash.Sum([]byte(path))` -/
theorem hash_is_sha256_of_path :
    [MsgSendToFxClaim.hashExpr, MsgBridgeCallClaim.hashExpr, MsgBridgeCallResultClaim.hashExpr,
      MsgSendToExternalClaim.hashExpr, MsgBridgeTokenClaim.hashExpr, MsgOracleSetUpdatedClaim.hashExpr]
    = List.replicate 6 expectedHashExpr := by decide

/-- every hashed argument is a field of the message as it is (no normalising or parsing function in between), and
`ClaimHash` has no statement the translator does not model -/
theorem hash_arguments_plain :
    [MsgSendToFxClaim.derivedArgs, MsgBridgeCallClaim.derivedArgs, MsgBridgeCallResultClaim.derivedArgs,
      MsgSendToExternalClaim.derivedArgs, MsgBridgeTokenClaim.derivedArgs, MsgOracleSetUpdatedClaim.derivedArgs,
      MsgSendToFxClaim.unmodelledStatements, MsgBridgeCallClaim.unmodelledStatements,
      MsgBridgeCallResultClaim.unmodelledStatements, MsgSendToExternalClaim.unmodelledStatements,
      MsgBridgeTokenClaim.unmodelledStatements, MsgOracleSetUpdatedClaim.unmodelledStatements]
    = List.replicate 12 [] := by decide

/-- every field x/crosschain/keeper reads through a variable of a claim type while executing it (REGENERATED `readFields`:
selectors and methods on every parameter / type-switch binding of that type, methods followed into the types package) is
hashed; the only exceptions are the routing field `ChainName` and the relayer `BridgerAddress` -/
theorem handler_reads_hashed :
    (∀ f ∈ MsgSendToFxClaim.readFields, f ∈ MsgSendToFxClaim.hashedFields ∨ f ∈ notDemanded)
    ∧ (∀ f ∈ MsgBridgeCallClaim.readFields, f ∈ MsgBridgeCallClaim.hashedFields ∨ f ∈ notDemanded)
    ∧ (∀ f ∈ MsgBridgeCallResultClaim.readFields, f ∈ MsgBridgeCallResultClaim.hashedFields ∨ f ∈ notDemanded)
    ∧ (∀ f ∈ MsgSendToExternalClaim.readFields, f ∈ MsgSendToExternalClaim.hashedFields ∨ f ∈ notDemanded)
    ∧ (∀ f ∈ MsgBridgeTokenClaim.readFields, f ∈ MsgBridgeTokenClaim.hashedFields ∨ f ∈ notDemanded)
    ∧ (∀ f ∈ MsgOracleSetUpdatedClaim.readFields, f ∈ MsgOracleSetUpdatedClaim.hashedFields ∨ f ∈ notDemanded) := by
  decide

/-- what the keeper reads through the interface `types.ExternalClaim` — the event nonce (store key, contiguity, last
observed nonce) and the block height (`SetLastObservedBlockHeight`, per-oracle height) — is hashed by every type -/
theorem interface_reads_hashed :
    ∀ f ∈ externalClaimReads, f ∈ MsgSendToFxClaim.hashedFields ∧ f ∈ MsgBridgeCallClaim.hashedFields
      ∧ f ∈ MsgBridgeCallResultClaim.hashedFields ∧ f ∈ MsgSendToExternalClaim.hashedFields
      ∧ f ∈ MsgBridgeTokenClaim.hashedFields ∧ f ∈ MsgOracleSetUpdatedClaim.hashedFields := by decide

/-- the two type switches that decide when a claim runs (REGENERATED case lists of `AttestationHandler` and `ExecuteClaim`):
every claim type is either stored for `ExecuteClaim` or handled at once, never both and none forgotten; `ExecuteClaim` can
run exactly the stored types (a stored claim of a type it cannot run would stay pending for ever) — the model's `deferred`
is this table -/
theorem dispatch_covers :
    (∀ t ∈ claimTypes, (t ∈ storedTypes ∨ t ∈ immediateTypes) ∧ ¬ (t ∈ storedTypes ∧ t ∈ immediateTypes))
    ∧ (∀ t ∈ storedTypes ++ immediateTypes, t ∈ claimTypes)
    ∧ (∀ t ∈ storedTypes, t ∈ runnableTypes) ∧ (∀ t ∈ runnableTypes, t ∈ storedTypes) := by decide

/-- the one struct field that is not demanded of the hash, `MsgBridgeTokenClaim.Name`, is indeed never read by the keeper -/
theorem bridgeToken_name_never_read : "Name" ∉ MsgBridgeTokenClaim.readFields := by decide

/-! ## the six injectivity theorems -/

/-- `MsgSendToFxClaim`: `%d/%d%s/%s/%s/%s/%s` -/
theorem sendToFx_path_injective (k₁ k₂ : AddrKind) (c₁ c₂ : MsgSendToFxClaim)
    (v₁ : c₁.valid k₁ = true) (v₂ : c₂.valid k₂ = true) (h : c₁.path = c₂.path) : c₁.effect = c₂.effect := by
  simp only [MsgSendToFxClaim.valid, MsgSendToFxClaim.validGen, Bool.and_eq_true] at v₁ v₂
  obtain ⟨⟨⟨⟨⟨⟨⟨_, s₁⟩, t₁⟩, r₁⟩, a₁⟩, _⟩, _⟩, _⟩ := v₁
  obtain ⟨⟨⟨⟨⟨⟨⟨_, s₂⟩, t₂⟩, r₂⟩, a₂⟩, _⟩, _⟩, _⟩ := v₂
  simp only [MsgSendToFxClaim.path, fmt_d_uint64, fmt_s_string, fmt_s_IntString] at h
  obtain ⟨e₁, h⟩ := split_sep (noSlash_nat _) (noSlash_nat _) h
  rw [← List.append_assoc, ← List.append_assoc (fmtNat c₂.EventNonce)] at h
  obtain ⟨e₂, h⟩ := split_sep ((noSlash_nat _).append (noSlash_addr t₁)) ((noSlash_nat _).append (noSlash_addr t₂)) h
  obtain ⟨e₂, e₃⟩ := nat_addr_split t₁ t₂ e₂
  obtain ⟨e₄, h⟩ := split_sep (noSlash_addr s₁) (noSlash_addr s₂) h
  obtain ⟨e₅, h⟩ := split_sep (noSlash_int _) (noSlash_int _) h
  obtain ⟨e₆, e₇⟩ := split_sep (noSlash_bech r₁) (noSlash_bech r₂) h
  have e₁ := fmtNat_inj e₁
  have e₅ := fmtInt_inj e₅
  cases c₁; cases c₂
  simp_all [MsgSendToFxClaim.effect]

/-- `MsgBridgeCallClaim`: `%d/%d/%s/%s/%s/%s/%v/%v/%s/%s/%s` (with TxOrigin and Memo) -/
theorem bridgeCall_path_injective (k₁ k₂ : AddrKind) (c₁ c₂ : MsgBridgeCallClaim)
    (v₁ : c₁.valid k₁ = true) (v₂ : c₂.valid k₂ = true) (h : c₁.path = c₂.path) : c₁.effect = c₂.effect := by
  simp only [MsgBridgeCallClaim.valid, MsgBridgeCallClaim.validGen, Bool.and_eq_true] at v₁ v₂
  obtain ⟨⟨⟨⟨⟨⟨⟨⟨⟨⟨⟨_, tc₁⟩, _⟩, s₁⟩, to₁⟩, rf₁⟩, _⟩, d₁⟩, _⟩, _⟩, o₁⟩, _⟩ := v₁
  obtain ⟨⟨⟨⟨⟨⟨⟨⟨⟨⟨⟨_, tc₂⟩, _⟩, s₂⟩, to₂⟩, rf₂⟩, _⟩, d₂⟩, _⟩, _⟩, o₂⟩, _⟩ := v₂
  simp only [MsgBridgeCallClaim.path, fmt_d_uint64, fmt_s_string, fmt_v_string, fmt_s_IntString, fmt_s_sliceString,
    fmt_v_sliceInt] at h
  obtain ⟨e₁, h⟩ := split_sep (noSlash_nat _) (noSlash_nat _) h
  obtain ⟨e₂, h⟩ := split_sep (noSlash_nat _) (noSlash_nat _) h
  obtain ⟨e₃, h⟩ := split_sep (noSlash_addr s₁) (noSlash_addr s₂) h
  obtain ⟨e₄, h⟩ := split_sep (noSlash_addr rf₁) (noSlash_addr rf₂) h
  obtain ⟨e₅, h⟩ := split_sep (noSlash_addr to₁) (noSlash_addr to₂) h
  obtain ⟨e₆, h⟩ := split_sep (noSlash_addrs tc₁) (noSlash_addrs tc₂) h
  obtain ⟨e₇, h⟩ := split_sep (noSlash_ints _) (noSlash_ints _) h
  obtain ⟨e₈, h⟩ := split_sep (noSlash_hex d₁) (noSlash_hex d₂) h
  obtain ⟨e₉, h⟩ := split_sep (noSlash_int _) (noSlash_int _) h
  obtain ⟨e₁₀, e₁₁⟩ := split_sep (noSlash_addr o₁) (noSlash_addr o₂) h
  have e₁ := fmtNat_inj e₁
  have e₂ := fmtNat_inj e₂
  have e₆ := fmtSlice_inj (addrs_elem tc₁) (addrs_elem tc₂) e₆
  have e₇ := map_fmtInt_inj (fmtSlice_inj (ints_elem _) (ints_elem _) e₇)
  have e₉ := fmtInt_inj e₉
  cases c₁; cases c₂
  simp_all [MsgBridgeCallClaim.effect]

/-- `MsgBridgeCallResultClaim`: `%d/%d/%d/%t/%s/%s` (with TxOrigin) -/
theorem bridgeCallResult_path_injective (k₁ k₂ : AddrKind) (c₁ c₂ : MsgBridgeCallResultClaim)
    (v₁ : c₁.valid k₁ = true) (v₂ : c₂.valid k₂ = true) (h : c₁.path = c₂.path) : c₁.effect = c₂.effect := by
  simp only [MsgBridgeCallResultClaim.valid, MsgBridgeCallResultClaim.validGen, Bool.and_eq_true] at v₁ v₂
  obtain ⟨⟨⟨⟨⟨_, _⟩, _⟩, _⟩, _⟩, ca₁⟩ := v₁
  obtain ⟨⟨⟨⟨⟨_, _⟩, _⟩, _⟩, _⟩, ca₂⟩ := v₂
  simp only [MsgBridgeCallResultClaim.path, fmt_d_uint64, fmt_s_string] at h
  obtain ⟨e₁, h⟩ := split_sep (noSlash_nat _) (noSlash_nat _) h
  obtain ⟨e₂, h⟩ := split_sep (noSlash_nat _) (noSlash_nat _) h
  obtain ⟨e₃, h⟩ := split_sep (noSlash_nat _) (noSlash_nat _) h
  obtain ⟨e₄, h⟩ := split_sep (noSlash_bool _) (noSlash_bool _) h
  obtain ⟨e₅, e₆⟩ := split_sep (noSlash_hex ca₁) (noSlash_hex ca₂) h
  have e₁ := fmtNat_inj e₁
  have e₂ := fmtNat_inj e₂
  have e₃ := fmtNat_inj e₃
  have e₄ := fmtBool_inj e₄
  cases c₁; cases c₂
  simp_all [MsgBridgeCallResultClaim.effect]

/-- `MsgSendToExternalClaim`: `%d/%d/%s/%d/` -/
theorem sendToExternal_path_injective (k₁ k₂ : AddrKind) (c₁ c₂ : MsgSendToExternalClaim)
    (v₁ : c₁.valid k₁ = true) (v₂ : c₂.valid k₂ = true) (h : c₁.path = c₂.path) : c₁.effect = c₂.effect := by
  simp only [MsgSendToExternalClaim.valid, MsgSendToExternalClaim.validGen, Bool.and_eq_true] at v₁ v₂
  obtain ⟨⟨⟨⟨_, t₁⟩, _⟩, _⟩, _⟩ := v₁
  obtain ⟨⟨⟨⟨_, t₂⟩, _⟩, _⟩, _⟩ := v₂
  simp only [MsgSendToExternalClaim.path, fmt_d_uint64, fmt_s_string] at h
  obtain ⟨e₁, h⟩ := split_sep (noSlash_nat _) (noSlash_nat _) h
  obtain ⟨e₂, h⟩ := split_sep (noSlash_nat _) (noSlash_nat _) h
  obtain ⟨e₃, h⟩ := split_sep (noSlash_addr t₁) (noSlash_addr t₂) h
  have e₄ := split_end (noSlash_nat _) (noSlash_nat _) h
  have e₁ := fmtNat_inj e₁
  have e₂ := fmtNat_inj e₂
  have e₄ := fmtNat_inj e₄
  cases c₁; cases c₂
  simp_all [MsgSendToExternalClaim.effect]

/-- `MsgBridgeTokenClaim`: `%d/%d%s/%x/%x/%d/%s/` (free-form Name and Symbol hex-encoded) -/
theorem bridgeToken_path_injective (k₁ k₂ : AddrKind) (c₁ c₂ : MsgBridgeTokenClaim)
    (v₁ : c₁.valid k₁ = true) (v₂ : c₂.valid k₂ = true) (h : c₁.path = c₂.path) : c₁.effect = c₂.effect := by
  simp only [MsgBridgeTokenClaim.valid, MsgBridgeTokenClaim.validGen, Bool.and_eq_true] at v₁ v₂
  obtain ⟨⟨⟨⟨⟨⟨⟨⟨_, t₁⟩, ch₁⟩, _⟩, _⟩, _⟩, _⟩, n₁⟩, sy₁⟩ := v₁
  obtain ⟨⟨⟨⟨⟨⟨⟨⟨_, t₂⟩, ch₂⟩, _⟩, _⟩, _⟩, _⟩, n₂⟩, sy₂⟩ := v₂
  simp only [MsgBridgeTokenClaim.path, fmt_d_uint64, fmt_s_string, fmt_x_string] at h
  obtain ⟨e₁, h⟩ := split_sep (noSlash_nat _) (noSlash_nat _) h
  rw [← List.append_assoc, ← List.append_assoc (fmtNat c₂.EventNonce)] at h
  obtain ⟨e₂, h⟩ := split_sep ((noSlash_nat _).append (noSlash_addr t₁)) ((noSlash_nat _).append (noSlash_addr t₂)) h
  obtain ⟨e₂, e₃⟩ := nat_addr_split t₁ t₂ e₂
  obtain ⟨e₄, h⟩ := split_sep (noSlash_hexStr n₁) (noSlash_hexStr n₂) h
  obtain ⟨e₅, h⟩ := split_sep (noSlash_hexStr sy₁) (noSlash_hexStr sy₂) h
  obtain ⟨e₆, h⟩ := split_sep (noSlash_nat _) (noSlash_nat _) h
  have e₇ := split_end (noSlash_hex ch₁) (noSlash_hex ch₂) h
  have e₁ := fmtNat_inj e₁
  have e₅ := fmtHexStr_inj sy₁ sy₂ e₅
  have e₆ := fmtNat_inj e₆
  cases c₁; cases c₂
  simp_all [MsgBridgeTokenClaim.effect]

/-- `MsgOracleSetUpdatedClaim`: `%d/%d/%d/%v/` -/
theorem oracleSetUpdated_path_injective (k₁ k₂ : AddrKind) (c₁ c₂ : MsgOracleSetUpdatedClaim)
    (v₁ : c₁.valid k₁ = true) (v₂ : c₂.valid k₂ = true) (h : c₁.path = c₂.path) : c₁.effect = c₂.effect := by
  simp only [MsgOracleSetUpdatedClaim.valid, MsgOracleSetUpdatedClaim.validGen, Bool.and_eq_true] at v₁ v₂
  obtain ⟨⟨⟨⟨_, _⟩, m₁⟩, _⟩, _⟩ := v₁
  obtain ⟨⟨⟨⟨_, _⟩, m₂⟩, _⟩, _⟩ := v₂
  have m₁ := members_addr m₁
  have m₂ := members_addr m₂
  simp only [MsgOracleSetUpdatedClaim.path, fmt_d_uint64, fmt_v_sliceBridgeValidator] at h
  obtain ⟨e₁, h⟩ := split_sep (noSlash_nat _) (noSlash_nat _) h
  obtain ⟨e₂, h⟩ := split_sep (noSlash_nat _) (noSlash_nat _) h
  obtain ⟨e₃, h⟩ := split_sep (noSlash_nat _) (noSlash_nat _) h
  have e₄ := fmtMembers_inj m₁ m₂ (split_end (members_noslash m₁) (members_noslash m₂) h)
  have e₁ := fmtNat_inj e₁
  have e₂ := fmtNat_inj e₂
  have e₃ := fmtNat_inj e₃
  cases c₁; cases c₂
  simp_all [MsgOracleSetUpdatedClaim.effect]

/-! ## from paths to hashes and to the attestation key

`GetAttestationKey(nonce, hash) = prefix ‖ nonce ‖ hash`: two claims are tallied in the same attestation iff their
nonces and hashes agree.  With the named assumption that the hash has no collision on the two paths, equal hashes mean
equal paths, and the executed claim (whichever voter crosses the threshold) carries the voted effect. -/

/-- `executed_is_voted`, stated for an arbitrary hash function `H` (SHA-256 in the code): if `H` does not collide on
the paths of the two claims, a vote `c₁` filed in the same attestation as the executed claim `c₂` has the same effect -/
theorem executed_is_voted_sendToFx (H : Str → List Nat) (k₁ k₂ : AddrKind) (voted executed : MsgSendToFxClaim)
    (v₁ : voted.valid k₁ = true) (v₂ : executed.valid k₂ = true)
    (collisionFree : H voted.path = H executed.path → voted.path = executed.path)
    (sameAttestation : H voted.path = H executed.path) : voted.effect = executed.effect :=
  sendToFx_path_injective k₁ k₂ _ _ v₁ v₂ (collisionFree sameAttestation)

theorem executed_is_voted_bridgeCall (H : Str → List Nat) (k₁ k₂ : AddrKind) (voted executed : MsgBridgeCallClaim)
    (v₁ : voted.valid k₁ = true) (v₂ : executed.valid k₂ = true)
    (collisionFree : H voted.path = H executed.path → voted.path = executed.path)
    (sameAttestation : H voted.path = H executed.path) : voted.effect = executed.effect :=
  bridgeCall_path_injective k₁ k₂ _ _ v₁ v₂ (collisionFree sameAttestation)

theorem executed_is_voted_bridgeCallResult (H : Str → List Nat) (k₁ k₂ : AddrKind) (voted executed : MsgBridgeCallResultClaim)
    (v₁ : voted.valid k₁ = true) (v₂ : executed.valid k₂ = true)
    (collisionFree : H voted.path = H executed.path → voted.path = executed.path)
    (sameAttestation : H voted.path = H executed.path) : voted.effect = executed.effect :=
  bridgeCallResult_path_injective k₁ k₂ _ _ v₁ v₂ (collisionFree sameAttestation)

theorem executed_is_voted_sendToExternal (H : Str → List Nat) (k₁ k₂ : AddrKind) (voted executed : MsgSendToExternalClaim)
    (v₁ : voted.valid k₁ = true) (v₂ : executed.valid k₂ = true)
    (collisionFree : H voted.path = H executed.path → voted.path = executed.path)
    (sameAttestation : H voted.path = H executed.path) : voted.effect = executed.effect :=
  sendToExternal_path_injective k₁ k₂ _ _ v₁ v₂ (collisionFree sameAttestation)

theorem executed_is_voted_bridgeToken (H : Str → List Nat) (k₁ k₂ : AddrKind) (voted executed : MsgBridgeTokenClaim)
    (v₁ : voted.valid k₁ = true) (v₂ : executed.valid k₂ = true)
    (collisionFree : H voted.path = H executed.path → voted.path = executed.path)
    (sameAttestation : H voted.path = H executed.path) : voted.effect = executed.effect :=
  bridgeToken_path_injective k₁ k₂ _ _ v₁ v₂ (collisionFree sameAttestation)

theorem executed_is_voted_oracleSetUpdated (H : Str → List Nat) (k₁ k₂ : AddrKind) (voted executed : MsgOracleSetUpdatedClaim)
    (v₁ : voted.valid k₁ = true) (v₂ : executed.valid k₂ = true)
    (collisionFree : H voted.path = H executed.path → voted.path = executed.path)
    (sameAttestation : H voted.path = H executed.path) : voted.effect = executed.effect :=
  oracleSetUpdated_path_injective k₁ k₂ _ _ v₁ v₂ (collisionFree sameAttestation)

/-! ## the route of a deposit (`SendToFxExecuted`: `fxtypes.ParseFxTarget(claim.TargetIbc, true)`) -/

/-- the routing decision the handler takes — IBC transfer (port, channel, receiver prefix), ERC-20 conversion or plain
credit, as computed by the model of `ParseFxTarget` that the harness compares with the real function — is the voted one -/
theorem sendToFx_route_is_voted (k₁ k₂ : AddrKind) (c₁ c₂ : MsgSendToFxClaim)
    (v₁ : c₁.valid k₁ = true) (v₂ : c₂.valid k₂ = true) (h : c₁.path = c₂.path) :
    Go.types_ParseFxTarget c₁.TargetIbc true = Go.types_ParseFxTarget c₂.TargetIbc true := by
  have e := congrArg MsgSendToFxClaim.TargetIbc (sendToFx_path_injective k₁ k₂ c₁ c₂ v₁ v₂ h)
  simp only [MsgSendToFxClaim.effect] at e
  rw [e]

/-- why the RAW `TargetIbc` has to be hashed: the rendering `GetTarget()` of the parsed target forgets whether it is an
IBC route — `px/transfer/channel-0` (an IBC transfer out of fxcore) and the literal `channel-0/px` (coins stay with the
receiver) render identically -/
theorem parsed_target_rendering_not_injective :
    ∃ t₁ t₂ : Str, isHexData t₁ = true ∧ isHexData t₂ = true
      ∧ (Go.types_ParseFxTarget t₁ true).isIBC ≠ (Go.types_ParseFxTarget t₂ true).isIBC
      ∧ Go.types_FxTarget_GetTarget (Go.types_ParseFxTarget t₁ true) = Go.types_FxTarget_GetTarget (Go.types_ParseFxTarget t₂ true) :=
  ⟨Go.hex_EncodeToString "px/transfer/channel-0".toList, Go.hex_EncodeToString "channel-0/px".toList,
    by decide +kernel, by decide +kernel, by decide +kernel, by decide +kernel⟩

/-! ## claims of every type at once

The attestation store key is `nonce ‖ ClaimHash` whatever the claim's type, and `TryAttestation` hands the crossing
voter's claim object — of whatever type — to the handler.  So the path must determine the type as well: the paths of two
valid claims of different types never coincide (different numbers of `/` separators: 5, 10, 5, 4, 6, 4 for send-to-fx,
bridge-call, bridge-call-result, send-to-external, bridge-token, oracle-set-updated; the two pairs with equal counts are
told apart by a component that is a number in one and `true`/`false` resp. `[…]` in the other). -/

/-- the generated path determines the claim's type and every effect-relevant field, for all claims of all six types -/
theorem anyClaim_path_injective (k₁ k₂ : AddrKind) (c₁ c₂ : AnyClaim)
    (v₁ : c₁.valid k₁ = true) (v₂ : c₂.valid k₂ = true) (h : c₁.path = c₂.path) : c₁.effect = c₂.effect :=
  match c₁, c₂, v₁, v₂, h with
  | .stf a, .stf b, v₁, v₂, h => congrArg AnyClaim.stf (sendToFx_path_injective k₁ k₂ a b v₁ v₂ h)
  | .stf _, .bc _, v₁, v₂, h => absurd h (ne_of_slashes (stf_slashes v₁) (bc_slashes v₂) (by decide))
  | .stf _, .bcr _, v₁, v₂, h => absurd h (stf_ne_bcr v₁ v₂)
  | .stf _, .ste _, v₁, v₂, h => absurd h (ne_of_slashes (stf_slashes v₁) (ste_slashes v₂) (by decide))
  | .stf _, .bt _, v₁, v₂, h => absurd h (ne_of_slashes (stf_slashes v₁) (bt_slashes v₂) (by decide))
  | .stf _, .osu _, v₁, v₂, h => absurd h (ne_of_slashes (stf_slashes v₁) (osu_slashes v₂) (by decide))
  | .bc _, .stf _, v₁, v₂, h => absurd h (ne_of_slashes (bc_slashes v₁) (stf_slashes v₂) (by decide))
  | .bc a, .bc b, v₁, v₂, h => congrArg AnyClaim.bc (bridgeCall_path_injective k₁ k₂ a b v₁ v₂ h)
  | .bc _, .bcr _, v₁, v₂, h => absurd h (ne_of_slashes (bc_slashes v₁) (bcr_slashes v₂) (by decide))
  | .bc _, .ste _, v₁, v₂, h => absurd h (ne_of_slashes (bc_slashes v₁) (ste_slashes v₂) (by decide))
  | .bc _, .bt _, v₁, v₂, h => absurd h (ne_of_slashes (bc_slashes v₁) (bt_slashes v₂) (by decide))
  | .bc _, .osu _, v₁, v₂, h => absurd h (ne_of_slashes (bc_slashes v₁) (osu_slashes v₂) (by decide))
  | .bcr _, .stf _, v₁, v₂, h => absurd h.symm (stf_ne_bcr v₂ v₁)
  | .bcr _, .bc _, v₁, v₂, h => absurd h (ne_of_slashes (bcr_slashes v₁) (bc_slashes v₂) (by decide))
  | .bcr a, .bcr b, v₁, v₂, h => congrArg AnyClaim.bcr (bridgeCallResult_path_injective k₁ k₂ a b v₁ v₂ h)
  | .bcr _, .ste _, v₁, v₂, h => absurd h (ne_of_slashes (bcr_slashes v₁) (ste_slashes v₂) (by decide))
  | .bcr _, .bt _, v₁, v₂, h => absurd h (ne_of_slashes (bcr_slashes v₁) (bt_slashes v₂) (by decide))
  | .bcr _, .osu _, v₁, v₂, h => absurd h (ne_of_slashes (bcr_slashes v₁) (osu_slashes v₂) (by decide))
  | .ste _, .stf _, v₁, v₂, h => absurd h (ne_of_slashes (ste_slashes v₁) (stf_slashes v₂) (by decide))
  | .ste _, .bc _, v₁, v₂, h => absurd h (ne_of_slashes (ste_slashes v₁) (bc_slashes v₂) (by decide))
  | .ste _, .bcr _, v₁, v₂, h => absurd h (ne_of_slashes (ste_slashes v₁) (bcr_slashes v₂) (by decide))
  | .ste a, .ste b, v₁, v₂, h => congrArg AnyClaim.ste (sendToExternal_path_injective k₁ k₂ a b v₁ v₂ h)
  | .ste _, .bt _, v₁, v₂, h => absurd h (ne_of_slashes (ste_slashes v₁) (bt_slashes v₂) (by decide))
  | .ste _, .osu _, v₁, v₂, h => absurd h (ste_ne_osu v₁ v₂)
  | .bt _, .stf _, v₁, v₂, h => absurd h (ne_of_slashes (bt_slashes v₁) (stf_slashes v₂) (by decide))
  | .bt _, .bc _, v₁, v₂, h => absurd h (ne_of_slashes (bt_slashes v₁) (bc_slashes v₂) (by decide))
  | .bt _, .bcr _, v₁, v₂, h => absurd h (ne_of_slashes (bt_slashes v₁) (bcr_slashes v₂) (by decide))
  | .bt _, .ste _, v₁, v₂, h => absurd h (ne_of_slashes (bt_slashes v₁) (ste_slashes v₂) (by decide))
  | .bt a, .bt b, v₁, v₂, h => congrArg AnyClaim.bt (bridgeToken_path_injective k₁ k₂ a b v₁ v₂ h)
  | .bt _, .osu _, v₁, v₂, h => absurd h (ne_of_slashes (bt_slashes v₁) (osu_slashes v₂) (by decide))
  | .osu _, .stf _, v₁, v₂, h => absurd h (ne_of_slashes (osu_slashes v₁) (stf_slashes v₂) (by decide))
  | .osu _, .bc _, v₁, v₂, h => absurd h (ne_of_slashes (osu_slashes v₁) (bc_slashes v₂) (by decide))
  | .osu _, .bcr _, v₁, v₂, h => absurd h (ne_of_slashes (osu_slashes v₁) (bcr_slashes v₂) (by decide))
  | .osu _, .ste _, v₁, v₂, h => absurd h.symm (ste_ne_osu v₂ v₁)
  | .osu _, .bt _, v₁, v₂, h => absurd h (ne_of_slashes (osu_slashes v₁) (bt_slashes v₂) (by decide))
  | .osu a, .osu b, v₁, v₂, h => congrArg AnyClaim.osu (oracleSetUpdated_path_injective k₁ k₂ a b v₁ v₂ h)

/-! ## `Claim` → `Attest` → `TryAttestation`: the executed event is the voted event, for every history

`run key {} ops` is the attestation state machine of `Model/C03Attest.lean` started from the empty state: any number of
oracles, any interleaving of votes of any claim types for any nonces, powers / total power / registered addresses /
nonce cursors changed arbitrarily in between (bonding, slashing, governance, earlier events), handlers that may panic.
`key c` is the hash part of the store key.  Hypotheses: every submitted claim passed `ValidateBasic` (for a chain of some
address class — possibly different classes for different claims), and the hash does not collide on the paths of the
submitted claims (the named assumption; `executed_is_voted_ideal` discharges it for an injective hash). -/

/-- the call structure of `Keeper.Attest` (REGENERATED table `attestTrySites`: every `TryAttestation(att, claim)` call
reachable from `Attest` with the voter's claim in hand — which attestation, which claim object, under which guard): every
call hands over a claim that hashes to the key of the attestation whose votes it tallies — the voter's claim with the
attestation found under the voter's own key, or an attestation together with its own recorded claim -/
theorem attest_sites_well_keyed : ∀ t ∈ attestTrySites, t.wellKeyed = true := by decide

/-- … and there is such a call (the table is not empty because the translator lost track of `Attest`) -/
theorem attest_sites_found : attestTrySites.any (fun t => t.att == .voted && t.claim == .voter) = true := by decide

/-- where `Attest` gets the attestation the vote is appended to (REGENERATED table `attestLookup`: the assignments to that
variable in the body of `Keeper.Attest`, in program order): only the attestation stored under the voter's OWN key
`nonce ‖ ClaimHash(claim)`, or a new one recording the voter's claim — never one found under another key -/
theorem attest_lookup_own_key : ∀ x ∈ attestLookup, x.own = true := by decide

/-- … and the lookup under the own key is there (the table is not empty because the translator lost track of the variable) -/
theorem attest_lookup_found : attestLookup.contains .ownKey = true ∧ attestLookup.contains .fresh = true := by decide

/-- **the property**: whenever the handler runs, the claim object it is given — the threshold-crossing voter's — has the
same type and the same effect-relevant fields as the claim of EVERY vote tallied in that attestation -/
theorem executed_is_voted {η : Type} [DecidableEq η] (H : Str → η) (le : η → η → Bool) (ops : List Op)
    (valid : ∀ c ∈ Op.claims ops, ∃ k, c.valid k = true)
    (collisionFree : ∀ c₁ ∈ Op.claims ops, ∀ c₂ ∈ Op.claims ops, H c₁.path = H c₂.path → c₁.path = c₂.path) :
    ∀ e ∈ (run (fun c => H c.path) le {} ops).executed, ∀ v ∈ e.tallied, v.2.effect = e.claim.effect := by
  intro e he v hv
  have inv := inv_run attestTrySites attestLookup attest_sites_well_keyed attest_lookup_own_key (fun c => H c.path) le
    (fun c => c ∈ Op.claims ops) (fun _ => False) (stale_false _ _) (Or.inr fun _ h => h) ops {} (inv_init _ _ _) (fun _ h => h)
  obtain ⟨pe, hv'⟩ := inv.2 e he
  obtain ⟨_, hk, pv⟩ := hv' v hv
  obtain ⟨k₁, v₁⟩ := valid _ pv
  obtain ⟨k₂, v₂⟩ := valid _ pe
  exact anyClaim_path_injective k₁ k₂ _ _ v₁ v₂ (collisionFree _ pv _ pe hk)

/-- two claims are tallied together (stored as votes of one attestation) only if they agree on the type and on every
effect-relevant field; the claim the attestation records (the first voter's) agrees with them too — in every reachable
state, observed or not -/
theorem tallied_together_agree {η : Type} [DecidableEq η] (H : Str → η) (le : η → η → Bool) (ops : List Op)
    (valid : ∀ c ∈ Op.claims ops, ∃ k, c.valid k = true)
    (collisionFree : ∀ c₁ ∈ Op.claims ops, ∀ c₂ ∈ Op.claims ops, H c₁.path = H c₂.path → c₁.path = c₂.path) :
    ∀ a ∈ (run (fun c => H c.path) le {} ops).atts, ∀ v ∈ a.votes,
      v.2.effect = a.claim.effect ∧ ∀ w ∈ a.votes, v.2.effect = w.2.effect := by
  intro a ha v hv
  have inv := inv_run attestTrySites attestLookup attest_sites_well_keyed attest_lookup_own_key (fun c => H c.path) le
    (fun c => c ∈ Op.claims ops) (fun _ => False) (stale_false _ _) (Or.inr fun _ h => h) ops {} (inv_init _ _ _) (fun _ h => h)
  obtain ⟨⟨_, hc, pc⟩, hvs⟩ := (inv.1 a ha).resolve_right id
  obtain ⟨_, hk, pv⟩ := hvs v hv
  obtain ⟨k₁, v₁⟩ := valid _ pv
  refine ⟨?_, fun w hw => ?_⟩
  · obtain ⟨k₂, v₂⟩ := valid _ pc
    exact anyClaim_path_injective k₁ k₂ _ _ v₁ v₂ (collisionFree _ pv _ pc (hk.trans hc.symm))
  · obtain ⟨_, hk', pw⟩ := hvs w hw
    obtain ⟨k₂, v₂⟩ := valid _ pw
    exact anyClaim_path_injective k₁ k₂ _ _ v₁ v₂ (collisionFree _ pv _ pw (hk.trans hk'.symm))

/-- every stored attestation sits under the key of the claim it RECORDS — in every reachable state, with no hypothesis on the
claims or the hash.  This is what genesis export / import relies on: `InitGenesis` files each exported attestation under
`claim.GetEventNonce() ‖ claim.ClaimHash()` of its recorded claim (REGENERATED `interfaceUses`: `InitGenesis` calls exactly
`GetEventNonce`, `ClaimHash`, `GetBlockHeight`) -/
theorem attestation_filed_under_recorded_claim {η : Type} [DecidableEq η] (H : Str → η) (le : η → η → Bool) (ops : List Op) :
    ∀ a ∈ (run (fun c => H c.path) le {} ops).atts, a.claim.nonce = a.nonce ∧ H a.claim.path = a.hash := by
  intro a ha
  have inv := inv_run attestTrySites attestLookup attest_sites_well_keyed attest_lookup_own_key (fun c => H c.path) le
    (fun _ => True) (fun _ => False) (stale_false _ _) (Or.inr fun _ h => h) ops {} (inv_init _ _ _) (fun _ _ => trivial)
  obtain ⟨⟨hn, hh, _⟩, _⟩ := (inv.1 a ha).resolve_right id
  exact ⟨hn, hh⟩

/-- … so re-filing every attestation under the key of its recorded claim (an export / import round trip of the attestation
table) changes nothing, after any history -/
theorem genesis_refile_is_identity {η : Type} [DecidableEq η] (H : Str → η) (le : η → η → Bool) (ops : List Op) :
    (run (fun c => H c.path) le {} ops).atts.map (fun a => { a with nonce := a.claim.nonce, hash := H a.claim.path })
      = (run (fun c => H c.path) le {} ops).atts := by
  have h := attestation_filed_under_recorded_claim H le ops
  generalize (run (fun c => H c.path) le {} ops).atts = l at h
  induction l with
  | nil => rfl
  | cons a r ih =>
    obtain ⟨hn, hh⟩ := h a List.mem_cons_self
    simp only [List.map_cons, hn, hh]
    rw [ih (fun b hb => h b (List.mem_cons_of_mem _ hb))]

/-- deferred execution: what `ExecuteClaim` runs (send-to-fx, bridge-call and bridge-call-result claims are stored by
`SavePendingExecuteClaim` and run later from the stored copy) is a claim object an observed attestation handed to the
handler, so it has the type and every effect-relevant field of every vote tallied for it — the effect applied on fxcore
is the one the quorum voted for, whenever and by whomever `ExecuteClaim` is called -/
theorem ran_is_voted {η : Type} [DecidableEq η] (H : Str → η) (le : η → η → Bool) (ops : List Op)
    (valid : ∀ c ∈ Op.claims ops, ∃ k, c.valid k = true)
    (collisionFree : ∀ c₁ ∈ Op.claims ops, ∀ c₂ ∈ Op.claims ops, H c₁.path = H c₂.path → c₁.path = c₂.path) :
    ∀ c ∈ (run (fun c => H c.path) le {} ops).ran,
      ∃ e ∈ (run (fun c => H c.path) le {} ops).executed, e.claim = c ∧ ∀ v ∈ e.tallied, v.2.effect = c.effect := by
  intro c hc
  obtain ⟨e, he, hec⟩ := (pendInv_run attestTrySites attestLookup (fun c => H c.path) le ops {} pendInv_init).2 c hc
  exact ⟨e, he, hec, fun v hv => hec ▸ executed_is_voted H le ops valid collisionFree e he v hv⟩

/-- the stored copy waiting for `ExecuteClaim` under an event nonce is such a claim object, of that nonce -/
theorem pending_is_voted {η : Type} [DecidableEq η] (H : Str → η) (le : η → η → Bool) (ops : List Op)
    (valid : ∀ c ∈ Op.claims ops, ∃ k, c.valid k = true)
    (collisionFree : ∀ c₁ ∈ Op.claims ops, ∀ c₂ ∈ Op.claims ops, H c₁.path = H c₂.path → c₁.path = c₂.path) :
    ∀ p ∈ (run (fun c => H c.path) le {} ops).pending, p.2.nonce = p.1 ∧
      ∃ e ∈ (run (fun c => H c.path) le {} ops).executed, e.claim = p.2 ∧ ∀ v ∈ e.tallied, v.2.effect = p.2.effect := by
  intro p hp
  obtain ⟨hn, e, he, hec⟩ := (pendInv_run attestTrySites attestLookup (fun c => H c.path) le ops {} pendInv_init).1 p hp
  exact ⟨hn, e, he, hec, fun v hv => hec ▸ executed_is_voted H le ops valid collisionFree e he v hv⟩

/-- `TryAttestation` also records the external block height of the claim object it is handed
(`SetLastObservedBlockHeight(claim.GetBlockHeight())`): after every history, the recorded height is the one EVERY tallied
voter of the last observed attestation reported -/
theorem observed_height_is_voted {η : Type} [DecidableEq η] (H : Str → η) (le : η → η → Bool) (ops : List Op)
    (valid : ∀ c ∈ Op.claims ops, ∃ k, c.valid k = true)
    (collisionFree : ∀ c₁ ∈ Op.claims ops, ∀ c₂ ∈ Op.claims ops, H c₁.path = H c₂.path → c₁.path = c₂.path) :
    ∀ e, (run (fun c => H c.path) le {} ops).executed.getLast? = some e →
      (run (fun c => H c.path) le {} ops).lastHeight = e.claim.blockHeight
      ∧ ∀ v ∈ e.tallied, v.2.blockHeight = (run (fun c => H c.path) le {} ops).lastHeight := by
  intro e he
  have h1 : (run (fun c => H c.path) le {} ops).lastHeight = e.claim.blockHeight :=
    heightInv_run attestTrySites attestLookup (fun c => H c.path) le ops {} heightInv_init e he
  refine ⟨h1, fun v hv => ?_⟩
  rw [h1]
  exact effect_blockHeight (executed_is_voted H le ops valid collisionFree e (List.mem_of_getLast? he) v hv)

/-- with an injective hash (the path itself as the key) no assumption is left -/
theorem executed_is_voted_ideal (le : Str → Str → Bool) (ops : List Op) (valid : ∀ c ∈ Op.claims ops, ∃ k, c.valid k = true) :
    ∀ e ∈ (run (fun c => c.path) le {} ops).executed, ∀ v ∈ e.tallied, v.2.effect = e.claim.effect :=
  executed_is_voted id le ops valid (fun _ _ _ _ h => h)

/-! ## the three formats of commit 6774338 are not injective (recorded counterexamples, replayed by the harness) -/

def ethA : Str := "0x0000000000000000000000000000000000000001".toList
def ethB : Str := "0x0000000000000000000000000000000000000002".toList
def bech : Str := "fx1qqqqqqqqqqqqqqqqqqqqqqqqqqqqqqqqhlk2g0".toList
def memoSendCallTo : Str := "0000000000000000000000000000000000000000000000000000000000010000".toList

def wCall : MsgBridgeCallClaim :=
  { ChainName := "eth".toList, BridgerAddress := bech, EventNonce := 1, BlockHeight := 1, Sender := ethA, Refund := ethA,
    TokenContracts := [], Amounts := [], To := ethA, Data := [], Value := some 0, Memo := [], TxOrigin := ethA }

/-- two valid bridge-call claims that differ in `Memo` and `TxOrigin` had the same path -/
theorem legacy_bridgeCall_not_injective :
    ∃ c₁ c₂ : MsgBridgeCallClaim, c₁.valid .eth = true ∧ c₂.valid .eth = true
      ∧ legacyBridgeCallPath c₁ = legacyBridgeCallPath c₂ ∧ c₁.effect ≠ c₂.effect :=
  ⟨wCall, { wCall with Memo := memoSendCallTo, TxOrigin := ethB }, by decide, by decide, by decide, by decide⟩

def wResult : MsgBridgeCallResultClaim :=
  { ChainName := "eth".toList, BridgerAddress := bech, EventNonce := 1, BlockHeight := 1, Nonce := 1, TxOrigin := ethA,
    Success := true, Cause := [] }

theorem legacy_bridgeCallResult_not_injective :
    ∃ c₁ c₂ : MsgBridgeCallResultClaim, c₁.valid .eth = true ∧ c₂.valid .eth = true
      ∧ legacyBridgeCallResultPath c₁ = legacyBridgeCallResultPath c₂ ∧ c₁.effect ≠ c₂.effect :=
  ⟨wResult, { wResult with TxOrigin := ethB }, by decide, by decide, by decide, by decide⟩

def wToken : MsgBridgeTokenClaim :=
  { EventNonce := 1, BlockHeight := 1, TokenContract := ethA, Name := "A/FX".toList, Symbol := "FX".toList, Decimals := 18,
    BridgerAddress := bech, ChannelIbc := [], ChainName := "eth".toList }

/-- `Name "A/FX", Symbol "FX"` (registers the contract as the bridge token of the native coin) and
`Name "A", Symbol "FX/FX"` (an ordinary bridge token) had the same path -/
theorem legacy_bridgeToken_not_injective :
    ∃ c₁ c₂ : MsgBridgeTokenClaim, c₁.valid .eth = true ∧ c₂.valid .eth = true
      ∧ legacyBridgeTokenPath c₁ = legacyBridgeTokenPath c₂ ∧ c₁.effect ≠ c₂.effect :=
  ⟨wToken, { wToken with Name := "A".toList, Symbol := "FX/FX".toList }, by decide, by decide, by decide, by decide⟩

/-! ## the same state machine with the formats of commit 6774338: the executed event is NOT the voted one -/

/-- store key of the pinned commit, with an ideal (injective) hash: the legacy path -/
def legacyKey : AnyClaim → Str := AnyClaim.legacyPath

/-- three oracles of power 10 (threshold 66 % of 30 = 19); oracle 0 votes for the bridge call with an empty memo, oracle 1
for the same call with the send-call-to memo and another origin -/
def legacyOps : List Op :=
  [.setPower 0 (some 10), .setPower 1 (some 10), .setPower 2 (some 10), .setTotal 30,
   .vote 0 (.bc wCall) false, .vote 1 (.bc { wCall with Memo := memoSendCallTo, TxOrigin := ethB }) false]

/-- under the legacy key the second vote is tallied with the first, crosses the threshold, and ITS claim is executed:
a history in which the executed event differs from a tallied vote (so `executed_is_voted` really depends on what
`anyClaim_path_injective` says about the generated paths) -/
theorem legacy_executed_not_voted :
    (∀ c ∈ Op.claims legacyOps, c.valid .eth = true)
    ∧ ∃ e ∈ (run legacyKey (fun _ _ => true) {} legacyOps).executed, ∃ v ∈ e.tallied, v.2.effect ≠ e.claim.effect :=
  ⟨by decide +kernel,
   ⟨{ claim := .bc { wCall with Memo := memoSendCallTo, TxOrigin := ethB },
      tallied := [(0, .bc wCall), (1, .bc { wCall with Memo := memoSendCallTo, TxOrigin := ethB })] },
    by decide +kernel, (0, .bc wCall), by decide +kernel, by decide +kernel⟩⟩

/-! ## an ill-keyed call structure: re-tallying the other open attestations with the VOTER's claim -/

/-- `Attest` followed by "re-tally every open attestation of the nonce", handing each stored attestation the claim of the
oracle that is voting right now -/
def retallySites : List TrySite :=
  [{ att := .voted, claim := .voter, inLoop := false, fn := "Attest", guard := "" },
   { att := .stored, claim := .voter, inLoop := true, fn := "retry", guard := "" }]

/-- oracle 0 (power 10 of 30) votes for the call with the empty memo; its power then grows to 100 of 120, so its recorded
vote alone is above the threshold, but no vote arrives for it; oracle 1 (power 10) votes for a conflicting call -/
def retallyOps : List Op :=
  [.setPower 0 (some 10), .setPower 1 (some 10), .setPower 2 (some 10), .setTotal 30,
   .vote 0 (.bc wCall) false,
   .setPower 0 (some 100), .setTotal 120,
   .vote 1 (.bc { wCall with Memo := memoSendCallTo, TxOrigin := ethB }) false]

/-- with that call structure — even with an injective key — the quorum collected for one event executes another: the
hypothesis `attest_sites_well_keyed` of `executed_is_voted` is what rules this out -/
theorem retally_with_voter_claim_not_voted :
    (∀ c ∈ Op.claims retallyOps, c.valid .eth = true)
    ∧ ∃ e ∈ (runWith retallySites attestLookup (fun c => c.path) (fun _ _ => true) {} retallyOps).executed,
        ∃ v ∈ e.tallied, v.2.effect ≠ e.claim.effect :=
  ⟨by decide +kernel,
   ⟨{ claim := .bc { wCall with Memo := memoSendCallTo, TxOrigin := ethB }, tallied := [(0, .bc wCall)] },
    by decide +kernel, (0, .bc wCall), by decide +kernel, by decide +kernel⟩⟩

/-- the call structure found in the source leaves the first attestation open in the same history -/
example : (run (fun c => c.path) (fun _ _ => true) {} retallyOps).executed = [] := by decide +kernel

/-! ## attestations an earlier release left behind (round 4)

`b7515bc` changed three `ClaimHash` formats.  An attestation that was open at the upgrade stays in the store under the hash
the EARLIER release computed (`legacyKey`), with the votes cast for it.  The theorems above start from the empty state; the
ones below start from ANY state: the attestation table may hold arbitrary attestations filed by other code under other
hashes (`stale`: no claim submitted in the history has the key of one of them — for the legacy formats this is the
collision-freeness of SHA-256 across the two formats).  What makes this safe is a fact about the body of `Attest` that the
translator regenerates (`attestLookup`): the attestation the vote is appended to is looked up under the voter's own current
key only.  A lookup that also adopts an attestation found under another key (`adoptingLookup`) tallies pre-upgrade votes
with post-upgrade claims that differ in exactly the fields the old hash did not cover. -/

/-- every `TryAttestation` call site is handed the attestation of the vote itself (REGENERATED `attestTrySites`) -/
theorem attest_sites_voted : ∀ t ∈ attestTrySites, t.att = .voted := by decide

/-- **the property, across an upgrade**: from any initial state whose attestations are stale (filed under keys no submitted
claim has) and whose execution log is empty, every execution hands the handler a claim with the type and effect-relevant
fields of EVERY tallied vote — the votes recorded in the stale attestations are never tallied with anything -/
theorem executed_is_voted_from {η : Type} [DecidableEq η] (H : Str → η) (le : η → η → Bool) (s₀ : AState η) (ops : List Op)
    (valid : ∀ c ∈ Op.claims ops, ∃ k, c.valid k = true)
    (collisionFree : ∀ c₁ ∈ Op.claims ops, ∀ c₂ ∈ Op.claims ops, H c₁.path = H c₂.path → c₁.path = c₂.path)
    (fresh₀ : s₀.executed = [])
    (stale : ∀ a ∈ s₀.atts, ∀ c ∈ Op.claims ops, ¬(a.nonce = c.nonce ∧ a.hash = H c.path)) :
    ∀ e ∈ (run (fun c => H c.path) le s₀ ops).executed, ∀ v ∈ e.tallied, v.2.effect = e.claim.effect := by
  intro e he v hv
  have inv := inv_run attestTrySites attestLookup attest_sites_well_keyed attest_lookup_own_key (fun c => H c.path) le
    (fun c => c ∈ Op.claims ops) (fun a => a ∈ s₀.atts) (fun a ha c hc => stale a ha c hc) (Or.inl attest_sites_voted) ops s₀
    ⟨fun a ha => Or.inr ha, fun e he => by rw [fresh₀] at he; cases he⟩ (fun _ h => h)
  obtain ⟨pe, hv'⟩ := inv.2 e he
  obtain ⟨_, hk, pv⟩ := hv' v hv
  obtain ⟨k₁, v₁⟩ := valid _ pv
  obtain ⟨k₂, v₂⟩ := valid _ pe
  exact anyClaim_path_injective k₁ k₂ _ _ v₁ v₂ (collisionFree _ pv _ pe hk)

/-- every `TryAttestation` call site is handed the attestation of the vote itself AND the voter's claim -/
theorem attest_sites_own : OwnSites attestTrySites := by
  intro t ht
  simp only [attestTrySites, List.mem_singleton] at ht
  subst ht
  exact ⟨rfl, rfl⟩

/-- … and the stale attestations are left exactly where they are, votes and all: no vote is added to them, none is
observed, moved or deleted by any history -/
theorem stale_attestations_untouched {η : Type} [DecidableEq η] (H : Str → η) (le : η → η → Bool) (s₀ : AState η) (ops : List Op)
    (fresh₀ : s₀.executed = [])
    (stale : ∀ a ∈ s₀.atts, ∀ c ∈ Op.claims ops, ¬(a.nonce = c.nonce ∧ a.hash = H c.path)) :
    ∀ a ∈ s₀.atts, a ∈ (run (fun c => H c.path) le s₀ ops).atts := by
  intro a ha
  exact keeps_run attestTrySites attestLookup attest_sites_well_keyed attest_sites_own attest_lookup_own_key (fun c => H c.path) le
    (fun c => c ∈ Op.claims ops) (fun a => a ∈ s₀.atts) (fun a ha c hc => stale a ha c hc) ops s₀
    ⟨fun a ha => Or.inr ha, fun e he => by rw [fresh₀] at he; cases he⟩ (fun _ h => h) a ha ha

/-- the hypothesis `stale` is a THEOREM for the legacy bridge-call format: no valid claim of any type has, under the current
(regenerated) formats, the path the earlier release hashed for a valid bridge call (8 separators; the current formats have
5, 10, 5, 4, 6, 4) -/
theorem legacy_bridgeCall_key_stale (k₁ k₂ : AddrKind) (a : MsgBridgeCallClaim) (va : a.valid k₁ = true) (c : AnyClaim)
    (vc : c.valid k₂ = true) : legacyBridgeCallPath a ≠ c.path := legacy_bc_ne_current va c vc

/-- … and for the legacy bridge-call-result format (`h/n/nonce/bool/cause`: 4 separators, like the current send-to-external
and oracle-set formats, from which it differs in the fourth component) -/
theorem legacy_bridgeCallResult_key_stale (k₁ k₂ : AddrKind) (a : MsgBridgeCallResultClaim) (va : a.valid k₁ = true)
    (c : AnyClaim) (vc : c.valid k₂ = true) : legacyBridgeCallResultPath a ≠ c.path := legacy_bcr_ne_current va c vc

/-- **across the upgrade `b7515bc`, no hypothesis on keys left** (ideal hash): start from any state whose attestations sit
under the legacy path of some valid bridge call or bridge-call result — with any votes, any recorded claim — and run any
history of valid claims: every execution hands the handler what every tallied voter voted for -/
theorem executed_is_voted_across_upgrade (le : Str → Str → Bool) (s₀ : AState Str) (ops : List Op)
    (valid : ∀ c ∈ Op.claims ops, ∃ k, c.valid k = true) (fresh₀ : s₀.executed = [])
    (legacy : ∀ a ∈ s₀.atts, (∃ k, ∃ m : MsgBridgeCallClaim, m.valid k = true ∧ a.hash = legacyBridgeCallPath m)
      ∨ (∃ k, ∃ m : MsgBridgeCallResultClaim, m.valid k = true ∧ a.hash = legacyBridgeCallResultPath m)) :
    ∀ e ∈ (run (fun c => c.path) le s₀ ops).executed, ∀ v ∈ e.tallied, v.2.effect = e.claim.effect := by
  refine executed_is_voted_from id le s₀ ops valid (fun _ _ _ _ h => h) fresh₀ ?_
  intro a ha c hc hk
  obtain ⟨k₂, vc⟩ := valid c hc
  rcases legacy a ha with ⟨k, m, vm, e⟩ | ⟨k, m, vm, e⟩
  · exact legacy_bc_ne_current vm c vc (e ▸ hk.2)
  · exact legacy_bcr_ne_current vm c vc (e ▸ hk.2)

/-- the other bridge call of `legacyOps`: same legacy hash as `wCall`, another memo and origin -/
def wCall' : MsgBridgeCallClaim := { wCall with Memo := memoSendCallTo, TxOrigin := ethB }

/-- the state an upgraded chain can be in: oracle 0 (power 10 of 30) voted for `wCall` before the upgrade; the attestation
is open and sits under the LEGACY hash of `wCall` (which is also the legacy hash of `wCall'`) -/
def upgradedState : AState Str :=
  { atts := [{ nonce := 1, hash := legacyKey (.bc wCall), claim := .bc wCall, votes := [(0, .bc wCall)], observed := false }],
    powers := [(0, 10), (1, 10), (2, 10)], total := 30, lastByOracle := [(0, 1)] }

/-- an `Attest` that, when nothing is stored under the voter's key, adopts an open attestation found under another key -/
def adoptingLookup : List AttSource := [.ownKey, .otherStored "k.migrateLegacyAttestation(ctx, claim)", .fresh]

/-- with the adopting lookup — the key function and the call sites being the ones of the source — oracle 1's vote for
`wCall'` is tallied with oracle 0's pre-upgrade vote for `wCall`, crosses the threshold, and `wCall'` is executed: the
hypothesis `attest_lookup_own_key` of `executed_is_voted_from` is what rules this out -/
theorem adopting_lookup_not_voted :
    (∀ c ∈ Op.claims [.vote 1 (.bc wCall') false], c.valid .eth = true)
    ∧ (∀ a ∈ upgradedState.atts, ∀ c ∈ Op.claims [.vote 1 (.bc wCall') false], ¬(a.nonce = c.nonce ∧ a.hash = c.path))
    ∧ ∃ e ∈ (runWith attestTrySites adoptingLookup (fun c => c.path) (fun _ _ => true) upgradedState
              [.vote 1 (.bc wCall') false]).executed, ∃ v ∈ e.tallied, v.2.effect ≠ e.claim.effect :=
  ⟨by decide +kernel, by decide +kernel,
   ⟨{ claim := .bc wCall', tallied := [(0, .bc wCall), (1, .bc wCall')] }, by decide +kernel, (0, .bc wCall), by decide +kernel,
    by decide +kernel⟩⟩

/-- non-vacuity of `executed_is_voted_from`: with the lookup found in the source the stale attestation stays where it is,
oracle 1's vote opens a new attestation, and oracle 2's vote for the same event executes it with exactly their two votes -/
example : (run (fun c => c.path) (fun _ _ => true) upgradedState [.vote 1 (.bc wCall') false]).executed = []
    ∧ (run (fun c => c.path) (fun _ _ => true) upgradedState [.vote 1 (.bc wCall') false, .vote 2 (.bc wCall') false]).executed
        = [{ claim := .bc wCall', tallied := [(1, .bc wCall'), (2, .bc wCall')] }]
    ∧ (run (fun c => c.path) (fun _ _ => true) upgradedState [.vote 1 (.bc wCall') false, .vote 2 (.bc wCall') false]).atts.length = 2 := by
  decide +kernel
example : upgradedState.executed = []
    ∧ ∀ a ∈ upgradedState.atts, ∀ c ∈ Op.claims [.vote 1 (.bc wCall') false, .vote 2 (.bc wCall') false],
        ¬(a.nonce = c.nonce ∧ a.hash = c.path) := by decide +kernel

/-- non-vacuity of `executed_is_voted_across_upgrade`: `upgradedState` is such a state (its attestation sits under the
legacy path of the valid bridge call `wCall`) -/
example : upgradedState.executed = [] ∧ ∀ a ∈ upgradedState.atts,
    (∃ k, ∃ m : MsgBridgeCallClaim, m.valid k = true ∧ a.hash = legacyBridgeCallPath m)
    ∨ (∃ k, ∃ m : MsgBridgeCallResultClaim, m.valid k = true ∧ a.hash = legacyBridgeCallResultPath m) := by
  refine ⟨rfl, fun a ha => Or.inl ⟨.eth, wCall, by decide, ?_⟩⟩
  simp only [upgradedState, List.mem_singleton] at ha
  subst ha
  rfl

/-! ## what the handlers READ is what the quorum voted for (round 3)

`handlerView` (Gen/C03.lean, REGENERATED from x/crosschain/keeper on every run) lists every maximal expression through
which a keeper function reads a claim of a concrete type — fields, and methods of the claim unfolded into
x/crosschain/types down to the fields they read — together with the VALUES those expressions depend on.  A chain name
that the code only uses as the index of `externalAddressRouter` (e.g. `GetSenderAddr() = ExternalAddrToHexAddr(m.ChainName,
m.Sender)`) contributes its registered address class, not its spelling.  The claim's own `ChainName` is neither hashed nor
compared with the chain the enclosing `MsgClaim` is routed to, so two voters of one attestation may name different chains;
the theorems below show that they nevertheless name chains of one address class, and that every value a handler reads is
the same whichever tallied voter's claim object it is handed. -/

/-- what the handlers read is a function of the effect-relevant fields and of the address CLASS of the claim's chain name:
no handler reads `BridgerAddress`, the spelling of `ChainName`, or `MsgBridgeTokenClaim.Name` (this is
`handler_reads_hashed` made semantic: stated over the regenerated expressions, methods unfolded) -/
theorem handler_view_of_effect (c₁ c₂ : AnyClaim) (he : c₁.effect = c₂.effect)
    (hk : Go.chainClass chains c₁.chainName = Go.chainClass chains c₂.chainName) : c₁.handlerView = c₂.handlerView := by
  cases c₁ <;> cases c₂ <;> simp only [AnyClaim.effect, reduceCtorEq, AnyClaim.stf.injEq, AnyClaim.bc.injEq,
    AnyClaim.bcr.injEq, AnyClaim.ste.injEq, AnyClaim.bt.injEq, AnyClaim.osu.injEq] at he
  all_goals
    rename_i a b
    cases a; cases b
    simp_all [AnyClaim.handlerView, AnyClaim.chainName, MsgSendToFxClaim.effect, MsgBridgeCallClaim.effect,
      MsgBridgeCallResultClaim.effect, MsgSendToExternalClaim.effect, MsgBridgeTokenClaim.effect,
      MsgOracleSetUpdatedClaim.effect, MsgSendToFxClaim.handlerView, MsgBridgeCallClaim.handlerView,
      MsgBridgeCallResultClaim.handlerView, MsgSendToExternalClaim.handlerView, MsgBridgeTokenClaim.handlerView,
      MsgOracleSetUpdatedClaim.handlerView]

/-- two claims that pass their own `ValidateBasic` and agree on the effect-relevant fields name chains of the same address
class: every claim type carries an external address (sender / origin / token contract / first member), and a string is an
address of at most one class -/
theorem wellFormed_class_agree (c₁ c₂ : AnyClaim) (w₁ : c₁.wellFormed = true) (w₂ : c₂.wellFormed = true)
    (he : c₁.effect = c₂.effect) : chainKind c₁.chainName = chainKind c₂.chainName := by
  simp only [AnyClaim.wellFormed] at w₁ w₂
  cases e₁ : chainKind c₁.chainName with
  | none => rw [e₁] at w₁; exact absurd w₁ Bool.false_ne_true
  | some k₁ =>
  cases e₂ : chainKind c₂.chainName with
  | none => rw [e₂] at w₂; exact absurd w₂ Bool.false_ne_true
  | some k₂ =>
  rw [e₁] at w₁; rw [e₂] at w₂
  simp only at w₁ w₂
  congr 1
  cases c₁ <;> cases c₂ <;> simp only [AnyClaim.effect, reduceCtorEq, AnyClaim.stf.injEq, AnyClaim.bc.injEq,
    AnyClaim.bcr.injEq, AnyClaim.ste.injEq, AnyClaim.bt.injEq, AnyClaim.osu.injEq] at he
  · rename_i a b
    simp only [AnyClaim.valid, MsgSendToFxClaim.valid, MsgSendToFxClaim.validGen, Bool.and_eq_true] at w₁ w₂
    have e : a.Sender = b.Sender := by simpa [MsgSendToFxClaim.effect] using congrArg MsgSendToFxClaim.Sender he
    exact isExtAddr_kind_unique w₁.1.1.1.1.1.1.2 (e ▸ w₂.1.1.1.1.1.1.2)
  · rename_i a b
    simp only [AnyClaim.valid, MsgBridgeCallClaim.valid, MsgBridgeCallClaim.validGen, Bool.and_eq_true] at w₁ w₂
    have e : a.Sender = b.Sender := by simpa [MsgBridgeCallClaim.effect] using congrArg MsgBridgeCallClaim.Sender he
    exact isExtAddr_kind_unique w₁.1.1.1.1.1.1.1.1.2 (e ▸ w₂.1.1.1.1.1.1.1.1.2)
  · rename_i a b
    simp only [AnyClaim.valid, MsgBridgeCallResultClaim.valid, MsgBridgeCallResultClaim.validGen, Bool.and_eq_true] at w₁ w₂
    have e : a.TxOrigin = b.TxOrigin := by
      simpa [MsgBridgeCallResultClaim.effect] using congrArg MsgBridgeCallResultClaim.TxOrigin he
    exact isExtAddr_kind_unique w₁.1.2 (e ▸ w₂.1.2)
  · rename_i a b
    simp only [AnyClaim.valid, MsgSendToExternalClaim.valid, MsgSendToExternalClaim.validGen, Bool.and_eq_true] at w₁ w₂
    have e : a.TokenContract = b.TokenContract := by
      simpa [MsgSendToExternalClaim.effect] using congrArg MsgSendToExternalClaim.TokenContract he
    exact isExtAddr_kind_unique w₁.1.1.1.2 (e ▸ w₂.1.1.1.2)
  · rename_i a b
    simp only [AnyClaim.valid, MsgBridgeTokenClaim.valid, MsgBridgeTokenClaim.validGen, Bool.and_eq_true] at w₁ w₂
    have e : a.TokenContract = b.TokenContract := by
      simpa [MsgBridgeTokenClaim.effect] using congrArg MsgBridgeTokenClaim.TokenContract he
    exact isExtAddr_kind_unique w₁.1.1.1.1.1.1.1.2 (e ▸ w₂.1.1.1.1.1.1.1.2)
  · rename_i a b
    simp only [AnyClaim.valid, MsgOracleSetUpdatedClaim.valid, MsgOracleSetUpdatedClaim.validGen, Bool.and_eq_true] at w₁ w₂
    have e : a.Members = b.Members := by
      simpa [MsgOracleSetUpdatedClaim.effect] using congrArg MsgOracleSetUpdatedClaim.Members he
    obtain ⟨⟨⟨⟨_, ne₁⟩, m₁⟩, _⟩, _⟩ := w₁
    obtain ⟨⟨⟨⟨_, _⟩, m₂⟩, _⟩, _⟩ := w₂
    rw [← e] at m₂
    cases hm : a.Members with
    | nil => simp [hm] at ne₁
    | cons x r =>
      simp only [hm, List.all_cons, Bool.and_eq_true] at m₁ m₂
      exact isExtAddr_kind_unique m₁.1.1 m₂.1.1

theorem valid_of_wellFormed {c : AnyClaim} (w : c.wellFormed = true) : ∃ k, c.valid k = true := by
  simp only [AnyClaim.wellFormed] at w
  split at w
  · exact ⟨_, w⟩
  · exact absurd w Bool.false_ne_true

/-- **every value a handler reads of the executed claim is the one voted for**: two claims that pass their own
`ValidateBasic` and have the same (regenerated) path present the same view to the handlers — for all field values of all
six types, whatever chains the two claims name -/
theorem handler_view_is_voted (c₁ c₂ : AnyClaim) (w₁ : c₁.wellFormed = true) (w₂ : c₂.wellFormed = true)
    (h : c₁.path = c₂.path) : c₁.handlerView = c₂.handlerView := by
  obtain ⟨k₁, v₁⟩ := valid_of_wellFormed w₁
  obtain ⟨k₂, v₂⟩ := valid_of_wellFormed w₂
  have he := anyClaim_path_injective k₁ k₂ c₁ c₂ v₁ v₂ h
  exact handler_view_of_effect c₁ c₂ he (wellFormed_class_agree c₁ c₂ w₁ w₂ he)

/-- over all histories: whenever the handler runs, every value it reads of the claim object it is given is the value the
claim of EVERY tallied vote has in that place — the effect applied does not depend on which voter crossed the threshold -/
theorem executed_view_is_voted {η : Type} [DecidableEq η] (H : Str → η) (le : η → η → Bool) (ops : List Op)
    (wf : ∀ c ∈ Op.claims ops, c.wellFormed = true)
    (collisionFree : ∀ c₁ ∈ Op.claims ops, ∀ c₂ ∈ Op.claims ops, H c₁.path = H c₂.path → c₁.path = c₂.path) :
    ∀ e ∈ (run (fun c => H c.path) le {} ops).executed, ∀ v ∈ e.tallied, v.2.handlerView = e.claim.handlerView := by
  intro e he v hv
  have inv := inv_run attestTrySites attestLookup attest_sites_well_keyed attest_lookup_own_key (fun c => H c.path) le
    (fun c => c ∈ Op.claims ops) (fun _ => False) (stale_false _ _) (Or.inr fun _ h => h) ops {} (inv_init _ _ _) (fun _ h => h)
  obtain ⟨pe, hv'⟩ := inv.2 e he
  obtain ⟨_, hk, pv⟩ := hv' v hv
  exact handler_view_is_voted _ _ (wf _ pv) (wf _ pe) (collisionFree _ pv _ pe hk)

/-- … and so is every value read of a claim that `ExecuteClaim` later runs from the pending store -/
theorem ran_view_is_voted {η : Type} [DecidableEq η] (H : Str → η) (le : η → η → Bool) (ops : List Op)
    (wf : ∀ c ∈ Op.claims ops, c.wellFormed = true)
    (collisionFree : ∀ c₁ ∈ Op.claims ops, ∀ c₂ ∈ Op.claims ops, H c₁.path = H c₂.path → c₁.path = c₂.path) :
    ∀ c ∈ (run (fun c => H c.path) le {} ops).ran,
      ∃ e ∈ (run (fun c => H c.path) le {} ops).executed, e.claim = c ∧ ∀ v ∈ e.tallied, v.2.handlerView = c.handlerView := by
  intro c hc
  obtain ⟨e, he, hec⟩ := (pendInv_run attestTrySites attestLookup (fun c => H c.path) le ops {} pendInv_init).2 c hc
  exact ⟨e, he, hec, fun v hv => hec ▸ executed_view_is_voted H le ops wf collisionFree e he v hv⟩

/-- across an upgrade (see `executed_is_voted_from`): what the handlers read of the executed claim is what every tallied
voter submitted, from any initial state with stale attestations -/
theorem executed_view_is_voted_from {η : Type} [DecidableEq η] (H : Str → η) (le : η → η → Bool) (s₀ : AState η) (ops : List Op)
    (wf : ∀ c ∈ Op.claims ops, c.wellFormed = true)
    (collisionFree : ∀ c₁ ∈ Op.claims ops, ∀ c₂ ∈ Op.claims ops, H c₁.path = H c₂.path → c₁.path = c₂.path)
    (fresh₀ : s₀.executed = [])
    (stale : ∀ a ∈ s₀.atts, ∀ c ∈ Op.claims ops, ¬(a.nonce = c.nonce ∧ a.hash = H c.path)) :
    ∀ e ∈ (run (fun c => H c.path) le s₀ ops).executed, ∀ v ∈ e.tallied, v.2.handlerView = e.claim.handlerView := by
  intro e he v hv
  have inv := inv_run attestTrySites attestLookup attest_sites_well_keyed attest_lookup_own_key (fun c => H c.path) le
    (fun c => c ∈ Op.claims ops) (fun a => a ∈ s₀.atts) (fun a ha c hc => stale a ha c hc) (Or.inl attest_sites_voted) ops s₀
    ⟨fun a ha => Or.inr ha, fun e he => by rw [fresh₀] at he; cases he⟩ (fun _ h => h)
  obtain ⟨pe, hv'⟩ := inv.2 e he
  obtain ⟨_, hk, pv⟩ := hv' v hv
  exact handler_view_is_voted _ _ (wf _ pv) (wf _ pe) (collisionFree _ pv _ pe hk)

/-- no handler is handed the claim object in a way the translator cannot follow (an entry `.whole`) -/
theorem handler_view_complete (c : AnyClaim) : ∀ e ∈ c.handlerView, ∀ l ∈ e.vals, ∀ w, l ≠ .whole w := by
  cases c <;> simp [AnyClaim.handlerView, MsgSendToFxClaim.handlerView, MsgBridgeCallClaim.handlerView,
    MsgBridgeCallResultClaim.handlerView, MsgSendToExternalClaim.handlerView, MsgBridgeTokenClaim.handlerView,
    MsgOracleSetUpdatedClaim.handlerView]

/-- … and every claim type is read by some handler (the view is not empty because the translator lost track) -/
theorem handler_view_nonempty (c : AnyClaim) : c.handlerView ≠ [] := by
  cases c <;> simp [AnyClaim.handlerView, MsgSendToFxClaim.handlerView, MsgBridgeCallClaim.handlerView,
    MsgBridgeCallResultClaim.handlerView, MsgSendToExternalClaim.handlerView, MsgBridgeTokenClaim.handlerView,
    MsgOracleSetUpdatedClaim.handlerView]

/-- why `handler_view_is_voted` needs the claims' OWN `ValidateBasic` (`wellFormed`) and not just some class: a view that
mentioned the spelling of the chain name would differ between two voters of one attestation — here the bridge call of
`wCall` relayed under the names `eth` and `bsc` has one view (same class), while the raw names differ -/
example : (AnyClaim.bc wCall).handlerView = (AnyClaim.bc { wCall with ChainName := "bsc".toList, BridgerAddress := ethB }).handlerView
    ∧ (AnyClaim.bc wCall).chainName ≠ (AnyClaim.bc { wCall with ChainName := "bsc".toList }).chainName := by decide +kernel
example : (AnyClaim.bc wCall).wellFormed = true ∧ (AnyClaim.bc { wCall with ChainName := "bsc".toList }).wellFormed = true
    ∧ (AnyClaim.bc { wCall with ChainName := "nochain".toList }).wellFormed = false
    ∧ (AnyClaim.bc { wCall with ChainName := "tron".toList }).wellFormed = false := by decide +kernel
/-- the view is not constant: another memo is another view -/
example : (AnyClaim.bc wCall).handlerView ≠ (AnyClaim.bc { wCall with Memo := memoSendCallTo }).handlerView := by decide +kernel

/-! ## a handler's WRITES are the voted ones: `AddBridgeTokenExecuted`, interpreted from its regenerated statement list

`addBridgeTokenProg` (Gen/C03.lean) is the body of `Keeper.AddBridgeTokenExecuted`, statement by statement; `runProg`
(Model/C03Prog.lean) gives it its meaning on a bridge-denom store.  This is the handler whose stored effect depends on a
voted field in a non-obvious way: `Symbol` matters only through `== "FX"` (the contract becomes the bridge token of the
native coin), `Decimals` only then, `TokenContract` and the keeper's module name through `NewBridgeDenom`. -/

/-- the translator recognised every statement, and both store helpers use one key function -/
theorem bridgeToken_prog_modelled :
    addBridgeTokenProg.all HLine.modelled = true ∧ addBridgeTokenStoreKey = "GetBridgeDenomKey" := by decide

/-- the program mentions no claim field outside the handler view (`TokenContract`, `Symbol`; `Decimals`) -/
theorem bridgeToken_prog_fields :
    (progStrFields addBridgeTokenProg).all (["TokenContract", "Symbol"].contains ·) = true
    ∧ (progNatFields addBridgeTokenProg).all (["Decimals"].contains ·) = true := by decide

/-- for every module name and every store: what the handler writes (or that it fails) is determined by the handler view —
so by `handler_view_is_voted` it is the same for the claim objects of all voters of one attestation -/
theorem bridgeToken_handler_of_view (m : Str) (st : List (Str × Str)) (c₁ c₂ : MsgBridgeTokenClaim)
    (h : c₁.handlerView = c₂.handlerView) : runAddBridgeToken m st c₁ = runAddBridgeToken m st c₂ := by
  simp only [MsgBridgeTokenClaim.handlerView, List.cons.injEq, HEntry.mk.injEq, HLeaf.str.injEq, HLeaf.nat.injEq,
    true_and, and_true] at h
  obtain ⟨hd, hs, ht⟩ := h
  apply runProg_congr
  · intro f hf
    have := List.all_eq_true.1 bridgeToken_prog_fields.1 f hf
    simp only [List.contains_cons, List.contains_nil, Bool.or_false, Bool.or_eq_true, beq_iff_eq] at this
    rcases this with rfl | rfl <;> simp [MsgBridgeTokenClaim.fieldEnv, hs, ht]
  · intro f hf
    have := List.all_eq_true.1 bridgeToken_prog_fields.2 f hf
    simp only [List.contains_cons, List.contains_nil, Bool.or_false, beq_iff_eq] at this
    subst this
    simp [MsgBridgeTokenClaim.fieldEnv, hd]

/-- the writes of the handlers the model interprets (so far: `AddBridgeTokenExecuted`), for a claim of any type -/
def immediateEffect (m : Str) (st : List (Str × Str)) : AnyClaim → Option HRes
  | .bt c => some (runAddBridgeToken m st c)
  | _ => none

/-- over all histories: on every keeper and every store, executing the claim object the handler was given writes exactly
what executing the claim of ANY tallied vote would have written -/
theorem executed_writes_are_voted {η : Type} [DecidableEq η] (H : Str → η) (le : η → η → Bool) (ops : List Op)
    (wf : ∀ c ∈ Op.claims ops, c.wellFormed = true)
    (collisionFree : ∀ c₁ ∈ Op.claims ops, ∀ c₂ ∈ Op.claims ops, H c₁.path = H c₂.path → c₁.path = c₂.path)
    (m : Str) (st : List (Str × Str)) :
    ∀ e ∈ (run (fun c => H c.path) le {} ops).executed, ∀ v ∈ e.tallied,
      immediateEffect m st v.2 = immediateEffect m st e.claim := by
  intro e he v hv
  have hview := executed_view_is_voted H le ops wf collisionFree e he v hv
  have heff := executed_is_voted H le ops (fun c hc => valid_of_wellFormed (wf c hc)) collisionFree e he v hv
  cases hc : e.claim <;> cases hw : v.2 <;> rw [hc, hw] at hview heff <;>
    simp only [AnyClaim.effect, reduceCtorEq] at heff <;> simp only [immediateEffect]
  rename_i a b
  exact congrArg some (bridgeToken_handler_of_view m st b a hview)

/-- `Symbol == "FX"` with 18 decimals: the contract becomes the bridge token of the native coin (two entries) -/
example : runAddBridgeToken "eth".toList [] wToken
    = .ok [("eth".toList ++ ethA, "FX".toList), ("FX".toList, "eth".toList ++ ethA)] := by decide +kernel
/-- any other symbol: an ordinary bridge token -/
example : runAddBridgeToken "eth".toList [] { wToken with Name := "A".toList, Symbol := "FX/FX".toList }
    = .ok [("eth".toList ++ ethA, "eth".toList ++ ethA)] := by decide +kernel
/-- already registered / `FX` with other decimals: an error, nothing is written -/
example : runAddBridgeToken "eth".toList [("eth".toList ++ ethA, "x".toList)] wToken = .err := by decide +kernel
example : runAddBridgeToken "eth".toList [] { wToken with Decimals := 6 } = .err := by decide +kernel
/-- the module name matters (it is the keeper's, not the claim's `ChainName`) -/
example : runAddBridgeToken "bsc".toList [] wToken ≠ runAddBridgeToken "eth".toList [] wToken := by decide +kernel

/-! ## the WRITES of every handler are the voted ones (round 4): the handler bodies as interpreted control-flow programs

`flow_<tag>` (Gen/C03.lean, REGENERATED by go/extract/c03flow.go) is the code that executes a claim of each type —
`SendToFxExecuted`, `BridgeCallHandler`, `BridgeCallResultHandler`, `UpdateOracleSetExecuted`, `AddBridgeTokenExecuted`, the
`MsgSendToExternalClaim` case of `AttestationHandler` — compiled statement by statement into instructions (assignments,
calls, conditional jumps, `range` loops, returns) that `Model/C03Flow.lean` `exec` INTERPRETS.  The Go expressions inside are
opaque functions of their leaves and of the state; a leaf is a local variable or a claim read, and a claim read gets its value
from the regenerated `handlerView` under the (function, shape) key the view scan gave it.  The theorems hold for EVERY meaning
of the opaque functions (`FSem`: any state type, any value type, any deterministic semantics of each expression, of truth and
of `range`), i.e. for the real bank / erc20 / evm / ibc keepers, which are not modelled. -/

/-- every statement of the six handler bodies was recognised by the translator, and every jump lands inside its program -/
theorem flows_modelled :
    (flowModelled flow_stf && flowModelled flow_bc && flowModelled flow_bcr && flowModelled flow_ste && flowModelled flow_bt
      && flowModelled flow_osu) = true := by decide

/-- every claim read of a flow is an entry of the handler view of that claim type: the flow sees nothing of the claim that
the view (and so `handler_view_is_voted`) does not cover -/
theorem flow_reads_in_view (c : AnyClaim) : flowResolves c.flow c.handlerView = true := by
  cases c <;> rfl

/-- conversely, every entry the view scan found inside the compiled function is read by the flow (the two translations of
the same body agree on what is read of the claim) -/
theorem flow_covers_view (c : AnyClaim) : flowCovers c.flow c.flowFns c.handlerView = true := by
  cases c <;> rfl

/-- claims with the same effect-relevant fields have the same type, so the same flow -/
theorem flow_of_effect {c₁ c₂ : AnyClaim} (h : c₁.effect = c₂.effect) : c₁.flow = c₂.flow := by
  cases c₁ <;> cases c₂ <;> simp only [AnyClaim.effect, reduceCtorEq] at h <;> rfl

/-- for every semantics of the opaque parts, every state and every fuel: what executing a claim does — final state, returned
values, how it ended — is determined by the claim's type and its handler view -/
theorem handler_flow_of_view {σ ν : Type} (sem : FSem σ ν) (fuel : Nat) (st : σ) (c₁ c₂ : AnyClaim)
    (hf : c₁.flow = c₂.flow) (hv : c₁.handlerView = c₂.handlerView) :
    AnyClaim.runFlow sem fuel st c₁ = AnyClaim.runFlow sem fuel st c₂ := by
  simp only [AnyClaim.runFlow, hf, hv]

/-- **over all histories, for all six handlers**: whenever an attestation is observed, executing the claim object the handler
was given — in any state, under any semantics of the keepers' functions — does exactly what executing the claim object of
ANY tallied voter would have done -/
theorem executed_flow_is_voted {η : Type} [DecidableEq η] (H : Str → η) (le : η → η → Bool) (ops : List Op)
    (wf : ∀ c ∈ Op.claims ops, c.wellFormed = true)
    (collisionFree : ∀ c₁ ∈ Op.claims ops, ∀ c₂ ∈ Op.claims ops, H c₁.path = H c₂.path → c₁.path = c₂.path)
    {σ ν : Type} (sem : FSem σ ν) (fuel : Nat) (st : σ) :
    ∀ e ∈ (run (fun c => H c.path) le {} ops).executed, ∀ v ∈ e.tallied,
      AnyClaim.runFlow sem fuel st v.2 = AnyClaim.runFlow sem fuel st e.claim := by
  intro e he v hv
  have hview := executed_view_is_voted H le ops wf collisionFree e he v hv
  have heff := executed_is_voted H le ops (fun c hc => valid_of_wellFormed (wf c hc)) collisionFree e he v hv
  exact handler_flow_of_view sem fuel st _ _ (flow_of_effect heff) hview

/-- … and the same for the claims `ExecuteClaim` runs later from the pending store (send-to-fx, bridge call, bridge-call
result): running the stored copy does what running any tallied voter's claim would have done -/
theorem ran_flow_is_voted {η : Type} [DecidableEq η] (H : Str → η) (le : η → η → Bool) (ops : List Op)
    (wf : ∀ c ∈ Op.claims ops, c.wellFormed = true)
    (collisionFree : ∀ c₁ ∈ Op.claims ops, ∀ c₂ ∈ Op.claims ops, H c₁.path = H c₂.path → c₁.path = c₂.path)
    {σ ν : Type} (sem : FSem σ ν) (fuel : Nat) (st : σ) :
    ∀ c ∈ (run (fun c => H c.path) le {} ops).ran,
      ∃ e ∈ (run (fun c => H c.path) le {} ops).executed, e.claim = c ∧
        ∀ v ∈ e.tallied, AnyClaim.runFlow sem fuel st v.2 = AnyClaim.runFlow sem fuel st c := by
  intro c hc
  obtain ⟨e, he, hec⟩ := (pendInv_run attestTrySites attestLookup (fun c => H c.path) le ops {} pendInv_init).2 c hc
  exact ⟨e, he, hec, fun v hv => hec ▸ executed_flow_is_voted H le ops wf collisionFree sem fuel st e he v hv⟩

/-- a semantics for the examples: the state is the trace of the expressions evaluated, a value is the claim values it was
computed from, a condition holds iff its value is the text `FX` -/
def traceSem : FSem (List String) (List HLeaf) where
  op := fun src args st => (st ++ [src], args.flatten)
  proj := fun _ v => v
  truth := fun v => v == [.str "FX".toList]
  elems := fun v => match v with
    | [.strs l] => l.map fun x => ([.str x], [.str x])
    | _ => []
  ofView := id
  undef := []

/-- non-vacuity: the interpreter really follows the regenerated control flow — under `traceSem` the bridge-token flow takes
the `Symbol == FX` branch for `wToken` (two `AddBridgeToken` calls) and not for another symbol -/
example : (AnyClaim.runFlow traceSem 100 [] (.bt wToken)).how = .returned
    ∧ (AnyClaim.runFlow traceSem 100 [] (.bt wToken)).state.count "k.AddBridgeToken(ctx, fxtypes.DefaultDenom, bridgeDenom)" = 1
    ∧ (AnyClaim.runFlow traceSem 100 [] (.bt { wToken with Symbol := "A".toList })).state.count "k.AddBridgeToken(ctx, fxtypes.DefaultDenom, bridgeDenom)" = 0
    ∧ (AnyClaim.runFlow traceSem 100 [] (.bt { wToken with Symbol := "A".toList })).how = .returned := by decide +kernel
/-- the `range` loop of `BridgeCallHandler` runs once per token contract -/
example : (AnyClaim.runFlow traceSem 200 [] (.bc { wCall with TokenContracts := [ethA, ethB], Amounts := [some 1, some 2] })).state.count
            "k.BridgeTokenToBaseCoin(ctx, address, msg.Amounts[i], receiverAddr.Bytes())" = 2
    ∧ (AnyClaim.runFlow traceSem 200 [] (.bc wCall)).state.count
            "k.BridgeTokenToBaseCoin(ctx, address, msg.Amounts[i], receiverAddr.Bytes())" = 0 := by decide +kernel
/-- a flow that read a field the view does not list (the relayer's own address) would not resolve -/
example : flowResolves [.eval ⟨"k.credit(ctx, claim.BridgerAddress)", [.read "SendToFxExecuted" "BridgerAddress"]⟩]
    (AnyClaim.stf { EventNonce := 7, BlockHeight := 9, TokenContract := ethA, Amount := some 5, Sender := ethB, Receiver := bech,
                    TargetIbc := [], BridgerAddress := bech, ChainName := [] }).handlerView = false := by decide +kernel
/-- … and an unrecognised statement or a jump out of the program is not `flowModelled` -/
example : flowModelled [.unknown "switch"] = false ∧ flowModelled [.jmp 5] = false ∧ flowModelled [] = false := by decide

/-! ## the claim as `types.ExternalClaim`: every use of the interface value is accounted for (round 4)

Before a handler sees a claim of a concrete type, the claim travels through `Claim`, `claimLogicCheck`, `Attest`,
`TryAttestation`, `processAttestation`, `AttestationHandler`, the pending store and the iterators as a `types.ExternalClaim`.
`interfaceUses` (REGENERATED: a forward data-flow over the variables of that static type in every function of
x/crosschain/keeper, re-bindings and type assertions included) lists every use. -/

/-- every use is one the property can live with: a getter of a field every hash covers, the hash, the type, a type switch
(from where the typed scans follow the claim), a hand-over to a function that is itself scanned or that stores the claim
unchanged; the relayer's address only in `MsgServer.Claim` -/
theorem interface_uses_classified : interfaceUses.all allowedInterfaceUse = true := by decide

/-- every function a claim is handed on to (`followedCallees`) really is in the table — the scan saw its body -/
theorem interface_callees_scanned :
    followedCalleeTable.all (fun p =>
      !(interfaceUses.any fun u => u.2.1 == "pass" && u.2.2 == p.2) || interfaceUses.any fun w => w.1 == p.1) = true := by decide

/-- the field getters among the allowed interface methods are the ones `interface_reads_hashed` shows to be hashed by every
claim type, and the table is not empty because the translator lost track -/
theorem interface_getters_are_hashed_fields :
    interfaceFieldGetters.all (fun g => externalClaimReads.contains g.2) = true
    ∧ interfaceUses.any (fun u => u == ("Attest", "call", "ClaimHash")) = true
    ∧ interfaceUses.any (fun u => u == ("TryAttestation", "pass", "processAttestation#1")) = true := by decide

/-- a use the allow-list rejects: reading the relayer's address, or the claim's own chain name, where the event is executed -/
example : allowedInterfaceUse ("TryAttestation", "call", "GetClaimer") = false
    ∧ allowedInterfaceUse ("AttestationHandler", "call", "GetChainName") = false
    ∧ allowedInterfaceUse ("TryAttestation", "pass", "rewardRelayer#1") = false := by decide

/-! ## refinement: this attestation model and the C01 model take the same steps (round 4)

`Model/C01.lean` is the attestation / quorum model of C01 and C02 (claims as hash ids; the guards of `Attest` and
`TryAttestation` enter through the regenerated `Gen.C01` flags: contiguity check, `!att.Observed`, next-nonce guard,
`66 * total / 100`, the comparison `LT`, …).  `Proofs/C03Refine.lean` `Corr s t` says a state of this model and a C01 state
describe one store.  One accepted vote — and therefore any sequence of accepted votes — takes corresponding states to
corresponding states: the two hand-written models agree on which attestation a vote lands in, on its vote list, on whether
`TryAttestation` is called, on its verdict, and on what an observation writes. -/

open FxVerif.Proofs.C03Refine in
/-- the regenerated tables have the shape the refinement is stated for: one `TryAttestation` call, handed the voted
attestation and the voter's claim; the attestation looked up under the voter's own key, else new -/
theorem attest_tables_shape :
    attestTrySites.map (fun t => (t.att, t.claim)) = [(.voted, .voter)] ∧ attestLookup = [.ownKey, .fresh] := by decide

open FxVerif.Proofs.C03Refine in
/-- **one vote**: from corresponding states, a vote that passes `claimLogicCheck` and the contiguity check (handler not
panicking, event nonce within `MaxKeepEventSize` so that nothing is pruned) is accepted, and the resulting states correspond:
`vote` (this model, over the regenerated call structure) refines `C01.attest` (over the regenerated guards) -/
theorem vote_refines_C01 (key : AnyClaim → Nat) (le : Nat → Nat → Bool) {s : AState Nat} {t : FxVerif.Model.C01.State}
    (hc : Corr s t) (o : Nat) (c : AnyClaim) (hl : logicCheck s c = true) (hcont : c.nonce = lastNonceOf s o + 1)
    (hkeep : c.nonce ≤ FxVerif.Gen.C01.maxKeepEventSize) :
    (vote key le s o c false).2 = .ok
    ∧ Corr (vote key le s o c false).1 (FxVerif.Model.C01.attest t o c.nonce (key c) (kindOf c)) := by
  have := vote_refines_attest key le attestTrySites attest_tables_shape.1 hc o c hl hcont hkeep
  simpa only [vote, attest_tables_shape.2] using this

open FxVerif.Proofs.C03Refine in
/-- every vote of the list is accepted when its turn comes -/
def Accepted (key : AnyClaim → Nat) (le : Nat → Nat → Bool) : AState Nat → List (Nat × AnyClaim) → Prop
  | _, [] => True
  | s, (o, c) :: r =>
    logicCheck s c = true ∧ c.nonce = lastNonceOf s o + 1 ∧ c.nonce ≤ FxVerif.Gen.C01.maxKeepEventSize
    ∧ Accepted key le (vote key le s o c false).1 r

open FxVerif.Proofs.C03Refine in
/-- **any sequence of accepted votes** (any oracles, any claims of any types, any interleaving of event nonces and of
conflicting claims for one nonce): the two models stay in corresponding states -/
theorem votes_refine_C01 (key : AnyClaim → Nat) (le : Nat → Nat → Bool) :
    ∀ (vs : List (Nat × AnyClaim)) (s : AState Nat) (t : FxVerif.Model.C01.State), Corr s t → Accepted key le s vs →
      Corr (vs.foldl (fun s v => (vote key le s v.1 v.2 false).1) s)
           (vs.foldl (fun t v => FxVerif.Model.C01.attest t v.1 v.2.nonce (key v.2) (kindOf v.2)) t)
  | [], _, _, hc, _ => hc
  | (o, c) :: r, s, t, hc, ha => by
    obtain ⟨hl, hcont, hkeep, hr⟩ := ha
    simp only [List.foldl_cons]
    exact votes_refine_C01 key le r _ _ (vote_refines_C01 key le hc o c hl hcont hkeep).2 hr

open FxVerif.Proofs.C03Refine in
/-- the empty stores correspond -/
theorem corr_init : Corr ({} : AState Nat) (FxVerif.Model.C01.init {}) :=
  { atts := fun _ _ => rfl, lastObserved := rfl, lastNonce := fun _ => rfl, powers := fun _ => rfl, total := rfl }

open FxVerif.Proofs.C03Refine in
/-- the verdict of the vote loop of `TryAttestation` is the same in both models, for every vote list -/
theorem tally_agrees_with_C01 {s : AState Nat} {t : FxVerif.Model.C01.State} (hc : Corr s t) (votes : List Nat) :
    crosses s votes = FxVerif.Model.C01.tally t.oracles (FxVerif.Model.C01.required t.lastTotalPower) votes 0 :=
  crosses_eq_tally hc votes 0

/-- non-vacuity: from the empty stores two oracles voting for conflicting bridge calls of event nonce 1 are accepted in
turn (the second lands in its own attestation) … -/
example : Accepted (fun c => c.path.length) (fun _ _ => true) {} [(0, .bc wCall), (1, .bc wCall')] :=
  ⟨by decide +kernel, by decide +kernel, by decide, by decide +kernel, by decide +kernel, by decide, trivial⟩
/-- … while a vote that skips ahead is not (`Accepted` is a real restriction) -/
example : ¬Accepted (fun c => c.path.length) (fun _ _ => true) {} [(0, .bc { wCall with EventNonce := 5 })] :=
  fun h => absurd h.2.1 (by decide +kernel)

/-! ## the store keys (round 3): `GetAttestationKey` / `GetPendingExecuteClaimKey` byte layouts, regenerated from key.go

The attestation model files votes under the PAIR (event nonce, claim hash); the code files them under the byte string
`GetAttestationKey(nonce, hash)`.  The two are the same thing: the regenerated layout is injective in both arguments
(fixed-width big-endian nonce between a constant prefix and the hash), so votes share a stored attestation iff nonce and
hash agree — `sameKey` of the model. -/

theorem attestationKey_injective (n₁ n₂ : Nat) (h₁ h₂ : List Nat) (b₁ : n₁ < 2^64) (b₂ : n₂ < 2^64)
    (h : keyBytes n₁ h₁ attestationKeyParts = keyBytes n₂ h₂ attestationKeyParts) : n₁ = n₂ ∧ h₁ = h₂ := by
  simp only [attestationKeyParts, keyBytes, List.append_nil, List.cons_append, List.nil_append, List.cons.injEq, true_and] at h
  obtain ⟨e₁, e₂⟩ := append_inj_of_length (by simp [be64_length]) h
  exact ⟨be64_inj b₁ b₂ e₁, e₂⟩

/-- the pending-execute-claim store is keyed by the event nonce alone, injectively -/
theorem pendingClaimKey_injective (n₁ n₂ : Nat) (b₁ : n₁ < 2^64) (b₂ : n₂ < 2^64)
    (h : keyBytes n₁ [] pendingClaimKeyParts = keyBytes n₂ [] pendingClaimKeyParts) : n₁ = n₂ := by
  simp only [pendingClaimKeyParts, keyBytes, List.append_nil, List.cons_append, List.nil_append, List.cons.injEq, true_and] at h
  exact be64_inj b₁ b₂ h

/-- … so the model's keying of the attestation table by (nonce, hash) is the code's keying by key bytes -/
theorem sameKey_iff_keyBytes (n : Nat) (h : List Nat) (a : Att (List Nat)) (b₁ : n < 2^64) (b₂ : a.nonce < 2^64) :
    sameKey n h a = true ↔ keyBytes a.nonce a.hash attestationKeyParts = keyBytes n h attestationKeyParts := by
  constructor
  · intro hs
    simp only [sameKey, Bool.and_eq_true, beq_iff_eq] at hs
    rw [hs.1, hs.2]
  · intro hk
    obtain ⟨e₁, e₂⟩ := attestationKey_injective _ _ _ _ b₂ b₁ hk
    simp [sameKey, e₁, e₂]

example : keyBytes 258 [170, 187] attestationKeyParts = [23, 0, 0, 0, 0, 0, 0, 1, 2, 170, 187] := by decide
example : keyBytes 258 [] pendingClaimKeyParts = [84, 0, 0, 0, 0, 0, 0, 1, 2] := by decide
/-- the bound matters: `uint64` wraps -/
example : keyBytes (2^64) [] pendingClaimKeyParts = keyBytes 0 [] pendingClaimKeyParts := by decide

/-! ## non-vacuity: the hypotheses are satisfiable, and the generated paths separate the recorded witnesses -/

example : wCall.valid .eth = true ∧ wResult.valid .eth = true ∧ wToken.valid .eth = true := by decide
example : wCall.path ≠ ({ wCall with Memo := memoSendCallTo } : MsgBridgeCallClaim).path := by decide +kernel
example : wCall.path ≠ ({ wCall with TxOrigin := ethB } : MsgBridgeCallClaim).path := by decide +kernel
example : wResult.path ≠ ({ wResult with TxOrigin := ethB } : MsgBridgeCallResultClaim).path := by decide +kernel
example : wToken.path ≠ ({ wToken with Name := "A".toList, Symbol := "FX/FX".toList } : MsgBridgeTokenClaim).path := by decide +kernel
example : ({ EventNonce := 7, BlockHeight := 9, TokenContract := ethA, Amount := some 5, Sender := ethB, Receiver := bech,
             TargetIbc := "ab".toList, BridgerAddress := bech, ChainName := [] } : MsgSendToFxClaim).valid .eth = true := by decide +kernel
example : ({ EventNonce := 7, BlockHeight := 9, OracleSetNonce := 0, Members := [⟨5, ethA⟩, ⟨6, ethB⟩], BridgerAddress := bech,
             ChainName := [] } : MsgOracleSetUpdatedClaim).valid .eth = true := by decide +kernel
example : ({ EventNonce := 7, BlockHeight := 9, BatchNonce := 3, TokenContract := ethA, BridgerAddress := bech,
             ChainName := [] } : MsgSendToExternalClaim).valid .eth = true := by decide

/-- with the generated paths the same votes land in two attestations, nothing is observed after two votes, and the third
oracle's vote executes the claim that two oracles voted for -/
example : (run (fun c => c.path) (fun _ _ => true) {} legacyOps).executed = [] := by decide +kernel
example : ((run (fun c => c.path) (fun _ _ => true) {} (legacyOps ++ [.vote 2 (.bc wCall) false])).executed.map (·.tallied.map (·.1))) = [[0, 2]] := by
  decide +kernel
/-- … is stored for `ExecuteClaim`, which then runs exactly that claim -/
example : (run (fun c => c.path) (fun _ _ => true) {} (legacyOps ++ [.vote 2 (.bc wCall) false])).pending.map (·.1) = [1] := by decide +kernel
example : (run (fun c => c.path) (fun _ _ => true) {} (legacyOps ++ [.vote 2 (.bc wCall) false, .execute 1 false])).ran = [.bc wCall] := by
  decide +kernel

/-- the recorded height after the three votes of `legacyOps` + oracle 2 is the voted one -/
example : (run (fun c => c.path) (fun _ _ => true) {} (legacyOps ++ [.vote 2 (.bc wCall) false])).lastHeight = 1
    ∧ (run (fun c => c.path) (fun _ _ => true) {} (legacyOps ++ [.vote 2 (.bc { wCall with BlockHeight := 7 }) false])).lastHeight = 0 := by
  decide +kernel

/-- non-vacuity: after `legacyOps` there are two attestations (the two conflicting bridge calls), each under its own key -/
example : ((run (fun c => c.path) (fun _ _ => true) {} legacyOps).atts.map fun a => a.claim.path == a.hash) = [true, true] := by
  decide +kernel

/-! ## address texts and accounts (round 5) -/

section Addresses
open FxVerif.Model.C03.Addr


/-- two accepted texts of the tron account 0102…14: version byte 0x41 (the real one) and 0x42; both have a valid
base58check checksum (executed: `tronValid`, and compared with the real `ValidateTronAddress` by the harness) -/
def tronA : Str := "TA4Y62o6YC2Zsck9rZVGTvqW1AQ7X9zTnj".toList
def tronA' : Str := "TZQ9596PFNVSh3tEsypax47Hdff4DKLkmj".toList

/-- tron class: SEVERAL well-formed texts name one account — the conversion drops the version byte, the validator does
not check it -/
theorem tron_class_admits_several_texts :
    ∃ s₁ s₂ : Str, s₁ ≠ s₂ ∧ isExtAddr .tron s₁ = true ∧ isExtAddr .tron s₂ = true
      ∧ extHex .tron s₁ = extHex .tron s₂ ∧ tronAcc s₁ = tronAcc s₂ ∧ textsPerAccount .tron = .several :=
  ⟨tronA, tronA', by decide, by decide, by decide, by decide, by decide, rfl⟩

/-- for EVERY text: whatever the version byte of a 21-byte payload, both conversions return the 20 bytes after it -/
theorem tron_version_byte_dropped (s : Str) (v : Nat) (acc chk : List Nat) (hs : splitCheck s = some (v :: acc, chk))
    (hl : acc.length = 20) : extHex .tron s = acc ∧ tronAcc s = acc :=
  FxVerif.Proofs.C03Addr.tronHex_of_payload hs hl

example : splitCheck tronA = some (0x41 :: (List.range 20).map (· + 1), [214, 196, 8, 44]) := by decide
example : splitCheck tronA' = some (0x42 :: (List.range 20).map (· + 1), [172, 201, 206, 134]) := by decide

/-- eth class: for ALL pairs of well-formed texts, one account ⇒ the texts agree up to the letter case of their hex
digits (which the EIP-55 checksum — Keccak, not modelled — then fixes): one accepted text per account -/
theorem eth_class_one_text_per_account (s₁ s₂ : Str) (h₁ : isExtAddr .eth s₁ = true) (h₂ : isExtAddr .eth s₂ = true)
    (h : extHex .eth s₁ = extHex .eth s₂) : s₁.map lowerC = s₂.map lowerC ∧ textsPerAccount .eth = .one :=
  ⟨FxVerif.Proofs.C03Addr.ethHex_injective_up_to_case h₁ h₂ h, rfl⟩

example : isExtAddr .eth ethA = true ∧ extHex .eth ethA = List.replicate 19 0 ++ [1] := by decide
example : extHex .eth "0x00000000000000000000000000000000000000aB".toList
    = extHex .eth "0x00000000000000000000000000000000000000Ab".toList := by decide

/-- a bridge call on tron with one token -/
def wTronCall : MsgBridgeCallClaim :=
  { ChainName := "tron".toList, BridgerAddress := bech, EventNonce := 1, BlockHeight := 1, Sender := tronA, Refund := tronA,
    TokenContracts := [tronA], Amounts := [some 5], To := tronA, Data := [], Value := some 0, Memo := [], TxOrigin := tronA }

/-- the handlers look a bridge token up by the TEXT of its contract (regenerated `handlerView`: `TokenContracts` is read as
it is, not through a typed accessor) … -/
theorem bridgeCall_tokens_read_as_text (c : MsgBridgeCallClaim) :
    (⟨"BridgeCallHandler", "TokenContracts", [.strs c.TokenContracts]⟩ : HEntry) ∈ c.handlerView := by
  simp [MsgBridgeCallClaim.handlerView]

/-- … so a claim hash over the typed accessors would tally together two events the handlers tell apart: on tron there are
well-formed bridge calls with the same accounts everywhere (and every other field equal) whose regenerated handler views
differ — while the generated `path` (over the texts) separates them -/
theorem typed_accessor_hash_would_collide_on_tron :
    ∃ c₁ c₂ : MsgBridgeCallClaim, (AnyClaim.bc c₁).wellFormed = true ∧ (AnyClaim.bc c₂).wellFormed = true
      ∧ typedAddrs .tron c₁ = typedAddrs .tron c₂
      ∧ { c₁ with TokenContracts := [] } = { c₂ with TokenContracts := [] }
      ∧ c₁.handlerView ≠ c₂.handlerView ∧ c₁.path ≠ c₂.path :=
  ⟨wTronCall, { wTronCall with TokenContracts := [tronA'] }, by decide, by decide, by decide, by decide, by decide, by decide⟩

/-- same path ⇒ every handler receives the same VALUE through every entry of the view (typed accessors evaluated) -/
theorem handler_values_are_voted (c₁ c₂ : AnyClaim) (w₁ : c₁.wellFormed = true) (w₂ : c₂.wellFormed = true)
    (h : c₁.path = c₂.path) : c₁.handlerView.map entryValue = c₂.handlerView.map entryValue := by
  rw [handler_view_is_voted c₁ c₂ w₁ w₂ h]

/-- the converse fails exactly where `textsPerAccount = .several`: two texts of one SENDER account are one event as far as
the handlers go (equal values), yet they are two paths — filed in two attestations, never tallied together (harmless: the
hash is finer than it need be, never coarser) -/
example : (wTronCall.handlerView.map entryValue = ({ wTronCall with Sender := tronA' } : MsgBridgeCallClaim).handlerView.map entryValue)
    ∧ wTronCall.path ≠ ({ wTronCall with Sender := tronA' } : MsgBridgeCallClaim).path := by decide

end Addresses

end FxVerif.Props.C03
