import FxVerif.Proofs.C03

/-!
# C03 — the executed event is field-for-field the event the quorum voted for

`Attest` files a vote under the key `nonce ‖ ClaimHash(claim)` and `TryAttestation(ctx, att, claim)` executes the claim
object of the *threshold-crossing voter*.  So the effect applied is the one the quorum voted for iff two claims that
share a `ClaimHash` agree on every field that influences execution.  `ClaimHash = SHA-256(path)`; the theorems below
are about the pre-image `path`, which is **the definition generated from the Go source on every run**
(`Gen/C03.lean`: format string and argument list of each `fmt.Sprintf`).  Collision resistance of SHA-256 is the one
named assumption lifting them from paths to hashes (`claimHash_injective_of_collision_free`).

For every claim type, for *all* field values (unbounded numbers, strings, lists):

    valid k₁ c₁ → valid k₂ c₂ → path c₁ = path c₂ → effect c₁ = effect c₂

* `valid k` = the character classes `ValidateBasic` enforces (a superset of them: checksums are not modelled) for a
  chain whose external addresses are of class `k` (0x-hex 42 chars / base58 34 chars).  The two claims may have been
  validated for chains of *different* address classes (`k₁ ≠ k₂`): `MsgClaim` routes by the wrapper's `chain_name` and
  validates the inner claim by the claim's own `ChainName`, and nothing compares the two, so a claim checked by Tron's
  rules can be filed in an EVM chain's attestation store.  The theorems hold regardless.
* `effect` = every field of the event except `BridgerAddress` (who relays — differs per voter by construction) and
  `ChainName` (routing).  Which fields the handlers read (x/crosschain/keeper):
  - `SendToFxExecuted`: TokenContract, Amount, Receiver, TargetIbc, EventNonce (Sender only hashed/telemetry);
  - `BridgeCallHandler`: TxOrigin (`CreateBridgeAccount`), Sender, To, Refund, TokenContracts, Amounts, Data, Value,
    EventNonce and **Memo** (`IsMemoSendCallTo` switches receiver, EVM caller and calldata; also packed into the callback);
  - `BridgeCallResultHandler`: **TxOrigin** (`CreateBridgeAccount`), Nonce, Success, Cause (event attribute);
  - `OutgoingTxBatchExecuted`: TokenContract, BatchNonce;
  - `AddBridgeTokenExecuted`: TokenContract, **Symbol** (`== "FX"` registers the contract as the native-coin bridge token),
    Decimals; ChannelIbc is only logged; **Name is never read** — it is therefore *not demanded* (`effect` blanks it);
  - `UpdateOracleSetExecuted`: OracleSetNonce, Members;
  - `Attest`/`TryAttestation` (all types): EventNonce, BlockHeight (`SetLastObservedBlockHeight`, per-oracle height).

At commit 6774338 three of the six statements are false (`legacy_*_not_injective`, witnesses replayed on the real
`ClaimHash` by the harness); `fixes/C03-claimhash.patch` repairs the three format strings.
-/
namespace FxVerif.Props.C03
open FxVerif.Model.C03 FxVerif.Gen.C03 FxVerif.Proofs.C03

/-! ## every struct field of every claim message is hashed, unless it is deliberately not demanded -/

theorem claimTypes_covered :
    claimTypes = ["MsgBridgeCallClaim", "MsgBridgeCallResultClaim", "MsgBridgeTokenClaim",
      "MsgOracleSetUpdatedClaim", "MsgSendToExternalClaim", "MsgSendToFxClaim"] := by decide

theorem structFields_hashed :
    (∀ f ∈ MsgSendToFxClaim.structFields, f ∈ MsgSendToFxClaim.hashedFields ∨ f ∈ notDemanded)
    ∧ (∀ f ∈ MsgBridgeCallClaim.structFields, f ∈ MsgBridgeCallClaim.hashedFields ∨ f ∈ notDemanded)
    ∧ (∀ f ∈ MsgBridgeCallResultClaim.structFields, f ∈ MsgBridgeCallResultClaim.hashedFields ∨ f ∈ notDemanded)
    ∧ (∀ f ∈ MsgSendToExternalClaim.structFields, f ∈ MsgSendToExternalClaim.hashedFields ∨ f ∈ notDemanded)
    ∧ (∀ f ∈ MsgBridgeTokenClaim.structFields, f ∈ MsgBridgeTokenClaim.hashedFields ∨ f ∈ notDemandedBridgeToken)
    ∧ (∀ f ∈ MsgOracleSetUpdatedClaim.structFields, f ∈ MsgOracleSetUpdatedClaim.hashedFields ∨ f ∈ notDemanded) := by
  decide

/-- every `ClaimHash` returns `tmhash.Sum([]byte(path))` -/
theorem hash_is_sha256_of_path :
    [MsgSendToFxClaim.hashExpr, MsgBridgeCallClaim.hashExpr, MsgBridgeCallResultClaim.hashExpr,
      MsgSendToExternalClaim.hashExpr, MsgBridgeTokenClaim.hashExpr, MsgOracleSetUpdatedClaim.hashExpr]
    = List.replicate 6 expectedHashExpr := by decide

/-! ## the six injectivity theorems -/

/-- `MsgSendToFxClaim`: `%d/%d%s/%s/%s/%s/%s` -/
theorem sendToFx_path_injective (k₁ k₂ : AddrKind) (c₁ c₂ : MsgSendToFxClaim)
    (v₁ : c₁.valid k₁ = true) (v₂ : c₂.valid k₂ = true) (h : c₁.path = c₂.path) : c₁.effect = c₂.effect := by
  simp only [MsgSendToFxClaim.valid, MsgSendToFxClaim.validGen, Bool.and_eq_true] at v₁ v₂
  obtain ⟨⟨⟨⟨⟨⟨⟨_, s₁⟩, t₁⟩, r₁⟩, a₁⟩, _⟩, _⟩, _⟩ := v₁
  obtain ⟨⟨⟨⟨⟨⟨⟨_, s₂⟩, t₂⟩, r₂⟩, a₂⟩, _⟩, _⟩, _⟩ := v₂
  simp only [MsgSendToFxClaim.path, fmt_d_uint64, fmt_s_string, fmt_s_IntString] at h
  obtain ⟨e₁, h⟩ := split_sep (noSlash_nat _) (noSlash_nat _) h
  rw [← List.append_assoc, ← List.append_assoc (fmtNat c₂.EventNonce)] at h
  obtain ⟨e₂, h⟩ := split_sep ((noSlash_nat _).append (noSlash_addr t₁)) ((noSlash_nat _).append (noSlash_addr t₂)) h
  obtain ⟨e₂, e₃⟩ := nat_addr_split t₁ t₂ e₂
  obtain ⟨e₄, h⟩ := split_sep (noSlash_addr s₁) (noSlash_addr s₂) h
  obtain ⟨e₅, h⟩ := split_sep (noSlash_int _) (noSlash_int _) h
  obtain ⟨e₆, e₇⟩ := split_sep (noSlash_bech r₁) (noSlash_bech r₂) h
  have e₁ := fmtNat_inj e₁
  have e₅ := fmtInt_inj e₅
  cases c₁; cases c₂
  simp_all [MsgSendToFxClaim.effect]

/-- `MsgBridgeCallClaim`: `%d/%d/%s/%s/%s/%s/%v/%v/%s/%s/%s` (with TxOrigin and Memo) -/
theorem bridgeCall_path_injective (k₁ k₂ : AddrKind) (c₁ c₂ : MsgBridgeCallClaim)
    (v₁ : c₁.valid k₁ = true) (v₂ : c₂.valid k₂ = true) (h : c₁.path = c₂.path) : c₁.effect = c₂.effect := by
  simp only [MsgBridgeCallClaim.valid, MsgBridgeCallClaim.validGen, Bool.and_eq_true] at v₁ v₂
  obtain ⟨⟨⟨⟨⟨⟨⟨⟨⟨⟨⟨_, tc₁⟩, _⟩, s₁⟩, to₁⟩, rf₁⟩, _⟩, d₁⟩, _⟩, _⟩, o₁⟩, _⟩ := v₁
  obtain ⟨⟨⟨⟨⟨⟨⟨⟨⟨⟨⟨_, tc₂⟩, _⟩, s₂⟩, to₂⟩, rf₂⟩, _⟩, d₂⟩, _⟩, _⟩, o₂⟩, _⟩ := v₂
  simp only [MsgBridgeCallClaim.path, fmt_d_uint64, fmt_s_string, fmt_v_string, fmt_s_IntString, fmt_s_sliceString,
    fmt_v_sliceInt] at h
  obtain ⟨e₁, h⟩ := split_sep (noSlash_nat _) (noSlash_nat _) h
  obtain ⟨e₂, h⟩ := split_sep (noSlash_nat _) (noSlash_nat _) h
  obtain ⟨e₃, h⟩ := split_sep (noSlash_addr s₁) (noSlash_addr s₂) h
  obtain ⟨e₄, h⟩ := split_sep (noSlash_addr rf₁) (noSlash_addr rf₂) h
  obtain ⟨e₅, h⟩ := split_sep (noSlash_addr to₁) (noSlash_addr to₂) h
  obtain ⟨e₆, h⟩ := split_sep (noSlash_addrs tc₁) (noSlash_addrs tc₂) h
  obtain ⟨e₇, h⟩ := split_sep (noSlash_ints _) (noSlash_ints _) h
  obtain ⟨e₈, h⟩ := split_sep (noSlash_hex d₁) (noSlash_hex d₂) h
  obtain ⟨e₉, h⟩ := split_sep (noSlash_int _) (noSlash_int _) h
  obtain ⟨e₁₀, e₁₁⟩ := split_sep (noSlash_addr o₁) (noSlash_addr o₂) h
  have e₁ := fmtNat_inj e₁
  have e₂ := fmtNat_inj e₂
  have e₆ := fmtSlice_inj (addrs_elem tc₁) (addrs_elem tc₂) e₆
  have e₇ := map_fmtInt_inj (fmtSlice_inj (ints_elem _) (ints_elem _) e₇)
  have e₉ := fmtInt_inj e₉
  cases c₁; cases c₂
  simp_all [MsgBridgeCallClaim.effect]

/-- `MsgBridgeCallResultClaim`: `%d/%d/%d/%t/%s/%s` (with TxOrigin) -/
theorem bridgeCallResult_path_injective (k₁ k₂ : AddrKind) (c₁ c₂ : MsgBridgeCallResultClaim)
    (v₁ : c₁.valid k₁ = true) (v₂ : c₂.valid k₂ = true) (h : c₁.path = c₂.path) : c₁.effect = c₂.effect := by
  simp only [MsgBridgeCallResultClaim.valid, MsgBridgeCallResultClaim.validGen, Bool.and_eq_true] at v₁ v₂
  obtain ⟨⟨⟨⟨⟨_, _⟩, _⟩, _⟩, _⟩, ca₁⟩ := v₁
  obtain ⟨⟨⟨⟨⟨_, _⟩, _⟩, _⟩, _⟩, ca₂⟩ := v₂
  simp only [MsgBridgeCallResultClaim.path, fmt_d_uint64, fmt_s_string] at h
  obtain ⟨e₁, h⟩ := split_sep (noSlash_nat _) (noSlash_nat _) h
  obtain ⟨e₂, h⟩ := split_sep (noSlash_nat _) (noSlash_nat _) h
  obtain ⟨e₃, h⟩ := split_sep (noSlash_nat _) (noSlash_nat _) h
  obtain ⟨e₄, h⟩ := split_sep (noSlash_bool _) (noSlash_bool _) h
  obtain ⟨e₅, e₆⟩ := split_sep (noSlash_hex ca₁) (noSlash_hex ca₂) h
  have e₁ := fmtNat_inj e₁
  have e₂ := fmtNat_inj e₂
  have e₃ := fmtNat_inj e₃
  have e₄ := fmtBool_inj e₄
  cases c₁; cases c₂
  simp_all [MsgBridgeCallResultClaim.effect]

/-- `MsgSendToExternalClaim`: `%d/%d/%s/%d/` -/
theorem sendToExternal_path_injective (k₁ k₂ : AddrKind) (c₁ c₂ : MsgSendToExternalClaim)
    (v₁ : c₁.valid k₁ = true) (v₂ : c₂.valid k₂ = true) (h : c₁.path = c₂.path) : c₁.effect = c₂.effect := by
  simp only [MsgSendToExternalClaim.valid, MsgSendToExternalClaim.validGen, Bool.and_eq_true] at v₁ v₂
  obtain ⟨⟨⟨⟨_, t₁⟩, _⟩, _⟩, _⟩ := v₁
  obtain ⟨⟨⟨⟨_, t₂⟩, _⟩, _⟩, _⟩ := v₂
  simp only [MsgSendToExternalClaim.path, fmt_d_uint64, fmt_s_string] at h
  obtain ⟨e₁, h⟩ := split_sep (noSlash_nat _) (noSlash_nat _) h
  obtain ⟨e₂, h⟩ := split_sep (noSlash_nat _) (noSlash_nat _) h
  obtain ⟨e₃, h⟩ := split_sep (noSlash_addr t₁) (noSlash_addr t₂) h
  have e₄ := split_end (noSlash_nat _) (noSlash_nat _) h
  have e₁ := fmtNat_inj e₁
  have e₂ := fmtNat_inj e₂
  have e₄ := fmtNat_inj e₄
  cases c₁; cases c₂
  simp_all [MsgSendToExternalClaim.effect]

/-- `MsgBridgeTokenClaim`: `%d/%d%s/%x/%x/%d/%s/` (free-form Name and Symbol hex-encoded) -/
theorem bridgeToken_path_injective (k₁ k₂ : AddrKind) (c₁ c₂ : MsgBridgeTokenClaim)
    (v₁ : c₁.valid k₁ = true) (v₂ : c₂.valid k₂ = true) (h : c₁.path = c₂.path) : c₁.effect = c₂.effect := by
  simp only [MsgBridgeTokenClaim.valid, MsgBridgeTokenClaim.validGen, Bool.and_eq_true] at v₁ v₂
  obtain ⟨⟨⟨⟨⟨⟨⟨⟨_, t₁⟩, ch₁⟩, _⟩, _⟩, _⟩, _⟩, n₁⟩, sy₁⟩ := v₁
  obtain ⟨⟨⟨⟨⟨⟨⟨⟨_, t₂⟩, ch₂⟩, _⟩, _⟩, _⟩, _⟩, n₂⟩, sy₂⟩ := v₂
  simp only [MsgBridgeTokenClaim.path, fmt_d_uint64, fmt_s_string, fmt_x_string] at h
  obtain ⟨e₁, h⟩ := split_sep (noSlash_nat _) (noSlash_nat _) h
  rw [← List.append_assoc, ← List.append_assoc (fmtNat c₂.EventNonce)] at h
  obtain ⟨e₂, h⟩ := split_sep ((noSlash_nat _).append (noSlash_addr t₁)) ((noSlash_nat _).append (noSlash_addr t₂)) h
  obtain ⟨e₂, e₃⟩ := nat_addr_split t₁ t₂ e₂
  obtain ⟨e₄, h⟩ := split_sep (noSlash_hexStr n₁) (noSlash_hexStr n₂) h
  obtain ⟨e₅, h⟩ := split_sep (noSlash_hexStr sy₁) (noSlash_hexStr sy₂) h
  obtain ⟨e₆, h⟩ := split_sep (noSlash_nat _) (noSlash_nat _) h
  have e₇ := split_end (noSlash_hex ch₁) (noSlash_hex ch₂) h
  have e₁ := fmtNat_inj e₁
  have e₅ := fmtHexStr_inj sy₁ sy₂ e₅
  have e₆ := fmtNat_inj e₆
  cases c₁; cases c₂
  simp_all [MsgBridgeTokenClaim.effect]

/-- `MsgOracleSetUpdatedClaim`: `%d/%d/%d/%v/` -/
theorem oracleSetUpdated_path_injective (k₁ k₂ : AddrKind) (c₁ c₂ : MsgOracleSetUpdatedClaim)
    (v₁ : c₁.valid k₁ = true) (v₂ : c₂.valid k₂ = true) (h : c₁.path = c₂.path) : c₁.effect = c₂.effect := by
  simp only [MsgOracleSetUpdatedClaim.valid, MsgOracleSetUpdatedClaim.validGen, Bool.and_eq_true] at v₁ v₂
  obtain ⟨⟨⟨⟨_, _⟩, m₁⟩, _⟩, _⟩ := v₁
  obtain ⟨⟨⟨⟨_, _⟩, m₂⟩, _⟩, _⟩ := v₂
  have m₁ := members_addr m₁
  have m₂ := members_addr m₂
  simp only [MsgOracleSetUpdatedClaim.path, fmt_d_uint64, fmt_v_sliceBridgeValidator] at h
  obtain ⟨e₁, h⟩ := split_sep (noSlash_nat _) (noSlash_nat _) h
  obtain ⟨e₂, h⟩ := split_sep (noSlash_nat _) (noSlash_nat _) h
  obtain ⟨e₃, h⟩ := split_sep (noSlash_nat _) (noSlash_nat _) h
  have e₄ := fmtMembers_inj m₁ m₂ (split_end (members_noslash m₁) (members_noslash m₂) h)
  have e₁ := fmtNat_inj e₁
  have e₂ := fmtNat_inj e₂
  have e₃ := fmtNat_inj e₃
  cases c₁; cases c₂
  simp_all [MsgOracleSetUpdatedClaim.effect]

/-! ## from paths to hashes and to the attestation key

`GetAttestationKey(nonce, hash) = prefix ‖ nonce ‖ hash`: two claims are tallied in the same attestation iff their
nonces and hashes agree.  With the named assumption that the hash has no collision on the two paths, equal hashes mean
equal paths, and the executed claim (whichever voter crosses the threshold) carries the voted effect. -/

/-- `executed_is_voted`, stated for an arbitrary hash function `H` (SHA-256 in the code): if `H` does not collide on
the paths of the two claims, a vote `c₁` filed in the same attestation as the executed claim `c₂` has the same effect -/
theorem executed_is_voted_sendToFx (H : Str → List Nat) (k₁ k₂ : AddrKind) (voted executed : MsgSendToFxClaim)
    (v₁ : voted.valid k₁ = true) (v₂ : executed.valid k₂ = true)
    (collisionFree : H voted.path = H executed.path → voted.path = executed.path)
    (sameAttestation : H voted.path = H executed.path) : voted.effect = executed.effect :=
  sendToFx_path_injective k₁ k₂ _ _ v₁ v₂ (collisionFree sameAttestation)

theorem executed_is_voted_bridgeCall (H : Str → List Nat) (k₁ k₂ : AddrKind) (voted executed : MsgBridgeCallClaim)
    (v₁ : voted.valid k₁ = true) (v₂ : executed.valid k₂ = true)
    (collisionFree : H voted.path = H executed.path → voted.path = executed.path)
    (sameAttestation : H voted.path = H executed.path) : voted.effect = executed.effect :=
  bridgeCall_path_injective k₁ k₂ _ _ v₁ v₂ (collisionFree sameAttestation)

theorem executed_is_voted_bridgeCallResult (H : Str → List Nat) (k₁ k₂ : AddrKind) (voted executed : MsgBridgeCallResultClaim)
    (v₁ : voted.valid k₁ = true) (v₂ : executed.valid k₂ = true)
    (collisionFree : H voted.path = H executed.path → voted.path = executed.path)
    (sameAttestation : H voted.path = H executed.path) : voted.effect = executed.effect :=
  bridgeCallResult_path_injective k₁ k₂ _ _ v₁ v₂ (collisionFree sameAttestation)

theorem executed_is_voted_sendToExternal (H : Str → List Nat) (k₁ k₂ : AddrKind) (voted executed : MsgSendToExternalClaim)
    (v₁ : voted.valid k₁ = true) (v₂ : executed.valid k₂ = true)
    (collisionFree : H voted.path = H executed.path → voted.path = executed.path)
    (sameAttestation : H voted.path = H executed.path) : voted.effect = executed.effect :=
  sendToExternal_path_injective k₁ k₂ _ _ v₁ v₂ (collisionFree sameAttestation)

theorem executed_is_voted_bridgeToken (H : Str → List Nat) (k₁ k₂ : AddrKind) (voted executed : MsgBridgeTokenClaim)
    (v₁ : voted.valid k₁ = true) (v₂ : executed.valid k₂ = true)
    (collisionFree : H voted.path = H executed.path → voted.path = executed.path)
    (sameAttestation : H voted.path = H executed.path) : voted.effect = executed.effect :=
  bridgeToken_path_injective k₁ k₂ _ _ v₁ v₂ (collisionFree sameAttestation)

theorem executed_is_voted_oracleSetUpdated (H : Str → List Nat) (k₁ k₂ : AddrKind) (voted executed : MsgOracleSetUpdatedClaim)
    (v₁ : voted.valid k₁ = true) (v₂ : executed.valid k₂ = true)
    (collisionFree : H voted.path = H executed.path → voted.path = executed.path)
    (sameAttestation : H voted.path = H executed.path) : voted.effect = executed.effect :=
  oracleSetUpdated_path_injective k₁ k₂ _ _ v₁ v₂ (collisionFree sameAttestation)

/-! ## the three formats of commit 6774338 are not injective (recorded counterexamples, replayed by the harness) -/

def ethA : Str := "0x0000000000000000000000000000000000000001".toList
def ethB : Str := "0x0000000000000000000000000000000000000002".toList
def bech : Str := "fx1qqqqqqqqqqqqqqqqqqqqqqqqqqqqqqqqhlk2g0".toList
def memoSendCallTo : Str := "0000000000000000000000000000000000000000000000000000000000010000".toList

def wCall : MsgBridgeCallClaim :=
  { ChainName := "eth".toList, BridgerAddress := bech, EventNonce := 1, BlockHeight := 1, Sender := ethA, Refund := ethA,
    TokenContracts := [], Amounts := [], To := ethA, Data := [], Value := some 0, Memo := [], TxOrigin := ethA }

/-- two valid bridge-call claims that differ in `Memo` and `TxOrigin` had the same path -/
theorem legacy_bridgeCall_not_injective :
    ∃ c₁ c₂ : MsgBridgeCallClaim, c₁.valid .eth = true ∧ c₂.valid .eth = true
      ∧ legacyBridgeCallPath c₁ = legacyBridgeCallPath c₂ ∧ c₁.effect ≠ c₂.effect :=
  ⟨wCall, { wCall with Memo := memoSendCallTo, TxOrigin := ethB }, by decide, by decide, by decide, by decide⟩

def wResult : MsgBridgeCallResultClaim :=
  { ChainName := "eth".toList, BridgerAddress := bech, EventNonce := 1, BlockHeight := 1, Nonce := 1, TxOrigin := ethA,
    Success := true, Cause := [] }

theorem legacy_bridgeCallResult_not_injective :
    ∃ c₁ c₂ : MsgBridgeCallResultClaim, c₁.valid .eth = true ∧ c₂.valid .eth = true
      ∧ legacyBridgeCallResultPath c₁ = legacyBridgeCallResultPath c₂ ∧ c₁.effect ≠ c₂.effect :=
  ⟨wResult, { wResult with TxOrigin := ethB }, by decide, by decide, by decide, by decide⟩

def wToken : MsgBridgeTokenClaim :=
  { EventNonce := 1, BlockHeight := 1, TokenContract := ethA, Name := "A/FX".toList, Symbol := "FX".toList, Decimals := 18,
    BridgerAddress := bech, ChannelIbc := [], ChainName := "eth".toList }

/-- `Name "A/FX", Symbol "FX"` (registers the contract as the bridge token of the native coin) and
`Name "A", Symbol "FX/FX"` (an ordinary bridge token) had the same path -/
theorem legacy_bridgeToken_not_injective :
    ∃ c₁ c₂ : MsgBridgeTokenClaim, c₁.valid .eth = true ∧ c₂.valid .eth = true
      ∧ legacyBridgeTokenPath c₁ = legacyBridgeTokenPath c₂ ∧ c₁.effect ≠ c₂.effect :=
  ⟨wToken, { wToken with Name := "A".toList, Symbol := "FX/FX".toList }, by decide, by decide, by decide, by decide⟩

/-! ## non-vacuity: the hypotheses are satisfiable, and the generated paths separate the recorded witnesses -/

example : wCall.valid .eth = true ∧ wResult.valid .eth = true ∧ wToken.valid .eth = true := by decide
example : wCall.path ≠ ({ wCall with Memo := memoSendCallTo } : MsgBridgeCallClaim).path := by decide +kernel
example : wCall.path ≠ ({ wCall with TxOrigin := ethB } : MsgBridgeCallClaim).path := by decide +kernel
example : wResult.path ≠ ({ wResult with TxOrigin := ethB } : MsgBridgeCallResultClaim).path := by decide +kernel
example : wToken.path ≠ ({ wToken with Name := "A".toList, Symbol := "FX/FX".toList } : MsgBridgeTokenClaim).path := by decide +kernel
example : ({ EventNonce := 7, BlockHeight := 9, TokenContract := ethA, Amount := some 5, Sender := ethB, Receiver := bech,
             TargetIbc := "ab".toList, BridgerAddress := bech, ChainName := [] } : MsgSendToFxClaim).valid .eth = true := by decide +kernel
example : ({ EventNonce := 7, BlockHeight := 9, OracleSetNonce := 0, Members := [⟨5, ethA⟩, ⟨6, ethB⟩], BridgerAddress := bech,
             ChainName := [] } : MsgOracleSetUpdatedClaim).valid .eth = true := by decide +kernel
example : ({ EventNonce := 7, BlockHeight := 9, BatchNonce := 3, TokenContract := ethA, BridgerAddress := bech,
             ChainName := [] } : MsgSendToExternalClaim).valid .eth = true := by decide

end FxVerif.Props.C03
