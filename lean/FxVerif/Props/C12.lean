import FxVerif.Proofs.C12
import FxVerif.Proofs.C12Handler
/-!
# C12 — a confirmation is stored only with the oracle's signature over the exact object

Property theorems only.  `goLayouts`, `tronLayouts`, `solSites`, the sign prefixes and `handlerGuards` are regenerated from
`/repo` (Go AST, embedded ABI JSON, Solidity text) on every run; the layout theorems are decided over them and the
pre-image theorems are proved through them, so a swapped / dropped / re-typed `Pack` argument, a changed method tag, a
changed `abi.encode` argument list or a changed handler guard stops an obligation below from checking.

Hash and signature recovery are opaque: statements are about ABI pre-images (collision resistance of Keccak-256 is the
named assumption `CollisionResistant`) and about the handler with `recover` an arbitrary function.
-/
namespace FxVerif.Props.C12
open FxVerif.Gen.C12 FxVerif.Model.C12

/-! ## 1. the three layouts: Go = tron = Solidity (argument for argument: ABI type, parameter name, field, cast, tag) -/

theorem go_layout_eq_solidity_layout_oracleSet : layoutsAgree mainSol "oracleSet" = true := by decide
theorem go_layout_eq_solidity_layout_batch : layoutsAgree mainSol "batch" = true := by decide
theorem go_layout_eq_solidity_layout_bridgeCall : layoutsAgree mainSol "bridgeCall" = true := by decide

/-- every `abi.encode(...)` in every bridge contract variant (FxBridgeLogic, …ETH, …BSC) is one of the three digests and
agrees with the Go and tron layouts -/
theorem all_contract_variants_agree : allSitesAgree = true := by decide

/-- the tag words are the bytes32 encodings of the tag strings in the Go source -/
theorem method_tags_are_the_strings : (goLayouts ++ tronLayouts).all tagsConsistent = true := by decide

/-- the three method tags are pairwise different: an object of one kind never shares a digest pre-image with another kind -/
theorem method_tags_distinct :
    ((goLayouts.map goTag).eraseDups.length = 3 ∧ goLayouts.all (fun L => (goTag L).isSome)) := by decide

/-- the prefix the contract hashes in `verifySig` is the prefix `NewEthereumSignature`/`EthAddressFromSignature` use;
tron signs under a different prefix (an eth-style signature is never a tron signature over the same digest) -/
theorem sign_prefix_agrees :
    solSignPrefix.all (fun p => p.2 == goSignPrefix) = true ∧ solSignPrefix.length = solFiles.length ∧
    tronSignPrefix ≠ goSignPrefix := by decide

/-- the guards of `ValidateConfirmSign` and of the three handlers are the ones `confirmStep` models, in that order -/
theorem handler_guards_as_modelled : handlerGuards = [
    ("ValidateConfirmSign", ["if err != nil", "if !found", "if !found", "if oracle.ExternalAddress != signatureAddr",
      "if oracle.BridgerAddress != bridgerAddr", "if k.moduleName == trontypes.ModuleName",
      "err = trontypes.ValidateTronSignature(checkpoint, sigBytes, oracle.ExternalAddress)", "if err != nil",
      "err = types.ValidateEthereumSignature(checkpoint, sigBytes, oracle.ExternalAddress)", "if err != nil"]),
    ("BatchConfirmHandler", ["if batch == nil", "if k.moduleName == trontypes.ModuleName", "if err != nil", "if err != nil",
      "if err != nil", "if k.GetBatchConfirm(ctx, msg.TokenContract, msg.Nonce, oracleAddr) != nil",
      "k.SetBatchConfirm(ctx, oracleAddr, msg)"]),
    ("OracleSetConfirmHandler", ["if oracleSet == nil", "if k.moduleName == trontypes.ModuleName", "if err != nil",
      "if err != nil", "if err != nil", "if k.GetOracleSetConfirm(ctx, msg.Nonce, oracleAddr) != nil",
      "k.SetOracleSetConfirm(ctx, oracleAddr, msg)"]),
    ("BridgeCallConfirmHandler", ["if !found", "if k.moduleName == trontypes.ModuleName", "if err != nil", "if err != nil",
      "if err != nil", "if k.HasBridgeCallConfirm(ctx, msg.Nonce, oracleAddr)",
      "k.SetBridgeCallConfirm(ctx, oracleAddr, msg)"])] := by decide

/-! ## 2. the bytes fxcore hashes are the bytes the contract hashes -/

/-- for EVERY oracle set (any number of members) whose `uint64` fields fit an `int64`, and every gravity id: the Go
pre-image, the tron pre-image and the Solidity pre-image are the same byte string -/
theorem checkpoint_bytes_equal_oracleSet (o : OracleSet) (g : Nat) (h : o.Int64Safe) :
    goPreimage "oracleSet" o.toObj g = solPreimage "oracleSet" o.toObj g ∧
    tronPreimage "oracleSet" o.toObj g = solPreimage "oracleSet" o.toObj g ∧
    (solPreimage "oracleSet" o.toObj g).isSome := by
  rw [goPre_oracleSet, tronPre_oracleSet, solPre_oracleSet]
  have hp : (o.members.map (·.power)).map goU64 = o.members.map (·.power) :=
    map_goU64_of_lt _ (by intro x hx; simp only [List.mem_map] at hx; obtain ⟨m, hm, rfl⟩ := hx; exact h.2 m hm)
  simp [osVals, goU64_of_lt h.1, hp]

theorem checkpoint_bytes_equal_batch (b : Batch) (g : Nat) (h : b.Int64Safe) :
    goPreimage "batch" b.toObj g = solPreimage "batch" b.toObj g ∧
    tronPreimage "batch" b.toObj g = solPreimage "batch" b.toObj g ∧
    (solPreimage "batch" b.toObj g).isSome := by
  rw [goPre_batch, tronPre_batch, solPre_batch]
  simp [batchVals, goU64_of_lt h.1, goU64_of_lt h.2]

theorem checkpoint_bytes_equal_bridgeCall (c : BridgeCall) (g : Nat) (h : c.Int64Safe) :
    goPreimage "bridgeCall" c.toObj g = solPreimage "bridgeCall" c.toObj g ∧
    tronPreimage "bridgeCall" c.toObj g = solPreimage "bridgeCall" c.toObj g ∧
    (solPreimage "bridgeCall" c.toObj g).isSome := by
  rw [goPre_bridgeCall, tronPre_bridgeCall, solPre_bridgeCall]
  simp [bcVals, goU64_of_lt h.1, goU64_of_lt h.2.1, goU64_of_lt h.2.2]

/-- the `int64` hypothesis is needed: at nonce 2^63 the Go bytes are not the Solidity bytes -/
theorem go_sol_differ_above_int64 :
    goPreimage "oracleSet" (OracleSet.toObj ⟨2 ^ 63, []⟩) 0 ≠ solPreimage "oracleSet" (OracleSet.toObj ⟨2 ^ 63, []⟩) 0 := by
  rw [goPre_oracleSet, solPre_oracleSet]
  intro h
  have := congrArg (fun o => o.map (fun bs => (bs.drop 64).take 32)) h
  revert this
  decide

/-! ## 3. injectivity: equal pre-images ⇒ same kind, same gravity id, same object (every field, any lengths) -/

inductive AnyObj where
  | oset (o : OracleSet)
  | batch (b : Batch)
  | bcall (c : BridgeCall)
  deriving DecidableEq, Repr

def AnyObj.kind : AnyObj → String
  | .oset _ => "oracleSet" | .batch _ => "batch" | .bcall _ => "bridgeCall"

def AnyObj.toObj : AnyObj → Obj
  | .oset o => o.toObj | .batch b => b.toObj | .bcall c => c.toObj

def AnyObj.WF : AnyObj → Prop
  | .oset o => o.WF | .batch b => b.WF | .bcall c => c.WF

/-- what fxcore hashes and signs (eth-style chains); `tronPre` for tron; `solPre` is what the contract hashes -/
def goPre (a : AnyObj) (g : Nat) : Option (List Nat) := goPreimage a.kind a.toObj g
def tronPre (a : AnyObj) (g : Nat) : Option (List Nat) := tronPreimage a.kind a.toObj g
def solPre (a : AnyObj) (g : Nat) : Option (List Nat) := solPreimage a.kind a.toObj g

theorem abi_encode_injective_oracleSet (o1 o2 : OracleSet) (g1 g2 : Nat) (w1 : o1.WF) (w2 : o2.WF)
    (hg1 : g1 < 2 ^ 256) (hg2 : g2 < 2 ^ 256)
    (h : goPreimage "oracleSet" o1.toObj g1 = goPreimage "oracleSet" o2.toObj g2) : o1 = o2 ∧ g1 = g2 := by
  rw [goPre_oracleSet, goPre_oracleSet] at h
  exact osVals_inj goU64_map w1 w2 hg1 hg2 (Option.some.inj h)

theorem abi_encode_injective_batch (b1 b2 : Batch) (g1 g2 : Nat) (w1 : b1.WF) (w2 : b2.WF)
    (hg1 : g1 < 2 ^ 256) (hg2 : g2 < 2 ^ 256)
    (h : goPreimage "batch" b1.toObj g1 = goPreimage "batch" b2.toObj g2) : b1 = b2 ∧ g1 = g2 := by
  rw [goPre_batch, goPre_batch] at h
  exact batchVals_inj goU64_map w1 w2 hg1 hg2 (Option.some.inj h)

theorem abi_encode_injective_bridgeCall (c1 c2 : BridgeCall) (g1 g2 : Nat) (w1 : c1.WF) (w2 : c2.WF)
    (hg1 : g1 < 2 ^ 256) (hg2 : g2 < 2 ^ 256)
    (h : goPreimage "bridgeCall" c1.toObj g1 = goPreimage "bridgeCall" c2.toObj g2) : c1 = c2 ∧ g1 = g2 := by
  rw [goPre_bridgeCall, goPre_bridgeCall] at h
  exact bcVals_inj goU64_map w1 w2 hg1 hg2 (Option.some.inj h)

private theorem vals_inj (u : Nat → Nat) (hu : U64Map u) (a b : AnyObj) (g1 g2 : Nat) (wa : a.WF) (wb : b.WF)
    (hg1 : g1 < 2 ^ 256) (hg2 : g2 < 2 ^ 256)
    (h : (match a with | .oset o => enc (osVals u o g1) | .batch x => enc (batchVals u x g1) | .bcall c => enc (bcVals u c g1)) =
         (match b with | .oset o => enc (osVals u o g2) | .batch x => enc (batchVals u x g2) | .bcall c => enc (bcVals u c g2))) :
    a = b ∧ g1 = g2 := by
  have t := tag_lt
  have d1 : tagOracleSet ≠ tagBatch := by decide
  have d2 : tagOracleSet ≠ tagBridgeCall := by decide
  have d3 : tagBatch ≠ tagBridgeCall := by decide
  cases a <;> cases b <;> simp only [AnyObj.WF] at wa wb <;> simp only at h
  · obtain ⟨h1, h2⟩ := osVals_inj hu wa wb hg1 hg2 h; exact ⟨by rw [h1], h2⟩
  · exact absurd (tag_slot _ _ _ _ _ _ t.1 t.2.1 h) d1
  · exact absurd (tag_slot _ _ _ _ _ _ t.1 t.2.2 h) d2
  · exact absurd (tag_slot _ _ _ _ _ _ t.2.1 t.1 h) d1.symm
  · obtain ⟨h1, h2⟩ := batchVals_inj hu wa wb hg1 hg2 h; exact ⟨by rw [h1], h2⟩
  · exact absurd (tag_slot _ _ _ _ _ _ t.2.1 t.2.2 h) d3
  · exact absurd (tag_slot _ _ _ _ _ _ t.2.2 t.1 h) d2.symm
  · exact absurd (tag_slot _ _ _ _ _ _ t.2.2 t.2.1 h) d3.symm
  · obtain ⟨h1, h2⟩ := bcVals_inj hu wa wb hg1 hg2 h; exact ⟨by rw [h1], h2⟩

private theorem goPre_eq (a : AnyObj) (g : Nat) :
    goPre a g = some (match a with | .oset o => enc (osVals goU64 o g) | .batch x => enc (batchVals goU64 x g) | .bcall c => enc (bcVals goU64 c g)) := by
  cases a <;> simp [goPre, AnyObj.kind, AnyObj.toObj, goPre_oracleSet, goPre_batch, goPre_bridgeCall]

private theorem tronPre_eq (a : AnyObj) (g : Nat) : tronPre a g = goPre a g := by
  cases a <;> simp [goPre, tronPre, AnyObj.kind, AnyObj.toObj, goPre_oracleSet, goPre_batch, goPre_bridgeCall,
    tronPre_oracleSet, tronPre_batch, tronPre_bridgeCall]

private theorem solPre_eq (a : AnyObj) (g : Nat) :
    solPre a g = some (match a with | .oset o => enc (osVals id o g) | .batch x => enc (batchVals id x g) | .bcall c => enc (bcVals id c g)) := by
  cases a <;> simp [solPre, AnyObj.kind, AnyObj.toObj, solPre_oracleSet, solPre_batch, solPre_bridgeCall]

/-- the bytes fxcore signs determine kind, gravity id and every field of the object — for ALL `uint64` values (the
two's-complement image of the `int64` cast is still injective), all list and byte-string lengths -/
theorem abi_encode_injective (a b : AnyObj) (g1 g2 : Nat) (wa : a.WF) (wb : b.WF) (hg1 : g1 < 2 ^ 256) (hg2 : g2 < 2 ^ 256)
    (h : goPre a g1 = goPre b g2) : a = b ∧ g1 = g2 := by
  rw [goPre_eq, goPre_eq] at h
  exact vals_inj goU64 goU64_map a b g1 g2 wa wb hg1 hg2 (Option.some.inj h)

theorem abi_encode_injective_tron (a b : AnyObj) (g1 g2 : Nat) (wa : a.WF) (wb : b.WF) (hg1 : g1 < 2 ^ 256) (hg2 : g2 < 2 ^ 256)
    (h : tronPre a g1 = tronPre b g2) : a = b ∧ g1 = g2 := by
  rw [tronPre_eq, tronPre_eq] at h
  exact abi_encode_injective a b g1 g2 wa wb hg1 hg2 h

/-- the bytes the contract hashes determine kind, gravity id and every field -/
theorem abi_encode_injective_solidity (a b : AnyObj) (g1 g2 : Nat) (wa : a.WF) (wb : b.WF) (hg1 : g1 < 2 ^ 256) (hg2 : g2 < 2 ^ 256)
    (h : solPre a g1 = solPre b g2) : a = b ∧ g1 = g2 := by
  rw [solPre_eq, solPre_eq] at h
  exact vals_inj id id_map a b g1 g2 wa wb hg1 hg2 (Option.some.inj h)

/-- named assumption: no two pre-images collide under the hash -/
def CollisionResistant (H : List Nat → List Nat) : Prop := ∀ x y, H x = H y → x = y

/-- signatures never transplant: under collision resistance, the digest signed for (kind, object, gravity id) equals
the digest of (kind', object', gravity id') only if they are the same — so a signature over one chain id, object or
nonce is a signature over no other.  Go side (what confirms are checked against). -/
theorem signatures_never_transplant (H : List Nat → List Nat) (hH : CollisionResistant H) (a b : AnyObj) (g1 g2 : Nat)
    (wa : a.WF) (wb : b.WF) (hg1 : g1 < 2 ^ 256) (hg2 : g2 < 2 ^ 256)
    (h : (goPre a g1).map H = (goPre b g2).map H) : a = b ∧ g1 = g2 := by
  apply abi_encode_injective a b g1 g2 wa wb hg1 hg2
  rw [goPre_eq, goPre_eq] at h ⊢
  simp only [Option.map_some, Option.some.injEq] at h
  rw [hH _ _ h]

/-- and on the contract side: a digest the contract recomputes for (b, g2) equals the digest fxcore signed for (a, g1)
(both within `int64`) only if it is the same object under the same gravity id -/
theorem signatures_never_transplant_contract (H : List Nat → List Nat) (hH : CollisionResistant H) (a b : AnyObj) (g1 g2 : Nat)
    (wa : a.WF) (wb : b.WF) (hg1 : g1 < 2 ^ 256) (hg2 : g2 < 2 ^ 256)
    (h : (solPre a g1).map H = (solPre b g2).map H) : a = b ∧ g1 = g2 := by
  apply abi_encode_injective_solidity a b g1 g2 wa wb hg1 hg2
  rw [solPre_eq, solPre_eq] at h ⊢
  simp only [Option.map_some, Option.some.injEq] at h
  rw [hH _ _ h]

/-! ## 4. the confirm handler, for every registry, every object store, every `recover`, every message sequence -/

/-- a confirm is stored iff the object exists, the signature text decodes, the external address is indexed to an
oracle whose record carries that external address and the submitting bridger, the signature recovers to that external
address over the stored object's checkpoint, and no confirm of that oracle for that object is stored yet -/
theorem confirm_accept_iff (recover : List Nat → List Nat → Option String) (st st' : HState) (m : ConfirmMsg) :
    confirmStep recover st m = .ok st' ↔
      ∃ digest sig oracle r,
        st.objects.lookup m.key = some digest ∧ m.sig = some sig ∧
        st.byExternal.lookup m.external = some oracle ∧ st.oracles.lookup oracle = some r ∧
        r.external = m.external ∧ r.bridger = m.bridger ∧
        recover digest sig = some m.external ∧ hasConfirm st m.key oracle = false ∧
        st' = { st with confirms := ⟨m.key, oracle, m.bridger, m.external, sig, digest, r⟩ :: st.confirms } :=
  confirmStep_ok_iff recover st st' m

/-- a rejected confirm changes nothing -/
theorem confirm_reject_unchanged (recover : List Nat → List Nat → Option String) (st : HState) (m : ConfirmMsg) (e : Err)
    (h : confirmStep recover st m = .error e) : step recover st (.confirm m) = st := by
  simp [step, h]

/-- after ANY sequence of object stores, registry writes and confirm messages: at most one stored confirmation per
(object, oracle) -/
theorem one_confirm_per_oracle (recover : List Nat → List Nat → Option String) (ops : List Op) :
    ((run recover {} ops).confirms.map Entry.slot).Nodup :=
  (inv_run recover {} ops (inv_init recover)).2

/-- after ANY sequence: every stored confirmation carries a signature that recovers, over the checkpoint of the object
still stored under its key, to the external address registered for its oracle when it was accepted -/
theorem stored_confirm_verified (recover : List Nat → List Nat → Option String) (ops : List Op) (e : Entry)
    (he : e ∈ (run recover {} ops).confirms) :
    (run recover {} ops).objects.lookup e.key = some e.digest ∧ recover e.digest e.sig = some e.external ∧
    e.recAt.external = e.external := by
  obtain ⟨h1, h2, _, h4⟩ := (inv_run recover {} ops (inv_init recover)).1 e he
  exact ⟨h4, h1, h2⟩

/-- … and was submitted under the bridger address of that oracle's record -/
theorem confirm_requires_bridger (recover : List Nat → List Nat → Option String) (ops : List Op) (e : Entry)
    (he : e ∈ (run recover {} ops).confirms) : e.recAt.bridger = e.bridger :=
  ((inv_run recover {} ops (inv_init recover)).1 e he).2.2.1

/-! ## non-vacuity -/

/-- a well-formed, int64-safe oracle set with members exists -/
example : (OracleSet.mk 7 [⟨100, 0xE54F4301dd5B11c4ab17028638759B6Fe6f76C08⟩, ⟨2 ^ 63 - 1, 1⟩]).WF ∧
    (OracleSet.mk 7 [⟨100, 0xE54F4301dd5B11c4ab17028638759B6Fe6f76C08⟩, ⟨2 ^ 63 - 1, 1⟩]).Int64Safe := by
  refine ⟨⟨by decide, by decide, ?_⟩, ⟨by decide, ?_⟩⟩ <;> intro m hm <;> simp at hm <;> rcases hm with rfl | rfl <;> decide

private def exRecover : List Nat → List Nat → Option String :=
  fun d s => if d == [1, 2, 3] && s == [9] then some "0xExt" else none

private def exOps : List Op := [.addObject (.oracleSet 7) [1, 2, 3], .setOracle 1 ⟨"bridgerY", "0xExt"⟩, .setIndex "0xExt" 1,
  .confirm ⟨.oracleSet 7, "bridgerX", "0xExt", some [9]⟩,
  .confirm ⟨.oracleSet 7, "bridgerY", "0xExt", some [9]⟩,
  .confirm ⟨.oracleSet 7, "bridgerY", "0xExt", some [9]⟩]

private def errOf (r : Except Err HState) : Option Err := match r with | .error e => some e | .ok _ => none

/-- the handler rejects the wrong bridger, accepts the correctly signed confirm once, and rejects the duplicate -/
example :
    (run exRecover {} exOps).confirms.length = 1 ∧
    errOf (confirmStep exRecover (run exRecover {} exOps) ⟨.oracleSet 7, "bridgerY", "0xExt", some [9]⟩) = some .duplicate ∧
    errOf (confirmStep exRecover (run exRecover {} (exOps.take 3)) ⟨.oracleSet 7, "bridgerX", "0xExt", some [9]⟩) = some .mismatch ∧
    errOf (confirmStep exRecover (run exRecover {} (exOps.take 3)) ⟨.oracleSet 7, "bridgerY", "0xExt", some [8]⟩) = some .badSig ∧
    errOf (confirmStep exRecover (run exRecover {} (exOps.take 3)) ⟨.oracleSet 7, "bridgerY", "0xExt", some [9]⟩) = none := by
  decide

end FxVerif.Props.C12
