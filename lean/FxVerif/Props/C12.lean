import FxVerif.Proofs.C12
import FxVerif.Proofs.C12Handler
import FxVerif.Proofs.C12Sig
import FxVerif.Proofs.C12Env
import FxVerif.Model.C12Genesis
import FxVerif.Proofs.C12Msg
/-!
# C12 — a confirmation is stored only with the oracle's signature over the exact object

Property theorems only.  `goLayouts`, `tronLayouts`, `solSites`, the sign prefixes and `handlerGuards` are regenerated from
`/repo` (Go AST, embedded ABI JSON, Solidity text) on every run; the layout theorems are decided over them and the
pre-image theorems are proved through them, so a swapped / dropped / re-typed `Pack` argument, a changed method tag, a
changed `abi.encode` argument list or a changed handler guard stops an obligation below from checking.

Hash and signature recovery are opaque: statements are about ABI pre-images (collision resistance of Keccak-256 is the
named assumption `CollisionResistant`) and about the handler with `recover` an arbitrary function.
-/
namespace FxVerif.Props.C12
open FxVerif.Gen.C12 FxVerif.Gen.C12Sig FxVerif.Model.C12

/-! ## 1. the three layouts: Go = tron = Solidity (argument for argument: ABI type, parameter name, field, cast, tag) -/

theorem go_layout_eq_solidity_layout_oracleSet : layoutsAgree mainSol "oracleSet" = true := by decide
theorem go_layout_eq_solidity_layout_batch : layoutsAgree mainSol "batch" = true := by decide
theorem go_layout_eq_solidity_layout_bridgeCall : layoutsAgree mainSol "bridgeCall" = true := by decide

/-- every `abi.encode(...)` in every bridge contract variant (FxBridgeLogic, …ETH, …BSC) is one of the three digests and
agrees with the Go and tron layouts -/
theorem all_contract_variants_agree : allSitesAgree = true := by decide

/-- the tag words are the bytes32 encodings of the tag strings in the Go source -/
theorem method_tags_are_the_strings : (goLayouts ++ tronLayouts).all tagsConsistent = true := by decide

/-- the three method tags are pairwise different: an object of one kind never shares a digest pre-image with another kind -/
theorem method_tags_distinct :
    ((goLayouts.map goTag).eraseDups.length = 3 ∧ goLayouts.all (fun L => (goTag L).isSome)) := by decide

/-- the prefix the contract hashes in `verifySig` is the prefix `NewEthereumSignature`/`EthAddressFromSignature` use;
tron signs under a different prefix (an eth-style signature is never a tron signature over the same digest) -/
theorem sign_prefix_agrees :
    solSignPrefix.all (fun p => p.2 == goSignPrefix) = true ∧ solSignPrefix.length = solFiles.length ∧
    tronSignPrefix ≠ goSignPrefix := by decide

/-- the guards of `ValidateConfirmSign` and of the three handlers are the ones `confirmStep` models, in that order -/
theorem handler_guards_as_modelled : handlerGuards = [
    ("ValidateConfirmSign", ["if err != nil", "if !found", "if !found", "if oracle.ExternalAddress != signatureAddr",
      "if oracle.BridgerAddress != bridgerAddr", "if k.moduleName == trontypes.ModuleName",
      "err = trontypes.ValidateTronSignature(checkpoint, sigBytes, oracle.ExternalAddress)", "if err != nil",
      "err = types.ValidateEthereumSignature(checkpoint, sigBytes, oracle.ExternalAddress)", "if err != nil"]),
    ("BatchConfirmHandler", ["if batch == nil", "if k.moduleName == trontypes.ModuleName", "if err != nil", "if err != nil",
      "if err != nil", "if k.GetBatchConfirm(ctx, msg.TokenContract, msg.Nonce, oracleAddr) != nil",
      "k.SetBatchConfirm(ctx, oracleAddr, msg)"]),
    ("OracleSetConfirmHandler", ["if oracleSet == nil", "if k.moduleName == trontypes.ModuleName", "if err != nil",
      "if err != nil", "if err != nil", "if k.GetOracleSetConfirm(ctx, msg.Nonce, oracleAddr) != nil",
      "k.SetOracleSetConfirm(ctx, oracleAddr, msg)"]),
    ("BridgeCallConfirmHandler", ["if !found", "if k.moduleName == trontypes.ModuleName", "if err != nil", "if err != nil",
      "if err != nil", "if k.HasBridgeCallConfirm(ctx, msg.Nonce, oracleAddr)",
      "k.SetBridgeCallConfirm(ctx, oracleAddr, msg)"])] := by decide

/-! ## 2. the bytes fxcore hashes are the bytes the contract hashes -/

/-- for EVERY oracle set (any number of members) whose `uint64` fields fit an `int64`, and every gravity id: the Go
pre-image, the tron pre-image and the Solidity pre-image are the same byte string -/
theorem checkpoint_bytes_equal_oracleSet (o : OracleSet) (g : Nat) (h : o.Int64Safe) :
    goPreimage "oracleSet" o.toObj g = solPreimage "oracleSet" o.toObj g ∧
    tronPreimage "oracleSet" o.toObj g = solPreimage "oracleSet" o.toObj g ∧
    (solPreimage "oracleSet" o.toObj g).isSome := by
  rw [goPre_oracleSet, tronPre_oracleSet, solPre_oracleSet]
  have hp : (o.members.map (·.power)).map goU64 = o.members.map (·.power) :=
    map_goU64_of_lt _ (by intro x hx; simp only [List.mem_map] at hx; obtain ⟨m, hm, rfl⟩ := hx; exact h.2 m hm)
  simp [osVals, goU64_of_lt h.1, hp]

theorem checkpoint_bytes_equal_batch (b : Batch) (g : Nat) (h : b.Int64Safe) :
    goPreimage "batch" b.toObj g = solPreimage "batch" b.toObj g ∧
    tronPreimage "batch" b.toObj g = solPreimage "batch" b.toObj g ∧
    (solPreimage "batch" b.toObj g).isSome := by
  rw [goPre_batch, tronPre_batch, solPre_batch]
  simp [batchVals, goU64_of_lt h.1, goU64_of_lt h.2]

theorem checkpoint_bytes_equal_bridgeCall (c : BridgeCall) (g : Nat) (h : c.Int64Safe) :
    goPreimage "bridgeCall" c.toObj g = solPreimage "bridgeCall" c.toObj g ∧
    tronPreimage "bridgeCall" c.toObj g = solPreimage "bridgeCall" c.toObj g ∧
    (solPreimage "bridgeCall" c.toObj g).isSome := by
  rw [goPre_bridgeCall, tronPre_bridgeCall, solPre_bridgeCall]
  simp [bcVals, goU64_of_lt h.1, goU64_of_lt h.2.1, goU64_of_lt h.2.2]

/-- the `int64` hypothesis is needed: at nonce 2^63 the Go bytes are not the Solidity bytes -/
theorem go_sol_differ_above_int64 :
    goPreimage "oracleSet" (OracleSet.toObj ⟨2 ^ 63, []⟩) 0 ≠ solPreimage "oracleSet" (OracleSet.toObj ⟨2 ^ 63, []⟩) 0 := by
  rw [goPre_oracleSet, solPre_oracleSet]
  intro h
  have := congrArg (fun o => o.map (fun bs => (bs.drop 64).take 32)) h
  revert this
  decide

/-! ## 3. injectivity: equal pre-images ⇒ same kind, same gravity id, same object (every field, any lengths) -/

inductive AnyObj where
  | oset (o : OracleSet)
  | batch (b : Batch)
  | bcall (c : BridgeCall)
  deriving DecidableEq, Repr

def AnyObj.kind : AnyObj → String
  | .oset _ => "oracleSet" | .batch _ => "batch" | .bcall _ => "bridgeCall"

def AnyObj.toObj : AnyObj → Obj
  | .oset o => o.toObj | .batch b => b.toObj | .bcall c => c.toObj

def AnyObj.WF : AnyObj → Prop
  | .oset o => o.WF | .batch b => b.WF | .bcall c => c.WF

/-- what fxcore hashes and signs (eth-style chains); `tronPre` for tron; `solPre` is what the contract hashes -/
def goPre (a : AnyObj) (g : Nat) : Option (List Nat) := goPreimage a.kind a.toObj g
def tronPre (a : AnyObj) (g : Nat) : Option (List Nat) := tronPreimage a.kind a.toObj g
def solPre (a : AnyObj) (g : Nat) : Option (List Nat) := solPreimage a.kind a.toObj g

theorem abi_encode_injective_oracleSet (o1 o2 : OracleSet) (g1 g2 : Nat) (w1 : o1.WF) (w2 : o2.WF)
    (hg1 : g1 < 2 ^ 256) (hg2 : g2 < 2 ^ 256)
    (h : goPreimage "oracleSet" o1.toObj g1 = goPreimage "oracleSet" o2.toObj g2) : o1 = o2 ∧ g1 = g2 := by
  rw [goPre_oracleSet, goPre_oracleSet] at h
  exact osVals_inj goU64_map w1 w2 hg1 hg2 (Option.some.inj h)

theorem abi_encode_injective_batch (b1 b2 : Batch) (g1 g2 : Nat) (w1 : b1.WF) (w2 : b2.WF)
    (hg1 : g1 < 2 ^ 256) (hg2 : g2 < 2 ^ 256)
    (h : goPreimage "batch" b1.toObj g1 = goPreimage "batch" b2.toObj g2) : b1 = b2 ∧ g1 = g2 := by
  rw [goPre_batch, goPre_batch] at h
  exact batchVals_inj goU64_map w1 w2 hg1 hg2 (Option.some.inj h)

theorem abi_encode_injective_bridgeCall (c1 c2 : BridgeCall) (g1 g2 : Nat) (w1 : c1.WF) (w2 : c2.WF)
    (hg1 : g1 < 2 ^ 256) (hg2 : g2 < 2 ^ 256)
    (h : goPreimage "bridgeCall" c1.toObj g1 = goPreimage "bridgeCall" c2.toObj g2) : c1 = c2 ∧ g1 = g2 := by
  rw [goPre_bridgeCall, goPre_bridgeCall] at h
  exact bcVals_inj goU64_map w1 w2 hg1 hg2 (Option.some.inj h)

private theorem vals_inj (u : Nat → Nat) (hu : U64Map u) (a b : AnyObj) (g1 g2 : Nat) (wa : a.WF) (wb : b.WF)
    (hg1 : g1 < 2 ^ 256) (hg2 : g2 < 2 ^ 256)
    (h : (match a with | .oset o => enc (osVals u o g1) | .batch x => enc (batchVals u x g1) | .bcall c => enc (bcVals u c g1)) =
         (match b with | .oset o => enc (osVals u o g2) | .batch x => enc (batchVals u x g2) | .bcall c => enc (bcVals u c g2))) :
    a = b ∧ g1 = g2 := by
  have t := tag_lt
  have d1 : tagOracleSet ≠ tagBatch := by decide
  have d2 : tagOracleSet ≠ tagBridgeCall := by decide
  have d3 : tagBatch ≠ tagBridgeCall := by decide
  cases a <;> cases b <;> simp only [AnyObj.WF] at wa wb <;> simp only at h
  · obtain ⟨h1, h2⟩ := osVals_inj hu wa wb hg1 hg2 h; exact ⟨by rw [h1], h2⟩
  · exact absurd (tag_slot _ _ _ _ _ _ t.1 t.2.1 h) d1
  · exact absurd (tag_slot _ _ _ _ _ _ t.1 t.2.2 h) d2
  · exact absurd (tag_slot _ _ _ _ _ _ t.2.1 t.1 h) d1.symm
  · obtain ⟨h1, h2⟩ := batchVals_inj hu wa wb hg1 hg2 h; exact ⟨by rw [h1], h2⟩
  · exact absurd (tag_slot _ _ _ _ _ _ t.2.1 t.2.2 h) d3
  · exact absurd (tag_slot _ _ _ _ _ _ t.2.2 t.1 h) d2.symm
  · exact absurd (tag_slot _ _ _ _ _ _ t.2.2 t.2.1 h) d3.symm
  · obtain ⟨h1, h2⟩ := bcVals_inj hu wa wb hg1 hg2 h; exact ⟨by rw [h1], h2⟩

private theorem goPre_eq (a : AnyObj) (g : Nat) :
    goPre a g = some (match a with | .oset o => enc (osVals goU64 o g) | .batch x => enc (batchVals goU64 x g) | .bcall c => enc (bcVals goU64 c g)) := by
  cases a <;> simp [goPre, AnyObj.kind, AnyObj.toObj, goPre_oracleSet, goPre_batch, goPre_bridgeCall]

private theorem tronPre_eq (a : AnyObj) (g : Nat) : tronPre a g = goPre a g := by
  cases a <;> simp [goPre, tronPre, AnyObj.kind, AnyObj.toObj, goPre_oracleSet, goPre_batch, goPre_bridgeCall,
    tronPre_oracleSet, tronPre_batch, tronPre_bridgeCall]

private theorem solPre_eq (a : AnyObj) (g : Nat) :
    solPre a g = some (match a with | .oset o => enc (osVals id o g) | .batch x => enc (batchVals id x g) | .bcall c => enc (bcVals id c g)) := by
  cases a <;> simp [solPre, AnyObj.kind, AnyObj.toObj, solPre_oracleSet, solPre_batch, solPre_bridgeCall]

/-- the bytes fxcore signs determine kind, gravity id and every field of the object — for ALL `uint64` values (the
two's-complement image of the `int64` cast is still injective), all list and byte-string lengths -/
theorem abi_encode_injective (a b : AnyObj) (g1 g2 : Nat) (wa : a.WF) (wb : b.WF) (hg1 : g1 < 2 ^ 256) (hg2 : g2 < 2 ^ 256)
    (h : goPre a g1 = goPre b g2) : a = b ∧ g1 = g2 := by
  rw [goPre_eq, goPre_eq] at h
  exact vals_inj goU64 goU64_map a b g1 g2 wa wb hg1 hg2 (Option.some.inj h)

theorem abi_encode_injective_tron (a b : AnyObj) (g1 g2 : Nat) (wa : a.WF) (wb : b.WF) (hg1 : g1 < 2 ^ 256) (hg2 : g2 < 2 ^ 256)
    (h : tronPre a g1 = tronPre b g2) : a = b ∧ g1 = g2 := by
  rw [tronPre_eq, tronPre_eq] at h
  exact abi_encode_injective a b g1 g2 wa wb hg1 hg2 h

/-- the bytes the contract hashes determine kind, gravity id and every field -/
theorem abi_encode_injective_solidity (a b : AnyObj) (g1 g2 : Nat) (wa : a.WF) (wb : b.WF) (hg1 : g1 < 2 ^ 256) (hg2 : g2 < 2 ^ 256)
    (h : solPre a g1 = solPre b g2) : a = b ∧ g1 = g2 := by
  rw [solPre_eq, solPre_eq] at h
  exact vals_inj id id_map a b g1 g2 wa wb hg1 hg2 (Option.some.inj h)

/-- named assumption: no two pre-images collide under the hash -/
def CollisionResistant (H : List Nat → List Nat) : Prop := ∀ x y, H x = H y → x = y

/-- signatures never transplant: under collision resistance, the digest signed for (kind, object, gravity id) equals
the digest of (kind', object', gravity id') only if they are the same — so a signature over one chain id, object or
nonce is a signature over no other.  Go side (what confirms are checked against). -/
theorem signatures_never_transplant (H : List Nat → List Nat) (hH : CollisionResistant H) (a b : AnyObj) (g1 g2 : Nat)
    (wa : a.WF) (wb : b.WF) (hg1 : g1 < 2 ^ 256) (hg2 : g2 < 2 ^ 256)
    (h : (goPre a g1).map H = (goPre b g2).map H) : a = b ∧ g1 = g2 := by
  apply abi_encode_injective a b g1 g2 wa wb hg1 hg2
  rw [goPre_eq, goPre_eq] at h ⊢
  simp only [Option.map_some, Option.some.injEq] at h
  rw [hH _ _ h]

/-- and on the contract side: a digest the contract recomputes for (b, g2) equals the digest fxcore signed for (a, g1)
(both within `int64`) only if it is the same object under the same gravity id -/
theorem signatures_never_transplant_contract (H : List Nat → List Nat) (hH : CollisionResistant H) (a b : AnyObj) (g1 g2 : Nat)
    (wa : a.WF) (wb : b.WF) (hg1 : g1 < 2 ^ 256) (hg2 : g2 < 2 ^ 256)
    (h : (solPre a g1).map H = (solPre b g2).map H) : a = b ∧ g1 = g2 := by
  apply abi_encode_injective_solidity a b g1 g2 wa wb hg1 hg2
  rw [solPre_eq, solPre_eq] at h ⊢
  simp only [Option.map_some, Option.some.injEq] at h
  rw [hH _ _ h]

/-! ## 4. the confirm handler, for every registry, every object store, every `recover`, every message sequence -/

/-- a confirm is stored iff the object exists, the signature text decodes, the external address is indexed to an
oracle whose record carries that external address and the submitting bridger, the signature recovers to that external
address over the stored object's checkpoint, and no confirm of that oracle for that object is stored yet -/
theorem confirm_accept_iff (recover : List Nat → List Nat → Option String) (st st' : HState) (m : ConfirmMsg) :
    confirmStep recover st m = .ok st' ↔
      ∃ digest sig oracle r,
        st.objects.lookup m.key = some digest ∧ m.sig = some sig ∧
        st.byExternal.lookup m.external = some oracle ∧ st.oracles.lookup oracle = some r ∧
        r.external = m.external ∧ r.bridger = m.bridger ∧
        recover digest sig = some m.external ∧ hasConfirm st m.key oracle = false ∧
        st' = { st with confirms := ⟨m.key, oracle, m.bridger, m.external, sig, digest, r⟩ :: st.confirms } :=
  confirmStep_ok_iff recover st st' m

/-- a rejected confirm changes nothing -/
theorem confirm_reject_unchanged (recover : List Nat → List Nat → Option String) (st : HState) (m : ConfirmMsg) (e : Err)
    (h : confirmStep recover st m = .error e) : step recover st (.confirm m) = st := by
  simp [step, h]

/-- after ANY sequence of object stores, registry writes, confirm messages and prunings: at most one stored
confirmation per (object, oracle) -/
theorem one_confirm_per_oracle (recover : List Nat → List Nat → Option String) (ops : List Op) :
    ((run recover {} ops).confirms.map Entry.slot).Nodup :=
  (inv_run recover {} ops (inv_init recover)).2.1

/-- after ANY sequence (including prunings): every stored confirmation carries a signature that recovers, over the
checkpoint of the object that was stored under the very key the confirmation is filed under (`ever` records every object
ever stored; keys are never reused), to the external address registered for its oracle when it was accepted; and while
that object has not been deleted it is still the object stored under that key -/
theorem stored_confirm_verified (recover : List Nat → List Nat → Option String) (ops : List Op) (e : Entry)
    (he : e ∈ (run recover {} ops).confirms) :
    (run recover {} ops).ever.lookup e.key = some e.digest ∧
    (e.key ∉ (run recover {} ops).removed → (run recover {} ops).objects.lookup e.key = some e.digest) ∧
    recover e.digest e.sig = some e.external ∧ e.recAt.external = e.external := by
  obtain ⟨h1, _, _, h4⟩ := inv_run recover {} ops (inv_init recover)
  obtain ⟨a, b, _, d⟩ := h1 e he
  exact ⟨d, fun hr => h4 _ _ d hr, a, b⟩

/-- the round-1 statement, verbatim, for sequences without prunings: the object is still stored under the key -/
theorem stored_confirm_verified_no_removal (recover : List Nat → List Nat → Option String) (ops : List Op)
    (hno : ∀ op ∈ ops, op.isRemove = false) (e : Entry) (he : e ∈ (run recover {} ops).confirms) :
    (run recover {} ops).objects.lookup e.key = some e.digest ∧ recover e.digest e.sig = some e.external ∧
    e.recAt.external = e.external := by
  obtain ⟨_, h2, h3, h4⟩ := stored_confirm_verified recover ops e he
  refine ⟨h2 ?_, h3, h4⟩
  rw [removed_run recover {} ops hno]
  simp

/-- a stored object is only ever the object that was stored under its key first -/
theorem stored_object_never_replaced (recover : List Nat → List Nat → Option String) (ops : List Op) (k : ObjKey) (d : List Nat)
    (h : (run recover {} ops).objects.lookup k = some d) : (run recover {} ops).ever.lookup k = some d :=
  (inv_run recover {} ops (inv_init recover)).2.2.1 k d h

/-- … and was submitted under the bridger address of that oracle's record -/
theorem confirm_requires_bridger (recover : List Nat → List Nat → Option String) (ops : List Op) (e : Entry)
    (he : e ∈ (run recover {} ops).confirms) : e.recAt.bridger = e.bridger :=
  ((inv_run recover {} ops (inv_init recover)).1 e he).2.2.1

/-- a pruning site that deletes the confirmations of a key leaves none filed under it (whatever the state) -/
theorem pruned_confirms_gone (recover : List Nat → List Nat → Option String) (st : HState) (k : ObjKey) (dobj : Bool) :
    ∀ e ∈ (step recover st (.removeObject k dobj true)).confirms, e.key ≠ k :=
  removeObject_drops st k dobj

/-! ## 5. the handler as the SOURCE spells it (regenerated key plan) is the specified handler -/

/-- for each of the three handlers, read off the Go AST through the callees down to the `types.Get…Key` calls: ONE object
lookup, by the exact key the object store writes (all coordinates the message names: token contract and nonce for a batch,
nonce otherwise); the checkpoint computed over that object under `k.GetGravityID(ctx)`; ValidateConfirmSign given the
message's bridger, external address, signature and that checkpoint; the duplicate check and the store through one key
function over the same coordinates plus the oracle address ValidateConfirmSign returned; in this order -/
theorem handler_plans_exact :
    handlerPlans.map (·.kind) = ["batch", "oracleSet", "bridgeCall"] ∧ handlerPlans.all planExact = true := by decide

/-- every key function reached by the plans mentions all of its parameters (no coordinate is dropped inside) -/
theorem key_functions_use_all_parameters : keyFnUses.all (fun x => x.2.1 == x.2.2 && !x.2.1.isEmpty) = true := by decide

/-- the handler driven by the regenerated plan = `confirmStep`, for every registry, object store, message, `recover` -/
theorem generated_handler_is_specified (recover : List Nat → List Nat → Option String) (st : HState) (m : ConfirmMsg) :
    confirmStepG recover st m = confirmStep recover st m :=
  confirmStepP_eq_confirmStep _ recover st m (planFor_exact m.key handler_plans_exact.1 handler_plans_exact.2)
    (planFor_kind m.key handler_plans_exact.1)

/-- so everything proved about `run` holds of what the driver executes against the real handlers -/
theorem driver_run_is_specified_run (recover : List Nat → List Nat → Option String) (st : HState) (ops : List Op) :
    runG recover st ops = run recover st ops :=
  runG_eq_run handler_plans_exact.1 handler_plans_exact.2 recover st ops

/-- a handler whose plan is exact files an accepted confirmation under the key of the very object whose checkpoint was
verified: (for ANY plan) if the plan-driven handler accepts, the new entry's digest is the digest of an object found by
one of the plan's lookups; for the exact plan that object's key is the entry's key -/
theorem accepted_confirm_filed_under_verified_object (recover : List Nat → List Nat → Option String) (st st' : HState)
    (m : ConfirmMsg) (h : confirmStepG recover st m = .ok st') :
    ∃ e, st'.confirms = e :: st.confirms ∧ e.key = m.key ∧ st.objects.lookup e.key = some e.digest := by
  rw [generated_handler_is_specified] at h
  obtain ⟨digest, sig, oracle, r, ho, _, _, _, _, _, _, _, rfl⟩ := (confirm_accept_iff recover st st' m).1 h
  exact ⟨_, rfl, rfl, ho⟩

/-- which pruning site deletes what (from the `k.Delete…` calls in the source): executing a batch, pruning an oracle
set and deleting a bridge-call record delete the object together with its confirmations; cancelling a batch deletes the
object only (its confirmations stay behind, filed under a key that is never used again) -/
theorem delete_sites_as_modelled :
    removeFlags "OutgoingTxBatchExecuted" = (true, true) ∧ removeFlags "CancelOutgoingTxBatch" = (true, false) ∧
    removeFlags "pruneOracleSet" = (true, true) ∧ removeFlags "DeleteOutgoingBridgeCallRecord" = (true, true) := by decide

/-- the two signature decoders: reject below 65 bytes, map a recovery byte 27/28 to 0/1, hash their own prefix constant
in front of the checkpoint, and compare the recovered address text with the registered one -/
theorem sig_rules_as_modelled : sigRules = [
    ⟨"EthAddressFromSignature", "65", ["27", "28"], "27", "signaturePrefix", "addr != ethAddress", 65, [27, 28], 27⟩,
    ⟨"TronAddressFromSignature", "65", ["27", "28"], "27", "tronSignaturePrefix", "addr != ethAddress", 65, [27, 28], 27⟩] := by decide

/-- "submitted by that oracle's bridger", transaction level: the account that must have signed a transaction carrying a
confirm message is the message's `bridger_address` (proto signer option, enforced by the SDK ante handler), and the
handler accepts only if that `bridger_address` is the bridger of the oracle record (`confirm_accept_iff`: `r.bridger =
m.bridger`) -/
theorem confirm_signer_is_bridger_field :
    confirmSigners = [("MsgOracleSetConfirm", "bridger_address"), ("MsgConfirmBatch", "bridger_address"),
      ("MsgBridgeCallConfirm", "bridger_address"), ("MsgConfirm", "bridger_address")] := by decide

/-- the `MsgConfirm` wrapper (signer = the WRAPPER's bridger_address, inner bridger never compared: `wrapperGuards`) is
not deliverable as a transaction in this snapshot — it has no `UnpackInterfaces`, so `MsgServer.Confirm` finds no cached
value and rejects.  If either fact changes this obligation stops checking and the harness's transaction stream shows
whether a stranger's transaction can now store a confirmation. -/
theorem msgconfirm_wrapper_latent : msgConfirmUnpacks = false ∧ wrapperGuards = ["if !ok"] := by decide

/-! ## 5a. the bytes of the store keys (layout regenerated from the nested `append`s of the key functions) -/

/-- the confirm-store key of a batch confirmation is `0x22 ++ token text ++ be8(nonce) ++ oracle address`; of an oracle-set
/ bridge-call confirmation `prefix ++ be8(nonce) ++ oracle address`; the object keys `prefix ++ [token text ++] be8(nonce)`;
the six prefixes are pairwise different single bytes (the stores do not overlap) -/
theorem key_layouts :
    keyParts.lookup "GetBatchConfirmKey" = some [("const", "BatchConfirmKey"), ("text", "tokenContract"), ("be8", "batchNonce"), ("addr", "oracleAddr")] ∧
    keyParts.lookup "GetOracleSetConfirmKey" = some [("const", "OracleSetConfirmKey"), ("be8", "nonce"), ("addr", "oracleAddr")] ∧
    keyParts.lookup "GetBridgeCallConfirmKey" = some [("const", "BridgeCallConfirmKey"), ("be8", "nonce"), ("addr", "addr")] ∧
    keyParts.lookup "GetOutgoingTxBatchKey" = some [("const", "OutgoingTxBatchKey"), ("text", "tokenContract"), ("be8", "batchNonce")] ∧
    keyParts.lookup "GetOracleSetKey" = some [("const", "OracleSetRequestKey"), ("be8", "nonce")] ∧
    keyParts.lookup "GetOutgoingBridgeCallNonceKey" = some [("const", "OutgoingBridgeCallNonceKey"), ("be8", "id")] ∧
    (keyPrefixes.map (·.2)).Nodup ∧ keyPrefixes.all (fun p => p.2.length == 1) = true := by decide

/-- the store key of a confirmation determines what it is filed under: two batch-confirm keys (token contract texts of
one length, as on any one chain) are equal only for the same token contract, nonce and oracle -/
theorem batch_confirm_key_injective (e1 e2 : KeyEnv) (hl : e1.token.length = e2.token.length)
    (h1 : e1.nonce < 2 ^ 64) (h2 : e2.nonce < 2 ^ 64)
    (h : encKey "GetBatchConfirmKey" e1 = encKey "GetBatchConfirmKey" e2) : e1 = e2 := by
  have hp := key_layouts.1
  simp only [encKey, hp, Option.getD_some, List.flatMap_cons, List.flatMap_nil, List.append_nil] at h
  have e : ∀ env : KeyEnv, encPart env ("const", "BatchConfirmKey") = [34] ∧ encPart env ("text", "tokenContract") = env.token ∧
      encPart env ("be8", "batchNonce") = toBE 8 env.nonce ∧ encPart env ("addr", "oracleAddr") = env.oracle := by
    intro env; refine ⟨by simp only [encPart, beq_self_eq_true, if_true]; decide, ?_, ?_, ?_⟩ <;> simp [encPart]
  rw [(e e1).1, (e e1).2.1, (e e1).2.2.1, (e e1).2.2.2, (e e2).1, (e e2).2.1, (e e2).2.2.1, (e e2).2.2.2] at h
  obtain ⟨a, b, c⟩ := key_layout_inj [34] _ _ _ _ _ _ hl h1 h2 h
  cases e1; cases e2; simp_all

/-- … and the keys without a token component (oracle-set and bridge-call confirmations) only for the same nonce and oracle -/
theorem nonce_confirm_key_injective (fn : String) (hfn : fn = "GetOracleSetConfirmKey" ∨ fn = "GetBridgeCallConfirmKey")
    (e1 e2 : KeyEnv) (h1 : e1.nonce < 2 ^ 64) (h2 : e2.nonce < 2 ^ 64)
    (h : encKey fn e1 = encKey fn e2) : e1.nonce = e2.nonce ∧ e1.oracle = e2.oracle := by
  rcases hfn with rfl | rfl
  · have hp := key_layouts.2.1
    simp only [encKey, hp, Option.getD_some, List.flatMap_cons, List.flatMap_nil, List.append_nil] at h
    have e : ∀ env : KeyEnv, encPart env ("const", "OracleSetConfirmKey") = [22] ∧
        encPart env ("be8", "nonce") = toBE 8 env.nonce ∧ encPart env ("addr", "oracleAddr") = env.oracle := by
      intro env; refine ⟨by simp only [encPart, beq_self_eq_true, if_true]; decide, ?_, ?_⟩ <;> simp [encPart]
    rw [(e e1).1, (e e1).2.1, (e e1).2.2, (e e2).1, (e e2).2.1, (e e2).2.2] at h
    obtain ⟨_, b, c⟩ := key_layout_inj [22] [] [] _ _ _ _ rfl h1 h2 (by simpa using h)
    exact ⟨b, c⟩
  · have hp := key_layouts.2.2.1
    simp only [encKey, hp, Option.getD_some, List.flatMap_cons, List.flatMap_nil, List.append_nil] at h
    have e : ∀ env : KeyEnv, encPart env ("const", "BridgeCallConfirmKey") = [69] ∧
        encPart env ("be8", "nonce") = toBE 8 env.nonce ∧ encPart env ("addr", "addr") = env.oracle := by
      intro env; refine ⟨by simp only [encPart, beq_self_eq_true, if_true]; decide, ?_, ?_⟩ <;> simp [encPart]
    rw [(e e1).1, (e e1).2.1, (e e1).2.2, (e e2).1, (e e2).2.1, (e e2).2.2] at h
    obtain ⟨_, b, c⟩ := key_layout_inj [69] [] [] _ _ _ _ rfl h1 h2 (by simpa using h)
    exact ⟨b, c⟩

/-- the object-store key of a batch determines token contract and nonce: a lookup by `(token, nonce)` can only return
the batch stored under exactly that pair -/
theorem batch_object_key_injective (e1 e2 : KeyEnv) (hl : e1.token.length = e2.token.length)
    (h1 : e1.nonce < 2 ^ 64) (h2 : e2.nonce < 2 ^ 64)
    (h : encKey "GetOutgoingTxBatchKey" e1 = encKey "GetOutgoingTxBatchKey" e2) : e1.token = e2.token ∧ e1.nonce = e2.nonce := by
  have hp := key_layouts.2.2.2.1
  simp only [encKey, hp, Option.getD_some, List.flatMap_cons, List.flatMap_nil, List.append_nil] at h
  have e : ∀ env : KeyEnv, encPart env ("const", "OutgoingTxBatchKey") = [32] ∧ encPart env ("text", "tokenContract") = env.token ∧
      encPart env ("be8", "batchNonce") = toBE 8 env.nonce := by
    intro env; refine ⟨by simp only [encPart, beq_self_eq_true, if_true]; decide, ?_, ?_⟩ <;> simp [encPart]
  rw [(e e1).1, (e e1).2.1, (e e1).2.2, (e e2).1, (e e2).2.1, (e e2).2.2] at h
  obtain ⟨a, b, _⟩ := key_layout_inj [32] _ _ [] [] _ _ hl h1 h2 (by simpa using h)
  exact ⟨a, b⟩

/-! ## 5b. signature decoding with the constants of the source (curve recovery `ec` and hash `H` opaque) -/

/-- a signature either decoder accepts has at least 65 bytes — whatever the curve recovery does -/
theorem accepted_signature_at_least_65_bytes (r : SigRule) (hr : r ∈ sigRules) (H : List Nat → List Nat)
    (ec : List Nat → List Nat → Option String) (digest sig : List Nat) (a : String)
    (h : recoverVia r H ec digest sig = some a) : 65 ≤ sig.length := by
  simp only [sigRules, List.mem_cons, List.mem_nil_iff, or_false] at hr
  rcases hr with rfl | rfl <;>
  · simp only [recoverVia, decodeSig] at h
    split at h
    · cases h
    · rename_i s' hs
      split at hs
      · cases hs
      · omega

/-- the recovery byte 27 / 28 (the contract's convention) is reduced to 0 / 1 before the curve recovery sees it, every
other byte of the signature is untouched, and any other recovery byte is passed on as it is -/
theorem recovery_byte_normalised (r : SigRule) (hr : r ∈ sigRules) (sig : List Nat) (hl : 65 ≤ sig.length) :
    decodeSig r sig = some (if sig.getD 64 0 = 27 ∨ sig.getD 64 0 = 28 then sig.set 64 (sig.getD 64 0 - 27) else sig) := by
  simp only [sigRules, List.mem_cons, List.mem_nil_iff, or_false] at hr
  rcases hr with rfl | rfl <;>
  · simp only [decodeSig, show ¬ sig.length < 65 from by omega, if_false]
    simp

/-- the two decoders differ in nothing but the prefix constant they hash in front of the checkpoint, and the prefixes
differ: an eth-style signature over a checkpoint is a signature over another message than the tron one -/
theorem decoders_differ_only_in_prefix :
    sigRules.map (fun r => (r.minLenN, r.vNormN, r.vSubN, r.cmp)) = [(65, [27, 28], 27, "addr != ethAddress"), (65, [27, 28], 27, "addr != ethAddress")] ∧
    sigRules.map prefixOf = [goSignPrefix, tronSignPrefix] ∧ goSignPrefix ≠ tronSignPrefix := by decide

/-- so, in every reachable state of a chain whose handler recovers through either decoder: every STORED confirmation's
signature has at least 65 bytes -/
theorem stored_confirm_signature_length (r : SigRule) (hr : r ∈ sigRules) (H : List Nat → List Nat)
    (ec : List Nat → List Nat → Option String) (ops : List Op) (e : Entry)
    (he : e ∈ (run (recoverVia r H ec) {} ops).confirms) : 65 ≤ e.sig.length :=
  accepted_signature_at_least_65_bytes r hr H ec e.digest e.sig e.external (stored_confirm_verified _ ops e he).2.2.1

/-! ## 6. end to end: a stored confirmation is a signature over the digest the contract recomputes for the object it
names, and over no other object, nonce or chain id -/

def AnyObj.Int64Safe : AnyObj → Prop
  | .oset o => o.Int64Safe | .batch b => b.Int64Safe | .bcall c => c.Int64Safe

/-- the store key of an object is built from the object's own fields (`objectKeys`, regenerated): its nonce, and for a
batch its token contract text `tok` (the text of `b.token`) -/
def keyOf (tok : String) : AnyObj → ObjKey
  | .oset o => .oracleSet o.nonce
  | .batch b => .batch tok b.nonce
  | .bcall c => .bridgeCall c.nonce

theorem object_keys_from_object_fields :
    objectKeys.map (fun x => (x.1, x.2.slots)) = [
      ("batch", [("token", "obj.TokenContract"), ("nonce", "obj.BatchNonce")]),
      ("oracleSet", [("nonce", "obj.Nonce")]), ("bridgeCall", [("nonce", "obj.Nonce")])] := by decide

/-- the checkpoint fxcore computes for an object under gravity id `g` (`H` = Keccak-256, opaque) -/
def digestOf (H : List Nat → List Nat) (g : Nat) (a : AnyObj) : List Nat := H ((goPre a g).getD [])
/-- the digest the bridge contract recomputes -/
def contractDigest (H : List Nat → List Nat) (g : Nat) (a : AnyObj) : List Nat := H ((solPre a g).getD [])

/-- ops of one chain: object stores carry the object itself; everything else as in `Op` -/
inductive TOp where
  | store (tok : String) (a : AnyObj)
  | other (op : Op)

def TOp.toOp (H : List Nat → List Nat) (g : Nat) : TOp → Op
  | .store tok a => .addObject (keyOf tok a) (digestOf H g a)
  | .other op => op

/-- `other` is not used to smuggle in an object store -/
def TOp.ok : TOp → Bool
  | .other (.addObject _ _) => false
  | _ => true

/-- for an int64-safe object the digest fxcore verifies against IS the digest the contract recomputes -/
theorem digest_eq_contract_digest (H : List Nat → List Nat) (g : Nat) (a : AnyObj) (h : a.Int64Safe) :
    digestOf H g a = contractDigest H g a := by
  unfold digestOf contractDigest
  cases a with
  | oset o => simp only [goPre, solPre, AnyObj.kind, AnyObj.toObj]; rw [(checkpoint_bytes_equal_oracleSet o g h).1]
  | batch b => simp only [goPre, solPre, AnyObj.kind, AnyObj.toObj]; rw [(checkpoint_bytes_equal_batch b g h).1]
  | bcall c => simp only [goPre, solPre, AnyObj.kind, AnyObj.toObj]; rw [(checkpoint_bytes_equal_bridgeCall c g h).1]

/-- tron chains hash the same bytes as eth-style chains for the same object and gravity id (they differ in the signed-message
prefix only, `decoders_differ_only_in_prefix`), so `digestOf` is also the checkpoint of a tron chain -/
theorem tron_preimage_eq_go_preimage (a : AnyObj) (g : Nat) : tronPre a g = goPre a g := tronPre_eq a g

/-- END TO END.  After ANY sequence of typed object stores, registry writes, confirms and prunings on a chain with
gravity id `g`: every stored confirmation `e` is filed under the key of an object `a` that was stored (same kind, same
nonce, same token contract), its signature recovers to the oracle's registered external address over fxcore's
checkpoint of exactly that object, and — when `a`'s counters fit an int64 — that checkpoint is the digest the bridge
contract recomputes for `a` under `g`: the confirmation is usable there. -/
theorem stored_confirm_usable_on_contract (recover : List Nat → List Nat → Option String) (H : List Nat → List Nat) (g : Nat)
    (tops : List TOp) (hok : ∀ t ∈ tops, t.ok = true) (e : Entry)
    (he : e ∈ (run recover {} (tops.map (TOp.toOp H g))).confirms) :
    ∃ tok a, TOp.store tok a ∈ tops ∧ e.key = keyOf tok a ∧ e.digest = digestOf H g a ∧
      recover (digestOf H g a) e.sig = some e.external ∧ e.recAt.external = e.external ∧ e.recAt.bridger = e.bridger ∧
      (a.Int64Safe → recover (contractDigest H g a) e.sig = some e.external) := by
  obtain ⟨hev, _, hrec, hx⟩ := stored_confirm_verified recover _ e he
  have hb := confirm_requires_bridger recover _ e he
  have hmem := mem_of_lookup _ _ _ hev
  rcases ever_from_ops recover {} _ e.key e.digest hmem with h0 | hadd
  · simp at h0
  · simp only [List.mem_map] at hadd
    obtain ⟨t, ht, hto⟩ := hadd
    cases t with
    | other op =>
      have := hok _ ht
      simp only [TOp.toOp] at hto
      subst hto
      simp [TOp.ok] at this
    | store tok a =>
      simp only [TOp.toOp, Op.addObject.injEq] at hto
      obtain ⟨hk, hd⟩ := hto
      refine ⟨tok, a, ht, hk.symm, hd.symm, ?_, hx, hb, ?_⟩
      · rw [hd]; exact hrec
      · intro hs; rw [← digest_eq_contract_digest H g a hs, hd]; exact hrec

/-- … and over nothing else.  Under Keccak collision resistance: if the contract of ANY chain (gravity id `g2`) recomputes,
for ANY well-formed object `b`, the digest a stored confirmation was verified against, then `b` is the object the
confirmation names and `g2` is this chain's gravity id — same kind, same nonce, every field.  A stored signature is never
valid for another chain id, object or nonce. -/
theorem stored_confirm_valid_for_nothing_else (recover : List Nat → List Nat → Option String) (H : List Nat → List Nat)
    (hH : CollisionResistant H) (g : Nat) (hg : g < 2 ^ 256)
    (tops : List TOp) (hok : ∀ t ∈ tops, t.ok = true)
    (hwf : ∀ tok a, TOp.store tok a ∈ tops → a.WF ∧ a.Int64Safe) (e : Entry)
    (he : e ∈ (run recover {} (tops.map (TOp.toOp H g))).confirms)
    (b : AnyObj) (g2 : Nat) (wb : b.WF) (hg2 : g2 < 2 ^ 256) (hcol : contractDigest H g2 b = e.digest) :
    ∃ tok, TOp.store tok b ∈ tops ∧ e.key = keyOf tok b ∧ g2 = g := by
  obtain ⟨tok, a, hin, hk, hd, _, _, _, _⟩ := stored_confirm_usable_on_contract recover H g tops hok e he
  obtain ⟨wa, sa⟩ := hwf tok a hin
  rw [hd, digest_eq_contract_digest H g a sa] at hcol
  have h2 : (solPre b g2).map H = (solPre a g).map H := by
    unfold contractDigest at hcol
    rw [solPre_eq] at hcol ⊢
    rw [solPre_eq] at hcol ⊢
    simpa using hcol
  obtain ⟨hba, hgg⟩ := signatures_never_transplant_contract H hH b a g2 g wb wa hg2 hg h2
  subst hba
  exact ⟨tok, hin, hk, hgg⟩

/-! ## 7. (round 3) WHICH encoder a handler runs — regenerated routes from each handler to a checkpoint encoder -/

/-- read off the Go AST (helpers followed, type switches resolved with the static type of the handler's object variable):
on a tron chain each of the three handlers reaches exactly one encoder — the TRON encoder of ITS OWN object kind — and
on every other chain exactly one — the eth-style `GetCheckpoint` of its own object kind -/
theorem handler_encoder_matches_chain :
    ([true, false].all fun tron => ["oracleSet", "batch", "bridgeCall"].all fun kind =>
      (handlerEncoder tron kind).map (fun p => (p.1, p.2.kind, p.2.method)) ==
        some (tron, kind, (findGo (if tron then tronLayouts else goLayouts) kind).method)) = true := by decide

/-- the address conversion of the layout a handler packs fits the address text of its chain (`HexToAddress` only on
hex text, the tron encoder only on base58 text), so the handler's pre-image is defined and is the encoder's -/
theorem handler_preimage_is_encoder_preimage (tron : Bool) (a : AnyObj) (g : Nat) :
    handlerPreimage tron a.kind a.toObj g = if tron then tronPre a g else goPre a g := by
  have hk : a.kind = "oracleSet" ∨ a.kind = "batch" ∨ a.kind = "bridgeCall" := by cases a <;> simp [AnyObj.kind]
  exact handlerPreimage_eq tron a.kind hk a.toObj g

/-- for EVERY object whose counters fit an int64, every gravity id, on BOTH chain styles: the bytes the confirm handler
hashes (through the encoder the regenerated routes say it runs) are the bytes the bridge contract hashes -/
theorem handler_checkpoint_is_contract_digest (tron : Bool) (a : AnyObj) (g : Nat) (h : a.Int64Safe) :
    handlerPreimage tron a.kind a.toObj g = solPre a g ∧ (solPre a g).isSome := by
  rw [handler_preimage_is_encoder_preimage]
  have ht := tronPre_eq a g
  cases a with
  | oset o =>
    obtain ⟨h1, h2, h3⟩ := checkpoint_bytes_equal_oracleSet o g h
    cases tron <;> simp_all [goPre, tronPre, solPre, AnyObj.kind, AnyObj.toObj]
  | batch b =>
    obtain ⟨h1, h2, h3⟩ := checkpoint_bytes_equal_batch b g h
    cases tron <;> simp_all [goPre, tronPre, solPre, AnyObj.kind, AnyObj.toObj]
  | bcall c =>
    obtain ⟨h1, h2, h3⟩ := checkpoint_bytes_equal_bridgeCall c g h
    cases tron <;> simp_all [goPre, tronPre, solPre, AnyObj.kind, AnyObj.toObj]

/-- and they determine kind, gravity id and every field — across handlers AND across chain styles: what one handler on
one chain verifies a signature against is what another handler on another chain verifies against only for the same object
under the same gravity id -/
theorem handler_checkpoint_injective (t1 t2 : Bool) (a b : AnyObj) (g1 g2 : Nat) (wa : a.WF) (wb : b.WF)
    (hg1 : g1 < 2 ^ 256) (hg2 : g2 < 2 ^ 256)
    (h : handlerPreimage t1 a.kind a.toObj g1 = handlerPreimage t2 b.kind b.toObj g2) : a = b ∧ g1 = g2 := by
  rw [handler_preimage_is_encoder_preimage, handler_preimage_is_encoder_preimage] at h
  have ha := tronPre_eq a g1
  have hb := tronPre_eq b g2
  apply abi_encode_injective a b g1 g2 wa wb hg1 hg2
  cases t1 <;> cases t2 <;> simp_all

/-! ## 8. (round 3) the signed message: what Go hashes before the curve recovery = what `verifySig` hashes -/

/-- `append([]uint8(signaturePrefix), hash...)` (argument list regenerated from `EthAddressFromSignature` and from
`NewEthereumSignature`) is byte for byte `abi.encodePacked("\x19Ethereum Signed Message:\n32", _theHash)` (argument list
regenerated from `verifySig` of every contract variant), for every digest -/
theorem signed_message_go_eq_contract (V : SolVerifySig) (hV : V ∈ solVerifySigs) (d : List Nat) :
    goSigPreimage "EthAddressFromSignature" d = packedBytes V d ∧ goSigPreimage "NewEthereumSignature" d = packedBytes V d ∧
    (packedBytes V d).isSome := by
  rw [packedBytes_eq V hV d, (goSigPreimage_eth d).1, (goSigPreimage_eth d).2]; simp

/-- every contract variant has a verifySig, and the modelled decoder (`recoverVia`, which hashes `prefixOf rule ++ digest`)
hashes exactly the regenerated `append` argument list, on both chain styles -/
theorem decoder_hashes_the_regenerated_message (d : List Nat) :
    solVerifySigs.map (·.file) = solFiles ∧
    goSigPreimage "EthAddressFromSignature" d = some (prefixOf (sigRuleFor false) ++ d) ∧
    goSigPreimage "TronAddressFromSignature" d = some (prefixOf (sigRuleFor true) ++ d) ∧
    goSigPreimage "NewTronSignature" d = goSigPreimage "TronAddressFromSignature" d := by
  refine ⟨by decide, ?_, ?_, ?_⟩
  · rw [prefixOf_eth, (goSigPreimage_eth d).1]
  · rw [prefixOf_tron, (goSigPreimage_tron d).1]
  · rw [(goSigPreimage_tron d).1, (goSigPreimage_tron d).2]

/-- a tron-style signed message is never an eth-style signed message, whatever the digests -/
theorem tron_message_never_eth_message (d1 d2 : List Nat) (hl : d1.length = d2.length) :
    goSigPreimage "TronAddressFromSignature" d1 ≠ goSigPreimage "EthAddressFromSignature" d2 := by
  rw [(goSigPreimage_tron d1).1, (goSigPreimage_eth d2).1]
  intro h
  have := congrArg (fun o => o.map List.length) h
  simp [tronSignPrefix, goSignPrefix] at this
  omega

/-- ACCEPTED ⇒ USABLE (signature level).  `ecr` is the curve recovery (opaque; ONE function for go-ethereum's `SigToPub`
and for the contract's `ecrecover` precompile — trusted base), `render` / `parse` the address text (`addr.Hex()` /
`HexToAddress`, `parse (render a) = a`).  If `EthAddressFromSignature` (length guard and recovery-byte normalisation with
the regenerated constants) recovers the registered address text `ext` over `digest`, then the signature has exactly 65
bytes, its normalised recovery byte is below 4, and — when it is 0 or 1 — `verifySig` of EVERY contract variant, as its
source spells it, returns true for signer `parse ext`, that digest, `v = 27 + recovery byte`, `r = sig[0:32]`,
`s = sig[32:64]`.  `_partial`: a recovery byte of 2 or 3 (x-coordinate overflow, probability ≈ 2^-127 for honest signatures,
not constructible) is accepted by go-ethereum's `SigToPub` and not by the precompile — see `recovery_id_above_1_not_usable`. -/
theorem accepted_signature_passes_contract_verifySig_partial (V : SolVerifySig) (hV : V ∈ solVerifySigs)
    (H : List Nat → List Nat) (ecr : List Nat → Nat → List Nat → List Nat → Option Nat) (render : Nat → String)
    (parse : String → Nat) (hpr : ∀ a, parse (render a) = a) (digest sig : List Nat) (ext : String)
    (h : recoverVia (sigRuleFor false) H (goEc ecr render) digest sig = some ext) :
    sig.length = 65 ∧ normV (sig.getD 64 0) < 4 ∧
    (normV (sig.getD 64 0) < 2 →
      solVerifySig V H ecr (parse ext) digest (normV (sig.getD 64 0) + 27) (sig.take 32) ((sig.drop 32).take 32) = true) :=
  go_accept_implies_verifySig V hV H ecr render parse hpr digest sig ext h

/-- the hypothesis above is needed: with any `v` outside {27, 28} `verifySig` is false for every non-zero signer -/
theorem recovery_id_above_1_not_usable (V : SolVerifySig) (hV : V ∈ solVerifySigs) (H : List Nat → List Nat)
    (ecr : List Nat → Nat → List Nat → List Nat → Option Nat) (signer : Nat) (hs : signer ≠ 0) (digest : List Nat)
    (v : Nat) (hv : v ≠ 27 ∧ v ≠ 28) (r s : List Nat) : solVerifySig V H ecr signer digest v r s = false := by
  rw [solVerifySig_eq V hV]
  simp [solEcrecover, hv.1, hv.2, Ne.symm hs]

/-- USABLE ⇒ ACCEPTED: what `verifySig` of any contract variant accepts for a non-zero signer (32-byte `r`, `s`) is
accepted by `EthAddressFromSignature` as the 65-byte string `r ‖ s ‖ v` for that signer's address text -/
theorem contract_verified_signature_is_accepted (V : SolVerifySig) (hV : V ∈ solVerifySigs) (H : List Nat → List Nat)
    (ecr : List Nat → Nat → List Nat → List Nat → Option Nat) (render : Nat → String)
    (signer : Nat) (hs : signer ≠ 0) (digest : List Nat) (v : Nat) (r s : List Nat) (hr : r.length = 32) (hsl : s.length = 32)
    (h : solVerifySig V H ecr signer digest v r s = true) :
    (v = 27 ∨ v = 28) ∧ recoverVia (sigRuleFor false) H (goEc ecr render) digest (r ++ s ++ [v]) = some (render signer) :=
  verifySig_implies_go_accept V hV H ecr render signer hs digest v r s hr hsl h

/-! ## 9. (round 3) the contract's quorum check over stored confirmations -/

/-- `checkOracleSignatures` of every contract variant is the modelled loop (guard `_v[i] != 0`, `require(verifySig(
_currentOracles[i], _theHash, _v[i], _r[i], _s[i]))`, power accumulation, early exit and final `require` on
`cumulativePower > _powerThreshold`) -/
theorem sol_check_sigs_as_modelled :
    solCheckSigs.all checkSigsAsModelled = true ∧ solCheckSigs.map (·.file) = solFiles := by decide

/-- every entry point that checks signatures (`updateOracleSet`, `submitBatch`, `verifySubmitBridgeCall` of every variant)
hands `checkOracleSignatures` the caller's oracle set and signature arrays, the contract's own threshold, and as hash one of
the three digests whose `abi.encode` argument list is in `solSites` (sections 1–2), under the contract's own bridge id -/
theorem contract_entry_points_check_the_three_digests :
    solEntries.all entryOk = true ∧
    solEntries.map (fun e => (e.file, e.func, kindOfFunc e.hashFn)) = [
      ("FxBridgeLogic.sol", "updateOracleSet", some "oracleSet"), ("FxBridgeLogic.sol", "submitBatch", some "batch"),
      ("FxBridgeLogic.sol", "verifySubmitBridgeCall", some "bridgeCall"),
      ("FxBridgeLogicETH.sol", "updateOracleSet", some "oracleSet"), ("FxBridgeLogicETH.sol", "submitBatch", some "batch"),
      ("FxBridgeLogicETH.sol", "verifySubmitBridgeCall", some "bridgeCall"),
      ("FxBridgeLogicBSC.sol", "updateOracleSet", some "oracleSet"), ("FxBridgeLogicBSC.sol", "submitBatch", some "batch")] := by
  decide

/-- the loop counts only verified signatures: if `checkOracleSignatures` passes, a sub-list of the submitted slots, each
with `v ≠ 0` and a signature `verify` accepts, carries more power than the threshold — for every slot list and threshold -/
theorem checkOracleSignatures_counts_only_verified (verify : SigSlot → Bool) (thr : Nat) (slots : List SigSlot)
    (h : checkOracleSignatures verify thr slots = true) :
    ∃ counted : List SigSlot, counted.Sublist slots ∧ (∀ sl ∈ counted, sl.v ≠ 0 ∧ verify sl = true) ∧
      (counted.map (·.power)).sum > thr := by
  unfold checkOracleSignatures at h
  cases hc : checkSigsLoop verify thr slots 0 with
  | none => simp [hc] at h
  | some c =>
    simp only [hc, decide_eq_true_eq] at h
    obtain ⟨ct, h1, h2, h3⟩ := checkSigsLoop_sound verify thr slots 0 c hc
    exact ⟨ct, h1, h2, by omega⟩

/-- … and accepts every quorum of verifiable signatures: if every submitted slot (`v ≠ 0`) verifies and the submitted
slots carry more power than the threshold, `checkOracleSignatures` passes -/
theorem checkOracleSignatures_accepts_verified_quorum (verify : SigSlot → Bool) (thr : Nat) (slots : List SigSlot)
    (hall : ∀ sl ∈ slots, sl.v ≠ 0 → verify sl = true)
    (hq : ((slots.filter (fun sl => sl.v != 0)).map (·.power)).sum > thr) :
    checkOracleSignatures verify thr slots = true := by
  obtain ⟨c, h1, h2⟩ := checkSigsLoop_complete verify thr slots 0 hall
  unfold checkOracleSignatures
  rw [h1]
  rcases h2 with h2 | h2 <;> simp <;> omega

/-- what the relayer submits for a stored confirmation: the oracle's address, its power in the current oracle set,
`v = 27 + normalised recovery byte`, `r`, `s` split off the stored signature -/
def relayerSlot (parse : String → Nat) (power : Nat) (e : Entry) : SigSlot :=
  ⟨parse e.external, power, normV (e.sig.getD 64 0) + 27, e.sig.take 32, (e.sig.drop 32).take 32⟩

/-- END TO END (eth-style chain, round 3).  After ANY sequence of typed object stores, registry writes, confirms and
prunings on a chain with gravity id `g` whose handler recovers through `EthAddressFromSignature`: every stored
confirmation `e` names a stored object `a`, and — when `a`'s counters fit an int64 and the recovery byte is 0/1/27/28 —
`verifySig` of every contract variant accepts the relayer's slot for `e` over the digest the contract recomputes for `a`. -/
theorem stored_confirm_passes_contract_verifySig_partial (V : SolVerifySig) (hV : V ∈ solVerifySigs)
    (H : List Nat → List Nat) (ecr : List Nat → Nat → List Nat → List Nat → Option Nat) (render : Nat → String)
    (parse : String → Nat) (hpr : ∀ a, parse (render a) = a) (g : Nat)
    (tops : List TOp) (hok : ∀ t ∈ tops, t.ok = true) (e : Entry)
    (he : e ∈ (run (recoverVia (sigRuleFor false) H (goEc ecr render)) {} (tops.map (TOp.toOp H g))).confirms) :
    ∃ tok a, TOp.store tok a ∈ tops ∧ e.key = keyOf tok a ∧ e.sig.length = 65 ∧
      (a.Int64Safe → normV (e.sig.getD 64 0) < 2 → ∀ power,
        let sl := relayerSlot parse power e
        solVerifySig V H ecr sl.oracle (contractDigest H g a) sl.v sl.r sl.s = true) := by
  obtain ⟨tok, a, hin, hk, _, hrec, _, _, husable⟩ := stored_confirm_usable_on_contract _ H g tops hok e he
  obtain ⟨h65, _, _⟩ := go_accept_implies_verifySig V hV H ecr render parse hpr _ _ _ hrec
  refine ⟨tok, a, hin, hk, h65, fun hs hv power => ?_⟩
  exact (go_accept_implies_verifySig V hV H ecr render parse hpr _ _ _ (husable hs)).2.2 hv

/-- … so a QUORUM of stored confirmations executes: if the relayer fills the slots of the current oracle set with stored
confirmations of one int64-safe object `a` (empty slots have `v = 0`) whose powers exceed the threshold,
`checkOracleSignatures` over the digest the contract recomputes for `a` passes -/
theorem stored_quorum_passes_checkOracleSignatures_partial (V : SolVerifySig) (hV : V ∈ solVerifySigs)
    (H : List Nat → List Nat) (ecr : List Nat → Nat → List Nat → List Nat → Option Nat) (render : Nat → String)
    (parse : String → Nat) (hpr : ∀ a, parse (render a) = a) (g : Nat)
    (tops : List TOp) (hok : ∀ t ∈ tops, t.ok = true) (tok : String) (a : AnyObj) (hs : a.Int64Safe)
    (hnodup : ∀ tok' a', TOp.store tok' a' ∈ tops → keyOf tok' a' = keyOf tok a → a' = a)
    (slots : List SigSlot) (thr : Nat)
    (hslots : ∀ sl ∈ slots, sl.v ≠ 0 → ∃ e power,
      e ∈ (run (recoverVia (sigRuleFor false) H (goEc ecr render)) {} (tops.map (TOp.toOp H g))).confirms ∧
      e.key = keyOf tok a ∧ normV (e.sig.getD 64 0) < 2 ∧ sl = relayerSlot parse power e)
    (hq : ((slots.filter (fun sl => sl.v != 0)).map (·.power)).sum > thr) :
    checkOracleSignatures (fun sl => solVerifySig V H ecr sl.oracle (contractDigest H g a) sl.v sl.r sl.s) thr slots = true := by
  apply checkOracleSignatures_accepts_verified_quorum _ _ _ _ hq
  intro sl hsl hv
  obtain ⟨e, power, he, hk, hn, rfl⟩ := hslots sl hsl hv
  obtain ⟨tok', a', hin, hk', _, hver⟩ := stored_confirm_passes_contract_verifySig_partial V hV H ecr render parse hpr g tops hok e he
  have : a' = a := hnodup tok' a' hin (by rw [← hk', hk])
  subst this
  exact hver hs hn power

/-! ## 10. (round 3) `ValidateConfirmSign` as the source spells it: the regenerated statement list, interpreted -/

/-- the statement list of `ValidateConfirmSign` (regenerated from the AST: the hex decoding, the two registry reads with
their `!found` exits, the external-address and bridger comparisons, the branch on the chain and the validator call in each
branch, the return), interpreted statement by statement, IS the specified validation — for every registry, message and
digest and whatever the two validators do; on a tron chain the tron validator decides, on every other chain the eth one -/
theorem validate_program_is_specified (tron : Bool) (recoverBy : String → List Nat → List Nat → Option String) (st : HState)
    (m : ConfirmMsg) (digest : List Nat) :
    vRun tron recoverBy st m digest validateProg {} = validateSpec (recoverBy (validatorOf tron)) st m digest :=
  vRun_validateProg tron recoverBy st m digest

/-- the handler the driver runs — key plan AND validation statement list both regenerated — is `confirmStep`, so all the
results of sections 4–6 are about it -/
theorem fully_generated_handler_is_specified (tron : Bool) (recoverBy : String → List Nat → List Nat → Option String)
    (st : HState) (m : ConfirmMsg) :
    confirmStepGV tron recoverBy st m = confirmStep (recoverBy (validatorOf tron)) st m := by
  unfold confirmStepGV
  rw [confirmStepPV_eq_confirmStepP]
  exact generated_handler_is_specified _ st m

/-- each validator calls its own decoder (regenerated), whose rule is the one of its chain style: the tron validator
recovers under the TRON signed-message prefix, the eth validator under the Ethereum one -/
theorem validators_use_their_decoders :
    validateDecoders = [("types.ValidateEthereumSignature", "EthAddressFromSignature"),
      ("trontypes.ValidateTronSignature", "TronAddressFromSignature")] ∧
    ruleOfValidator (validatorOf false) = sigRuleFor false ∧ ruleOfValidator (validatorOf true) = sigRuleFor true ∧
    validateParams = ["ctx", "bridgerAddr", "signatureAddr", "signature", "checkpoint"] := by decide

/-! ## 11. (round 3) genesis import of stored confirmations — since fix `f8fe09e` `InitGenesis` files them by EXTERNAL address -/

/-- the comparison `InitGenesis` had before fix `f8fe09e`: by bridger account -/
def bridgerCmp (list : String) : String × String × String × String × String :=
  (list, "confirm.BridgerAddress", "==", "oracle.BridgerAddress",
    if list = "BatchConfirms" then "SetBatchConfirm" else "SetOracleSetConfirm")

/-- what the source compares (regenerated): both imported confirmation lists are filed under the oracle whose registered
EXTERNAL address equals the confirmation's — the key its signature verifies under (fix `f8fe09e`; before it the comparison
was by bridger account, see `genesis_import_misfiles`) -/
theorem genesis_import_matches_by_external :
    genesisConfirmMatch = [("BatchConfirms", "confirm.ExternalAddress", "==", "oracle.ExternalAddress", "SetBatchConfirm"),
      ("OracleSetConfirms", "confirm.ExternalAddress", "==", "oracle.ExternalAddress", "SetOracleSetConfirm")] := by decide

/-- `_partial` (the comparison BEFORE fix `f8fe09e`, kept as the record of what was provable of it): while no bridger account has changed hands — the oracle the confirmation is stored under is still registered
with the bridger the confirmation was submitted from, and bridger accounts are unique in the registry — the import files a
stored confirmation under exactly its own oracle.  Missing for the full statement: bridger accounts DO change hands
(`MsgUnbondedOracle` + `MsgBondedOracle`, `EditBridger`), see `genesis_import_misfiles` -/
theorem genesis_import_keeps_owner_partial (list : String) (hl : list = "BatchConfirms" ∨ list = "OracleSetConfirms")
    (oracles : List (Nat × OracleRec)) (e : Entry) (r : OracleRec)
    (hkeys : (oracles.map (·.1)).Nodup) (hmem : (e.oracle, r) ∈ oracles) (hb : r.bridger = e.bridger)
    (huniq : ∀ p ∈ oracles, p.2.bridger = e.bridger → p.1 = e.oracle) :
    importOwners (bridgerCmp list) oracles e = [e.oracle] := by
  have hm : ∀ p : Nat × OracleRec, genesisMatches (bridgerCmp list) e p.2 = (e.bridger == p.2.bridger) := by
    intro p; simp [bridgerCmp, genesisMatches, genesisSideC, genesisSideO]
  unfold importOwners
  simp only [hm]
  induction oracles with
  | nil => simp at hmem
  | cons p rest ih =>
    simp only [List.map_cons, List.nodup_cons] at hkeys
    by_cases hp : p = (e.oracle, r)
    · subst hp
      have hrest : rest.filter (fun q => e.bridger == q.2.bridger) = [] := by
        rw [List.filter_eq_nil_iff]
        intro q hq hqb
        have := huniq q (by simp [hq]) (by simpa using (beq_iff_eq.1 hqb).symm)
        exact hkeys.1 (by rw [← this]; exact List.mem_map_of_mem (f := (·.1)) hq)
      simp [List.filter_cons, hb, hrest]
    · have hmem' : (e.oracle, r) ∈ rest := by
        rcases List.mem_cons.1 hmem with h | h
        · exact absurd h.symm hp
        · exact h
      have hne : ¬ (e.bridger == p.2.bridger) = true := by
        intro hqb
        have h1 := huniq p (by simp) (by simpa using (beq_iff_eq.1 hqb).symm)
        exact hkeys.1 (by rw [h1]; exact List.mem_map_of_mem (f := (·.1)) hmem')
      simp only [List.filter_cons, hne, if_false]
      exact ih hkeys.2 hmem' (fun q hq => huniq q (by simp [hq]))

/-- the full statement was FALSE of the code before fix `f8fe09e` (comparison by bridger account): a registry and a stored confirmation (oracle 1 confirmed from bridger
"X"; oracle 1 is gone, oracle 2 registered with bridger "X" and its own external key) for which the import files the
confirmation under oracle 2 — an oracle whose external address is not the confirmation's (replayed on the real keeper by the
harness: `genesisBridgerReuse`, fixes/C12-genesis-confirm-owner.md) — while matching by external address files it nowhere -/
theorem genesis_import_misfiles :
    let e : Entry := ⟨.oracleSet 7, 1, "X", "extA", [9], [1, 2, 3], ⟨"X", "extA"⟩⟩
    let registry : List (Nat × OracleRec) := [(2, ⟨"X", "extB"⟩)]
    importOwners (bridgerCmp "OracleSetConfirms") registry e = [2] ∧
    (registry.lookup 2).map (·.external) ≠ some e.external ∧
    importOwners (genesisCmpOf "OracleSetConfirms") registry e = [] := by
  decide

/-- with the repair (match by external address) the owner is right whatever happened to the bridger accounts: external
addresses are unique in the registry and an oracle's record keeps its external address -/
theorem genesis_import_by_external_keeps_owner (list store : String) (oracles : List (Nat × OracleRec)) (e : Entry)
    (huniq : ∀ p ∈ oracles, p.2.external = e.external → p.1 = e.oracle) :
    ∀ o ∈ importOwners (list, "confirm.ExternalAddress", "==", "oracle.ExternalAddress", store) oracles e, o = e.oracle := by
  intro o ho
  simp only [importOwners, List.mem_map, List.mem_filter] at ho
  obtain ⟨p, ⟨hp, hm⟩, rfl⟩ := ho
  apply huniq p hp
  simp [genesisMatches, genesisSideC, genesisSideO] at hm
  exact hm.symm

/-- FULL statement, over the comparison regenerated from the source as it is now: for both imported lists and every exported
registry in which external addresses are unique (the registry invariant, `Props/C13.registry_bijective`), whatever happened
to the bridger accounts, `InitGenesis` files a stored confirmation under no oracle other than its own -/
theorem genesis_import_keeps_owner (list : String) (hl : list = "BatchConfirms" ∨ list = "OracleSetConfirms")
    (oracles : List (Nat × OracleRec)) (e : Entry)
    (huniq : ∀ p ∈ oracles, p.2.external = e.external → p.1 = e.oracle) :
    ∀ o ∈ importOwners (genesisCmpOf list) oracles e, o = e.oracle := by
  have hc : genesisCmpOf list = (list, "confirm.ExternalAddress", "==", "oracle.ExternalAddress",
      if list = "BatchConfirms" then "SetBatchConfirm" else "SetOracleSetConfirm") := by
    rcases hl with rfl | rfl <;> decide
  rw [hc]
  exact genesis_import_by_external_keeps_owner _ _ oracles e huniq

/-- … and it does file it under its own oracle when that oracle is still registered with the external address it confirmed
with (records keep their external address) -/
theorem genesis_import_files_under_owner (list : String) (hl : list = "BatchConfirms" ∨ list = "OracleSetConfirms")
    (oracles : List (Nat × OracleRec)) (e : Entry) (r : OracleRec)
    (hmem : (e.oracle, r) ∈ oracles) (hx : r.external = e.external) :
    e.oracle ∈ importOwners (genesisCmpOf list) oracles e := by
  have hc : genesisCmpOf list = (list, "confirm.ExternalAddress", "==", "oracle.ExternalAddress",
      if list = "BatchConfirms" then "SetBatchConfirm" else "SetOracleSetConfirm") := by
    rcases hl with rfl | rfl <;> decide
  rw [hc]
  simp only [importOwners, List.mem_map, List.mem_filter]
  exact ⟨(e.oracle, r), ⟨hmem, by simp [genesisMatches, genesisSideC, genesisSideO, hx]⟩, rfl⟩

/-! ## 12. (round 4) the gravity id: `fxtypes.StrToByte32` as the source spells it, and what `Params.ValidateBasic` admits -/

section GravityId
open FxVerif.Gen.C12Env

/-- the body of `StrToByte32` (regenerated) is the shape the interpreter `strToByte32By` understands: a 32-byte array, the
byte length of the text compared with `> 32`, `copy` of the text into the whole array -/
theorem str_to_byte32_as_modelled :
    str32Modelled str32 = true ∧ str32.arrayLen = 32 ∧ str32.guardOp = ">" ∧ str32.guardBound = 32 := by decide

/-- for EVERY text: the function errs exactly above 32 bytes; otherwise it yields the text right-padded with zero bytes to
32 bytes, whose big-endian value (the `bytes32` word the checkpoint packs) is below 2^256 — the hypothesis `g < 2 ^ 256` of the
injectivity theorems of section 3 holds for every gravity id the code can pack -/
theorem gravity_id_word_defined (s : List Nat) (hb : Bytes s) :
    ((gidWord s).isSome ↔ s.length ≤ 32) ∧
    ∀ w, gidWord s = some w → w = fromBE (s ++ List.replicate (32 - s.length) 0) ∧ w < 2 ^ 256 := by
  refine ⟨?_, fun w h => (gidWord_some s hb w h).2⟩
  unfold gidWord
  rw [strToByte32_eq]
  by_cases h : s.length > 32 <;> simp [h] <;> omega

/-- `_partial`: two gravity-id texts WITHOUT a trailing NUL byte that are packed as the same word are the same text.  Missing
for the full statement: the zero padding cannot be told from trailing NUL bytes of the text (`gravity_id_padding_collides`) -/
theorem gravity_id_word_injective_partial (s t : List Nat) (hs : Bytes s) (ht : Bytes t)
    (ns : NoTrailingNul s) (nt : NoTrailingNul t) (w : Nat) (h1 : gidWord s = some w) (h2 : gidWord t = some w) : s = t :=
  gidWord_inj s t hs ht ns nt w h1 h2

/-- the two checks `Params.ValidateBasic` makes on a gravity id (regenerated): not empty, and `StrToByte32` succeeds -/
theorem params_gravity_id_checks :
    gidParamChecks = [("len(m.GravityId) == 0", "failIf"), ("fxtypes.StrToByte32(m.GravityId)", "failIfErr:err != nil")] := by
  decide

/-- so a gravity id the parameters may hold is 1..32 bytes and has a word below 2^256 -/
theorem valid_gravity_id_has_word (s : List Nat) (hb : Bytes s) (h : gidParamValid s = true) :
    s ≠ [] ∧ s.length ≤ 32 ∧ ∃ w, gidWord s = some w ∧ w < 2 ^ 256 := by
  obtain ⟨h1, h2⟩ := (gidParamValid_iff s).1 h
  have hw : (gidWord s).isSome := by simpa [gidWord] using h2
  obtain ⟨w, hw⟩ := Option.isSome_iff_exists.1 hw
  exact ⟨h1, (gidWord_some s hb w hw).1, w, hw, (gidWord_some s hb w hw).2.2⟩

/-- the hypothesis of `gravity_id_word_injective_partial` is needed AND parameter validation does not supply it: "x" and
"x\0" are different texts, both accepted by `Params.ValidateBasic`, and packed as the same `bytes32` — two chains configured
with them share every checkpoint (as do two chains configured with the same text: nothing in the code keeps the gravity ids
of different chains apart; it is the `bytes32`, the contract's `state_fxBridgeId`, that is the chain id of the property) -/
theorem gravity_id_padding_collides :
    gidWord [120] = gidWord [120, 0] ∧ (gidWord [120]).isSome ∧ gidParamValid [120] = true ∧ gidParamValid [120, 0] = true := by
  decide

/-- the method tags of all six layouts are `StrToByte32` (as regenerated) of the tag texts in the Go source -/
theorem method_tags_via_str_to_byte32 :
    ((goLayouts ++ tronLayouts).all fun L => L.args.all fun a =>
      match a.src with | .tag t w => gidWord (t.toList.map Char.toNat) == some w | _ => true) = true := by decide

/-- SIGNATURES NEVER TRANSPLANT, stated over what the parameters hold: for any two gravity-id TEXTS that parameter
validation admits (chains, or one chain before and after a parameter change), under Keccak collision resistance, equal
checkpoints of two well-formed objects imply the same object AND the same `bytes32` chain id — and the same text whenever
neither text ends in a NUL byte.  No `g < 2 ^ 256` hypothesis: it is derived from the regenerated `StrToByte32`. -/
theorem signatures_never_transplant_gravity_id_texts (H : List Nat → List Nat) (hH : CollisionResistant H) (a b : AnyObj)
    (s1 s2 : List Nat) (wa : a.WF) (wb : b.WF) (hb1 : Bytes s1) (hb2 : Bytes s2)
    (v1 : gidParamValid s1 = true) (v2 : gidParamValid s2 = true)
    (h : (goPre a ((gidWord s1).getD 0)).map H = (goPre b ((gidWord s2).getD 0)).map H) :
    a = b ∧ gidWord s1 = gidWord s2 ∧ (NoTrailingNul s1 → NoTrailingNul s2 → s1 = s2) := by
  obtain ⟨_, _, w1, hw1, hl1⟩ := valid_gravity_id_has_word s1 hb1 v1
  obtain ⟨_, _, w2, hw2, hl2⟩ := valid_gravity_id_has_word s2 hb2 v2
  rw [hw1, hw2] at h
  simp only [Option.getD_some] at h
  obtain ⟨hab, hw⟩ := signatures_never_transplant H hH a b w1 w2 wa wb hl1 hl2 h
  subst hw
  exact ⟨hab, by rw [hw1, hw2], fun n1 n2 => gidWord_inj s1 s2 hb1 hb2 n1 n2 w1 hw1 hw2⟩

/-- END TO END over gravity-id TEXTS (section 6 restated without any numeric bound): on a chain whose parameters hold the
admitted text `s`, after ANY sequence of typed object stores, registry writes, confirms and prunings, if the contract of a chain
configured with ANY admitted text `s2` recomputes for ANY well-formed object `b` the digest a stored confirmation was verified
against, then `b` is the stored object the confirmation names and `s2` is packed as the same `bytes32` as `s` (and is the same
text when neither ends in a NUL byte) -/
theorem stored_confirm_valid_for_no_other_chain_text (recover : List Nat → List Nat → Option String) (H : List Nat → List Nat)
    (hH : CollisionResistant H) (s s2 : List Nat) (hs : Bytes s) (hs2 : Bytes s2)
    (v : gidParamValid s = true) (v2 : gidParamValid s2 = true)
    (tops : List TOp) (hok : ∀ t ∈ tops, t.ok = true)
    (hwf : ∀ tok a, TOp.store tok a ∈ tops → a.WF ∧ a.Int64Safe) (e : Entry)
    (he : e ∈ (run recover {} (tops.map (TOp.toOp H ((gidWord s).getD 0)))).confirms)
    (b : AnyObj) (wb : b.WF) (hcol : contractDigest H ((gidWord s2).getD 0) b = e.digest) :
    ∃ tok, TOp.store tok b ∈ tops ∧ e.key = keyOf tok b ∧ gidWord s2 = gidWord s ∧
      (NoTrailingNul s → NoTrailingNul s2 → s2 = s) := by
  obtain ⟨_, _, w, hw, hl⟩ := valid_gravity_id_has_word s hs v
  obtain ⟨_, _, w2, hw2, hl2⟩ := valid_gravity_id_has_word s2 hs2 v2
  rw [hw] at he
  rw [hw2] at hcol
  simp only [Option.getD_some] at he hcol
  obtain ⟨tok, h1, h2, h3⟩ := stored_confirm_valid_for_nothing_else recover H hH w hl tops hok hwf e he b w2 wb hl2 hcol
  subst h3
  exact ⟨tok, h1, h2, by rw [hw, hw2], fun n n2 => gidWord_inj s2 s hs2 hs n2 n w2 hw2 hw⟩

end GravityId

/-! ## 13. (round 4) where the `int64`-cast fields come from: `CalExternalTimeoutHeight`, the builders, the counters -/

section Provenance
open FxVerif.Gen.C12Env

/-- `CalExternalTimeoutHeight` (statement list and expression trees regenerated from the AST, interpreted with wrapping
`uint64` arithmetic) IS the closed form, for all inputs with a non-zero external block time -/
theorem timeout_program_is_formula (i : TIn) (h : i.avgExt ≠ 0) : calTimeout i = some (timeoutFormula i) :=
  calTimeout_eq i h

/-- the external block time `Params.ValidateBasic` admits is at least 100 (regenerated bound) -/
theorem params_external_block_time_at_least_100 (v : Nat) (h : paramRejects "AverageExternalBlockTime" v = false) : 100 ≤ v := by
  rw [paramRejects_avgExt] at h
  simpa using h

/-- a timeout the code computes fits an `int64` — for EVERY current height, recorded height, block time and timeout
parameter (every wrap-around of the intermediate `uint64` values included) — whenever the last observed external height is
below 2^62 and the parameters passed validation.  The one input that can push a timeout to 2^63 is an attested external
block height of that size (`timeout_exceeds_int64_for_huge_height`) -/
theorem timeout_fits_int64 (i : TIn) (hp : paramRejects "AverageExternalBlockTime" i.avgExt = false)
    (hext : i.extHeight < 2 ^ 62) (ht : i.timeout < 2 ^ 64) : ∃ v, calTimeout i = some v ∧ v < 2 ^ 63 := by
  have h100 := params_external_block_time_at_least_100 _ hp
  exact ⟨_, calTimeout_eq i (by omega), timeoutFormula_lt i hext h100 ht⟩

/-- the hypothesis on the external height is needed -/
theorem timeout_exceeds_int64_for_huge_height :
    ∃ v, calTimeout ⟨10, 5, 2 ^ 63, 1000, 1000, 100000⟩ = some v ∧ 2 ^ 63 ≤ v := by
  refine ⟨_, calTimeout_eq _ (by decide), ?_⟩
  decide

/-- where the builders take the fields the checkpoints cast to `int64` from (composite literals, local definitions and
guards regenerated): nonces from `autoIncrementID` counters, timeouts from `CalExternalTimeoutHeight` with the callback of
their own parameter and an exit when it is `<= 0`, the bridge call's event nonce from the caller; the oracle-set nonce is the
latest nonce + 1, recorded as the latest by `AddOracleSetRequest` -/
theorem builders_provenance :
    fieldSrc (builderOf "BuildOutgoingTxBatch") "BatchNonce" = .counter "types.KeyLastOutgoingBatchID" ∧
    fieldSrc (builderOf "BuildOutgoingTxBatch") "BatchTimeout" = .timeoutOf "GetExternalBatchTimeout" ∧
    (builderOf "BuildOutgoingTxBatch").guards = ["batchTimeout <= 0"] ∧
    fieldSrc (builderOf "BuildOutgoingBridgeCall") "Nonce" = .counter "types.KeyLastBridgeCallID" ∧
    fieldSrc (builderOf "BuildOutgoingBridgeCall") "Timeout" = .timeoutOf "GetBridgeCallTimeout" ∧
    fieldSrc (builderOf "BuildOutgoingBridgeCall") "EventNonce" = .param "eventNonce" ∧
    (builderOf "BuildOutgoingBridgeCall").guards = ["bridgeCallTimeout <= 0"] ∧
    timeoutCallbacks = [("GetBridgeCallTimeout", "params.BridgeCallTimeout"), ("GetExternalBatchTimeout", "params.ExternalBatchTimeout")] ∧
    fieldSrc (builderOf "NewOracleSet") "Nonce" = .param "nonce" ∧
    oracleSetReturn = "types.NewOracleSet(oracleSetNonce, uint64(ctx.BlockHeight()), bridgeValidators)" ∧
    oracleSetLocals.lookup "oracleSetNonce" = some "k.GetLatestOracleSetNonce(ctx) + 1" ∧
    addOracleSetRequest = ["if len(currentOracleSet.Members) == 0", "StoreOracleSet(currentOracleSet)",
      "SetLatestOracleSetNonce(currentOracleSet.Nonce)", "SetLastTotalPower()"] := by decide

/-- `autoIncrementID` (regenerated): returns the stored id (1 when nothing is stored) and stores id + 1 — so the ids any run
of calls returns are pairwise different (object keys are never reused) and count up from the stored value, as long as the
counter stays below 2^64 -/
theorem counter_ids_never_repeat (n c : Nat) (h : c + n < 2 ^ 64) :
    autoIncr.default = 1 ∧ autoIncr.inc = 1 ∧ autoIncr.ret = autoIncr.incOf ∧
    (drawIds n (some c)).Nodup ∧ ∀ id ∈ drawIds n (some c), c ≤ id ∧ id < c + n :=
  ⟨autoIncr_consts.1, autoIncr_consts.2.1, autoIncr_consts.2.2, drawIds_nodup n c h⟩

/-- the power normalisation of `GetCurrentOracleSet` (method chain regenerated: `NewUint(power).MulUint64(math.MaxUint32)
.QuoUint64(totalPower).Uint64()`): every member of every power list whose sum does not wrap gets a power of at most
`math.MaxUint32`, far inside an `int64` -/
theorem normalised_powers_fit_int64 (ps : List Nat) (p : Nat) (hp : p ∈ ps) (h0 : ps.sum ≠ 0) :
    ∃ v, normPower p ps.sum = some v ∧ v ≤ 4294967295 ∧ v < 2 ^ 63 := by
  obtain ⟨v, h1, h2⟩ := normPower_le p ps.sum (mem_le_sum ps p hp) h0
  exact ⟨v, h1, h2, by omega⟩

/-- the environment of a builder call is *ordinary*: counters below 2^63, the last observed external height below 2^62, the
parameters validated, the caller's numeric arguments (the event nonce of an attested claim: a counter) below 2^63 -/
def OrdinaryEnv (e : BuildEnv) : Prop :=
  (∀ k, (autoIncrStep (e.counter k)).1 < 2 ^ 63) ∧
  (∀ cb, (e.tin cb).extHeight < 2 ^ 62 ∧ paramRejects "AverageExternalBlockTime" (e.tin cb).avgExt = false ∧ (e.tin cb).timeout < 2 ^ 64) ∧
  ∀ p, e.par p < 2 ^ 63

/-- every `int64`-cast field of a batch / bridge call the builders produce in an ordinary environment fits an `int64` -/
theorem built_numeric_fields_fit_int64 (e : BuildEnv) (he : OrdinaryEnv e) (fn field : String)
    (hf : (fn, field) ∈ [("BuildOutgoingTxBatch", "BatchNonce"), ("BuildOutgoingTxBatch", "BatchTimeout"),
      ("BuildOutgoingBridgeCall", "Nonce"), ("BuildOutgoingBridgeCall", "Timeout"), ("BuildOutgoingBridgeCall", "EventNonce")]) :
    ∃ v, evalSrc e (fieldSrc (builderOf fn) field) = some v ∧ v < 2 ^ 63 := by
  obtain ⟨hc, htm, hpar⟩ := he
  obtain ⟨p1, p2, _, p4, p5, p6, _⟩ := builders_provenance
  simp only [List.mem_cons, Prod.mk.injEq, List.mem_nil_iff, or_false] at hf
  rcases hf with ⟨rfl, rfl⟩ | ⟨rfl, rfl⟩ | ⟨rfl, rfl⟩ | ⟨rfl, rfl⟩ | ⟨rfl, rfl⟩
  · rw [p1]; exact ⟨_, rfl, hc _⟩
  · rw [p2]; obtain ⟨a, b, c⟩ := htm "GetExternalBatchTimeout"; exact timeout_fits_int64 _ b a c
  · rw [p4]; exact ⟨_, rfl, hc _⟩
  · rw [p5]; obtain ⟨a, b, c⟩ := htm "GetBridgeCallTimeout"; exact timeout_fits_int64 _ b a c
  · rw [p6]; exact ⟨_, rfl, hpar _⟩

/-- END TO END without the `Int64Safe` hypothesis, for objects the code builds: a bridge call whose nonce, timeout and event
nonce are what `BuildOutgoingBridgeCall` assigns in an ordinary environment is hashed by the confirm handler of either chain
style to exactly the bytes the bridge contract hashes, for every gravity id and every other field -/
theorem built_bridge_call_checkpoint_is_contract_digest (tron : Bool) (e : BuildEnv) (he : OrdinaryEnv e) (c : BridgeCall) (g : Nat)
    (hn : evalSrc e (fieldSrc (builderOf "BuildOutgoingBridgeCall") "Nonce") = some c.nonce)
    (ht : evalSrc e (fieldSrc (builderOf "BuildOutgoingBridgeCall") "Timeout") = some c.timeout)
    (hv : evalSrc e (fieldSrc (builderOf "BuildOutgoingBridgeCall") "EventNonce") = some c.eventNonce) :
    handlerPreimage tron "bridgeCall" c.toObj g = solPre (.bcall c) g ∧ (solPre (.bcall c) g).isSome := by
  have f := fun fld hf => built_numeric_fields_fit_int64 e he "BuildOutgoingBridgeCall" fld hf
  obtain ⟨v1, a1, b1⟩ := f "Nonce" (by simp)
  obtain ⟨v2, a2, b2⟩ := f "Timeout" (by simp)
  obtain ⟨v3, a3, b3⟩ := f "EventNonce" (by simp)
  rw [hn] at a1; rw [ht] at a2; rw [hv] at a3
  cases a1; cases a2; cases a3
  exact handler_checkpoint_is_contract_digest tron (.bcall c) g ⟨b1, b2, b3⟩

/-- … a batch built by `BuildOutgoingTxBatch` -/
theorem built_batch_checkpoint_is_contract_digest (tron : Bool) (e : BuildEnv) (he : OrdinaryEnv e) (b : Batch) (g : Nat)
    (hn : evalSrc e (fieldSrc (builderOf "BuildOutgoingTxBatch") "BatchNonce") = some b.nonce)
    (ht : evalSrc e (fieldSrc (builderOf "BuildOutgoingTxBatch") "BatchTimeout") = some b.timeout) :
    handlerPreimage tron "batch" b.toObj g = solPre (.batch b) g ∧ (solPre (.batch b) g).isSome := by
  have f := fun fld hf => built_numeric_fields_fit_int64 e he "BuildOutgoingTxBatch" fld hf
  obtain ⟨v1, a1, b1⟩ := f "BatchNonce" (by simp)
  obtain ⟨v2, a2, b2⟩ := f "BatchTimeout" (by simp)
  rw [hn] at a1; rw [ht] at a2
  cases a1; cases a2
  exact handler_checkpoint_is_contract_digest tron (.batch b) g ⟨b1, b2⟩

/-- … and an oracle set as `GetCurrentOracleSet` builds it: nonce = latest nonce + 1 (below 2^63), member powers normalised
from a power list whose sum does not vanish -/
theorem built_oracle_set_checkpoint_is_contract_digest (tron : Bool) (o : OracleSet) (g : Nat) (latest : Nat) (ps : List Nat)
    (hn : o.nonce = latest + 1) (hl : latest + 1 < 2 ^ 63) (h0 : ps.sum ≠ 0)
    (hm : ∀ m ∈ o.members, ∃ p ∈ ps, normPower p ps.sum = some m.power) :
    handlerPreimage tron "oracleSet" o.toObj g = solPre (.oset o) g ∧ (solPre (.oset o) g).isSome := by
  apply handler_checkpoint_is_contract_digest tron (.oset o) g
  refine ⟨by rw [hn]; exact hl, fun m hmem => ?_⟩
  obtain ⟨p, hp, hv⟩ := hm m hmem
  obtain ⟨v, h1, _, h3⟩ := normalised_powers_fit_int64 ps p hp h0
  rw [hv] at h1; cases h1; exact h3

end Provenance

/-! ## 14. (round 4) what a genesis export / import does to stored confirmations -/

section GenesisRoundTrip
open FxVerif.Gen.C12Env

/-- the exported state (fields of `GenesisState`, the calls of `ExportGenesis`, the reads of `InitGenesis`, all regenerated)
carries oracle-set confirmations collected per EXPORTED oracle set and batch confirmations collected per EXPORTED batch — and
nothing about bridge calls: neither the outgoing bridge calls nor their confirmations are part of a genesis -/
theorem genesis_carries_no_bridge_call_state :
    exportEntry "oracleSet" = some ("OracleSetConfirms", "k.IterateOracleSetConfirmByNonce(vs.Nonce)", "state.OracleSets") ∧
    exportEntry "batch" = some ("BatchConfirms",
      "k.IterateBatchConfirmByNonceAndTokenContract(batch.BatchNonce, batch.TokenContract)", "state.Batches") ∧
    exportEntry "bridgeCall" = none ∧
    genesisStateFields = ["Params", "LastObservedEventNonce", "LastObservedBlockHeight", "Oracles", "OracleSets", "BridgeTokens",
      "UnbatchedTransfers", "Batches", "OracleSetConfirms", "BatchConfirms", "Attestations", "ProposalOracle",
      "LastObservedOracleSet", "LastSlashedBatchBlock", "LastSlashedOracleSetNonce"] ∧
    (genesisStateFields.all fun f => genesisImports.contains f && (genesisExports.map (·.1)).contains f) = true := by decide

private theorem exportsConfirm_true (st : HState) (e : Entry) (h : exportsConfirm st e = true) :
    (e.key.kind = "oracleSet" ∨ e.key.kind = "batch") ∧ (st.objects.lookup e.key).isSome := by
  obtain ⟨h1, h2, h3, _, _⟩ := genesis_carries_no_bridge_call_state
  unfold exportsConfirm at h
  cases hk : e.key with
  | oracleSet n =>
    simp only [hk, ObjKey.kind, h1] at h
    simp only [Bool.and_eq_true] at h
    refine ⟨.inl rfl, ?_⟩
    have := h.2
    simpa [objectScopeOf] using this
  | batch t n =>
    simp only [hk, ObjKey.kind, h2] at h
    simp only [Bool.and_eq_true] at h
    refine ⟨.inr rfl, ?_⟩
    have := h.2
    simpa [objectScopeOf] using this
  | bridgeCall n =>
    simp [hk, ObjKey.kind, h3] at h

/-- A ROUND TRIP ONLY LOSES.  For every state whose registry has unique external addresses (`Props/C13.registry_bijective`):
every confirmation stored after export → import was stored before, byte for byte and under the same oracle; it is an
oracle-set or batch confirmation; and its object is still stored.  So everything sections 4–6 prove about stored
confirmations holds of the imported ones -/
theorem genesis_round_trip_only_loses (st : HState)
    (huniq : ∀ e ∈ st.confirms, ∀ p ∈ st.oracles, p.2.external = e.external → p.1 = e.oracle) :
    ∀ e' ∈ roundTripConfirms st, e' ∈ st.confirms ∧ e'.key.kind ≠ "bridgeCall" ∧ (st.objects.lookup e'.key).isSome := by
  intro e' he'
  simp only [roundTripConfirms, List.mem_flatMap, List.mem_filter, List.mem_map] at he'
  obtain ⟨e, ⟨hmem, hexp⟩, o, ho, rfl⟩ := he'
  obtain ⟨hkind, hlive⟩ := exportsConfirm_true st e hexp
  have hlist : confirmListOf e.key.kind = "BatchConfirms" ∨ confirmListOf e.key.kind = "OracleSetConfirms" := by
    rcases hkind with h | h <;> rw [h] <;> decide
  have := genesis_import_keeps_owner _ hlist st.oracles e (huniq e hmem) o ho
  subst this
  refine ⟨hmem, ?_, hlive⟩
  rcases hkind with h | h <;> simp [h]

/-- … and it keeps every oracle-set / batch confirmation whose object is still stored and whose oracle is still registered
with the external address it confirmed with -/
theorem genesis_round_trip_keeps (st : HState) (e : Entry) (he : e ∈ st.confirms)
    (hkind : e.key.kind = "oracleSet" ∨ e.key.kind = "batch") (hlive : (st.objects.lookup e.key).isSome)
    (r : OracleRec) (hreg : (e.oracle, r) ∈ st.oracles) (hx : r.external = e.external) : e ∈ roundTripConfirms st := by
  obtain ⟨h1, h2, _, _, _⟩ := genesis_carries_no_bridge_call_state
  have hlist : confirmListOf e.key.kind = "BatchConfirms" ∨ confirmListOf e.key.kind = "OracleSetConfirms" := by
    rcases hkind with h | h <;> rw [h] <;> decide
  have hexp : exportsConfirm st e = true := by
    unfold exportsConfirm
    rcases hkind with h | h
    · rw [h, h1]; simp [objectScopeOf, confirmListOf, hlive]; decide
    · rw [h, h2]; simp [objectScopeOf, confirmListOf, hlive]; decide
  simp only [roundTripConfirms, List.mem_flatMap, List.mem_filter, List.mem_map]
  exact ⟨e, ⟨he, hexp⟩, e.oracle, genesis_import_files_under_owner _ hlist st.oracles e r hreg hx, rfl⟩

/-- bridge-call confirmations do not survive a genesis export / import (availability: the oracles have to confirm again —
an observation, not a violation: nothing is stored that was not verified) -/
theorem genesis_round_trip_drops_bridge_call_confirms (st : HState)
    (huniq : ∀ e ∈ st.confirms, ∀ p ∈ st.oracles, p.2.external = e.external → p.1 = e.oracle) (e : Entry)
    (hk : e.key.kind = "bridgeCall") : e ∉ roundTripConfirms st :=
  fun h => (genesis_round_trip_only_loses st huniq e h).2.1 hk

end GenesisRoundTrip

/-! ## non-vacuity -/

/-- a well-formed, int64-safe oracle set with members exists -/
example : (OracleSet.mk 7 [⟨100, 0xE54F4301dd5B11c4ab17028638759B6Fe6f76C08⟩, ⟨2 ^ 63 - 1, 1⟩]).WF ∧
    (OracleSet.mk 7 [⟨100, 0xE54F4301dd5B11c4ab17028638759B6Fe6f76C08⟩, ⟨2 ^ 63 - 1, 1⟩]).Int64Safe := by
  refine ⟨⟨by decide, by decide, ?_⟩, ⟨by decide, ?_⟩⟩ <;> intro m hm <;> simp at hm <;> rcases hm with rfl | rfl <;> decide

private def exRecover : List Nat → List Nat → Option String :=
  fun d s => if d == [1, 2, 3] && s == [9] then some "0xExt" else none

private def exOps : List Op := [.addObject (.oracleSet 7) [1, 2, 3], .setOracle 1 ⟨"bridgerY", "0xExt"⟩, .setIndex "0xExt" 1,
  .confirm ⟨.oracleSet 7, "bridgerX", "0xExt", some [9]⟩,
  .confirm ⟨.oracleSet 7, "bridgerY", "0xExt", some [9]⟩,
  .confirm ⟨.oracleSet 7, "bridgerY", "0xExt", some [9]⟩]

private def errOf (r : Except Err HState) : Option Err := match r with | .error e => some e | .ok _ => none

/-- the handler rejects the wrong bridger, accepts the correctly signed confirm once, and rejects the duplicate -/
example :
    (run exRecover {} exOps).confirms.length = 1 ∧
    errOf (confirmStep exRecover (run exRecover {} exOps) ⟨.oracleSet 7, "bridgerY", "0xExt", some [9]⟩) = some .duplicate ∧
    errOf (confirmStep exRecover (run exRecover {} (exOps.take 3)) ⟨.oracleSet 7, "bridgerX", "0xExt", some [9]⟩) = some .mismatch ∧
    errOf (confirmStep exRecover (run exRecover {} (exOps.take 3)) ⟨.oracleSet 7, "bridgerY", "0xExt", some [8]⟩) = some .badSig ∧
    errOf (confirmStep exRecover (run exRecover {} (exOps.take 3)) ⟨.oracleSet 7, "bridgerY", "0xExt", some [9]⟩) = none := by
  decide

/-- pruning: after the oracle confirmed, a site that deletes object and confirmations leaves nothing under the key, a
later confirm for the pruned object is `notFound`; a site that deletes only the object (batch cancel) keeps the entry -/
example :
    (run exRecover {} (exOps ++ [.removeObject (.oracleSet 7) true true])).confirms.length = 0 ∧
    errOf (confirmStep exRecover (run exRecover {} (exOps ++ [.removeObject (.oracleSet 7) true true]))
      ⟨.oracleSet 7, "bridgerY", "0xExt", some [9]⟩) = some .notFound ∧
    (run exRecover {} (exOps ++ [.removeObject (.oracleSet 7) true false])).confirms.length = 1 ∧
    (run exRecover {} (exOps ++ [.removeObject (.oracleSet 7) true false, .addObject (.oracleSet 7) [4]])).objects.length = 0 := by
  decide

/-- the plan-driven handler on a batch: the confirm naming (tokB, 7) while only (tokA, 7) is stored is `notFound`; a
plan with a nonce-only fallback lookup (not the source's plan) would accept it and file it under (tokB, 7) -/
private def exBatchSt : HState :=
  run exRecover {} [.addObject (.batch "tokA" 7) [1, 2, 3], .setOracle 1 ⟨"bridgerY", "0xExt"⟩, .setIndex "0xExt" 1]

private def loosePlan : Plan :=
  { planFor (.batch "" 0) with lookups := (planFor (.batch "" 0)).lookups ++ [⟨"GetOutgoingTxBatchByNonce", "scan", [("nonce", "msg.Nonce")]⟩] }

example :
    errOf (confirmStepG exRecover exBatchSt ⟨.batch "tokB" 7, "bridgerY", "0xExt", some [9]⟩) = some .notFound ∧
    errOf (confirmStepG exRecover exBatchSt ⟨.batch "tokA" 7, "bridgerY", "0xExt", some [9]⟩) = none ∧
    planExact loosePlan = false ∧
    (match confirmStepP loosePlan exRecover exBatchSt ⟨.batch "tokB" 7, "bridgerY", "0xExt", some [9]⟩ with
      | .ok st' => st'.confirms.map (·.key) | .error _ => []) = [.batch "tokB" 7] := by
  decide

/-- the end-to-end theorems are not vacuous: a typed run in which a confirmation gets stored -/
example : ∃ e, e ∈ (run (fun _ s => if s == [9] then some "0xExt" else none) {}
    ([TOp.store "" (.oset ⟨7, []⟩), .other (.setOracle 1 ⟨"bridgerY", "0xExt"⟩), .other (.setIndex "0xExt" 1),
      .other (.confirm ⟨.oracleSet 7, "bridgerY", "0xExt", some [9]⟩)].map (TOp.toOp id 5))).confirms := by
  refine ⟨⟨.oracleSet 7, 1, "bridgerY", "0xExt", [9], digestOf id 5 (.oset ⟨7, []⟩), ⟨"bridgerY", "0xExt"⟩⟩, ?_⟩
  simp [run, step, stepOther, TOp.toOp, keyOf, confirmStep, hasConfirm, upsert, List.lookup]

/-! ### non-vacuity of the round-3 theorems -/

private def exEcr : List Nat → Nat → List Nat → List Nat → Option Nat := fun _ v _ _ => if v == 1 then some 7 else none
private def exRender : Nat → String := fun a => String.ofList (List.replicate a 'x')
private def exParse : String → Nat := fun s => s.length
private theorem exParse_render (a : Nat) : exParse (exRender a) = a := by simp [exParse, exRender]
private def exSig : List Nat := List.replicate 64 0 ++ [28]
private def exV : SolVerifySig := solVerifySigs.headD ⟨"", [], "", [], "", [], "", ""⟩

/-- the hypotheses of `accepted_signature_passes_contract_verifySig_partial` are satisfiable (a 65-byte signature with
recovery byte 28 that `EthAddressFromSignature` accepts), and its conclusion is then the contract's `true` -/
example : exV ∈ solVerifySigs ∧ recoverVia (sigRuleFor false) id (goEc exEcr exRender) [1, 2, 3] exSig = some (exRender 7) ∧
    normV (exSig.getD 64 0) < 2 ∧
    solVerifySig exV id exEcr 7 [1, 2, 3] 28 (exSig.take 32) ((exSig.drop 32).take 32) = true ∧
    solVerifySig exV id exEcr 7 [1, 2, 3] 29 (exSig.take 32) ((exSig.drop 32).take 32) = false ∧
    solVerifySig exV id exEcr 8 [1, 2, 3] 28 (exSig.take 32) ((exSig.drop 32).take 32) = false := by
  decide

/-- a slot list the quorum theorems speak about: one empty slot, two verified ones, threshold 150 -/
example : checkOracleSignatures (fun sl => sl.r == [1]) 150 [⟨1, 100, 0, [], []⟩, ⟨2, 100, 27, [1], []⟩, ⟨3, 100, 28, [1], []⟩] = true ∧
    checkOracleSignatures (fun sl => sl.r == [1]) 150 [⟨1, 100, 27, [2], []⟩, ⟨2, 100, 27, [1], []⟩, ⟨3, 100, 28, [1], []⟩] = false ∧
    checkOracleSignatures (fun sl => sl.r == [1]) 150 [⟨1, 100, 0, [], []⟩, ⟨2, 100, 27, [1], []⟩] = false := by decide

/-- the round-3 end-to-end theorems are not vacuous: a typed run on a chain recovering through `EthAddressFromSignature`
in which a confirmation with recovery byte 28 gets stored -/
example : ∃ e, e ∈ (run (recoverVia (sigRuleFor false) id (goEc exEcr exRender)) {}
    ([TOp.store "" (.oset ⟨7, []⟩), .other (.setOracle 1 ⟨"bridgerY", exRender 7⟩), .other (.setIndex (exRender 7) 1),
      .other (.confirm ⟨.oracleSet 7, "bridgerY", exRender 7, some exSig⟩)].map (TOp.toOp id 5))).confirms ∧
    normV (e.sig.getD 64 0) < 2 := by
  refine ⟨⟨.oracleSet 7, 1, "bridgerY", exRender 7, exSig, digestOf id 5 (.oset ⟨7, []⟩), ⟨"bridgerY", exRender 7⟩⟩, ?_, by decide⟩
  have hrec : recoverVia (sigRuleFor false) id (goEc exEcr exRender) (digestOf id 5 (.oset ⟨7, []⟩)) exSig = some (exRender 7) := by
    rw [go_accept_iff]; decide
  simp [run, step, stepOther, TOp.toOp, keyOf, confirmStep, hasConfirm, upsert, List.lookup, hrec]

/-- both chain styles reach an encoder for every kind (the route theorems are about defined pre-images) -/
example : (handlerPreimage true "oracleSet" (OracleSet.toObj ⟨7, [⟨100, 5⟩]⟩) 9).isSome ∧
    (handlerPreimage false "bridgeCall" (BridgeCall.toObj ⟨1, 2, [⟨3, 4⟩], 5, [6], [], 7, 8, 9⟩) 9).isSome := by
  rw [handlerPreimage_eq _ _ (by simp), handlerPreimage_eq _ _ (by simp)]
  simp [tronPre_oracleSet, goPre_bridgeCall]

private def errOf' {α : Type} (r : Except Err α) : Option Err := match r with | .error e => some e | .ok _ => none

/-- the statements matter one by one: the regenerated list rejects a confirm from another bridger with `mismatch`; the same
list WITHOUT its bridger comparison accepts it; and with the two validator calls swapped between the branches an eth-style
chain would accept what only the tron validator accepts -/
example :
    let st : HState := run exRecover {} [.setOracle 1 ⟨"bridgerY", "0xExt"⟩, .setIndex "0xExt" 1]
    let m : ConfirmMsg := ⟨.oracleSet 7, "bridgerX", "0xExt", some [9]⟩
    let okBy : String → List Nat → List Nat → Option String := fun _ _ _ => some "0xExt"
    let tronOnly : String → List Nat → List Nat → Option String :=
      fun fn _ _ => if fn == "trontypes.ValidateTronSignature" then some "0xExt" else none
    let swap : VStmt → VStmt := fun s => { s with conds := s.conds.map fun c =>
      if c == "+" ++ tronCond then "-" ++ tronCond else if c == "-" ++ tronCond then "+" ++ tronCond else c }
    errOf' (vRun false okBy st m [] validateProg {}) = some .mismatch ∧
    errOf' (vRun false okBy st m [] (validateProg.filter (fun s => s.fn != "oracle.BridgerAddress != bridgerAddr")) {}) = none ∧
    errOf' (vRun false tronOnly st { m with bridger := "bridgerY" } [] validateProg {}) = some .badSig ∧
    errOf' (vRun false tronOnly st { m with bridger := "bridgerY" } [] (validateProg.map swap) {}) = none := by
  decide


/-- `genesis_import_keeps_owner_partial` / `genesis_import_keeps_owner` / `genesis_import_files_under_owner`: a registry in which no bridger account
changed hands — the import files the confirmation under its own oracle, by either comparison -/
example :
    let e : Entry := ⟨.oracleSet 7, 1, "X", "extA", [9], [1, 2, 3], ⟨"X", "extA"⟩⟩
    let registry : List (Nat × OracleRec) := [(1, ⟨"X", "extA"⟩), (2, ⟨"Y", "extB"⟩)]
    (registry.map (·.1)).Nodup ∧ (e.oracle, (⟨"X", "extA"⟩ : OracleRec)) ∈ registry ∧
    importOwners (bridgerCmp "BatchConfirms") registry e = [1] ∧
    importOwners (genesisCmpOf "BatchConfirms") registry e = [1] := by
  decide

/-! ### non-vacuity of the round-4 theorems -/

section R4
open FxVerif.Gen.C12Env

/-- texts the gravity-id theorems speak about: a 32-byte id (no padding at all), a one-byte id, a 33-byte text (rejected),
the empty text (rejected by validation, packed as zero by `StrToByte32`) -/
example : gidParamValid (List.replicate 32 65) = true ∧ (gidWord (List.replicate 32 65)).isSome ∧
    gidParamValid [120] = true ∧ gidWord (List.replicate 33 65) = none ∧ gidParamValid (List.replicate 33 65) = false ∧
    gidParamValid [] = false ∧ gidWord [] = some 0 ∧ Bytes [120] ∧ NoTrailingNul [120] ∧ ¬ NoTrailingNul [120, 0] := by
  refine ⟨by decide, by decide, by decide, by decide, by decide, by decide, by decide, ?_, by simp [NoTrailingNul], by simp [NoTrailingNul]⟩
  intro b hb; simp at hb; omega

/-- an ordinary builder environment exists, and in it the bridge-call builder's three fields evaluate (nonce 7 from the
counter, the timeout from the program, the event nonce from the caller) -/
private def exEnv : BuildEnv := ⟨fun _ => some 7, fun _ => ⟨1000, 900, 5000000, 7000, 12000, 43200000⟩, fun _ => 3⟩

example : OrdinaryEnv exEnv ∧
    evalSrc exEnv (fieldSrc (builderOf "BuildOutgoingBridgeCall") "Nonce") = some 7 ∧
    evalSrc exEnv (fieldSrc (builderOf "BuildOutgoingBridgeCall") "Timeout") = some 5003658 ∧
    evalSrc exEnv (fieldSrc (builderOf "BuildOutgoingBridgeCall") "EventNonce") = some 3 := by
  refine ⟨⟨fun _ => by simp only [exEnv]; decide, fun _ => ⟨by simp only [exEnv]; decide, by simp only [exEnv]; decide,
    by simp only [exEnv]; decide⟩, fun _ => by simp only [exEnv]; decide⟩, by decide, ?_, by decide⟩
  obtain ⟨_, _, _, _, p5, _⟩ := builders_provenance
  rw [p5]
  simp only [evalSrc, exEnv]
  rw [calTimeout_eq _ (by decide)]
  decide

/-- the wrap-around is real: a recorded height above the current one makes the first product wrap, the result is still
inside an `int64` (`timeout_fits_int64`); and the normalisation of a two-member power list -/
example : calTimeout ⟨5, 10, 100, 7000, 100, 0⟩ = some (timeoutFormula ⟨5, 10, 100, 7000, 100, 0⟩) ∧
    timeoutFormula ⟨5, 10, 100, 7000, 100, 0⟩ = 184467440737095266 ∧
    normPower 30 (([30, 10] : List Nat).sum) = some 3221225471 ∧ normPower 10 (([30, 10] : List Nat).sum) = some 1073741823 := by
  refine ⟨calTimeout_eq _ (by decide), by decide, ?_, ?_⟩
  · exact normPower_gen 30 40 4294967295 maxUint32_const (by decide) (by decide)
  · exact normPower_gen 10 40 4294967295 maxUint32_const (by decide) (by decide)

/-- `stored_confirm_valid_for_no_other_chain_text` is not vacuous: a typed run on a chain whose gravity id is the TEXT "x" in
which a confirmation gets stored -/
example : gidParamValid [120] = true ∧ ∃ e, e ∈ (run (fun _ s => if s == [9] then some "0xExt" else none) {}
    ([TOp.store "" (.oset ⟨7, []⟩), .other (.setOracle 1 ⟨"bridgerY", "0xExt"⟩), .other (.setIndex "0xExt" 1),
      .other (.confirm ⟨.oracleSet 7, "bridgerY", "0xExt", some [9]⟩)].map (TOp.toOp id ((gidWord [120]).getD 0)))).confirms := by
  refine ⟨by decide, ⟨.oracleSet 7, 1, "bridgerY", "0xExt", [9], digestOf id ((gidWord [120]).getD 0) (.oset ⟨7, []⟩), ⟨"bridgerY", "0xExt"⟩⟩, ?_⟩
  simp [run, step, stepOther, TOp.toOp, keyOf, confirmStep, hasConfirm, upsert, List.lookup]

example : drawIds 3 none = [1, 2, 3] ∧ drawIds 2 (some (2 ^ 63 - 1)) = [2 ^ 63 - 1, 2 ^ 63] := by decide

/-- a state with one confirmation of each kind on live objects, one on a cancelled batch: the round trip keeps the oracle-set
and the live batch confirmation, drops the bridge-call one and the one left behind by the cancelled batch -/
example :
    let r : OracleRec := ⟨"X", "extA"⟩
    let mk : ObjKey → Entry := fun k => ⟨k, 1, "X", "extA", [9], [1, 2, 3], r⟩
    let st : HState := {
      objects := [(.oracleSet 7, [1]), (.batch "t" 3, [2]), (.bridgeCall 5, [3])]
      oracles := [(1, r)]
      confirms := [mk (.oracleSet 7), mk (.batch "t" 3), mk (.bridgeCall 5), mk (.batch "t" 2)] }
    (roundTripConfirms st).map (·.key) = [.oracleSet 7, .batch "t" 3] := by decide

end R4

/-! ## 15. (round 5) the MESSAGE layer: `ValidateBasic` of the confirm messages and the address validators, regenerated -/

section MessageLayer
open FxVerif.Gen.C12Msg

/-- how the translator read the message layer: each `ValidateBasic` ends in `return nil`, the router's two address styles
dispatch to `ValidateEthereumAddress` / `ValidateTronAddress`, `ValidateExternalAddr` is router lookup + dispatch -/
theorem message_layer_shape :
    confirmValidateBasicTail.all (·.2 == "return nil") = true ∧
    addrValidatorOf = [("EthereumAddress", "contract.ValidateEthereumAddress"), ("tronAddress", "ValidateTronAddress")] ∧
    validateExternalAddrStmts.getLast? = some "return router.ValidateExternalAddr(addr)" := by decide

/-- `ValidateBasic` of a confirm message (the regenerated check list of its type, interpreted check by check) returns nil
EXACTLY when: the chain name is in the router, the bridger parses as bech32, the external address passes
`ValidateExternalAddr` under the chain name, so does the token contract of a batch confirm, and the signature text is
non-empty hex — for every message and whatever the three dependency predicates are -/
theorem validate_basic_pass_iff (E : VbEnv) (t : TxConfirm) :
    validateBasic E t = none ↔
      E.registered t.chain = true ∧ E.bech32 t.m.bridger = true ∧ E.extAddr t.chain t.m.external = true ∧
      (∀ tok n, t.m.key = .batch tok n → E.extAddr t.chain tok = true) ∧ ∃ s, t.m.sig = some s ∧ s ≠ [] :=
  vb_pass_iff E t

/-- a confirm delivered by a transaction is stored iff `ValidateBasic` passes AND the specified handler accepts (the handler
being the fully regenerated one the driver runs) -/
theorem tx_accept_iff (E : VbEnv) (tron : Bool) (recoverBy : String → List Nat → List Nat → Option String) (st st' : HState)
    (t : TxConfirm) :
    txStep E tron recoverBy st t = .ok st' ↔
      validateBasic E t = none ∧ confirmStep (recoverBy (validatorOf tron)) st t.m = .ok st' := by
  unfold txStep
  rw [fully_generated_handler_is_specified]
  cases hv : validateBasic E t <;> simp
  cases hc : confirmStep (recoverBy (validatorOf tron)) st t.m <;> simp

/-- the first statement of `ValidateConfirmSign` (hex decoding, error "signature decoding") can never be what rejects a
message that passed `ValidateBasic`: the two layers decode the same field -/
theorem validated_confirm_never_fails_decoding (E : VbEnv) (t : TxConfirm) (h : validateBasic E t = none) (tron : Bool)
    (recoverBy : String → List Nat → List Nat → Option String) (st : HState) :
    confirmStepGV tron recoverBy st t.m ≠ .error .sigDecode := by
  obtain ⟨_, _, _, _, s, hs, _⟩ := (validate_basic_pass_iff E t).1 h
  rw [fully_generated_handler_is_specified]
  unfold confirmStep
  rw [hs]
  repeat' split
  all_goals simp_all

/-- both address validators (regenerated statement lists) end with the canonical-spelling comparison: a text they accept is
non-empty and IS the rendering of what it parses to (EIP-55 checksummed hex / `EncodeCheck` base58) — whatever the format
predicates and the re-rendering function are -/
theorem accepted_address_is_canonical (tron : Bool) (P : AddrPrims) (text : String)
    (h : addrValid P (addrChecksOf tron) text = true) : P.canon text = text ∧ text ≠ "" :=
  addr_canonical tron P text h

/-- hence two admitted texts of ONE address are one text: no second spelling of a token contract or of an oracle's external
address passes message validation -/
theorem accepted_spellings_of_one_address_equal {α : Type} (tron : Bool) (P : AddrPrims) (parse : String → α) (render : α → String)
    (hP : ∀ t, P.canon t = render (parse t)) (t1 t2 : String)
    (h1 : addrValid P (addrChecksOf tron) t1 = true) (h2 : addrValid P (addrChecksOf tron) t2 = true)
    (hp : parse t1 = parse t2) : t1 = t2 := by
  have a := (accepted_address_is_canonical tron P t1 h1).1
  have b := (accepted_address_is_canonical tron P t2 h2).1
  rw [hP] at a b
  rw [← a, ← b, hp]

/-- after ANY sequence of confirm TRANSACTIONS (ValidateBasic with the chain's regenerated address validator, then the
regenerated handler), object stores, registry writes and prunings: every stored confirmation names its external address and
(batch) its token contract in the canonical spelling -/
theorem tx_stored_confirms_name_canonical_texts (tron : Bool) (P : AddrPrims) (reg b32 : String → Bool)
    (recoverBy : String → List Nat → List Nat → Option String) (ops : List TxOp) :
    CanonEntries P (txRun (envOf tron P reg b32) tron recoverBy {} ops) := by
  have stepInv : ∀ st op, CanonEntries P st → CanonEntries P (txApply (envOf tron P reg b32) tron recoverBy st op) := by
    intro st op h
    cases op with
    | other o => exact canon_stepOther P st o h
    | tx t =>
      simp only [txApply]
      cases hx : txStep (envOf tron P reg b32) tron recoverBy st t with
      | error _ => exact h
      | ok st' =>
        obtain ⟨hv, hc⟩ := (tx_accept_iff _ tron recoverBy st st' t).1 hx
        obtain ⟨_, _, he, ht, _⟩ := (validate_basic_pass_iff _ t).1 hv
        exact canon_confirmStep P _ st st' t.m hc (accepted_address_is_canonical tron P _ he).1
          (fun tok n hk => (accepted_address_is_canonical tron P _ (ht tok n hk)).1) h
  suffices ∀ st, CanonEntries P st → CanonEntries P (txRun (envOf tron P reg b32) tron recoverBy st ops) from
    this {} (by intro e he; simp at he)
  induction ops with
  | nil => intro st h; exact h
  | cons op r ih => intro st h; exact ih _ (stepInv st op h)

/-- "at most one confirmation per oracle and object" at the level of the token contract ADDRESS, not only of its text: two
stored batch confirmations whose token texts denote one address and whose nonces agree are filed under ONE key (and
`one_confirm_per_oracle` allows one entry per key and oracle) -/
theorem one_batch_confirm_per_oracle_and_token_address {α : Type} (tron : Bool) (P : AddrPrims) (parse : String → α)
    (render : α → String) (hP : ∀ t, P.canon t = render (parse t)) (reg b32 : String → Bool)
    (recoverBy : String → List Nat → List Nat → Option String) (ops : List TxOp) (e1 e2 : Entry)
    (h1 : e1 ∈ (txRun (envOf tron P reg b32) tron recoverBy {} ops).confirms)
    (h2 : e2 ∈ (txRun (envOf tron P reg b32) tron recoverBy {} ops).confirms)
    (t1 t2 : String) (n : Nat) (k1 : e1.key = .batch t1 n) (k2 : e2.key = .batch t2 n) (hp : parse t1 = parse t2) :
    e1.key = e2.key := by
  have a := ((tx_stored_confirms_name_canonical_texts tron P reg b32 recoverBy ops) e1 h1).2 t1 n k1
  have b := ((tx_stored_confirms_name_canonical_texts tron P reg b32 recoverBy ops) e2 h2).2 t2 n k2
  rw [hP] at a b
  rw [k1, k2, ← a, ← b, hp]

/-- "submitted by that oracle's bridger", for SIGNED transactions: if the delivery of a transaction carrying a confirm is
accepted (ante handler: signed by the account in the field the regenerated proto signer option names, of the OUTERMOST
message; decoding; `ValidateBasic`; the regenerated handler), then the confirm was not wrapped in `MsgConfirm` (undecodable
while `msgConfirmUnpacks = false` — so the wrapper's own, never-compared bridger field cannot stand in), passed
`ValidateBasic`, and the transaction's signer IS the bridger of the oracle the external address is registered to -/
theorem delivered_confirm_signed_by_oracles_bridger (E : VbEnv) (tron : Bool)
    (recoverBy : String → List Nat → List Nat → Option String) (st st' : HState) (x : SignedTx)
    (h : deliverTx E tron recoverBy st x = .ok st') :
    x.wrapper = none ∧ validateBasic E x.t = none ∧
    ∃ oracle r, st.byExternal.lookup x.t.m.external = some oracle ∧ st.oracles.lookup oracle = some r ∧
      r.bridger = x.signer ∧ r.external = x.t.m.external ∧
      confirmStep (recoverBy (validatorOf tron)) st x.t.m = .ok st' := by
  unfold deliverTx at h
  split at h
  · cases h
  · rename_i hs
    have hs' : requiredSigner x = some x.signer := by simpa using hs
    cases hw : x.wrapper with
    | some b =>
      rw [hw] at h
      have : msgConfirmUnpacks = false := by decide
      simp [this] at h
    | none =>
      rw [hw] at h
      cases hx : txStep E tron recoverBy st x.t with
      | error e => rw [hx] at h; cases h
      | ok s2 =>
        rw [hx] at h
        cases h
        obtain ⟨hv, hc⟩ := (tx_accept_iff E tron recoverBy st st' x.t).1 hx
        obtain ⟨digest, sig, oracle, r, _, _, h3, h4, h5, h6, _, _, _⟩ := (confirm_accept_iff _ st st' x.t.m).1 hc
        refine ⟨rfl, hv, oracle, r, h3, h4, ?_, h5, hc⟩
        have hb : some x.t.m.bridger = some x.signer := by
          rw [← hs']
          unfold requiredSigner
          rw [hw]
          have : ∀ k, confirmSigners.lookup (msgTypeOf k) = some "bridger_address" := by
            intro k; cases k <;> (simp only [msgTypeOf]; decide)
          simp [this]
        rw [h6]
        exact Option.some.inj hb

end MessageLayer

/-! ## 16. (round 5) branches of the state: what is done on a DISCARDED branch (failed multi-message transaction, CheckTx,
simulation) leaves no trace — the model has no memory outside the state -/

/-- opening a branch, doing anything on it (object stores, registry writes, confirms, prunings) and discarding it gives back
the very state and branch stack -/
theorem discarded_branch_leaves_no_trace (recover : List Nat → List Nat → Option String) (st : HState) (stack : List HState)
    (ops : List Op) : bRun recover (st, stack) (.branch :: ops.map .op ++ [.discard]) = (st, stack) := by
  have : bRun recover (st, stack) (.branch :: ops.map .op ++ [.discard]) =
      bRun recover (bRun recover (st, st :: stack) (ops.map .op)) [.discard] := by
    rw [List.cons_append, ← bRun_append]; rfl
  rw [this, bRun_ops]
  rfl

/-- … and committing it is running the operations in line -/
theorem committed_branch_is_inline (recover : List Nat → List Nat → Option String) (st : HState) (stack : List HState)
    (ops : List Op) : bRun recover (st, stack) (.branch :: ops.map .op ++ [.commit]) = (run recover st ops, stack) := by
  have : bRun recover (st, stack) (.branch :: ops.map .op ++ [.commit]) =
      bRun recover (bRun recover (st, st :: stack) (ops.map .op)) [.commit] := by
    rw [List.cons_append, ← bRun_append]; rfl
  rw [this, bRun_ops]
  rfl

/-- a history with a discarded branch in the middle IS the history without it -/
theorem history_with_discarded_branch_is_history_without (recover : List Nat → List Nat → Option String)
    (pre mid post : List Op) :
    bRun recover ({}, []) (pre.map .op ++ (.branch :: mid.map .op ++ [.discard]) ++ post.map .op) =
      (run recover {} (pre ++ post), []) := by
  rw [bRun_append, bRun_append, bRun_ops, discarded_branch_leaves_no_trace, bRun_ops, run_append]

/-- so every confirmation stored after such a history was verified against the object the SURVIVING history stored under its
key (an object created and confirmed under the same key on the discarded branch plays no part), under the registered key and
bridger of its oracle -/
theorem stored_confirm_verified_across_discarded_branch (recover : List Nat → List Nat → Option String)
    (pre mid post : List Op) (e : Entry)
    (he : e ∈ (bRun recover ({}, []) (pre.map .op ++ (.branch :: mid.map .op ++ [.discard]) ++ post.map .op)).1.confirms) :
    (run recover {} (pre ++ post)).ever.lookup e.key = some e.digest ∧ recover e.digest e.sig = some e.external ∧
    e.recAt.external = e.external ∧ e.recAt.bridger = e.bridger := by
  rw [history_with_discarded_branch_is_history_without] at he
  obtain ⟨a, _, c, d⟩ := stored_confirm_verified recover (pre ++ post) e he
  exact ⟨a, c, d, confirm_requires_bridger recover (pre ++ post) e he⟩

/-! ## 17. (round 5) the `uint64` sum of the raw oracle powers in `GetCurrentOracleSet` -/

section RawPowers
open FxVerif.Gen.C12Msg FxVerif.Gen.C12Env

/-- what the translator read: `Oracle.GetPower` is `DelegateAmount.Quo(sdk.DefaultPowerReduction)`, the reduction is assigned
10^20 in `types/`, and the loop skips non-positive powers before `totalPower += power.Uint64()` -/
theorem raw_power_source :
    oraclePower = ("DelegateAmount", "Quo", "sdk.DefaultPowerReduction") ∧ powerReductionExp = (10, 20) ∧
    totalPowerLoop = ["power := oracle.GetPower()", "if power.LTE(sdkmath.ZeroInt()) { continue }",
      "totalPower += power.Uint64()", "bridgeValidators = append(…)"] := by decide

/-- for EVERY list of delegated amounts whose sum is below 2^64 · 10^20 base units (≈ 1.8·10^19 whole tokens — the delegations
are coins of a supply far below that): the `uint64` accumulation never wraps, is the true sum of the positive powers, and
bounds each of them -/
theorem raw_power_sum_does_not_wrap (ds : List Nat) (h : ds.sum < 2 ^ 64 * 10 ^ 20) :
    rawTotal ds = (livePowers ds).sum ∧ rawTotal ds < 2 ^ 64 ∧ ∀ p ∈ livePowers ds, p ≤ rawTotal ds := by
  have h1 := livePowers_sum_le ds
  have h2 : ds.sum / 10 ^ 20 < 2 ^ 64 := (Nat.div_lt_iff_lt_mul (by decide)).2 h
  have h3 : rawTotal ds = (livePowers ds).sum := by
    unfold rawTotal
    rw [foldl_mod_eq_sum _ 0 (by omega)]
    omega
  refine ⟨h3, by omega, fun p hp => ?_⟩
  rw [h3]
  exact mem_le_sum _ p hp

/-- so the hypothesis "the sum of the raw powers does not wrap" of `normalised_powers_fit_int64` follows from the bound on the
delegated coins: every member of the oracle set `GetCurrentOracleSet` builds gets a power of at most `math.MaxUint32` -/
theorem normalised_powers_fit_from_delegations (ds : List Nat) (h : ds.sum < 2 ^ 64 * 10 ^ 20) (p : Nat) (hp : p ∈ livePowers ds) :
    ∃ v, normPower p (rawTotal ds) = some v ∧ v ≤ 4294967295 := by
  obtain ⟨h3, _, _⟩ := raw_power_sum_does_not_wrap ds h
  have hpos : 0 < p := by
    have := (List.mem_filter.1 hp).2
    simpa using this
  have hle := mem_le_sum _ p hp
  obtain ⟨v, a, b, _⟩ := normalised_powers_fit_int64 (livePowers ds) p hp (by omega)
  exact ⟨v, by rw [h3]; exact a, b⟩

/-- without the bound the accumulation DOES wrap (two oracles with 2^63 · 10^20 each: total power 0) -/
theorem raw_power_sum_wraps_when_unbounded : rawTotal [2 ^ 63 * 10 ^ 20, 2 ^ 63 * 10 ^ 20] = 0 := by
  simp only [rawTotal, livePowers, List.map, rawPower_eq]
  decide

end RawPowers

/-! ### non-vacuity of the round-5 theorems -/

section R5
open FxVerif.Gen.C12Msg

private def exE : VbEnv := ⟨fun c => c == "eth", fun b => b == "fx1bridger", fun _ x => x == "0xAbC"⟩
private def exP : AddrPrims := ⟨fun _ _ => true, fun t => if t == "0xabc" then "0xAbC" else t, fun _ => 5⟩

/-- a batch confirm that passes `ValidateBasic`, one rejected for its token spelling, one for an empty signature -/
example : validateBasic exE ⟨"eth", ⟨.batch "0xAbC" 3, "fx1bridger", "0xAbC", some [1]⟩⟩ = none ∧
    (validateBasic exE ⟨"eth", ⟨.batch "0xabc" 3, "fx1bridger", "0xAbC", some [1]⟩⟩).map (·.text) = some "invalid token contract" ∧
    (validateBasic exE ⟨"eth", ⟨.oracleSet 3, "fx1bridger", "0xAbC", some []⟩⟩).map (·.text) = some "empty signature" ∧
    (validateBasic exE ⟨"bsc", ⟨.bridgeCall 3, "fx1bridger", "0xAbC", none⟩⟩).map (·.text) = some "unrecognized cross chain name" := by
  decide

/-- the address validators accept something and reject a non-canonical spelling (toy instance: length constant 5) -/
example : addrValid exP (addrChecksOf true) "0xAbC" = true ∧ addrValid exP (addrChecksOf true) "0xabc" = false := by
  simp [addrValid, addrChecksOf, addrValidatorOf, List.lookup, tronAddrChecks, addrCheckFails, lenArg, exP]
  decide

private def exSt : HState :=
  { objects := [(.batch "0xAbC" 3, [1, 2])], oracles := [(1, ⟨"fx1bridger", "0xAbC"⟩)], byExternal := [("0xAbC", 1)] }

/-- a confirm TRANSACTION that is stored (so `tx_accept_iff`, `tx_stored_confirms_name_canonical_texts` and
`one_batch_confirm_per_oracle_and_token_address` speak about non-empty stores) -/
example : ∃ st', txStep (envOf true exP (fun _ => true) (fun _ => true)) true (fun _ _ s => if s == [9] then some "0xAbC" else none)
      exSt ⟨"tron", ⟨.batch "0xAbC" 3, "fx1bridger", "0xAbC", some [9]⟩⟩ = .ok st' ∧ st'.confirms.map (·.key) = [.batch "0xAbC" 3] := by
  refine ⟨{ exSt with confirms := [⟨.batch "0xAbC" 3, 1, "fx1bridger", "0xAbC", [9], [1, 2], ⟨"fx1bridger", "0xAbC"⟩⟩] },
    (tx_accept_iff _ _ _ _ _ _).2 ⟨?_, ?_⟩, rfl⟩
  · rw [validate_basic_pass_iff]
    simp [envOf, addrValid, addrChecksOf, addrValidatorOf, List.lookup, tronAddrChecks, addrCheckFails, lenArg, exP]
    decide
  · simp [confirmStep, hasConfirm, exSt]

/-- deliveries: accepted when signed by the oracle's bridger; a stranger's signature fails the ante check; the wrapper is
undecodable -/
example :
    let E := envOf true exP (fun _ => true) (fun _ => true)
    let rec_ : String → List Nat → List Nat → Option String := fun _ _ s => if s == [9] then some "0xAbC" else none
    let t : TxConfirm := ⟨"tron", ⟨.batch "0xAbC" 3, "fx1bridger", "0xAbC", some [9]⟩⟩
    (∃ st', deliverTx E true rec_ exSt ⟨"fx1bridger", none, t⟩ = .ok st') ∧
    deliverTx E true rec_ exSt ⟨"fx1stranger", none, t⟩ = .error .ante ∧
    deliverTx E true rec_ exSt ⟨"fx1stranger", some "fx1stranger", t⟩ = .error .undecodable := by
  intro E rec_ t
  have hx : txStep E true rec_ exSt t = .ok { exSt with confirms := [⟨.batch "0xAbC" 3, 1, "fx1bridger", "0xAbC", [9], [1, 2], ⟨"fx1bridger", "0xAbC"⟩⟩] } := by
    refine (tx_accept_iff _ _ _ _ _ _).2 ⟨?_, ?_⟩
    · rw [validate_basic_pass_iff]
      simp [E, t, envOf, addrValid, addrChecksOf, addrValidatorOf, List.lookup, tronAddrChecks, addrCheckFails, lenArg, exP]
      decide
    · simp [t, rec_, confirmStep, hasConfirm, exSt]
  have hs : confirmSigners.lookup "MsgConfirmBatch" = some "bridger_address" ∧ confirmSigners.lookup "MsgConfirm" = some "bridger_address" ∧
      msgConfirmUnpacks = false := by decide
  refine ⟨⟨{ exSt with confirms := [⟨.batch "0xAbC" 3, 1, "fx1bridger", "0xAbC", [9], [1, 2], ⟨"fx1bridger", "0xAbC"⟩⟩] }, ?_⟩, ?_, ?_⟩
  · simp [deliverTx, requiredSigner, msgTypeOf, hs.1, hx, t]
  · simp [deliverTx, requiredSigner, msgTypeOf, hs.1, t]
  · simp [deliverTx, requiredSigner, hs.2.1, hs.2.2]

/-- a history with a discarded branch on which ANOTHER object was stored and confirmed under key 7: afterwards key 7 holds the
surviving object and its confirmation -/
example :
    let rec_ : List Nat → List Nat → Option String := fun d s => if s == d then some "E" else none
    ((bRun rec_ ({}, []) ([.op (.setOracle 1 ⟨"B", "E"⟩), .op (.setIndex "E" 1), .branch,
      .op (.addObject (.oracleSet 7) [1]), .op (.confirm ⟨.oracleSet 7, "B", "E", some [1]⟩), .discard,
      .op (.addObject (.oracleSet 7) [2]), .op (.confirm ⟨.oracleSet 7, "B", "E", some [1]⟩),
      .op (.confirm ⟨.oracleSet 7, "B", "E", some [2]⟩)])).1.confirms.map (·.digest)) = [[2]] := by
  decide

example : rawTotal [3 * 10 ^ 20, 10 ^ 19, 5 * 10 ^ 20 + 7] = 8 ∧ livePowers [3 * 10 ^ 20, 10 ^ 19, 5 * 10 ^ 20 + 7] = [3, 5] := by
  simp only [rawTotal, livePowers, List.map, rawPower_eq]
  decide

end R5

end FxVerif.Props.C12
