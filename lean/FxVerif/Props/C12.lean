import FxVerif.Model.C12
namespace FxVerif.Props.C12
open FxVerif.Gen.C12 FxVerif.Model.C12

theorem go_layout_eq_solidity_layout_oracleSet : layoutsAgree mainSol "oracleSet" = true := by decide

end FxVerif.Props.C12
