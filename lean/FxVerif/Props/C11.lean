import FxVerif.Proofs.C11Tx
import FxVerif.Proofs.C11Exact
import FxVerif.Proofs.C11Chain
/-!
# C11 — transferring delegation shares conserves shares, stake and reward entitlements

All theorems are about the model `FxVerif.Model.C11` instantiated with the facts `FxVerif.Gen.C11.cfg` that
`go/extract/c11.go` reads off the current source of `handlerTransferShares` / `decrementAllowance` / the two `Run`
methods on every run.  `cfg_good` is the obligation that ties them to the code: if the self-transfer guard, the
redelegation refusal, a withdrawal, a reference-count edit, the starting-info period or the allowance arithmetic is
edited away, `cfg` changes and `cfg_good` (and with it every theorem below) stops checking.
-/
namespace FxVerif.Props.C11
open FxVerif.Model.C11 FxVerif.Proofs.C11

abbrev cfg := FxVerif.Gen.C11.cfg

/-- the facts of the Go source that the property needs (see `Model.C11.good`) hold of the code as it is now -/
theorem cfg_good : good cfg = true := by decide

/-- **wrappers_act_for_caller.**  Each of the thin precompile wrappers (delegateV2, undelegateV2, redelegateV2, withdraw,
approveShares) makes exactly one SDK call — the one the model executes for the corresponding operation — on behalf
of the transaction's caller, with the validator(s) and the amount of the call's arguments, inside
`ExecuteNativeAction` (so it is reverted with the EVM frame, property C09), and hands a failure back. -/
theorem wrappers_act_for_caller :
    cfg.wrappers.map (·.call) = ["stakingMsgServer.Delegate", "stakingMsgServer.Undelegate", "stakingMsgServer.BeginRedelegate",
      "distrMsgServer.WithdrawDelegatorReward", "stakingKeeper.SetAllowance"] ∧
    ∀ w, w ∈ cfg.wrappers → w.delegator = "caller" ∧ w.native = true ∧ w.errPropagated = true ∧
      (w.validator = "args.Validator" ∨ w.validator = "args.ValidatorSrc" ∧ w.validatorDst = "args.ValidatorDst") := by
  decide

/-- **transfer_moves_exactly.**  A successful transfer of `X` (= shares × 10^18) between different accounts takes
exactly `X` from the sender (whose delegation had at least `X`; it disappears iff it had exactly `X`), adds exactly `X`
to the recipient (with or without a previous delegation), leaves every other delegation, the validator's tokens
and the validator's total shares unchanged, and is refused while the sender has an incoming redelegation. -/
theorem transfer_moves_exactly {v v' : VS} {h f t X rf rt : Nat} {recv : Bool} (hne : f ≠ t)
    (ht : VS.transfer cfg v h f t X recv = .ok (v', rf, rt)) :
    ∃ fsh, v.del f = some fsh ∧ X ≤ fsh ∧ recv = false ∧
      v'.del f = (if fsh - X = 0 then none else some (fsh - X)) ∧
      v'.del t = some ((v.del t).getD 0 + X) ∧
      (∀ d, d ≠ f → d ≠ t → v'.del d = v.del d) ∧ v'.tokens = v.tokens ∧ v'.shares = v.shares := by
  obtain ⟨fsh, hf, hr, hle, ht', hs', hd⟩ := transfer_del cfg_good hne ht
  refine ⟨fsh, hf, hle, hr, ?_, ?_, ?_, ht', hs'⟩
  · rw [hd]; simp [setAt, hne]
  · rw [hd]; simp [setAt]
  · intro d h1 h2; rw [hd]; simp [setAt, h1, h2]

/-- **self_transfer_noop.**  A transfer to oneself (any amount the sender holds) returns the validator record —
delegations, starting infos, reference counts, periods, rewards — unchanged and pays nothing. -/
theorem self_transfer_noop {v v' : VS} {h d X rf rt : Nat} {recv : Bool}
    (ht : VS.transfer cfg v h d d X recv = .ok (v', rf, rt)) : v' = v ∧ rf = 0 ∧ rt = 0 :=
  transfer_self cfg_good ht

/-- **rewards_paid_up_to_now.**  A transfer pays the sender exactly what the SDK's own `WithdrawDelegationRewards`
pays at that moment on the state before the transfer, then pays an existing recipient exactly what
`WithdrawDelegationRewards` pays on the resulting state (a new recipient is paid nothing and the validator period is
ended for it); the delegation rewrite that follows does not touch rewards (`outstanding`, `paid`, `dust`, `cur`,
`allocated` are those left by the two withdrawals). -/
theorem rewards_paid_up_to_now {v v' : VS} {h f t X rf rt : Nat} {recv : Bool} (hne : f ≠ t)
    (ht : VS.transfer cfg v h f t X recv = .ok (v', rf, rt)) :
    ∃ v1 v2, v.withdrawMsg h f = .ok (v1, rf) ∧
      ((v1.del t = none ∧ rt = 0 ∧ ∃ e, v1.incPeriod v.tokens = .ok (v2, e)) ∨
       (v1.del t ≠ none ∧ v1.withdrawMsg h t = .ok (v2, rt))) ∧
      v'.outstanding = v2.outstanding ∧ v'.paid = v2.paid ∧ v'.dust = v2.dust ∧ v'.cur = v2.cur ∧
      v'.allocated = v2.allocated := by
  have hg := cfg_good
  revert ht hg
  generalize cfg = c
  intro ht hg
  obtain ⟨fsh, v1, v2, v3, _, _, _, h1, h2, h3, h4⟩ := transfer_ok hg hne ht
  obtain ⟨-, -, -, -, g5, g6, g7, g8, g9, g10, -⟩ := good_fields hg
  refine ⟨v1, v2, h1, ?_, ?_⟩
  · unfold VS.xferLookup at h2
    cases hd : v1.del t with
    | none =>
      rw [hd] at h2
      simp only [g7, if_true] at h2
      cases hq : v1.incPeriod v.tokens with
      | error e => rw [hq] at h2; cases h2
      | ok q =>
        obtain ⟨q1, q2⟩ := q
        rw [hq] at h2
        cases h2
        exact Or.inl ⟨rfl, rfl, q2, rfl⟩
    | some tsh =>
      rw [hd] at h2
      simp only [g6, if_true] at h2
      exact Or.inr ⟨by simp, h2⟩
  · -- the two rewrite steps leave the reward fields alone
    have e3 : v3.outstanding = v2.outstanding ∧ v3.paid = v2.paid ∧ v3.dust = v2.dust ∧ v3.cur = v2.cur ∧
        v3.allocated = v2.allocated := by
      unfold VS.xferFrom at h3
      simp only [g8, g9, if_true] at h3
      split at h3
      · cases h3
      · split at h3
        · split at h3
          · cases h3
          · rename_i b hb
            obtain ⟨_, rfl⟩ := decRef_ok hb
            cases h3
            exact ⟨rfl, rfl, rfl, rfl, rfl⟩
        · cases h3; exact ⟨rfl, rfl, rfl, rfl, rfl⟩
    have e4 : v'.outstanding = v3.outstanding ∧ v'.paid = v3.paid ∧ v'.dust = v3.dust ∧ v'.cur = v3.cur ∧
        v'.allocated = v3.allocated := by
      unfold VS.xferTo at h4
      simp only [g10, g5, if_true] at h4
      split at h4
      · split at h4
        · cases h4
        · rename_i v5 h5
          obtain ⟨_, rfl⟩ := incRef_ok h5
          cases h4; exact ⟨rfl, rfl, rfl, rfl, rfl⟩
      · cases h4; exact ⟨rfl, rfl, rfl, rfl, rfl⟩
    obtain ⟨a1, a2, a3, a4, a5⟩ := e3
    obtain ⟨b1, b2, b3, b4, b5⟩ := e4
    exact ⟨b1.trans a1, b2.trans a2, b3.trans a3, b4.trans a4, b5.trans a5⟩

/-- **rewards conservation (one withdrawal).**  `withdrawDelegationRewards` takes out of `outstanding` exactly what
it pays as whole coins plus the sub-unit remainder that goes to the community pool: nothing is lost, nothing is
paid twice (the only inexactness is the explicit truncation `dust`). -/
theorem withdraw_conserves {v v' : VS} {h d c : Nat} (hw : v.withdrawRewards h d = .ok (v', c)) :
    ∃ v1, v.incPeriod v.tokens = .ok (v1, v.period) ∧
      v'.outstanding + v'.paid * ONE + v'.dust = v1.outstanding + v1.paid * ONE + v1.dust ∧
      v'.paid = v1.paid + c ∧ v'.allocated = v1.allocated := by
  obtain ⟨sh, si, v1, raw, v3, _, _, h1, _, h3, rfl, rfl⟩ := withdrawRewards_ok hw
  obtain ⟨_, rfl⟩ := decRef_ok h3
  refine ⟨v1, h1, ?_, rfl, rfl⟩
  simp only [payout]
  have hr : min raw v1.outstanding ≤ v1.outstanding := Nat.min_le_right _ _
  generalize min raw v1.outstanding = r at hr ⊢
  generalize ONE = one
  have hdm := Nat.div_add_mod r one
  rw [Nat.mul_comm] at hdm
  rw [Nat.add_mul]
  generalize r / one * one = q at hdm ⊢
  generalize r % one = m at hdm ⊢
  generalize v1.paid * one = pp
  omega

/-! ### every history: Σ delegations = validator total shares -/

/-- all delegations of every validator belong to the `nAcc` accounts and add up to its total shares -/
def StInv (s : State) : Prop := ∀ w, SumInv s.nAcc (s.vs w)

theorem StInv_setVS {s : State} {v : Nat} {x : VS} (hi : StInv s) (hx : SumInv s.nAcc x) : StInv (s.setVS v x) := by
  intro w
  show SumInv s.nAcc (setAt s.vs v x w)
  by_cases h : w = v
  · subst h; rw [setAt_same]; exact hx
  · rw [setAt_ne _ _ h]; exact hi w

theorem transferOp_inv {c : FxVerif.Gen.C11.Cfg} (hg : good c = true) {s s' : State} {f t v x : Nat}
    (hi : StInv s) (h : s.transferOp c f t v x = .ok s') : StInv s' ∧ s'.nAcc = s.nAcc := by
  unfold State.transferOp at h
  split at h
  · cases h
  · rename_i hok
    simp only [State.okAcc, State.okVal, Bool.not_eq_true', Bool.and_eq_false_iff, decide_eq_false_iff_not,
      not_or, Nat.not_lt] at hok
    split at h
    · cases h
    · split at h
      · cases h
      · rename_i v' rf rt ht
        cases h
        have hf : f < s.nAcc := by
          omega
        have htn : t < s.nAcc := by
          omega
        exact ⟨StInv_setVS hi (transfer_SumInv hg hf htn ht (hi v)), rfl⟩

theorem g2 {a b c : Bool} (h : ¬((!(a && b) || c) = true)) : a = true ∧ b = true := by
  revert h; cases a <;> cases b <;> cases c <;> decide
theorem g3 {a b c d : Bool} (h : ¬((!(a && b && c) || d) = true)) : a = true ∧ b = true ∧ c = true := by
  revert h; cases a <;> cases b <;> cases c <;> cases d <;> decide
theorem lt_of_okAcc {s : State} {d : Nat} (h : s.okAcc d = true) : d < s.nAcc := by
  simpa [State.okAcc] using h

theorem addGain_inv {s : State} {d c : Nat} (hi : StInv s) : StInv (s.addGain d c) := hi

/-- one successful operation keeps the invariant (and the account universe) -/
theorem exec_inv {c : FxVerif.Gen.C11.Cfg} (hg : good c = true) {s s' : State} {o : Op}
    (hi : StInv s) (h : s.exec c o = .ok s') : StInv s' ∧ s'.nAcc = s.nAcc := by
  cases o with
  | delegate d v amt =>
    simp only [State.exec] at h
    split at h
    · cases h
    · rename_i hok
      have hd := lt_of_okAcc (g2 hok).1
      split at h
      · cases h
      · rename_i v' r hx
        cases h
        exact ⟨StInv_setVS hi (delegate_SumInv hd hx (hi v)), rfl⟩
  | undelegate d v amt =>
    simp only [State.exec] at h
    split at h
    · cases h
    · rename_i hok
      have hd := lt_of_okAcc (g2 hok).1
      split at h
      · cases h
      · split at h
        · cases h
        · split at h
          · cases h
          · rename_i v' ret r hx
            cases h
            exact ⟨StInv_setVS hi (unbond_SumInv hd hx (hi v)), rfl⟩
  | redelegate d src dst amt =>
    simp only [State.exec] at h
    split at h
    · cases h
    · rename_i hok
      have hd := lt_of_okAcc (g3 hok).1
      split at h
      · cases h
      · split at h
        · cases h
        · split at h
          · cases h
          · split at h
            · cases h
            · split at h
              · cases h
              · rename_i vsrc ret r1 hx
                split at h
                · cases h
                · split at h
                  · cases h
                  · rename_i vdst r2 hy
                    cases h
                    have a : StInv (s.setVS src vsrc) := StInv_setVS hi (unbond_SumInv hd hx (hi src))
                    have hne : ¬ (src == dst) = true := by assumption
                    have hsd : dst ≠ src := by
                      intro e; apply hne; simp [e]
                    have b : SumInv s.nAcc vdst := delegate_SumInv hd hy (hi dst)
                    exact ⟨StInv_setVS (s := s.setVS src vsrc) a b, rfl⟩
  | withdraw d v =>
    simp only [State.exec] at h
    split at h
    · cases h
    · split at h
      · cases h
      · rename_i v' r hx
        cases h
        exact ⟨StInv_setVS hi (SumInv_of_SF (withdrawMsg_SF hx) (hi v)), rfl⟩
  | approve owner spender v shares =>
    simp only [State.exec] at h
    split at h
    · cases h
    · cases h; exact ⟨hi, rfl⟩
  | transfer f t v x =>
    simp only [State.exec] at h
    rw [transferTx_eq hg] at h
    exact transferOp_inv hg hi h
  | transferFrom sp f t v x =>
    simp only [State.exec] at h
    rw [transferFromTx_eq hg] at h
    simp only [State.transferFromRef] at h
    split at h
    · cases h
    · split at h
      · cases h
      · split at h
        · cases h
        · split at h
          · cases h
          · have r := transferOp_inv hg (by exact hi) h
            exact ⟨r.1, r.2⟩
  | alloc v amt =>
    simp only [State.exec] at h
    split at h
    · cases h
    · cases h
      exact ⟨StInv_setVS hi (SumInv_of_SF (alloc_SF _ _) (hi v)), rfl⟩
  | slash v p f =>
    simp only [State.exec] at h
    split at h
    · cases h
    · cases h
      exact ⟨StInv_setVS hi (slash_SumInv _ _ _ _ (hi v)), rfl⟩
  | block =>
    simp only [State.exec] at h
    cases h
    refine ⟨fun w => ?_, rfl⟩
    show SumInv s.nAcc ((s.vs w).endBlock s.height)
    unfold VS.endBlock
    dsimp only
    split
    · exact hi w
    · split
      · exact hi w
      · exact hi w
  | mature H =>
    simp only [State.exec] at h
    cases h
    refine ⟨fun w => ?_, rfl⟩
    show SumInv s.nAcc (if (s.vs w).bonded then (s.vs w).endBlock s.height else ((s.vs w).endBlock s.height).matureValTo H)
    have e : ∀ v : VS, SF v (v.endBlock s.height) := by
      intro v
      unfold VS.endBlock
      dsimp only
      split
      · exact ⟨rfl, rfl, rfl⟩
      · split <;> exact ⟨rfl, rfl, rfl⟩
    have m : ∀ v : VS, SF v (v.matureValTo H) := by
      intro v
      unfold VS.matureValTo VS.matureVal
      split
      · split <;> exact ⟨rfl, rfl, rfl⟩
      · exact ⟨rfl, rfl, rfl⟩
    split
    · exact SumInv_of_SF (e _) (hi w)
    · exact SumInv_of_SF ((e _).trans (m _)) (hi w)
  | jail v =>
    simp only [State.exec] at h
    split at h
    · cases h
    · cases h
      exact ⟨StInv_setVS hi (hi v), rfl⟩
  | unjail v =>
    simp only [State.exec] at h
    split at h
    · cases h
    · cases h
      exact ⟨StInv_setVS hi (hi v), rfl⟩

theorem step_inv {c : FxVerif.Gen.C11.Cfg} (hg : good c = true) {s : State} (o : Op) (hi : StInv s) :
    StInv (s.step c o) ∧ (s.step c o).nAcc = s.nAcc := by
  unfold State.step
  cases h : s.exec c o with
  | error e => exact ⟨hi, rfl⟩
  | ok s' => exact exec_inv hg hi h

theorem run_inv {c : FxVerif.Gen.C11.Cfg} (hg : good c = true) (ops : List Op) (s : State) (hi : StInv s) :
    StInv (s.run c ops) ∧ (s.run c ops).nAcc = s.nAcc := by
  induction ops generalizing s with
  | nil => exact ⟨hi, rfl⟩
  | cons o os ih =>
    obtain ⟨h1, h2⟩ := step_inv hg o hi
    obtain ⟨h3, h4⟩ := ih (s.step c o) h1
    exact ⟨h3, h4.trans h2⟩

theorem sumTo_zero (n : Nat) : sumTo n (fun _ => 0) = 0 := by
  induction n with
  | zero => rfl
  | succ n ih => simp [sumTo, ih]

theorem genesis_SumInv {n i t r : Nat} (hi : i < n) : SumInv n (genesisVS i t r) := by
  unfold genesisVS SumInv VS.delSum
  dsimp only
  generalize t * ONE = T
  constructor
  · have := sumTo_update (fun _ => 0) (fun d => (setAt (fun _ => (none : Option Nat)) i (some T) d).getD 0) i hi
      (fun d hd => by simp [setAt, hd])
    rw [sumTo_zero] at this
    simp only [setAt_same, Option.getD_some] at this
    omega
  · intro e he
    have : e ≠ i := by omega
    simp [setAt, this]

theorem init_inv {nAcc h0 : Nat} {vals : List (Nat × Nat)} (hv : vals.length ≤ nAcc) : StInv (init nAcc h0 vals) := by
  intro w
  show SumInv nAcc (match vals[w]? with | some (t, r) => genesisVS w t r | none => {})
  cases hw : vals[w]? with
  | none =>
    constructor
    · show sumTo nAcc (fun _ => 0) = 0
      exact sumTo_zero _
    · intro e _; rfl
  | some p =>
    obtain ⟨t, r⟩ := p
    have : w < vals.length := by
      have := List.getElem?_eq_some_iff.mp hw
      exact this.1
    exact genesis_SumInv (by omega)

/-- **shares_sum_invariant.**  From genesis (validators with their self-delegations, all operator accounts among
the `nAcc` accounts), after *any* sequence of delegate / undelegate / redelegate / withdraw / approve / transfer /
transferFrom / reward allocation / slashing / block operations (failed ones are reverted), for every validator the
delegators' shares add up to exactly the validator's total shares, and no delegation exists outside the accounts. -/
theorem shares_sum_invariant (nAcc h0 : Nat) (vals : List (Nat × Nat)) (hv : vals.length ≤ nAcc) (ops : List Op) (w : Nat) :
    (((init nAcc h0 vals).run cfg ops).vs w).delSum nAcc = (((init nAcc h0 vals).run cfg ops).vs w).shares ∧
    ∀ d, nAcc ≤ d → (((init nAcc h0 vals).run cfg ops).vs w).del d = none := by
  obtain ⟨h1, h2⟩ := run_inv cfg_good ops (init nAcc h0 vals) (init_inv hv)
  have := h1 w
  rw [h2] at this
  exact this

theorem transferOp_allow {c : FxVerif.Gen.C11.Cfg} {s s' : State} {f t v x : Nat}
    (h : s.transferOp c f t v x = .ok s') : s'.allow = s.allow := by
  unfold State.transferOp at h
  split at h
  · cases h
  · split at h
    · cases h
    · split at h
      · cases h
      · cases h; rfl

/-- **allowance_exact.**  A successful `transferFromShares` of `x` shares by `spender` on behalf of `from` needed an
allowance of at least `x`, decrements exactly that allowance by exactly `x` and touches no other allowance (a failed
one is reverted as a whole by `step`). -/
theorem allowance_exact {s s' : State} {sp f t v x : Nat} (h : s.exec cfg (.transferFrom sp f t v x) = .ok s') :
    x ≤ s.allow v f sp ∧ s'.allow v f sp = s.allow v f sp - x ∧
    ∀ a b c, ¬(a = v ∧ b = f ∧ c = sp) → s'.allow a b c = s.allow a b c := by
  have hg := cfg_good
  revert h hg
  generalize cfg = c
  intro h hg
  obtain ⟨-, -, -, -, -, -, -, -, -, -, -, g12, g13, -⟩ := good_fields hg
  simp only [State.exec] at h
  rw [transferFromTx_eq hg] at h
  simp only [State.transferFromRef, g12, g13, Bool.true_and, decide_eq_true_eq, if_true] at h
  split at h
  · cases h
  · split at h
    · cases h
    · split at h
      · cases h
      · rename_i hlt
        have ha := transferOp_allow h
        refine ⟨Nat.le_of_not_lt hlt, ?_, ?_⟩
        · rw [ha]; simp
        · intro a b c' hne; rw [ha]; simp [hne]


/-! ### every history: reference counts, withdrawability, no bookkeeping failure -/

/-- the record of validator `w` after the history `ops` from genesis -/
abbrev reachVS (nAcc h0 : Nat) (vals : List (Nat × Nat)) (ops : List Op) (w : Nat) : VS :=
  ((init nAcc h0 vals).run cfg ops).vs w

/-- **refcount_invariant.**  After *any* sequence of the thirteen operation kinds (`mature H`: the unbonding period of everything begun at a height ≤ `H` passes — all of it or only a part), for every validator and every period
`p` the reference count of the historical-rewards record `p` is exactly the number of delegator starting infos that
point at `p`, plus one if `p` is the period just before the validator's current period, plus the number of slash
events recorded for `p` (the SDK's `ReferenceCountInvariant` is the sum of these equations over `p`).  Consequently
no count exceeds 2 (the hand-written `incrementReferenceCount` never refuses), every record a starting info or a
slash event refers to exists and lies below the current period, the record the current period refers to exists, and
a delegator has a starting info exactly when it has a delegation.  This is where the hand-edited counts of
`handlerTransferShares` (decrement on removal, increment for a new recipient, period offset 1) are needed. -/
theorem refcount_invariant (nAcc h0 : Nat) (vals : List (Nat × Nat)) (hv : vals.length ≤ nAcc) (ops : List Op)
    {w : Nat} (hw : w < vals.length) :
    (∀ p, (reachVS nAcc h0 vals ops w).refs p =
        infoCnt nAcc (reachVS nAcc h0 vals ops w) p + curRef (reachVS nAcc h0 vals ops w) p +
        slashCnt (reachVS nAcc h0 vals ops w) p) ∧
    (∀ p, (reachVS nAcc h0 vals ops w).refs p ≤ 2) ∧
    (∀ d, ((reachVS nAcc h0 vals ops w).sinfo d).isSome = ((reachVS nAcc h0 vals ops w).del d).isSome) ∧
    (∀ d si, (reachVS nAcc h0 vals ops w).sinfo d = some si →
        d < nAcc ∧ si.period < (reachVS nAcc h0 vals ops w).period ∧ (reachVS nAcc h0 vals ops w).refs si.period ≠ 0) ∧
    (∀ e, e ∈ (reachVS nAcc h0 vals ops w).slashes →
        e.period < (reachVS nAcc h0 vals ops w).period ∧ (reachVS nAcc h0 vals ops w).refs e.period ≠ 0) ∧
    (reachVS nAcc h0 vals ops w).refs ((reachVS nAcc h0 vals ops w).period - 1) ≠ 0 := by
  have hi := reach_SInv cfg_good nAcc h0 vals hv ops hw
  refine ⟨hi.ri.cnt, hi.ri.refs_le_two, hi.dom, ?_, ?_, hi.ri.refs_cur_pos⟩
  · intro d si hs
    have hd : d < nAcc := by
      by_cases h : d < nAcc
      · exact h
      · have := hi.ri.out d (by omega)
        rw [hs] at this; cases this
    have := hi.ri.sper d si hs
    exact ⟨hd, Nat.lt_of_succ_le this, hi.ri.refs_info_pos hd hs⟩
  · intro e he
    have := hi.ri.eper e he
    exact ⟨Nat.lt_of_succ_le this, hi.ri.refs_slash_pos he⟩

/-- **refcount_total** — the SDK's own `ReferenceCountInvariant`, as a theorem: after any history the reference counts
of all historical records of a validator add up to 1 (the validator's current period) + the number of delegations
+ the number of slash events (no record exists at or above the current period, so the sum over the periods below it
is the sum over all records). -/
theorem refcount_total (nAcc h0 : Nat) (vals : List (Nat × Nat)) (hv : vals.length ≤ nAcc) (ops : List Op)
    {w : Nat} (hw : w < vals.length) :
    sumTo (reachVS nAcc h0 vals ops w).period (reachVS nAcc h0 vals ops w).refs =
      delNum nAcc (reachVS nAcc h0 vals ops w) + 1 + (reachVS nAcc h0 vals ops w).slashes.length ∧
    ∀ p, (reachVS nAcc h0 vals ops w).period ≤ p → (reachVS nAcc h0 vals ops w).refs p = 0 := by
  have hi := reach_SInv cfg_good nAcc h0 vals hv ops hw
  exact ⟨hi.ri.total hi.dom, fun p hp => hi.ri.refs_zero hp⟩

/-- **still_withdrawable (partial).**  After any history every delegator of every validator can withdraw its rewards
and undelegate all of its shares, at any height: both SDK calls succeed — the withdrawal leaves the delegation in
place, the undelegation removes it — *unless* the SDK's own stake sanity check in `CalculateDelegationRewards`
("calculated final stake … greater than current stake", tolerance 3·10⁻¹⁸) fires.  No other failure is possible: no
missing or negative reference count, no count above 2, no missing starting info, no negative rewards, no period
disorder, no token underflow.  `_partial`: that the rounding sanity check itself never fires is an arithmetic
property of the SDK's 18-decimal truncations that is monitored on the real app (final withdraw + undelegate of every
user in every history), not proved. -/
theorem still_withdrawable_partial (nAcc h0 : Nat) (vals : List (Nat × Nat)) (hv : vals.length ≤ nAcc) (ops : List Op)
    {w : Nat} (hw : w < vals.length) (h d sh : Nat) (hdel : (reachVS nAcc h0 vals ops w).del d = some sh) :
    ((reachVS nAcc h0 vals ops w).withdrawMsg h d = .error .stakeSanity ∨
      ∃ v' c, (reachVS nAcc h0 vals ops w).withdrawMsg h d = .ok (v', c) ∧ v'.del d = some sh) ∧
    ((reachVS nAcc h0 vals ops w).unbond h d sh = .error .stakeSanity ∨
      ∃ v' ret c, (reachVS nAcc h0 vals ops w).unbond h d sh = .ok (v', ret, c) ∧ v'.del d = none) := by
  have hi := reach_SInv cfg_good nAcc h0 vals hv ops hw
  have hd : d < nAcc := by
    by_cases hlt : d < nAcc
    · exact hlt
    · have := hi.sum.2 d (by omega)
      rw [hdel] at this; cases this
  constructor
  · rcases withdrawMsg_total hi.ri hi.dom (h := h) hd hdel with hE | ⟨v', c, hw', _, _, _, _, _, _, sf⟩
    · exact Or.inl hE
    · exact Or.inr ⟨v', c, hw', by rw [sf.1]; exact hdel⟩
  · rcases unbond_full_total hi (h := h) hd hdel with hE | ⟨v', ret, c, hu, hn, _⟩
    · exact Or.inl hE
    · exact Or.inr ⟨v', ret, c, hu, hn⟩

/-- **still_withdrawable_iff** — exactly when the exception of `still_withdrawable_partial` occurs.  After any history,
for every delegator `d` of every validator and every block height `h`: let `stakeAfter` be the stake the SDK recomputes
from the delegator's starting stake by one truncating multiplication with `1 − fraction` per slash event recorded
since the starting info was written (`Model.C11.stakeAfter`, a function of the starting info and the slash events only —
no reward ratio, no other delegator enters), and let `sanityFires` say that it exceeds the current token worth of the
delegator's shares by more than 3·10⁻¹⁸ (and the starting info is not of this very block).  Then

* if `sanityFires` is false the delegator CAN withdraw (its delegation stays) and CAN undelegate all of its shares (the
  delegation is removed) — withdrawability proved under precisely the hypothesis that is needed;
* if `sanityFires` is true both calls fail, with the SDK's stake sanity error.

So the only obstacle to `still_withdrawable` is this arithmetic predicate of one starting info and the slash fractions
after it; share transfers enter only through the starting infos they write, and for those the predicate is provably
false until the next slash (`nothing_pending_after_transfer`). -/
theorem still_withdrawable_iff (nAcc h0 : Nat) (vals : List (Nat × Nat)) (hv : vals.length ≤ nAcc) (ops : List Op)
    {w : Nat} (hw : w < vals.length) (h d sh : Nat) (hdel : (reachVS nAcc h0 vals ops w).del d = some sh) :
    ((reachVS nAcc h0 vals ops w).sanityFires h d = false →
      (∃ v' c, (reachVS nAcc h0 vals ops w).withdrawMsg h d = .ok (v', c) ∧ v'.del d = some sh) ∧
      (∃ v' ret c, (reachVS nAcc h0 vals ops w).unbond h d sh = .ok (v', ret, c) ∧ v'.del d = none)) ∧
    ((reachVS nAcc h0 vals ops w).sanityFires h d = true →
      (reachVS nAcc h0 vals ops w).withdrawMsg h d = .error .stakeSanity ∧
      (reachVS nAcc h0 vals ops w).unbond h d sh = .error .stakeSanity) := by
  have hi : VInv nAcc (reachVS nAcc h0 vals ops w) := reach_SInv cfg_good nAcc h0 vals hv ops hw
  obtain ⟨p1, p2⟩ := still_withdrawable_partial nAcc h0 vals hv ops hw h d sh hdel
  generalize reachVS nAcc h0 vals ops w = v at hi hdel p1 p2 ⊢
  obtain ⟨si, hs⟩ := Dom_sinfo_some hi.dom hdel
  have key := withdrawRewards_sanity hi.ri (h := h) hdel hs
  constructor
  · intro hf
    have hne : v.withdrawRewards h d ≠ .error .stakeSanity := by
      intro hc
      rw [key.mp hc] at hf
      cases hf
    constructor
    · rcases p1 with hE | hok
      · exact absurd (withdrawMsg_sanity_imp hE) hne
      · exact hok
    · rcases p2 with hE | hok
      · exact absurd (unbond_sanity_imp hdel hE) hne
      · exact hok
  · intro ht
    have hwr := key.mpr ht
    exact ⟨withdrawMsg_sanity_of hwr, unbond_sanity_of hdel hwr⟩

/-- **still_withdrawable_unslashed** — `still_withdrawable` at full strength for every validator that the history never
slashes (whatever happens to the other validators): after any sequence of delegate / undelegate / redelegate / withdraw /
approve / transfer / transferFrom / reward allocation / block / jail / unjail operations, and slashes of *other*
validators, every delegator of the validator can withdraw its rewards (the delegation stays) and undelegate all of its
shares (the delegation is removed), at any height.  The proof keeps the validator at exactly one share per token, every
delegation a whole number of shares and every starting stake equal to the delegator's shares — through the
hand-written starting infos of `handlerTransferShares` too — so the SDK's sanity check compares a number with itself. -/
theorem still_withdrawable_unslashed (nAcc h0 : Nat) (vals : List (Nat × Nat)) (hv : vals.length ≤ nAcc) (ops : List Op)
    {w : Nat} (hw : w < vals.length) (hns : ∀ o, o ∈ ops → ∀ p f, o ≠ .slash w p f)
    (h d sh : Nat) (hdel : (reachVS nAcc h0 vals ops w).del d = some sh) :
    (∃ v' c, (reachVS nAcc h0 vals ops w).withdrawMsg h d = .ok (v', c) ∧ v'.del d = some sh) ∧
    (∃ v' ret c, (reachVS nAcc h0 vals ops w).unbond h d sh = .ok (v', ret, c) ∧ v'.del d = none) := by
  have hi : VInv nAcc (reachVS nAcc h0 vals ops w) := reach_SInv cfg_good nAcc h0 vals hv ops hw
  have hn : NS (reachVS nAcc h0 vals ops w) :=
    run_NS cfg_good ops (init nAcc h0 vals) (init_SInv hv) (init_NS nAcc h0 vals w) hns
  exact (still_withdrawable_iff nAcc h0 vals hv ops hw h d sh hdel).1 (NS_not_sanity hi.sum hn h d)

/-- **the exception in `still_withdrawable_partial` is real.**  `still_withdrawable` at full strength is false of the SDK's
18-decimal arithmetic, without any share transfer: slash a validator of 10^20 tokens by 100 base units (fraction
10⁻¹⁸), let someone delegate one base unit, slash by 100 base units again — the second effective fraction
100 / (10^20 − 99) is truncated at 36 decimals to exactly 10⁻¹⁸ by `QuoRoundUp`, so the stake recomputed for the
operator exceeds its current stake by ~99·10⁻¹⁸ > 3·10⁻¹⁸ and `CalculateDelegationRewards` refuses (panics in the
real keeper; reproduced on the real app, see fixes/C11-sdk-stake-sanity.md).  The cause is dependency code (Cosmos SDK
x/staking `Slash` + x/distribution), reachable only with slash fractions at the 10⁻¹⁸ precision limit. -/
def errOf {α} : Except Err α → Option Err
  | .ok _ => none
  | .error e => some e

theorem eq_error_of_errOf {α} {x : Except Err α} {e : Err} (h : errOf x = some e) : x = .error e := by
  cases x with
  | ok a => cases h
  | error e' => cases h; rfl

theorem stake_sanity_reachable :
    ∃ (ops : List Op) (d sh : Nat), (reachVS 2 1 [(100000000000000000000, 0)] ops 0).del d = some sh ∧
      (reachVS 2 1 [(100000000000000000000, 0)] ops 0).withdrawMsg 3 d = .error .stakeSanity :=
  ⟨[.slash 0 1 1, .delegate 1 0 1, .slash 0 1 1], 0, 100000000000000000000 * ONE, by decide, eq_error_of_errOf (by decide)⟩

/-- **transfer_reinitialises.**  After any history, a successful transfer between different accounts leaves each
party with exactly the starting info the SDK's own `initializeDelegation` would write for its new shares at that
moment: two validator periods are ended during the call, the validator's current rewards are zero afterwards and
the cumulative reward ratio is the same at both period ends (nothing is pending for either party); the recipient
starts at the last period ended with stake `TokensFromSharesTruncated(old shares + X)` at the current height; the
sender — if it keeps shares — starts at the first period ended with stake `TokensFromSharesTruncated(rest)` at the
current height, and has no starting info left otherwise.  This is the theorem that depends on the stake / period /
height expressions of the hand-written starting infos (regenerated in `cfg.prog`). -/
theorem transfer_reinitialises (nAcc h0 : Nat) (vals : List (Nat × Nat)) (hv : vals.length ≤ nAcc) (ops : List Op)
    {w : Nat} (hw : w < vals.length) {v' : VS} {h f t X rf rt : Nat} {recv : Bool} (hf : f < nAcc) (htn : t < nAcc)
    (hne : f ≠ t) (ht : VS.transfer cfg (reachVS nAcc h0 vals ops w) h f t X recv = .ok (v', rf, rt)) :
    ∃ fsh, (reachVS nAcc h0 vals ops w).del f = some fsh ∧
      v'.period = (reachVS nAcc h0 vals ops w).period + 2 ∧ v'.cur = 0 ∧
      v'.ratio (reachVS nAcc h0 vals ops w).period = v'.ratio ((reachVS nAcc h0 vals ops w).period + 1) ∧
      v'.sinfo t = some ⟨(reachVS nAcc h0 vals ops w).period + 1,
        v'.tokensFromSharesTrunc (((reachVS nAcc h0 vals ops w).del t).getD 0 + X), h⟩ ∧
      v'.sinfo f = (if fsh - X = 0 then none
        else some ⟨(reachVS nAcc h0 vals ops w).period, v'.tokensFromSharesTrunc (fsh - X), h⟩) := by
  obtain ⟨fsh, a1, a2, a3, a4, a5, a6, _⟩ :=
    transfer_shape cfg_good (reach_SInv cfg_good nAcc h0 vals hv ops hw) hf htn hne ht
  exact ⟨fsh, a1, a2, a3, a4, a5, a6⟩

/-- **nothing_pending_after_transfer.**  After any history, right after a successful transfer between different
accounts — at any later height, with no allocation or slash in between — each party that holds a delegation can
withdraw, the withdrawal succeeds (here the SDK's stake sanity check provably cannot fire: the hand-written stake is
the truncated token worth of the shares) and pays exactly nothing: together with `rewards_paid_up_to_now` the
transfer paid each party precisely what had accrued up to that moment, no more and no less. -/
theorem nothing_pending_after_transfer (nAcc h0 : Nat) (vals : List (Nat × Nat)) (hv : vals.length ≤ nAcc) (ops : List Op)
    {w : Nat} (hw : w < vals.length) {v' : VS} {h f t X rf rt : Nat} {recv : Bool} (hf : f < nAcc) (htn : t < nAcc)
    (hne : f ≠ t) (ht : VS.transfer cfg (reachVS nAcc h0 vals ops w) h f t X recv = .ok (v', rf, rt))
    {d sh h' : Nat} (hd : d = f ∨ d = t) (hdel : v'.del d = some sh) (hh : h ≠ h') :
    ∃ v'', v'.withdrawMsg h' d = .ok (v'', 0) :=
  transfer_nothing_pending cfg_good (reach_SInv cfg_good nAcc h0 vals hv ops hw) hf htn hne ht hd hdel hh

/-- **third_party_rewards_unchanged.**  After any history, a successful transfer between two different accounts does
not change what the `delegationRewards` view (end the period on a branch, `CalculateDelegationRewards`, truncate)
reports for any *other* delegator of the validator, at any height: third parties' reward entitlements are conserved
exactly, including the effect of the two extra periods the transfer ends and of slash events. -/
theorem third_party_rewards_unchanged (nAcc h0 : Nat) (vals : List (Nat × Nat)) (hv : vals.length ≤ nAcc) (ops : List Op)
    {w : Nat} (hw : w < vals.length) {v' : VS} {h f t X rf rt : Nat} {recv : Bool} (hf : f < nAcc) (htn : t < nAcc)
    (hne : f ≠ t) (ht : VS.transfer cfg (reachVS nAcc h0 vals ops w) h f t X recv = .ok (v', rf, rt))
    {d : Nat} (hdf : d ≠ f) (hdt : d ≠ t) (hq : Nat) :
    v'.pendingRewards hq d = (reachVS nAcc h0 vals ops w).pendingRewards hq d :=
  transfer_third_party cfg_good (reach_SInv cfg_good nAcc h0 vals hv ops hw) hf htn hne ht hdf hdt hq

/-- **transfer_frame.**  A transfer leaves every third party's reward entitlement alone: for every delegator other
than the two parties the delegation and the starting info are unchanged, the cumulative reward ratio of every period
that existed before the call is unchanged, the slash events are unchanged, and the validator's tokens and total
shares are unchanged — these are all the inputs of `CalculateDelegationRewards` for a third party, and by
`refcount_invariant` every record its starting info or a slash event refers to still exists afterwards. -/
theorem transfer_frame (nAcc h0 : Nat) (vals : List (Nat × Nat)) (hv : vals.length ≤ nAcc) (ops : List Op)
    {w : Nat} (hw : w < vals.length) {v' : VS} {h f t X rf rt : Nat} {recv : Bool} (hf : f < nAcc) (htn : t < nAcc)
    (hne : f ≠ t) (ht : VS.transfer cfg (reachVS nAcc h0 vals ops w) h f t X recv = .ok (v', rf, rt)) :
    (∀ d, d ≠ f → d ≠ t → v'.del d = (reachVS nAcc h0 vals ops w).del d ∧ v'.sinfo d = (reachVS nAcc h0 vals ops w).sinfo d) ∧
    (∀ x, x < (reachVS nAcc h0 vals ops w).period → v'.ratio x = (reachVS nAcc h0 vals ops w).ratio x) ∧
    v'.slashes = (reachVS nAcc h0 vals ops w).slashes ∧
    v'.tokens = (reachVS nAcc h0 vals ops w).tokens ∧ v'.shares = (reachVS nAcc h0 vals ops w).shares := by
  obtain ⟨fsh, _, _, _, _, _, _, b1, b2, b3, _⟩ :=
    transfer_shape cfg_good (reach_SInv cfg_good nAcc h0 vals hv ops hw) hf htn hne ht
  obtain ⟨_, _, _, _, _, _, c1, c2, c3⟩ := transfer_moves_exactly hne ht
  exact ⟨fun d h1 h2 => ⟨c1 d h1 h2, b1 d h1 h2⟩, b2, b3, c2, c3⟩

/-- the failures of an operation that are ordinary refusals of the request, as opposed to failures of the
distribution / staking bookkeeping -/
def refusal (e : Err) : Prop :=
  e = .badArgs ∨ e = .noDelegation ∨ e = .recvRedel ∨ e = .insufficient ∨ e = .allowance ∨ e = .stakeSanity

theorem transferOp_refusal {s : State} (hi : SInv s) {f t v x : Nat} {e : Err}
    (h : s.transferOp cfg f t v x = .error e) : refusal e := by
  unfold State.transferOp at h
  split at h
  · cases h; exact Or.inl rfl
  · rename_i hok
    have hok' : s.okAcc f = true ∧ s.okAcc t = true ∧ s.okVal v = true := by
      revert hok
      cases s.okAcc f <;> cases s.okAcc t <;> cases s.okVal v <;> decide
    split at h
    · cases h; exact Or.inl rfl
    · rcases transfer_total cfg_good (hi v (lt_of_okVal hok'.2.2)) (h := s.height) (f := f) (t := t) (X := x * ONE)
          (recv := s.hasRecvRedel f v) (lt_of_okAcc' hok'.1) (lt_of_okAcc' hok'.2.1) with ⟨e', he, hk⟩ | ⟨v2, a, b, hr, _⟩
      · rw [he] at h
        cases h
        rcases hk with hk | hk | hk | hk
        · exact Or.inr (Or.inl hk)
        · exact Or.inr (Or.inr (Or.inl hk))
        · exact Or.inr (Or.inr (Or.inr (Or.inl hk)))
        · exact Or.inr (Or.inr (Or.inr (Or.inr (Or.inr hk))))
      · rw [hr] at h; cases h

/-- **transfer_never_breaks_bookkeeping.**  After any history a `transferShares` / `transferFromShares` call either
succeeds or is refused for one of the documented reasons (bad arguments, no delegation, incoming redelegation,
insufficient shares, insufficient allowance) or by the SDK's stake sanity check of the reward withdrawal it
contains; it never fails — and never panics — in the hand-edited bookkeeping (reference count missing / negative /
above 2, negative shares, period disorder, negative rewards, missing starting info). -/
theorem transfer_never_breaks_bookkeeping (nAcc h0 : Nat) (vals : List (Nat × Nat)) (hv : vals.length ≤ nAcc)
    (ops : List Op) (sp f t v x : Nat) (e : Err) :
    (((init nAcc h0 vals).run cfg ops).exec cfg (.transfer f t v x) = .error e → refusal e) ∧
    (((init nAcc h0 vals).run cfg ops).exec cfg (.transferFrom sp f t v x) = .error e → refusal e) := by
  obtain ⟨hi, _, _⟩ := run_SInv cfg_good ops (init nAcc h0 vals) (init_SInv hv)
  generalize (init nAcc h0 vals).run cfg ops = s at hi
  constructor
  · intro h
    simp only [State.exec] at h
    rw [transferTx_eq cfg_good] at h
    exact transferOp_refusal hi h
  · intro h
    have hg := cfg_good
    obtain ⟨-, -, -, -, -, -, -, -, -, -, -, g12, g13, -⟩ := good_fields hg
    simp only [State.exec] at h
    rw [transferFromTx_eq hg] at h
    simp only [State.transferFromRef] at h
    split at h
    · cases h; exact Or.inl rfl
    · split at h
      · cases h; exact Or.inl rfl
      · split at h
        · cases h; exact Or.inr (Or.inr (Or.inr (Or.inr (Or.inl rfl))))
        · rename_i hal
          split at h
          · rename_i hlt
            exfalso; apply hal
            simp [g12, hlt]
          · exact transferOp_refusal (s := { s with allow := _ }) (by exact hi) h

/-! ### the bank side: staking pools, distribution module account, accounts -/

/-- **pool_invariant** — the SDK staking `ModuleAccountInvariants`, as a theorem: after *any* sequence of the thirteen
operation kinds from genesis the bonded pool holds exactly the tokens of the Bonded validators, and the not-bonded
pool holds exactly the tokens of the other validators plus the balances of all unbonding-delegation entries.  (A share
transfer moves no tokens: `transfer_leaves_chain_unchanged`; delegate / undelegate / redelegate move them between the
delegator, the two pools and the entries according to the validators' status; slashing burns from the pool of the
validator's status; the validator-set update at the end of a block moves a validator's whole stake.) -/
theorem pool_invariant (nAcc h0 : Nat) (vals : List (Nat × Nat)) (ops : List Op) :
    ((init nAcc h0 vals).run cfg ops).bondedPool =
      sumTo ((init nAcc h0 vals).run cfg ops).nVal (fun w =>
        if (((init nAcc h0 vals).run cfg ops).vs w).bonded then (((init nAcc h0 vals).run cfg ops).vs w).tokens else 0) ∧
    ((init nAcc h0 vals).run cfg ops).notBondedPool =
      sumTo ((init nAcc h0 vals).run cfg ops).nVal (fun w =>
        if (((init nAcc h0 vals).run cfg ops).vs w).bonded then 0 else (((init nAcc h0 vals).run cfg ops).vs w).tokens) +
      ubdTotal ((init nAcc h0 vals).run cfg ops).ubd := by
  have hi := run_BInv cfg_good ops _ (init_BInv nAcc h0 vals)
  exact ⟨hi.bonded, hi.notBonded⟩

/-- **distribution_accounting** — after any history: for every validator the rewards of the open period are part of
its outstanding rewards, and outstanding + paid (whole coins) + truncation remainders handed to the community pool =
everything ever allocated to it (nothing is lost, nothing is paid twice, whatever transfers happened in between);
summed over the validators, the allocations are exactly the coins the distribution module account received, the
payments are exactly the coins it paid out, and those are exactly the coins the accounts received.  Consequently the
module account never pays more than it received and its balance is exactly Σ outstanding + the community-pool
remainders — the SDK distribution `ModuleAccountInvariant` (and `NonNegativeOutstandingInvariant`) as a theorem. -/
theorem distribution_accounting (nAcc h0 : Nat) (vals : List (Nat × Nat)) (ops : List Op) :
    (∀ w, (((init nAcc h0 vals).run cfg ops).vs w).cur ≤ (((init nAcc h0 vals).run cfg ops).vs w).outstanding ∧
      (((init nAcc h0 vals).run cfg ops).vs w).outstanding + (((init nAcc h0 vals).run cfg ops).vs w).paid * ONE +
        (((init nAcc h0 vals).run cfg ops).vs w).dust = (((init nAcc h0 vals).run cfg ops).vs w).allocated) ∧
    sumTo ((init nAcc h0 vals).run cfg ops).nVal (fun w => (((init nAcc h0 vals).run cfg ops).vs w).allocated) =
      ((init nAcc h0 vals).run cfg ops).distrIn * ONE ∧
    sumTo ((init nAcc h0 vals).run cfg ops).nVal (fun w => (((init nAcc h0 vals).run cfg ops).vs w).paid) =
      ((init nAcc h0 vals).run cfg ops).distrOut ∧
    sumTo ((init nAcc h0 vals).run cfg ops).nAcc ((init nAcc h0 vals).run cfg ops).gain =
      ((init nAcc h0 vals).run cfg ops).distrOut ∧
    ((init nAcc h0 vals).run cfg ops).distrOut ≤ ((init nAcc h0 vals).run cfg ops).distrIn ∧
    (((init nAcc h0 vals).run cfg ops).distrIn - ((init nAcc h0 vals).run cfg ops).distrOut) * ONE =
      sumTo ((init nAcc h0 vals).run cfg ops).nVal (fun w => (((init nAcc h0 vals).run cfg ops).vs w).outstanding) +
      sumTo ((init nAcc h0 vals).run cfg ops).nVal (fun w => (((init nAcc h0 vals).run cfg ops).vs w).dust) := by
  have hi := run_BInv cfg_good ops _ (init_BInv nAcc h0 vals)
  generalize (init nAcc h0 vals).run cfg ops = s at hi ⊢
  have key : sumTo s.nVal (fun w => (s.vs w).allocated) =
      sumTo s.nVal (fun w => (s.vs w).outstanding) + sumTo s.nVal (fun w => (s.vs w).paid) * ONE +
      sumTo s.nVal (fun w => (s.vs w).dust) := by
    rw [← sumTo_mul_right, ← sumTo_add, ← sumTo_add]
    exact sumTo_congr (fun w _ => ((hi.acct w).2).symm)
  have h3 := hi.allocated
  have h4 := hi.paid
  rw [h3, h4] at key
  have hle : s.distrOut ≤ s.distrIn := by
    have : s.distrOut * ONE ≤ s.distrIn * ONE := by omega
    exact Nat.le_of_mul_le_mul_right this (by decide)
  refine ⟨hi.acct, h3, h4, hi.gain, hle, ?_⟩
  rw [Nat.sub_mul]
  omega

/-- what a share transfer leaves alone at the level of the chain -/
def ChainFrame (s s' : State) (f t v : Nat) : Prop :=
  s'.bondedPool = s.bondedPool ∧ s'.notBondedPool = s.notBondedPool ∧ s'.ubd = s.ubd ∧ s'.redel = s.redel ∧
  s'.distrIn = s.distrIn ∧ s'.burned = s.burned ∧ s'.height = s.height ∧ s'.spent = s.spent ∧
  (∀ w, w ≠ v → s'.vs w = s.vs w) ∧
  (s'.vs v).bonded = (s.vs v).bonded ∧ (s'.vs v).jailed = (s.vs v).jailed ∧ (s'.vs v).tokens = (s.vs v).tokens ∧
  ∃ rf rt, s'.distrOut = s.distrOut + rf + rt ∧ (s'.vs v).paid = (s.vs v).paid + (rf + rt) ∧
    s'.gain = setAt (setAt s.gain f (s.gain f + rf)) t (setAt s.gain f (s.gain f + rf) t + rt)

/-- **transfer_leaves_chain_unchanged.**  A successful `transferShares` / `transferFromShares` at validator `v` changes
neither staking pool, no unbonding-delegation or redelegation record, no other validator's record (in particular no
delegation, starting info or reward of `from` / `to` at any *other* validator), not the validator's status or tokens, no
coins bonded by anyone, and burns and allocates nothing; the distribution module account pays out exactly the two
reward amounts `rf` and `rt`, which are credited to `from` and `to` and to nobody else, and are exactly what is added to
the validator's `paid` total.  (For `transferFromShares` the only further change is the one allowance of
`allowance_exact`.) -/
theorem transfer_leaves_chain_unchanged {s s' : State} {sp f t v x : Nat} :
    (s.exec cfg (.transfer f t v x) = .ok s' → ChainFrame s s' f t v ∧ s'.allow = s.allow) ∧
    (s.exec cfg (.transferFrom sp f t v x) = .ok s' → ChainFrame s s' f t v) := by
  constructor
  · intro h
    simp only [State.exec] at h
    rw [transferTx_eq cfg_good] at h
    obtain ⟨a1, a2, a3, a4, a5, a6, a7, a8, a9, a10, a11, a12, a13, rf, rt, b1, b2, b3⟩ := transferOp_frame cfg_good h
    exact ⟨⟨a1, a2, a3, a4, a5, a6, a7, a8, a10, a11, a12, a13, rf, rt, b1, b3, b2⟩, a9⟩
  · intro h
    simp only [State.exec] at h
    rw [transferFromTx_eq cfg_good] at h
    simp only [State.transferFromRef] at h
    split at h
    · cases h
    · split at h
      · cases h
      · split at h
        · cases h
        · split at h
          · cases h
          · obtain ⟨a1, a2, a3, a4, a5, a6, a7, a8, a9, a10, a11, a12, a13, rf, rt, b1, b2, b3⟩ := transferOp_frame cfg_good h
            exact ⟨a1, a2, a3, a4, a5, a6, a7, a8, a10, a11, a12, a13, rf, rt, b1, b3, b2⟩

/-! ### the two Run methods as written: regenerated native actions, interpreted by `State.exec` -/

/-- **run_methods_as_written.**  `State.exec` INTERPRETS the statement lists `cfg.runTransfer` / `cfg.runFrom` that
`go/extract/c11run.go` regenerates from the closures `TransferShares.Run` / `TransferFromShares.Run` hand to
`ExecuteNativeAction` (which call, for whom, with which validator and amount, whether its error is handed back, in which
order, under which condition).  For the code as it is now this interpretation IS: `transferShares` = the handler run for
`contract.Caller()`; `transferFromShares` = the allowance of `(validator, args.From, caller)` is checked and decremented
FIRST and UNCONDITIONALLY (also when `from == to`, also when the handler later moves nothing), THEN the handler runs for
`args.From`.  Every theorem of this file about `.transfer` / `.transferFrom` goes through this equation, so a call that is
wrapped in a condition, dropped, reordered, made for another party or whose error is swallowed breaks `cfg_good`. -/
theorem run_methods_as_written (s : State) (sp f t v x : Nat) :
    s.exec cfg (.transfer f t v x) = s.transferOp cfg f t v x ∧
    s.exec cfg (.transferFrom sp f t v x) = s.transferFromRef cfg sp f t v x :=
  ⟨by simp only [State.exec]; exact transferTx_eq cfg_good s f t v x,
   by simp only [State.exec]; exact transferFromTx_eq cfg_good s sp f t v x⟩

/-- **transferFrom_needs_allowance.**  Whatever the state, the parties (`from == to` included) and whatever the handler
would do: `transferFromShares` of more shares than the spender's allowance fails (and is reverted as a whole). -/
theorem transferFrom_needs_allowance {s : State} {sp f t v x : Nat} (h : s.allow v f sp < x) :
    ∃ e, s.exec cfg (.transferFrom sp f t v x) = .error e ∧ (e = .badArgs ∨ e = .allowance) := by
  have hg := cfg_good
  rw [(run_methods_as_written s sp f t v x).2]
  revert hg
  generalize cfg = c
  intro hg
  obtain ⟨-, -, -, -, -, -, -, -, -, -, -, g12, g13, -⟩ := good_fields hg
  simp only [State.transferFromRef, g12, g13, Bool.true_and, decide_eq_true_eq, if_true]
  split
  · exact ⟨_, rfl, Or.inl rfl⟩
  · split
    · exact ⟨_, rfl, Or.inl rfl⟩
    · first
        | exact ⟨_, rfl, Or.inr rfl⟩
        | (rw [if_pos h]; exact ⟨_, rfl, Or.inr rfl⟩)

/-- **transferFrom_self_consumes_allowance.**  A successful `transferFromShares` with `from == to` changes nothing but the
spender's allowance: every validator record (delegations, starting infos, reference counts, rewards) and every account's
gains are as before, while the allowance was sufficient and went down by exactly `x` — a spender cannot use a
self-transfer to act without, or to keep, its allowance. -/
theorem transferFrom_self_consumes_allowance {s s' : State} {sp d v x : Nat}
    (h : s.exec cfg (.transferFrom sp d d v x) = .ok s') :
    (∀ w, s'.vs w = s.vs w) ∧ (∀ a, s'.gain a = s.gain a) ∧ x ≤ s.allow v d sp ∧ s'.allow v d sp = s.allow v d sp - x := by
  obtain ⟨hle, hal, _⟩ := allowance_exact h
  obtain ⟨_, _, _, hw, v', rf, rt, ht, hv'⟩ := transferFrom_exec cfg_good h
  obtain ⟨hvv, hrf, hrt⟩ := transfer_self cfg_good ht
  have hfr := (transfer_leaves_chain_unchanged (sp := sp)).2 h
  refine ⟨?_, ?_, hle, hal⟩
  · intro w
    by_cases hwv : w = v
    · subst hwv; rw [hv', hvv]
    · exact hw w hwv
  · obtain ⟨_, _, _, _, _, _, _, _, _, _, _, _, rf', rt', _, hpaid, hgain⟩ := hfr
    have hp : (s'.vs v).paid = (s.vs v).paid := by rw [hv', hvv]
    have h0 : rf' + rt' = 0 := by omega
    have hrf' : rf' = 0 := by omega
    have hrt' : rt' = 0 := by omega
    intro a
    rw [hgain, hrf', hrt']
    by_cases e : a = d <;> simp [setAt, e]

/-! ### transactions that make several precompile calls; partial maturity -/

/-- **grouped_transactions_refine.**  A transaction may call the staking precompile several times (a spender contract
that loops over validators and calls `transferFromShares` for each): all-or-nothing when the contract lets a failure
bubble up (`Tx.atomic`), call by call when it swallows failures (`Tx.each`).  Every state reached from genesis through
ANY list of such transactions is the state reached by a plain list of single calls, all taken from the transactions
(so a validator no transaction slashes is not slashed by the plain list either).  Hence every theorem of this file that
is stated over `State.run` — `shares_sum_invariant`, `refcount_invariant`, `refcount_total`, `pool_invariant`,
`distribution_accounting`, `still_withdrawable_iff`, `still_withdrawable_unslashed`, the transfer theorems — holds after
grouped transactions as well. -/
theorem grouped_transactions_refine (nAcc h0 : Nat) (vals : List (Nat × Nat)) (txs : List Tx) :
    ∃ ops, (init nAcc h0 vals).runTx cfg txs = (init nAcc h0 vals).run cfg ops ∧ ∀ o, o ∈ ops → o ∈ flattenTx txs :=
  runTx_reach cfg txs _

/-- the two instances used most: Σ delegations = validator shares and the staking pools, after grouped transactions -/
theorem invariants_after_grouped_transactions (nAcc h0 : Nat) (vals : List (Nat × Nat)) (hv : vals.length ≤ nAcc)
    (txs : List Tx) (w : Nat) :
    (((init nAcc h0 vals).runTx cfg txs).vs w).delSum nAcc = (((init nAcc h0 vals).runTx cfg txs).vs w).shares ∧
    ((init nAcc h0 vals).runTx cfg txs).bondedPool =
      sumTo ((init nAcc h0 vals).runTx cfg txs).nVal (fun w =>
        if (((init nAcc h0 vals).runTx cfg txs).vs w).bonded then (((init nAcc h0 vals).runTx cfg txs).vs w).tokens else 0) := by
  obtain ⟨ops, he, _⟩ := grouped_transactions_refine nAcc h0 vals txs
  rw [he]
  exact ⟨(shares_sum_invariant nAcc h0 vals hv ops w).1, (pool_invariant nAcc h0 vals ops).1⟩

/-- **atomic_all_or_nothing.**  An all-or-nothing group either leaves the state exactly as it was, or every one of its
calls succeeded in order on the state its predecessors left and the result is that of the plain sequence. -/
theorem atomic_all_or_nothing (s : State) (os : List Op) :
    s.stepTx cfg (.atomic os) = s ∨
    ∃ s', s.execAll cfg os = .ok s' ∧ s.stepTx cfg (.atomic os) = s' ∧ s' = s.run cfg os ∧ AllOk cfg s os s' := by
  cases he : s.execAll cfg os with
  | error e => left; simp only [State.stepTx, he]
  | ok s' =>
    right
    exact ⟨s', rfl, by simp only [State.stepTx, he], (execAll_ok_run os s s' he).symm, execAll_AllOk os s s' he⟩

theorem multi_aux {sp f t : Nat} : ∀ (items : List (Nat × Nat)) (s s' : State), (items.map (·.1)).Nodup →
    AllOk cfg s (multiFrom sp f t items) s' →
    ∀ i, i ∈ items → i.2 ≤ s.allow i.1 f sp ∧ s'.allow i.1 f sp = s.allow i.1 f sp - i.2 ∧
      (s'.vs i.1).tokens = (s.vs i.1).tokens ∧ (s'.vs i.1).shares = (s.vs i.1).shares ∧
      (f ≠ t → ∃ fsh, (s.vs i.1).del f = some fsh ∧ i.2 * ONE ≤ fsh ∧
        (s'.vs i.1).del f = (if fsh - i.2 * ONE = 0 then none else some (fsh - i.2 * ONE)) ∧
        (s'.vs i.1).del t = some (((s.vs i.1).del t).getD 0 + i.2 * ONE)) := by
  intro items
  induction items with
  | nil => intro s s' _ _ i hi; cases hi
  | cons j js ih =>
    intro s s' hnd h i hi
    have hnd' : (js.map (·.1)).Nodup := (List.nodup_cons.mp hnd).2
    have hj : ∀ k, k ∈ js → k.1 ≠ j.1 := by
      intro k hk hc
      have hm : k.1 ∈ js.map (·.1) := List.mem_map_of_mem hk
      rw [hc] at hm
      exact (List.nodup_cons.mp hnd).1 hm
    cases h with
    | cons he hr =>
      rename_i s1
      obtain ⟨a1, a2, a3, a4, v', rf, rt, a5, a6⟩ := transferFrom_exec cfg_good he
      rcases List.mem_cons.mp hi with rfl | hin
      · -- the head call: exact at its validator; the later calls are at other validators
        obtain ⟨r1, r2⟩ := multiFrom_frame cfg_good js s1 s' hr hj
        rw [r1, r2, a6, a2]
        refine ⟨a1, rfl, ?_⟩
        by_cases hne : f = t
        · subst hne
          obtain ⟨e, _, _⟩ := self_transfer_noop a5
          rw [e]
          exact ⟨rfl, rfl, fun hc => absurd rfl hc⟩
        · obtain ⟨fsh, b1, b2, _, b4, b5, _, b7, b8⟩ := transfer_moves_exactly hne a5
          exact ⟨b7, b8, fun _ => ⟨fsh, b1, b2, b4, b5⟩⟩
      · -- a later call: the head call was at another validator
        have hne : i.1 ≠ j.1 := hj i hin
        have q := ih s1 s' hnd' hr i hin
        rw [a4 i.1 hne, a3 i.1 f sp (by intro hc; exact hne hc.1)] at q
        exact q

/-- **multi_transferFrom_exact.**  A spender that, within ONE transaction, calls `transferFromShares(v, from, to, x)` for a
list of pairwise different validators: if the transaction succeeds then for EVERY pair `(v, x)` of the list the spender's
allowance at `v` was at least `x` and is decremented by exactly `x`, the validator's tokens and total shares are
unchanged, and (for `from ≠ to`) exactly `x` shares left `from`'s delegation at `v` (removed iff nothing is left) and
arrived in `to`'s — the calls do not interfere across validators; every validator not in the list keeps its record; and
if any call fails nothing at all changes (`atomic_all_or_nothing`). -/
theorem multi_transferFrom_exact {s s' : State} {sp f t : Nat} (items : List (Nat × Nat))
    (hnd : (items.map (·.1)).Nodup) (h : s.execAll cfg (multiFrom sp f t items) = .ok s') :
    (∀ i, i ∈ items → i.2 ≤ s.allow i.1 f sp ∧ s'.allow i.1 f sp = s.allow i.1 f sp - i.2 ∧
      (s'.vs i.1).tokens = (s.vs i.1).tokens ∧ (s'.vs i.1).shares = (s.vs i.1).shares ∧
      (f ≠ t → ∃ fsh, (s.vs i.1).del f = some fsh ∧ i.2 * ONE ≤ fsh ∧
        (s'.vs i.1).del f = (if fsh - i.2 * ONE = 0 then none else some (fsh - i.2 * ONE)) ∧
        (s'.vs i.1).del t = some (((s.vs i.1).del t).getD 0 + i.2 * ONE))) ∧
    ∀ w, (∀ i, i ∈ items → i.1 ≠ w) → s'.vs w = s.vs w ∧ ∀ b d, s'.allow w b d = s.allow w b d :=
  ⟨multi_aux items s s' hnd (execAll_AllOk _ s s' h),
   fun _ hw => multiFrom_frame cfg_good items s s' (execAll_AllOk _ s s' h) hw⟩

/-! ### a closed form under which the stake sanity check cannot fire on a slashed validator -/

/-- **slash_fraction_closed_form.**  The fraction staking `Slash` records for a burn of `burn` out of `T` tokens
(`effFraction burn T` = `min(1, QuoRoundUp(burn, T))`, the very expression of `Model.C11.VS.slash`) is never more than
10⁻³⁶ below the true fraction `burn / T`, and it is at least the true fraction (`slashExact`) whenever digits 19…36 of the
quotient are not all zero — i.e. unless the 36-decimal quotient `⌊burn·10³⁶ / T⌋` is a multiple of 10¹⁸ without the
division being exact.  (`stake_sanity_reachable` is exactly such a case: `slashExact 100 (10²⁰ − 99) = false`.) -/
theorem slash_fraction_closed_form {burn T : Nat} (hT : 0 < T) (hb : burn ≤ T) :
    burn * ONE * ONE < effFraction burn T * ONE * T + T ∧
    (quot36 burn T % ONE ≠ 0 → slashExact burn T = true) :=
  ⟨effFraction_lower hT hb, slashExact_of_rem hT hb⟩

/-- **sanity_closed_form.**  For a validator with total shares `S > 0`: take a delegator whose starting stake `st` is at
most the exact token worth of its `sh` shares when the validator had `T0` tokens (`st·S ≤ sh·T0·10¹⁸` — true of the stake
`TokensFromSharesTruncated(sh)` that `initializeDelegation` and `handlerTransferShares` write: `starting_stake_tight`), and
ANY list of later slash events, each recorded with `effFraction burn T` for the tokens `T` the validator had at that
moment and each *exact* (`slashExact`: recorded fraction ≥ true fraction — `slash_fraction_closed_form`), the validator's
shares unchanged in between, ending at the validator's present tokens.  Then the stake `CalculateDelegationRewards`
recomputes is at most `TokensFromShares(sh)`, so the SDK's sanity check (tolerance 3·10⁻¹⁸) does not fire: the delegator
can withdraw and undelegate (`still_withdrawable_iff`).  What is NOT covered: delegations / undelegations of other
delegators between the starting info and now (they change tokens and shares; an unbonding whose token amount is rounded
up lowers every remaining delegator's worth by < 10⁻¹⁸ relative) and inexact slashes. -/
theorem sanity_closed_form {v : VS} {evs : List SlashEv} {T0 sp st sh : Nat} (hS : 0 < v.shares)
    (hc : SlashChain T0 evs v.tokens) (hp : incrPeriods sp evs) (ht : st * v.shares ≤ sh * T0 * ONE) :
    stakeAfter evs sp st ≤ v.tokensFromShares sh ∧ ¬ (v.tokensFromShares sh + 3 < stakeAfter evs sp st) := by
  have h := tight_le_tfs hS (chain_tight evs T0 v.tokens sp st hc hp ht)
  exact ⟨h, by omega⟩

/-- the stake written by `initializeDelegation` and by `handlerTransferShares` (`transfer_reinitialises`:
`TokensFromSharesTruncated` of the party's shares) satisfies the hypothesis of `sanity_closed_form` -/
theorem starting_stake_tight (v : VS) (sh : Nat) : v.tokensFromSharesTrunc sh * v.shares ≤ sh * v.tokens * ONE :=
  tfsTrunc_tight v sh

/-! ### the closed form connected to the model's own steps -/

/-- **tight_chain_never_fails_sanity** — the closed form of round 4 (`sanity_closed_form`, over an abstract chain of
slashes) connected to the functions `State.exec` runs.  Take the record `v` of validator `w` after ANY history from
genesis, at height `h`, and suppose every delegator's stake is tight there (`TightV`: the stake the slash loop recomputes
is at most the exact token worth of the shares — true at genesis: `genesis_is_tight`; nothing is stamped with a future
height).  Then after ANY chain (`TightSteps`, any length, any interleaving) of
 · slashes by the model's `VS.slash` — distribution hook, period bookkeeping, event appended, tokens burnt — whose recorded
   fraction is exact (`slashExact`; `slash_fraction_closed_form`: always within 10⁻³⁶, exact whenever digits 19…36 of the
   quotient are not all zero),
 · reward allocations, successful reward withdrawals, successful delegations (staking `Delegate` with its hooks: truncated
   shares are issued, which does not lower anybody else's worth),
 · successful share transfers between two accounts through the INTERPRETED body of `handlerTransferShares` (`cfg.prog`: the
   two hand-written starting infos are tight) and
 · passing blocks / status changes,
the SDK's stake sanity check cannot fire for any delegator, and every delegator can withdraw its rewards (the delegation
stays).  What such a chain may NOT contain — and why no invariant over all of `State.run` exists — is `Undelegate` /
`BeginRedelegation` at this validator (the tokens handed out are ROUNDED, which can lower the worth of the remaining
shares by < 10⁻¹⁸ relative) and inexact slashes (`stake_sanity_reachable`). -/
theorem tight_chain_never_fails_sanity (nAcc h0 : Nat) (vals : List (Nat × Nat)) (hv : vals.length ≤ nAcc) (ops : List Op)
    {w : Nat} (hw : w < vals.length) {h h' : Nat} {v' : VS}
    (ht : TightV (reachVS nAcc h0 vals ops w)) (hn : NotFuture (reachVS nAcc h0 vals ops w) h)
    (hs : TightSteps cfg nAcc (reachVS nAcc h0 vals ops w) h v' h') (hS : 0 < v'.shares) (d : Nat) :
    v'.sanityFires h' d = false ∧
    (∀ sh, d < nAcc → v'.del d = some sh → ∃ v'' c, v'.withdrawMsg h' d = .ok (v'', c) ∧ v''.del d = some sh) := by
  have hi : VInv nAcc (reachVS nAcc h0 vals ops w) := reach_SInv cfg_good nAcc h0 vals hv ops hw
  obtain ⟨hi', ht', hn'⟩ := tight_steps_invariant cfg_good hs hi ht hn
  have hns := tight_no_sanity ht' hn' hS d
  refine ⟨hns, ?_⟩
  intro sh hd hdel
  obtain ⟨si, hsi⟩ := Dom_sinfo_some hi'.dom hdel
  rcases withdrawMsg_total hi'.ri hi'.dom (h := h') hd hdel with hE | ⟨v'', c, hw', _, _, _, _, _, _, sf⟩
  · have hwr := (withdrawRewards_sanity hi'.ri (h := h') hdel hsi).mp (withdrawMsg_sanity_imp hE)
    rw [hns] at hwr; cases hwr
  · exact ⟨v'', c, hw', by rw [sf.1]; exact hdel⟩

/-- **genesis_is_tight.**  The hypothesis of `tight_chain_never_fails_sanity` holds at genesis for every validator -/
theorem genesis_is_tight (nAcc h0 : Nat) (vals : List (Nat × Nat)) {w : Nat} (hw : w < vals.length) (h : Nat) :
    TightV (reachVS nAcc h0 vals [] w) ∧ NotFuture (reachVS nAcc h0 vals [] w) h := by
  have e : reachVS nAcc h0 vals [] w = genesisVS w (vals[w]'hw).1 (vals[w]'hw).2 := by
    show (init nAcc h0 vals).vs w = _
    simp only [init]
    rw [List.getElem?_eq_getElem hw]
  rw [e]
  exact genesis_tight _ _ _ _

/-! ### non-vacuity: the hypotheses are satisfiable on concrete, non-trivial histories -/

/-- a history with a new recipient, an existing recipient, a full transfer, a slash and a self-transfer -/
def demoOps : List Op :=
  [.delegate 1 0 500, .alloc 0 77, .block, .transfer 1 2 0 200, .alloc 0 13, .block, .slash 0 1 1,
   .transfer 1 2 0 100, .approve 2 1 0 50, .transferFrom 1 2 1 0 50, .transfer 2 2 0 10, .withdraw 2 0]

def demo : State := (init 4 1 [(1000, 100000000000000000)]).run cfg demoOps

def isOk {α} : Except Err α → Bool
  | .ok _ => true
  | .error _ => false

-- 250 whole shares moved from account 1 to account 2 (200 to a new recipient, 100 to an existing one after a slash,
-- 50 back through an allowance), the self-transfer changed nothing
example : (demo.vs 0).del 1 = some (250 * ONE) ∧ (demo.vs 0).del 2 = some (250 * ONE) := by decide
example : (demo.vs 0).delSum 4 = (demo.vs 0).shares ∧ (demo.vs 0).tokens = 1400 ∧ (demo.vs 0).slashes.length = 1 := by decide
-- rewards were really paid (25 coins to the sender, 1 to the recipient), the allowance of 50 was used up exactly
example : demo.gain 1 = 25 ∧ demo.gain 2 = 1 ∧ demo.allow 0 2 1 = 0 := by decide
-- paid + outstanding + truncation dust = allocated on the demo history
example : (demo.vs 0).outstanding + (demo.vs 0).paid * ONE + (demo.vs 0).dust = (demo.vs 0).allocated ∧ (demo.vs 0).allocated = 90 * ONE := by
  decide
-- the hypotheses of transfer_moves_exactly / self_transfer_noop / allowance_exact are met by successful calls
example : isOk (((init 4 1 [(1000, 0)]).run cfg [.delegate 1 0 500, .alloc 0 77, .block]).exec cfg (.transfer 1 2 0 500)) = true := by decide
example : isOk (((init 4 1 [(1000, 0)]).run cfg [.delegate 1 0 500, .alloc 0 77, .block]).exec cfg (.transfer 1 1 0 500)) = true := by decide
example : isOk (((init 4 1 [(1000, 0)]).run cfg [.delegate 1 0 500, .approve 1 3 0 70, .block]).exec cfg (.transferFrom 3 1 2 0 70)) = true := by
  decide
-- still_withdrawable: on the demo history both parties really can withdraw and fully undelegate three blocks later
example : isOk ((demo.vs 0).withdrawMsg (demo.height + 3) 1) = true ∧ isOk ((demo.vs 0).unbond (demo.height + 3) 1 (250 * ONE)) = true ∧
    isOk ((demo.vs 0).withdrawMsg (demo.height + 3) 2) = true ∧ isOk ((demo.vs 0).unbond (demo.height + 3) 2 (250 * ONE)) = true := by
  decide
-- still_withdrawable_iff: both cases occur — on the demo history (one slash of 10⁻¹⁸·… between the starting infos and now) the
-- predicate is false for both parties; on the history of `stake_sanity_reachable` it is true for the operator
example : (demo.vs 0).sanityFires (demo.height + 3) 1 = false ∧ (demo.vs 0).sanityFires (demo.height + 3) 2 = false ∧
    (demo.vs 0).slashes.length = 1 := by decide
example : (reachVS 2 1 [(100000000000000000000, 0)] [.slash 0 1 1, .delegate 1 0 1, .slash 0 1 1] 0).sanityFires 3 0 = true := by
  decide
-- still_withdrawable_unslashed: a history with transfers, an undelegation and a redelegation that slashes only the OTHER
-- validator meets the hypothesis, and validator 0 has three delegators
def unslashedOps : List Op :=
  [.delegate 2 0 700, .delegate 3 1 300, .alloc 0 50, .block, .transfer 2 3 0 200, .undelegate 2 0 100,
   .redelegate 3 1 0 50, .slash 1 1 100000000000000000, .transfer 3 2 0 30]
example : ∀ o, o ∈ unslashedOps → ∀ p f, o ≠ .slash 0 p f := by
  intro o ho p f hc
  subst hc
  simp [unslashedOps] at ho
example :
    ((reachVS 4 1 [(200000000000000000000, 0), (200000000000000000000, 0)] unslashedOps 0).del 2).isSome ∧
    ((reachVS 4 1 [(200000000000000000000, 0), (200000000000000000000, 0)] unslashedOps 0).del 3).isSome ∧
    (reachVS 4 1 [(200000000000000000000, 0), (200000000000000000000, 0)] unslashedOps 1).slashes.length = 1 := by decide
-- refcount_invariant: the demo history has a record referenced twice (current period + a starting info), one
-- referenced by the slash event, and three starting infos (operator, sender, recipient)
example : (demo.vs 0).refs ((demo.vs 0).period - 1) = 2 ∧ slashCnt (demo.vs 0) 5 = 1 ∧ (demo.vs 0).refs 5 = 1 ∧
    (List.range (demo.vs 0).period).map (fun p => infoCnt 4 (demo.vs 0) p) = [0, 1, 0, 0, 0, 0, 0, 0, 0, 1, 1] := by
  decide
-- pool_invariant / distribution_accounting on the demo history: the validator (1000 + 500 tokens, below one unit of
-- consensus power) left the active set at the first block, so its tokens sit in the not-bonded pool; 90 coins were
-- allocated, 26 paid out
example : demo.bondedPool = 0 ∧ demo.notBondedPool = 1400 ∧ demo.burned = 100 ∧ demo.distrIn = 90 ∧ demo.distrOut = 26 ∧
    (demo.vs 0).bonded = false := by decide
-- both pools in use, an unbonding entry, a redelegation from a Bonded to a not-Bonded validator
example :
    let s := (init 4 1 [(200000000000000000000, 0), (5000, 0)]).run cfg
      [.delegate 2 0 700, .delegate 3 1 300, .block, .undelegate 2 0 100, .redelegate 2 0 1 50, .slash 0 1 100000000000000000]
    s.bondedPool = 190000000000000000550 ∧ s.notBondedPool = 5450 ∧ ubdTotal s.ubd = 100 ∧ (s.vs 0).bonded = true ∧
    (s.vs 1).bonded = false ∧ s.burned = 10000000000000000000 := by decide
-- a transfer that pays both parties (hypothesis of transfer_leaves_chain_unchanged)
example : isOk (((init 4 1 [(1000, 0)]).run cfg [.delegate 1 0 500, .delegate 2 0 300, .alloc 0 77, .block]).exec cfg
    (.transfer 1 2 0 200)) = true := by decide
-- maturity: while account 2 has an incoming redelegation at validator 1 it may not transfer there; after the unbonding
-- period the redelegation has completed (the transfer goes through), the unbonding entry of 50 was paid back out of the
-- not-bonded pool, and the jailed validator 0 is Unbonded
example :
    let s := (init 4 1 [(200000000000000000000, 0), (200000000000000000000, 0)]).run cfg
      [.delegate 2 0 700, .redelegate 2 0 1 100, .undelegate 2 0 50, .jail 0, .block]
    isOk (s.exec cfg (.transfer 2 3 1 10)) = false ∧ s.notBondedPool = 200000000000000000600 ∧
    isOk ((s.run cfg [.mature 2]).exec cfg (.transfer 2 3 1 10)) = true ∧ (s.run cfg [.mature 2]).returned 2 = 50 ∧
    (s.run cfg [.mature 2]).ubd = [] ∧ ((s.run cfg [.mature 2]).vs 0).unbonded = true ∧
    (s.run cfg [.mature 2]).notBondedPool = 200000000000000000550 := by decide
-- partial maturity: an unbonding entry and a redelegation of block 1, another unbonding entry and another redelegation
-- of block 2; when only the unbonding period of block 1 is over the first entry (50) is paid back and the first
-- redelegation is dropped, the second entry (30) stays in the not-bonded pool, and account 2 — whose second incoming
-- redelegation at validator 1 is still open — is still refused a share transfer there; account 3 (redelegation of block 1
-- only) may transfer again
example :
    let s := (init 5 1 [(200000000000000000000, 0), (200000000000000000000, 0)]).run cfg
      [.delegate 2 0 700, .delegate 3 0 400, .redelegate 2 0 1 100, .redelegate 3 0 1 100, .undelegate 2 0 50, .block,
       .redelegate 2 0 1 60, .undelegate 2 0 30, .block, .mature 1]
    s.ubd = [(2, 0, 2, 30)] ∧ s.returned 2 = 50 ∧ s.redel = [(2, 0, 1, 2, 60, 60 * ONE)] ∧
    isOk (s.exec cfg (.transfer 2 4 1 10)) = false ∧ isOk (s.exec cfg (.transfer 3 4 1 10)) = true ∧
    s.notBondedPool = 30 := by decide
-- grouped transactions: a spender (account 3) approved at two validators moves shares at both in ONE transaction; with
-- an amount above the second allowance the whole transaction fails and the FIRST transfer is undone as well
example :
    let s := (init 5 1 [(200000000000000000000, 0), (200000000000000000000, 0)]).run cfg
      [.delegate 2 0 700, .delegate 2 1 500, .approve 2 3 0 300, .approve 2 3 1 200, .block]
    isOk (s.execAll cfg (multiFrom 3 2 4 [(0, 300), (1, 200)])) = true ∧
    (((s.stepTx cfg (.atomic (multiFrom 3 2 4 [(0, 300), (1, 200)]))).vs 0).del 4 = some (300 * ONE)) ∧
    (((s.stepTx cfg (.atomic (multiFrom 3 2 4 [(0, 300), (1, 200)]))).vs 1).del 4 = some (200 * ONE)) ∧
    isOk (s.execAll cfg (multiFrom 3 2 4 [(0, 300), (1, 201)])) = false ∧
    (((s.stepTx cfg (.atomic (multiFrom 3 2 4 [(0, 300), (1, 201)]))).vs 0).del 4 = none) ∧
    (((s.stepTx cfg (.each (multiFrom 3 2 4 [(0, 300), (1, 201)]))).vs 0).del 4 = some (300 * ONE)) := by decide
-- every status: a validator that was jailed and left the active set (Unbonding) still pays the rewards accrued while it
-- was bonded when shares are transferred (all the transfer theorems above quantify over histories with jail / unjail
-- operations and over the validator-set update at the end of every block)
example :
    let s := (init 4 1 [(200000000000000000000, 0)]).run cfg [.delegate 1 0 500, .delegate 2 0 300, .alloc 0 77000000000000000000000, .jail 0, .block]
    (s.vs 0).bonded = false ∧ (s.vs 0).jailed = true ∧
    ((s.exec cfg (.transfer 1 2 0 200)).toOption.map (fun s' => decide (0 < s'.gain 1) && decide (0 < s'.gain 2))) = some true := by
  decide
-- the refusal while the sender has an incoming redelegation is reachable
example : isOk (((init 4 1 [(1000, 0), (1000, 0)]).run cfg [.delegate 2 0 500, .delegate 2 1 500, .redelegate 2 0 1 100]).exec cfg
    (.transfer 2 3 1 10)) = false := by decide

-- sanity_closed_form: a chain of two exact slashes (5 % of 10⁶ tokens: the division is exact; then 333 of 950000: the
-- quotient is rounded up) after a starting stake written for 7·10¹⁸ shares; and the configuration of
-- `stake_sanity_reachable` is NOT exact
example : SlashChain 1000000 [⟨3, 5, effFraction 50000 1000000⟩, ⟨7, 9, effFraction 333 950000⟩] 949667 :=
  .cons (by decide) rfl (by decide) (.cons (by decide) rfl (by decide) (.nil _))
example : incrPeriods 2 [⟨3, 5, effFraction 50000 1000000⟩, ⟨7, 9, effFraction 333 950000⟩] :=
  ⟨by decide, by decide, trivial⟩
example : quot36 333 950000 % ONE ≠ 0 ∧ effFraction 50000 1000000 = 50000000000000000 ∧ slashExact 50000 1000000 = true := by decide
example : slashExact 100 (100000000000000000000 - 99) = false := by decide

-- run_methods_as_written / transferFrom_needs_allowance / transferFrom_self_consumes_allowance: a spender with an allowance of
-- 70 makes a self-transfer of account 1 (succeeds, the allowance is used up, the delegation is untouched); without an
-- allowance the same call is refused
example : isOk (((init 4 1 [(1000, 0)]).run cfg [.delegate 1 0 500, .approve 1 3 0 70, .block]).exec cfg (.transferFrom 3 1 1 0 70)) = true := by
  decide
example : ((init 4 1 [(1000, 0)]).run cfg [.delegate 1 0 500, .approve 1 3 0 70, .block, .transferFrom 3 1 1 0 70]).allow 0 1 3 = 0 ∧
    (((init 4 1 [(1000, 0)]).run cfg [.delegate 1 0 500, .approve 1 3 0 70, .block, .transferFrom 3 1 1 0 70]).vs 0).del 1 = some (500 * ONE) := by
  decide
example : ((init 4 1 [(1000, 0)]).run cfg [.delegate 1 0 500, .block]).allow 0 1 3 < 70 ∧
    isOk (((init 4 1 [(1000, 0)]).run cfg [.delegate 1 0 500, .block]).exec cfg (.transferFrom 3 1 1 0 70)) = false := by
  decide

-- tight_chain_never_fails_sanity / genesis_is_tight: from genesis (2000 coins of 10^18 base units = power 20), a chain with
-- an exact slash by the model's VS.slash (power 1, 5 %: burns 5·10^18 of 2·10^21, fraction 0.0025 exactly), an allocation
-- and three blocks; the record then carries one slash event and fewer tokens, shares stay positive
example : ∃ v' h', TightSteps cfg 4 (reachVS 4 1 [(2000000000000000000000, 0)] [] 0) 1 v' h' ∧ 0 < v'.shares ∧
    v'.slashes.length = 1 ∧ v'.tokens = 1995000000000000000000 ∧ h' = 4 :=
  ⟨_, _, .slash 1 50000000000000000 (by decide) (.alloc 77 (.blocks 3 true false false 0 (.refl _ _))),
   by decide, by decide, by decide, rfl⟩
-- … and a chain that also contains a delegation (account 1 bonds 500 coins after the slash: shares are issued at the
-- slashed rate, truncated) and a withdrawal of the operator
example : ∃ v' h', TightSteps cfg 4 (reachVS 4 1 [(2000000000000000000000, 0)] [] 0) 1 v' h' ∧
    v'.tokens = 2495000000000000000000 ∧ (v'.del 1).isSome = true ∧ v'.slashes.length = 1 :=
  ⟨_, _, .slash 1 50000000000000000 (by decide)
      (.delegate 1 500000000000000000000 0 (by decide) (by decide) (by decide) rfl
        (.blocks 1 true false false 0 (.withdraw 0 0 (by decide) rfl (.refl _ _)))),
   by decide, by decide, by decide⟩
example : slashExact (min (dMul (1 * POWER_REDUCTION * ONE) 50000000000000000 / ONE) 2000000000000000000000) 2000000000000000000000 = true := by
  decide

end FxVerif.Props.C11
