import FxVerif.Proofs.C11
/-!
# C11 — transferring delegation shares conserves shares, stake and reward entitlements

All theorems are about the model `FxVerif.Model.C11` instantiated with the facts `FxVerif.Gen.C11.cfg` that
`go/extract/c11.go` reads off the current source of `handlerTransferShares` / `decrementAllowance` / the two `Run`
methods on every run.  `cfg_good` is the obligation that ties them to the code: if the self-transfer guard, the
redelegation refusal, a withdrawal, a reference-count edit, the starting-info period or the allowance arithmetic is
edited away, `cfg` changes and `cfg_good` (and with it every theorem below) stops checking.
-/
namespace FxVerif.Props.C11
open FxVerif.Model.C11 FxVerif.Proofs.C11

abbrev cfg := FxVerif.Gen.C11.cfg

/-- the facts of the Go source that the property needs (see `Model.C11.good`) hold of the code as it is now -/
theorem cfg_good : good cfg = true := by decide

/-- **transfer_moves_exactly.**  A successful transfer of `X` (= shares × 10^18) between different accounts takes
exactly `X` from the sender (whose delegation had at least `X`; it disappears iff it had exactly `X`), adds exactly `X`
to the recipient (with or without a previous delegation), leaves every other delegation, the validator's tokens
and the validator's total shares unchanged, and is refused while the sender has an incoming redelegation. -/
theorem transfer_moves_exactly {v v' : VS} {h f t X rf rt : Nat} {recv : Bool} (hne : f ≠ t)
    (ht : VS.transfer cfg v h f t X recv = .ok (v', rf, rt)) :
    ∃ fsh, v.del f = some fsh ∧ X ≤ fsh ∧ recv = false ∧
      v'.del f = (if fsh - X = 0 then none else some (fsh - X)) ∧
      v'.del t = some ((v.del t).getD 0 + X) ∧
      (∀ d, d ≠ f → d ≠ t → v'.del d = v.del d) ∧ v'.tokens = v.tokens ∧ v'.shares = v.shares := by
  obtain ⟨fsh, hf, hr, hle, ht', hs', hd⟩ := transfer_del cfg_good hne ht
  refine ⟨fsh, hf, hle, hr, ?_, ?_, ?_, ht', hs'⟩
  · rw [hd]; simp [setAt, hne]
  · rw [hd]; simp [setAt]
  · intro d h1 h2; rw [hd]; simp [setAt, h1, h2]

/-- **self_transfer_noop.**  A transfer to oneself (any amount the sender holds) returns the validator record —
delegations, starting infos, reference counts, periods, rewards — unchanged and pays nothing. -/
theorem self_transfer_noop {v v' : VS} {h d X rf rt : Nat} {recv : Bool}
    (ht : VS.transfer cfg v h d d X recv = .ok (v', rf, rt)) : v' = v ∧ rf = 0 ∧ rt = 0 :=
  transfer_self cfg_good ht

/-- **rewards_paid_up_to_now.**  A transfer pays the sender exactly what the SDK's own `WithdrawDelegationRewards`
pays at that moment on the state before the transfer, then pays an existing recipient exactly what
`WithdrawDelegationRewards` pays on the resulting state (a new recipient is paid nothing and the validator period is
ended for it); the delegation rewrite that follows does not touch rewards (`outstanding`, `paid`, `dust`, `cur`,
`allocated` are those left by the two withdrawals). -/
theorem rewards_paid_up_to_now {v v' : VS} {h f t X rf rt : Nat} {recv : Bool} (hne : f ≠ t)
    (ht : VS.transfer cfg v h f t X recv = .ok (v', rf, rt)) :
    ∃ v1 v2, v.withdrawMsg h f = .ok (v1, rf) ∧
      ((v1.del t = none ∧ rt = 0 ∧ ∃ e, v1.incPeriod v.tokens = .ok (v2, e)) ∨
       (v1.del t ≠ none ∧ v1.withdrawMsg h t = .ok (v2, rt))) ∧
      v'.outstanding = v2.outstanding ∧ v'.paid = v2.paid ∧ v'.dust = v2.dust ∧ v'.cur = v2.cur ∧
      v'.allocated = v2.allocated := by
  have hg := cfg_good
  revert ht hg
  generalize cfg = c
  intro ht hg
  obtain ⟨fsh, v1, v2, v3, _, _, _, h1, h2, h3, h4⟩ := transfer_ok hg hne ht
  obtain ⟨-, -, -, -, g5, g6, g7, g8, g9, g10, -⟩ := good_fields hg
  refine ⟨v1, v2, h1, ?_, ?_⟩
  · unfold VS.xferLookup at h2
    cases hd : v1.del t with
    | none =>
      rw [hd] at h2
      simp only [g7, if_true] at h2
      cases hq : v1.incPeriod v.tokens with
      | error e => rw [hq] at h2; cases h2
      | ok q =>
        obtain ⟨q1, q2⟩ := q
        rw [hq] at h2
        cases h2
        exact Or.inl ⟨rfl, rfl, q2, rfl⟩
    | some tsh =>
      rw [hd] at h2
      simp only [g6, if_true] at h2
      exact Or.inr ⟨by simp, h2⟩
  · -- the two rewrite steps leave the reward fields alone
    have e3 : v3.outstanding = v2.outstanding ∧ v3.paid = v2.paid ∧ v3.dust = v2.dust ∧ v3.cur = v2.cur ∧
        v3.allocated = v2.allocated := by
      unfold VS.xferFrom at h3
      simp only [g8, g9, if_true] at h3
      split at h3
      · cases h3
      · split at h3
        · split at h3
          · cases h3
          · rename_i b hb
            obtain ⟨_, rfl⟩ := decRef_ok hb
            cases h3
            exact ⟨rfl, rfl, rfl, rfl, rfl⟩
        · cases h3; exact ⟨rfl, rfl, rfl, rfl, rfl⟩
    have e4 : v'.outstanding = v3.outstanding ∧ v'.paid = v3.paid ∧ v'.dust = v3.dust ∧ v'.cur = v3.cur ∧
        v'.allocated = v3.allocated := by
      unfold VS.xferTo at h4
      simp only [g10, g5, if_true] at h4
      split at h4
      · split at h4
        · cases h4
        · rename_i v5 h5
          obtain ⟨_, rfl⟩ := incRef_ok h5
          cases h4; exact ⟨rfl, rfl, rfl, rfl, rfl⟩
      · cases h4; exact ⟨rfl, rfl, rfl, rfl, rfl⟩
    obtain ⟨a1, a2, a3, a4, a5⟩ := e3
    obtain ⟨b1, b2, b3, b4, b5⟩ := e4
    exact ⟨b1.trans a1, b2.trans a2, b3.trans a3, b4.trans a4, b5.trans a5⟩

/-- **rewards conservation (one withdrawal).**  `withdrawDelegationRewards` takes out of `outstanding` exactly what
it pays as whole coins plus the sub-unit remainder that goes to the community pool: nothing is lost, nothing is
paid twice (the only inexactness is the explicit truncation `dust`). -/
theorem withdraw_conserves {v v' : VS} {h d c : Nat} (hw : v.withdrawRewards h d = .ok (v', c)) :
    ∃ v1, v.incPeriod v.tokens = .ok (v1, v.period) ∧
      v'.outstanding + v'.paid * ONE + v'.dust = v1.outstanding + v1.paid * ONE + v1.dust ∧
      v'.paid = v1.paid + c ∧ v'.allocated = v1.allocated := by
  obtain ⟨sh, si, v1, raw, v3, _, _, h1, _, h3, rfl, rfl⟩ := withdrawRewards_ok hw
  obtain ⟨_, rfl⟩ := decRef_ok h3
  refine ⟨v1, h1, ?_, rfl, rfl⟩
  simp only [payout]
  have hr : min raw v1.outstanding ≤ v1.outstanding := Nat.min_le_right _ _
  generalize min raw v1.outstanding = r at hr ⊢
  generalize ONE = one
  have hdm := Nat.div_add_mod r one
  rw [Nat.mul_comm] at hdm
  rw [Nat.add_mul]
  generalize r / one * one = q at hdm ⊢
  generalize r % one = m at hdm ⊢
  generalize v1.paid * one = pp
  omega

end FxVerif.Props.C11
