import FxVerif.Model.C11
namespace FxVerif.Props.C11
open FxVerif.Model.C11
theorem placeholder : ONE = 1000000000000000000 := rfl
end FxVerif.Props.C11
