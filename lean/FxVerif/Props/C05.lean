import FxVerif.Proofs.C06
import FxVerif.Proofs.C05Sorted
import FxVerif.Proofs.C05Ext
import FxVerif.Proofs.C05Orig
import FxVerif.Proofs.C05Sol
import FxVerif.Proofs.C05Marks
import FxVerif.Proofs.C06Vote
/-!
# C05 — every outgoing transfer is in exactly one place and is settled exactly once

Property theorems only.  `State`/`step`/`run` are the model of `x/crosschain/keeper` (`Model/C05.lean`); the
constants, comparison operators, guards and amount terms the model uses are regenerated from `/repo` on every run
(`Gen/C05.lean`).  All inductive statements quantify over every initial state (`IsInit`: nothing issued yet; ledger,
parameters, heights arbitrary) and every list of operations.
-/
namespace FxVerif.Props.C05
open FxVerif.Gen.C05 FxVerif.Model.C05 FxVerif.Proofs.C05 List

/-- the shapes of the source the model relies on, as read from `/repo` now -/
theorem source_shapes_as_modelled :
    outgoingTxBatchSize = 100 ∧
    poolKeyLayout = ["OutgoingTxPoolKey", "[]byte(fee.Contract)", "amount", "sdk.Uint64ToBigEndian(id)"] ∧
    poolKeyFeeWidth = 32 ∧ poolIter = .reverse ∧ callIter = .forward ∧
    pickBaseFeeCmp = .lt ∧ pickBaseFeeStops = true ∧ pickRemovesFromPool = true ∧ pickStopsAtMax = true ∧
    executedCancelsCmp = .lt ∧ executedCancelsSameToken = true ∧
    cancelSenderCheck = true ∧ cancelRefundReceiver = "sender" ∧
    cancelRefundTerms = ["tx.Token.Amount", "tx.Fee.Amount"] ∧
    tryAttestationOrder = ["SetLastObservedEventNonce", "SetLastObservedBlockHeight", "processAttestation",
      "cleanupTimedOutBatches", "cleanupTimeOutBridgeCall"] := by decide

/-- more shapes the model is parametrised by, as read from `/repo` now: who pays a fee increase and in which token, who
a refunded bridge call pays, what applying a bridge-call result does per outcome, what `EndBlocker` cleans up -/
theorem source_shapes_settlement :
    incFeePayer = .msgSender ∧ incFeeTokenCheck = true ∧ callRefundReceiver = .refund ∧
    resultRefundsOnFailure = true ∧ resultRefundsOnSuccess = false ∧
    resultDeletesOnFailure = true ∧ resultDeletesOnSuccess = true ∧ endBlockerCleanups = [] := by decide

/-- the argument an inner call receives for parameter `name` -/
def argOf (params args : List String) (name : String) : Option String :=
  ((params.zip args).find? (fun p => p.1 == name)).map (·.2)

/-- the value a record literal gives field `field` -/
def fieldOf (fields : List (String × String)) (field : String) : Option String :=
  (fields.find? (fun f => f.1 == field)).map (·.2)

/-- `queued_is_supplied`, the data flow in the source (regenerated from the Go AST): every field of the stored transfer /
bridge-call record is filled from the parameter of that name, and that parameter receives, through both call layers,
the message field of that name — destination, token amount, fee, sender; sender, refund address, coins, target, call
data, memo.  Swapping two arguments of equal type anywhere on the way breaks this. -/
theorem supplied_fields_reach_the_record :
    -- SendToExternal → AddToOutgoingPool → addToOutgoingPool → OutgoingTransferTx
    fieldOf sendRecordFields "Sender" = some "sender.String()" ∧ fieldOf sendRecordFields "DestAddress" = some "receiver" ∧
    fieldOf sendRecordFields "Token" = some "types.NewERC20Token(amount.Amount,tokenContract)" ∧
    fieldOf sendRecordFields "Fee" = some "types.NewERC20Token(fee.Amount,tokenContract)" ∧
    fieldOf sendRecordFields "Id" = some "txID" ∧
    (["sender", "receiver", "amount", "fee"].map (argOf sendPoolParams sendPoolArgs)) =
      [some "sender", some "receiver", some "amount", some "fee"] ∧
    (["sender", "receiver", "amount", "fee"].map (argOf sendAddParams sendMsgArgs)) =
      [some "sender", some "msg.Dest", some "msg.Amount", some "msg.BridgeFee"] ∧
    -- BridgeCall → AddOutgoingBridgeCall → BuildOutgoingBridgeCall → OutgoingBridgeCall
    fieldOf bridgeCallRecordFields "Sender" = some "types.ExternalAddrToStr(k.moduleName,sender.Bytes())" ∧
    fieldOf bridgeCallRecordFields "Refund" = some "types.ExternalAddrToStr(k.moduleName,refundAddr.Bytes())" ∧
    fieldOf bridgeCallRecordFields "To" = some "types.ExternalAddrToStr(k.moduleName,to.Bytes())" ∧
    fieldOf bridgeCallRecordFields "Tokens" = some "tokens" ∧
    fieldOf bridgeCallRecordFields "Data" = some "hex.EncodeToString(data)" ∧
    fieldOf bridgeCallRecordFields "Memo" = some "hex.EncodeToString(memo)" ∧
    fieldOf bridgeCallRecordFields "Nonce" = some "nextID" ∧ fieldOf bridgeCallRecordFields "Timeout" = some "bridgeCallTimeout" ∧
    (["sender", "refundAddr", "to", "data", "memo"].map (argOf bridgeCallBuildParams bridgeCallBuildArgs)) =
      [some "sender", some "refundAddr", some "to", some "data", some "memo"] ∧
    (["sender", "refundAddr", "baseCoins", "to", "data", "memo"].map (argOf bridgeCallAddParams bridgeCallMsgArgs)) =
      [some "msg.GetSenderAddr()", some "msg.GetRefundAddr()", some "msg.Coins", some "msg.GetToAddr()",
       some "msg.MustData()", some "msg.MustMemo()"] := by decide

/-- the partition invariant holds in every reachable state -/
theorem reachable_inv (s0 : State) (h0 : IsInit s0) (ops : List Op) : Inv (run s0 ops) :=
  inv_run (inv_init h0) ops

/-- `ids_fresh`: the id the next send / bridge call will get is not in use anywhere (pool, batch, settled log), every id
in use is smaller, and the counters never decrease — so an id is never reused, also across cancel / re-pooling -/
theorem ids_fresh (s0 : State) (h0 : IsInit s0) (ops : List Op) :
    (∀ id ∈ allTxIds (run s0 ops), 1 ≤ id ∧ id < (run s0 ops).nextTxId) ∧
    (run s0 ops).nextTxId ∉ allTxIds (run s0 ops) ∧
    (∀ id ∈ allCallIds (run s0 ops), 1 ≤ id ∧ id < (run s0 ops).nextCallId) ∧
    (run s0 ops).nextCallId ∉ allCallIds (run s0 ops) := by
  have hi := reachable_inv s0 h0 ops
  have h1 : ∀ id ∈ allTxIds (run s0 ops), 1 ≤ id ∧ id < (run s0 ops).nextTxId := by
    intro id hid
    have := (hi.tx.mem_iff).mp hid
    simp only [mem_range'_1] at this
    have := hi.txPos
    omega
  have h2 : ∀ id ∈ allCallIds (run s0 ops), 1 ≤ id ∧ id < (run s0 ops).nextCallId := by
    intro id hid
    have := (hi.call.mem_iff).mp hid
    simp only [mem_range'_1] at this
    have := hi.callPos
    omega
  exact ⟨h1, fun h => by have := h1 _ h; omega, h2, fun h => by have := h2 _ h; omega⟩

/-- a successful send issues exactly the counter value and advances the counter by one -/
theorem send_issues_next_id (s s' : State) (a : Addr) (d : String) (t : Token) (am f n : Nat)
    (h : doSend s a d t am f = (s', .ok n)) : n = s.nextTxId ∧ s'.nextTxId = s.nextTxId + 1 := by
  unfold doSend at h
  split at h
  · cases h
  · split at h
    · cases h
    · cases h; exact ⟨rfl, rfl⟩

/-- `partition`: in every reachable state every id ever issued (`1 ≤ id < nextTxId`) occurs exactly once in
pool ++ batches ++ settled log — i.e. it is in exactly one of: the pool, exactly one batch (once), the settled log;
nothing else occurs there -/
theorem partition (s0 : State) (h0 : IsInit s0) (ops : List Op) :
    (∀ id, 1 ≤ id → id < (run s0 ops).nextTxId → count id (allTxIds (run s0 ops)) = 1) ∧
    (∀ id, count id (allTxIds (run s0 ops)) ≤ 1) ∧
    (∀ n, 1 ≤ n → n < (run s0 ops).nextCallId → count n (allCallIds (run s0 ops)) = 1) ∧
    (∀ n, count n (allCallIds (run s0 ops)) ≤ 1) := by
  have hi := reachable_inv s0 h0 ops
  have nd1 : (allTxIds (run s0 ops)).Nodup := hi.tx.nodup_iff.mpr nodup_range'
  have nd2 : (allCallIds (run s0 ops)).Nodup := hi.call.nodup_iff.mpr nodup_range'
  refine ⟨fun id h1 h2 => ?_, fun id => nodup_iff_count.mp nd1 id, fun n h1 h2 => ?_, fun n => nodup_iff_count.mp nd2 n⟩
  · have hm : id ∈ allTxIds (run s0 ops) := (hi.tx.mem_iff).mpr (by simp only [mem_range'_1]; omega)
    rw [nd1.count, if_pos hm]
  · have hm : n ∈ allCallIds (run s0 ops) := (hi.call.mem_iff).mpr (by simp only [mem_range'_1]; omega)
    rw [nd2.count, if_pos hm]

/-- the three places are pairwise disjoint and duplicate free (unfolding `partition`) -/
theorem places_disjoint (s0 : State) (h0 : IsInit s0) (ops : List Op) :
    (poolIds (run s0 ops)).Nodup ∧ (batchIds (run s0 ops)).Nodup ∧ (settledTxIds (run s0 ops).settled).Nodup ∧
    (∀ id ∈ poolIds (run s0 ops), id ∉ batchIds (run s0 ops) ∧ id ∉ settledTxIds (run s0 ops).settled) ∧
    (∀ id ∈ batchIds (run s0 ops), id ∉ settledTxIds (run s0 ops).settled) := by
  have hi := reachable_inv s0 h0 ops
  have nd : (allTxIds (run s0 ops)).Nodup := hi.tx.nodup_iff.mpr nodup_range'
  simp only [allTxIds, nodup_append, mem_append] at nd
  obtain ⟨⟨np, nb, hpb⟩, ns, hps⟩ := nd
  refine ⟨np, nb, ns, fun id hid => ⟨fun hb => hpb id hid id hb rfl, fun hs => hps id (Or.inl hid) id hs rfl⟩,
    fun id hid hs => hps id (Or.inr hid) id hs rfl⟩

/-- `settled_once`: no id is settled twice (transfers and bridge calls) -/
theorem settled_once (s0 : State) (h0 : IsInit s0) (ops : List Op) :
    (settledTxIds (run s0 ops).settled).Nodup ∧ (settledCallIds (run s0 ops).settled).Nodup := by
  have hi := reachable_inv s0 h0 ops
  have nd1 : (allTxIds (run s0 ops)).Nodup := hi.tx.nodup_iff.mpr nodup_range'
  have nd2 : (allCallIds (run s0 ops)).Nodup := hi.call.nodup_iff.mpr nodup_range'
  simp only [allTxIds, allCallIds, nodup_append] at nd1 nd2
  exact ⟨nd1.2.1, nd2.2.1⟩

/-- `executed_never_refunded` (transfers): the settlement log never contains both an execution and a refund of the same
transfer id (with `places_disjoint`: a settled transfer is in neither the pool nor a batch; with `settled_log_grows`:
for ever) -/
theorem executed_never_refunded (s0 : State) (h0 : IsInit s0) (ops : List Op) (e1 e2 : Settle)
    (h1 : e1 ∈ (run s0 ops).settled) (h2 : e2 ∈ (run s0 ops).settled) (hc1 : e1.isCall = false) (hc2 : e2.isCall = false)
    (hid : e1.id = e2.id) (hx : e1.how = .executed) (hr : e2.how = .refunded) : False := by
  have nd := (settled_once s0 h0 ops).1
  have m1 : e1 ∈ (run s0 ops).settled.filter (fun x => !x.isCall) := by simp [mem_filter, h1, hc1]
  have m2 : e2 ∈ (run s0 ops).settled.filter (fun x => !x.isCall) := by simp [mem_filter, h2, hc2]
  have := nodup_map_inj (fun x : Settle => x.id) ((run s0 ops).settled.filter (fun x => !x.isCall)) nd e1 m1 e2 m2 hid
  rw [this, hr] at hx
  cases hx

/-- the same for bridge calls *as far as fxcore's own settlements go*: a bridge call is never both applied as executed
(`ExecuteClaim` of a successful result) and refunded -/
theorem call_settled_never_both (s0 : State) (h0 : IsInit s0) (ops : List Op) (e1 e2 : Settle)
    (h1 : e1 ∈ (run s0 ops).settled) (h2 : e2 ∈ (run s0 ops).settled) (hc1 : e1.isCall = true) (hc2 : e2.isCall = true)
    (hid : e1.id = e2.id) (hx : e1.how = .executed) (hr : e2.how = .refunded) : False := by
  have nd := (settled_once s0 h0 ops).2
  have m1 : e1 ∈ (run s0 ops).settled.filter (fun x => x.isCall) := by simp [mem_filter, h1, hc1]
  have m2 : e2 ∈ (run s0 ops).settled.filter (fun x => x.isCall) := by simp [mem_filter, h2, hc2]
  have := nodup_map_inj (fun x : Settle => x.id) ((run s0 ops).settled.filter (fun x => x.isCall)) nd e1 m1 e2 m2 hid
  rw [this, hr] at hx
  cases hx

/-- the settlement log is append-only -/
theorem settled_log_grows (s : State) (op : Op) : ∃ l, (step s op).1.settled = s.settled ++ l := settled_grows s op

/-- `cancel_only_by_sender`: a cancel by any account other than the creator of the transfer fails and changes nothing -/
theorem cancel_only_by_sender (s : State) (id : Nat) (who : Addr) (tx : Tx)
    (hf : s.pool.find? (fun t => t.id = id) = some tx) (hne : tx.sender ≠ who) : doCancel s id who = (s, .err) := by
  have hc : cancelSenderCheck = true := by decide
  unfold doCancel
  split
  · rfl
  · simp [hf, hc, hne]

/-- `refund_exact` (cancel): a successful cancel removes exactly that transfer from the pool, credits exactly
amount + fee of its token to its creator, changes no other balance, and logs exactly that refund -/
theorem refund_exact (s s' : State) (id : Nat) (who : Addr) (n : Nat) (h : doCancel s id who = (s', .ok n)) :
    ∃ tx, tx ∈ s.pool ∧ tx.id = id ∧ tx.sender = who ∧ s'.pool = s.pool.erase tx ∧
      (∀ k, getBal s'.bal k = if k = (who, tx.token) then getBal s.bal k + (tx.amount + tx.fee) else getBal s.bal k) ∧
      s'.settled = s.settled ++ [⟨false, id, .refunded, who, [(tx.token, tx.amount + tx.fee)]⟩] ∧
      s'.batches = s.batches ∧ s'.calls = s.calls := by
  have hc : cancelSenderCheck = true := by decide
  have hterms : ∀ tx : Tx, refundAmount tx = tx.amount + tx.fee := by
    intro tx; simp [refundAmount, cancelRefundTerms]
  unfold doCancel at h
  split at h
  · cases h
  · split at h
    · cases h
    · rename_i tx hf
      split at h
      · cases h
      · rename_i hs
        cases h
        have hid : tx.id = id := by simpa using find?_some hf
        have hsender : tx.sender = who := by simpa [hc] using hs
        refine ⟨tx, mem_of_find?_eq_some hf, hid, hsender, rfl, fun k => ?_, by simp [hterms, hid], rfl, rfl⟩
        simp only [getBal_addBal, hterms]
        split <;> simp_all

/-- `refund_exact` (bridge call): refunding an outgoing bridge call credits, for every token, exactly the sum of the
amounts the record carries for that token to its refund address, nothing to anyone else, and logs exactly that -/
theorem refund_exact_call (s : State) (c : Call) (a : Addr) (t : Token) :
    getBal (refundCall s c).bal (a, t) = getBal s.bal (a, t) + (if a = c.refund then creditOf t c.tokens else 0) ∧
    (refundCall s c).settled = s.settled ++ [⟨true, c.nonce, .refunded, c.refund, c.tokens⟩] := by
  have hr : callCleanupRefunds = true := by decide
  simp [refundCall, hr, getBal_creditAll]

/-- `increase_fee_exact`: a successful fee increase — by `MsgIncreaseBridgeFee` (`evm = false`) or through the
`increaseBridgeFee` precompile with the token's ERC-20 contract (`evm = true`, round 4) — costs the payer exactly the added
fee, raises the fee of exactly that transfer by exactly that amount, leaves every other field, transfer, balance and the
settlement log unchanged; through the precompile the added fee comes out of the caller's ERC-20 balance (which must cover
it), otherwise no ERC-20 balance moves; the origin relation of the transfer is untouched either way -/
theorem increase_fee_exact (s s' : State) (id : Nat) (who : Addr) (t : Token) (add n : Nat) (evm : Bool)
    (h : doIncFee s id who t add evm = (s', .ok n)) :
    ∃ tx, tx ∈ s.pool ∧ tx.id = id ∧ tx.token = t ∧
      s'.pool.Perm ({ tx with fee := tx.fee + add } :: s.pool.erase tx) ∧
      add ≤ getBal s.bal (who, t) ∧
      (∀ k, getBal s'.bal k = if k = (who, t) then getBal s.bal k - add else getBal s.bal k) ∧
      s'.settled = s.settled ∧ s'.batches = s.batches ∧
      (evm = true → add ≤ getBal s.erc (who, t)) ∧
      (∀ k, getBal s'.erc k = if k = (who, t) ∧ evm = true then getBal s.erc k - add else getBal s.erc k) ∧
      s'.relTx = s.relTx := by
  have hpayer : ∀ tx : Tx, incFeePayerOf tx who = who := by
    have : incFeePayer = .msgSender := by decide
    intro tx; simp [incFeePayerOf, this]
  have htc : incFeeTokenCheck = true := by decide
  unfold doIncFee at h
  simp only [hpayer, htc, true_and] at h
  split at h
  · cases h
  · split at h
    · cases h
    · rename_i tx hf
      split at h
      · cases h
      · rename_i hs
        cases h
        have hid : tx.id = id := by simpa using find?_some hf
        simp only [not_or, Decidable.not_not, Nat.not_lt, ne_eq, not_and] at hs
        refine ⟨tx, mem_of_find?_eq_some hf, hid, hs.2.1, insertDesc_perm _ _, hs.2.2.1, fun k => ?_, rfl, rfl,
          hs.2.2.2, fun k => ?_, rfl⟩
        · simp only [getBal_subBal]
          split <;> simp_all
        · simp only [getBal_subBal]
          cases evm
          · simp only [Bool.toNat_false, Nat.zero_mul, Nat.sub_zero, Bool.false_eq_true, and_false, if_false]
            split
            · rename_i hk; rw [hk]
            · rfl
          · simp only [Bool.toNat_true, Nat.one_mul, and_true]
            split
            · rename_i hk; rw [hk]
            · rfl

/-- `cancel_batch_restores_pool`: cancelling batches (time-out, or superseded by an executed batch) puts exactly the
transfers of the cancelled batches back into the pool, unchanged — multiset equality — and deletes exactly those batches -/
theorem cancel_batch_restores_pool (p : Batch → Bool) (s : State) :
    (cancelBatches p s).pool.Perm ((s.batches.filter p).flatMap (·.txs) ++ s.pool) ∧
    (cancelBatches p s).batches = s.batches.filter (fun b => !p b) ∧
    (cancelBatches p s).settled = s.settled ∧ (cancelBatches p s).bal = s.bal :=
  ⟨insertAll_perm _ _, rfl, rfl, rfl⟩

/-- the two users of batch cancellation are instances of it -/
theorem cleanup_and_execution_cancel (s : State) (b : Batch) :
    cleanupBatches s = cancelBatches (batchExpired (heightOf batchCleanupSrc s)) s ∧
    (executeBatch s b).pool = (cancelBatches (fun b' => decide (b'.nonce < b.nonce) && b'.token == b.token) s).pool := by
  have h1 : executedCancelsCmp = .lt := by decide
  have h2 : executedCancelsSameToken = true := by decide
  refine ⟨rfl, ?_⟩
  simp [executeBatch, h1, h2, Cmp.eval]

/-- `queued_is_supplied` (send): what enters the pool is exactly what the sender supplied, under the fresh id, and the
sender pays exactly amount + fee -/
theorem queued_is_supplied_send (s s' : State) (a : Addr) (d : String) (t : Token) (am f n : Nat)
    (h : doSend s a d t am f = (s', .ok n)) :
    s'.pool.Perm (⟨s.nextTxId, a, d, t, am, f⟩ :: s.pool) ∧ s'.batches = s.batches ∧ s'.settled = s.settled ∧
    (∀ k, getBal s'.bal k = if k = (a, t) then getBal s.bal k - (am + f) else getBal s.bal k) ∧
    am + f ≤ getBal s.bal (a, t) := by
  unfold doSend at h
  split at h
  · cases h
  · split at h
    · cases h
    · cases h
      refine ⟨insertDesc_perm _ _, rfl, rfl, fun k => ?_, by omega⟩
      simp only [getBal_subBal]
      split <;> simp_all

/-- `queued_is_supplied` (bridge call): the stored record carries exactly the sender, refund address, tokens, target,
call data and memo supplied, under the fresh nonce -/
theorem queued_is_supplied_call (s s' : State) (a r : Addr) (to d m : String) (cs : List (Token × Nat)) (n : Nat)
    (h : doBridgeCall s a r to d m cs = (s', .ok n)) :
    ∃ timeout, s'.calls = s.calls ++ [⟨s.nextCallId, a, r, cs, to, d, m, timeout, s.fxHeight⟩] ∧ n = s.nextCallId := by
  unfold doBridgeCall at h
  split at h
  · cases h
  · split at h
    · cases h
    · simp only at h
      split at h
      · cases h
      · cases h
        exact ⟨_, rfl, rfl⟩

/-- `queued_is_supplied` (batch): a new batch consists of transfers taken from the pool, field for field; together with
the rest of the pool they are exactly the old pool -/
theorem batch_is_from_pool (s s' : State) (t : Token) (mf bf : Nat) (fr : String) (n : Nat)
    (h : doReqBatch s t mf bf fr = (s', .ok n)) :
    ∃ b, s'.batches = s.batches ++ [b] ∧ b.nonce = s.nextBatchId ∧ b.token = t ∧
      b.feeReceive = fr ∧ (b.txs ++ s'.pool).Perm s.pool ∧ (∀ x ∈ b.txs, x.token = t) ∧
      b.txs = (pick t bf outgoingTxBatchSize s.pool).1 := by
  have hrm : pickRemovesFromPool = true := by decide
  unfold doReqBatch at h
  simp only [hrm, if_true] at h
  repeat' split at h
  all_goals first
    | (cases h; exact ⟨_, rfl, rfl, rfl, rfl, pick_perm _ _ _ _, pick_fst_token _ _ _ _, rfl⟩)
    | cases h

/-- `pick_is_fee_descending_prefix` (refinement of the reverse store iterator): what `pickUnBatchedTx` selects is the
pool of that contract in iteration order, cut at the first fee below the base fee, cut at the batch size -/
theorem pick_is_fee_descending_prefix (t : Token) (base n : Nat) (l : List Tx) :
    (pick t base n l).1 = (((l.filter (fun x => x.token = t)).takeWhile (fun x => decide (base ≤ x.fee))).take n) := by
  have h1 : pickBaseFeeCmp = .lt := by decide
  have h2 : pickBaseFeeStops = true := by decide
  induction l generalizing n with
  | nil => simp [pick]
  | cons x xs ih =>
    cases n with
    | zero => simp [pick]
    | succ n =>
      unfold pick
      by_cases ht : x.token = t
      · by_cases hb : x.fee < base
        · have : ¬ base ≤ x.fee := by omega
          simp [ht, h1, h2, Cmp.eval, hb, filter_cons, takeWhile_cons, this]
        · have : base ≤ x.fee := by omega
          simp [ht, h1, h2, Cmp.eval, hb, filter_cons, takeWhile_cons, this, ih n]
      · simp [ht, filter_cons, ih (n + 1)]

/-- consequences of the prefix form: every selected transfer is of the requested token with fee ≥ base fee, and at most
`n` (= `OutgoingTxBatchSize` in `doReqBatch`) are selected -/
theorem pick_respects_base_and_size (t : Token) (base n : Nat) (l : List Tx) :
    (∀ x ∈ (pick t base n l).1, base ≤ x.fee ∧ x.token = t) ∧ (pick t base n l).1.length ≤ n := by
  refine ⟨fun x hx => ⟨?_, pick_fst_token t base n l x hx⟩, ?_⟩
  · rw [pick_is_fee_descending_prefix] at hx
    have := FxVerif.Proofs.C06.mem_takeWhile_true _ _ _ ((take_sublist _ _).subset hx)
    simpa using this
  · rw [pick_is_fee_descending_prefix]
    exact length_take_le _ _

/-- the pool is in descending store-key order (`contract ‖ fee ‖ id`, the order the reverse iterator of
`IterateUnbatchedTransactions` walks it in) in every reachable state — `AddUnbatchedTx` after a cancelled batch, a fee
increase, a selection all keep it -/
theorem pool_sorted (s0 : State) (h0 : IsInit s0) (ops : List Op) : PoolSorted (run s0 ops).pool :=
  sorted_run (by rw [h0.2.2.2.1]; exact Pairwise.nil) ops

/-- `fee_order_optimal`: in every reachable state a successful `RequestBatch` takes a fee-optimal selection:
(1) every transfer of that token left in the pool pays at most as much as every selected one;
(2) if the batch is not full, nothing of that token with fee ≥ base fee is left;
(3) no choice of at most `OutgoingTxBatchSize` eligible transfers (fee ≥ base fee) of that token from the pool — any
    sub-multiset, listed in pool order — has a larger total fee than the selected batch -/
theorem fee_order_optimal (s0 : State) (h0 : IsInit s0) (ops : List Op) (t : Token) (mf bf : Nat) (fr : String)
    (s' : State) (n : Nat) (h : doReqBatch (run s0 ops) t mf bf fr = (s', .ok n)) :
    ∃ b, s'.batches = (run s0 ops).batches ++ [b] ∧ b.nonce = n ∧
      (∀ x ∈ b.txs, ∀ y ∈ s'.pool, y.token = t → y.fee ≤ x.fee) ∧
      (b.txs.length < outgoingTxBatchSize → ∀ y ∈ s'.pool, y.token = t → y.fee < bf) ∧
      (∀ l' : List Tx, l'.Sublist ((run s0 ops).pool.filter (fun x => decide (x.token = t))) →
        l'.length ≤ outgoingTxBatchSize → (∀ x ∈ l', bf ≤ x.fee) → totalFee l' ≤ totalFee b.txs) := by
  have hs := pool_sorted s0 h0 ops
  obtain ⟨hn, hs'⟩ := reqBatch_ok h
  generalize run s0 ops = s at *
  subst hs'
  refine ⟨_, rfl, hn.symm, pick_dominates hs t bf _, pick_complete hs t bf _, fun l' hsub hlen hel => ?_⟩
  have hd := sorted_token_fees hs t
  simp only [pick_is_fee_descending_prefix, takeWhile_eq_filter_of_desc bf hd]
  have hl' : l'.filter (fun x => decide (bf ≤ x.fee)) = l' := by
    rw [filter_eq_self]; intro x hx; simpa using hel x hx
  rw [totalFee_eq_feeSum, totalFee_eq_feeSum, ← hl']
  exact feeSum_sublist_le_take (hsub.filter _) (Pairwise.sublist (filter_sublist) hd) _ (by rw [hl']; exact hlen)

/-- `batch_nonce_fresh` (and bridge-call nonces): along every operation list the nonces of all batches ever created
(ghost log `created`, in creation order) are exactly `1, 2, …, nextBatchId − 1` — so no nonce is ever issued twice, also
after the batch that carried it was executed, cancelled or timed out — every stored batch is one of them, and the next
successful `RequestBatch` issues a nonce no batch ever had.  Same for outgoing bridge calls. -/
theorem batch_nonce_fresh (s0 : State) (h0 : IsInit s0) (ops : List Op) :
    let s := (runExt s0 {} ops).1
    let x := (runExt s0 {} ops).2
    s = run s0 ops ∧
    x.created.map (·.nonce) = range' 1 (s.nextBatchId - 1) ∧ (x.created.map (·.nonce)).Nodup ∧
    (∀ b ∈ s.batches, b ∈ x.created) ∧
    x.createdCalls.map (·.nonce) = range' 1 (s.nextCallId - 1) ∧ (x.createdCalls.map (·.nonce)).Nodup ∧
    (∀ c ∈ s.calls, c ∈ x.createdCalls) ∧
    (∀ t mf bf fr s' n, doReqBatch s t mf bf fr = (s', .ok n) → ∀ b ∈ x.created, b.nonce ≠ n) ∧
    (∀ a r to d m cs s' n, doBridgeCall s a r to d m cs = (s', .ok n) → ∀ c ∈ x.createdCalls, c.nonce ≠ n) := by
  have hn := N_run (N_init h0) ops
  rw [runExt_eq]
  simp only
  refine ⟨runExt_fst _ _ _, hn.nonces, by rw [hn.nonces]; exact nodup_range', hn.sub, hn.cnonces,
    by rw [hn.cnonces]; exact nodup_range', hn.csub, ?_, ?_⟩
  · intro t mf bf fr s' n h b hb hbn
    have h1 := (reqBatch_ok h).1
    have h2 : b.nonce ∈ range' 1 ((runExtStd s0 {} ops).1.nextBatchId - 1) := by
      rw [← hn.nonces]; exact mem_map_of_mem hb
    simp only [mem_range'_1] at h2
    have := hn.npos
    omega
  · intro a r to d m cs s' n h c hc hcn
    obtain ⟨_, _, h1⟩ := queued_is_supplied_call _ _ a r to d m cs n h
    have h2 : c.nonce ∈ range' 1 ((runExtStd s0 {} ops).1.nextCallId - 1) := by
      rw [← hn.cnonces]; exact mem_map_of_mem hc
    simp only [mem_range'_1] at h2
    have := hn.cpos
    omega

/-- `observed_execution_settles` (with the environment: every observed event is one the bridge contract can have
produced — heights non-decreasing, `state_lastBatchNonces[token] < nonce`, `block.number < timeout`, operators read from
FxBridgeLogic.sol): along every admissible operation list, when the external chain executes a batch, fxcore still holds
it: the claim is applied (no panic, so the bridge does not stall), every transfer of the batch is logged as executed, and
— for every continuation, admissible or not — none of them is ever refunded.  The proof needs that an executed batch
cancels only lower nonces *of its own token* and that time-outs are taken at the observed external height only. -/
theorem observed_execution_settles (s0 : State) (h0 : IsInit s0) (ops : List Op) (h t n : Nat)
    (ha : AdmissibleRun s0 {} (ops ++ [.observe h (.batch t n)])) :
    ∃ b ∈ (run s0 ops).batches, b.token = t ∧ b.nonce = n ∧
      (doObserve (run s0 ops) h (.batch t n)).2 = .ok ((run s0 ops).eventNonce + 1) ∧
      ∀ tx ∈ b.txs, ∀ ops2 : List Op, ∀ e ∈ (run s0 (ops ++ [.observe h (.batch t n)] ++ ops2)).settled,
        e.isCall = false → e.id = tx.id → e.how = .executed := by
  obtain ⟨ha1, ha2⟩ := admissibleRun_append ((admissibleRun_iff _ _ _).mp ha)
  have hj := J_run (J_init h0) ops ha1
  rw [runExt_fst] at hj
  obtain ⟨b, hb, hbt, hbn, hok, hlog⟩ := admissible_execution_applies_aux hj ha2.1
  refine ⟨b, hb, hbt, hbn, hok, fun tx htx ops2 e he hc hid => ?_⟩
  have hmem : (⟨false, tx.id, .executed, 0, [(tx.token, tx.amount + tx.fee)]⟩ : Settle)
      ∈ (run s0 (ops ++ [.observe h (.batch t n)] ++ ops2)).settled := by
    rw [run_append, run_append]
    obtain ⟨l, hl⟩ := settled_grows_run (run (run s0 ops) [.observe h (.batch t n)]) ops2
    rw [hl]
    exact mem_append_left _ (hlog tx htx)
  cases hhow : e.how with
  | executed => rfl
  | refunded =>
    exact (executed_never_refunded s0 h0 _ _ e hmem he rfl hc hid.symm rfl hhow).elim

/-- `queued_is_supplied`, over histories: after every operation list, every transfer waiting in the pool or inside a
batch is, field for field (id, sender, destination, token, amount), a transfer of the creation log `sent` — the log gets
exactly the sender's input on a successful `SendToExternal` and nothing else — and its fee is the original fee plus
exactly the fee increases that succeeded for that id; ids in the creation log are unique; every stored batch / outgoing
bridge call is, unchanged, the record that was created (timeout, fee receiver, transfers / tokens, target, data, memo). -/
theorem queued_is_supplied_always (s0 : State) (h0 : IsInit s0) (ops : List Op) :
    let s := run s0 ops
    let x := (runExt s0 {} ops).2
    (∀ tx ∈ s.pool ++ s.batches.flatMap (·.txs), ∃ o ∈ x.sent, o.id = tx.id ∧ o.sender = tx.sender ∧ o.dest = tx.dest ∧
      o.token = tx.token ∧ o.amount = tx.amount ∧ tx.fee = o.fee + raisedSum x.raised tx.id) ∧
    (x.sent.map (·.id)).Nodup ∧ (∀ b ∈ s.batches, b ∈ x.created) ∧ (∀ c ∈ s.calls, c ∈ x.createdCalls) := by
  have hq := QI_run (Q_init h0) (inv_init h0) ops
  have hn := N_run (N_init h0) ops
  rw [runExt_fst] at hq hn
  rw [runExt_eq]
  simp only
  exact ⟨hq.queued, by rw [hq.sentIds]; exact nodup_range', hn.sub, hn.csub⟩

/-- `refund_exact`, over histories: after every operation list, every refund of a transfer in the settlement log went to
the account that created that transfer, in its token, and its amount is the amount plus the original fee plus every fee
increase paid for that id — everything that was ever paid in for it, once (`settled_once`); every refund of an outgoing
bridge call went to the refund address of the bridge call that was created under that nonce, with exactly its tokens. -/
theorem refund_is_what_was_paid (s0 : State) (h0 : IsInit s0) (ops : List Op) :
    let s := run s0 ops
    let x := (runExt s0 {} ops).2
    (∀ e ∈ s.settled, e.isCall = false → e.how = .refunded →
      ∃ o ∈ x.sent, o.id = e.id ∧ e.to = o.sender ∧ e.coins = [(o.token, o.amount + o.fee + raisedSum x.raised e.id)]) ∧
    (∀ e ∈ s.settled, e.isCall = true → e.how = .refunded →
      ∃ c ∈ x.createdCalls, c.nonce = e.id ∧ e.to = c.refund ∧ e.coins = c.tokens) := by
  have hq := QI_run (Q_init h0) (inv_init h0) ops
  have hr := RN_run (R_init h0) (N_init h0) ops
  rw [runExt_fst] at hq hr
  rw [runExt_eq]
  simp only
  refine ⟨hq.refunds, fun e he hc hh => ?_⟩
  obtain ⟨c, hcm, h1, h2⟩ := hr.calls e he hc
  exact ⟨c, hcm, h1.symm, (h2 hh).1, (h2 hh).2⟩

/-! ## round 3: entries created through the precompiles (ERC-20 origin) -/

/-- origin marks and refund form, as read from `/repo` now: `MsgBridgeCall` marks its record as from-message, the
`bridgeCall` precompile does not; a refund converts the coins to ERC-20 unless the mark is there; deleting the record
deletes the mark; the `crossChain` precompile records an outgoing-transfer relation for the id it was given; a cancel of
such an entry refunds ERC-20 and deletes the relation; an executed batch deletes the relations of its transfers -/
theorem source_shapes_origin :
    msgBridgeCallSetsFromMsg = true ∧ precompileBridgeCallSetsFromMsg = false ∧ callRefundEvmUnlessFromMsg = true ∧
    deleteRecordDropsFromMsg = true ∧ precompileSendSetsRelation = true ∧ cancelRefundHook = true ∧
    executedDeletesRelation = true := by decide

/-- `queued_is_supplied`, the data flow of the two precompiles (regenerated from the Go AST): the `bridgeCall` precompile
hands `AddOutgoingBridgeCall` its caller, `args.Refund`, the converted coins, `args.To`, `args.Data`, `args.Memo`; the
`crossChain` precompile hands its caller, `args.Receipt`, amount and fee through `handlerCrossChain` and
`outgoingTransfer` to `AddToOutgoingPool`, parameter by parameter -/
theorem supplied_fields_reach_the_record_precompile :
    (["sender", "refundAddr", "baseCoins", "to", "data", "memo"].map (argOf bridgeCallAddParams bridgeCallPrecompileArgs)) =
      [some "sender", some "args.Refund", some "baseCoins", some "args.To", some "args.Data", some "args.Memo"] ∧
    (["from", "receipt", "amount", "fee"].map (argOf sendPrecompileHandlerParams sendPrecompileArgs)) =
      [some "sender.Bytes()", some "args.Receipt", some "amountCoin", some "feeCoin"] ∧
    (["from", "to", "amount", "fee"].map (argOf sendPrecompileTransferParams sendPrecompileTransferArgs)) =
      [some "from.Bytes()", some "receipt", some "amount", some "fee"] ∧
    (["sender", "receiver", "amount", "fee"].map (argOf sendAddParams sendPrecompilePoolArgs)) =
      [some "from", some "to", some "amount", some "fee"] := by decide

/-- `queued_is_supplied` (crossChain precompile): what enters the pool is exactly what the caller supplied, under the
fresh id; the caller pays exactly amount + fee, out of its ERC-20 balance; the id gets the outgoing-transfer relation -/
theorem queued_is_supplied_psend (s s' : State) (a : Addr) (d : String) (t : Token) (am f n : Nat)
    (h : doPSend s a d t am f = (s', .ok n)) :
    n = s.nextTxId ∧ s'.nextTxId = s.nextTxId + 1 ∧
    s'.pool.Perm (⟨s.nextTxId, a, d, t, am, f⟩ :: s.pool) ∧ s'.batches = s.batches ∧ s'.settled = s.settled ∧
    (∀ k, getBal s'.bal k = if k = (a, t) then getBal s.bal k - (am + f) else getBal s.bal k) ∧
    (∀ k, getBal s'.erc k = if k = (a, t) then getBal s.erc k - (am + f) else getBal s.erc k) ∧
    am + f ≤ getBal s.erc (a, t) ∧ s'.relTx = s.relTx ++ [s.nextTxId] := by
  have hr : precompileSendSetsRelation = true := by decide
  unfold doPSend at h
  split at h
  · cases h
  · split at h
    · cases h
    · cases h
      refine ⟨rfl, rfl, insertDesc_perm _ _, rfl, rfl, fun k => ?_, fun k => ?_, by omega, by simp [hr]⟩
      · simp only [getBal_subBal]
        split <;> simp_all
      · simp only [getBal_subBal]
        split <;> simp_all

/-- `queued_is_supplied` (bridgeCall precompile): the stored record carries exactly the caller, refund address, tokens
(in the caller's order), target, call data and memo supplied, under the fresh nonce, and is not marked from-message -/
theorem queued_is_supplied_pcall (s s' : State) (a r : Addr) (to d m : String) (cs : List (Token × Nat)) (n : Nat)
    (h : doPCall s a r to d m cs = (s', .ok n)) :
    ∃ timeout, s'.calls = s.calls ++ [⟨s.nextCallId, a, r, cs, to, d, m, timeout, s.fxHeight⟩] ∧ n = s.nextCallId ∧
      s'.fromMsg = s.fromMsg ∧ debitAll s.nTokens a cs s.erc = some s'.erc ∧ debitAll s.nTokens a cs s.bal = some s'.bal := by
  have hm : precompileBridgeCallSetsFromMsg = false := by decide
  unfold doPCall at h
  split at h
  · rename_i erc' bal' h1 h2
    simp only at h
    split at h
    · cases h
    · cases h
      exact ⟨_, rfl, rfl, by simp [hm], h1, h2⟩
  · cases h

/-- and the message marks its record: `MsgBridgeCall` → from-message -/
theorem bridgeCall_marks_from_msg (s s' : State) (a r : Addr) (to d m : String) (cs : List (Token × Nat)) (n : Nat)
    (h : doBridgeCall s a r to d m cs = (s', .ok n)) : s'.fromMsg = s.fromMsg ++ [n] ∧ s'.erc = s.erc := by
  have hm : msgBridgeCallSetsFromMsg = true := by decide
  unfold doBridgeCall at h
  split at h
  · cases h
  · split at h
    · cases h
    · simp only at h
      split at h
      · cases h
      · cases h
        exact ⟨by simp [hm], rfl⟩

/-- `refund_exact`, the form of a bridge-call refund: the refund address gets, per token, exactly the record's amounts;
as ERC-20 (its ERC-20 balance grows by the same amounts) iff the record is not marked from-message, i.e. it was created
by the `bridgeCall` precompile; nobody else's ERC-20 balance moves -/
theorem refund_form_call (s : State) (c : Call) (a : Addr) (t : Token) :
    getBal (refundCall s c).erc (a, t) = getBal s.erc (a, t) +
      (if a = c.refund ∧ c.nonce ∉ s.fromMsg then creditOf t c.tokens else 0) ∧
    (refundCall s c).fromMsg = s.fromMsg := by
  have h1 : callCleanupRefunds = true := by decide
  have h2 : callRefundEvmUnlessFromMsg = true := by decide
  have h3 : callRefundReceiver = .refund := by decide
  refine ⟨?_, rfl⟩
  by_cases hm : c.nonce ∈ s.fromMsg
  · simp [refundCall, h1, h2, hm]
  · simp [refundCall, h1, h2, hm, getBal_creditAll, callRefundTo, h3]

/-- `refund_exact`, the form of a cancel refund: the creator gets amount + fee; as ERC-20 iff the entry has the
outgoing-transfer relation (it was created through the `crossChain` precompile); the relation is gone afterwards -/
theorem refund_form_cancel (s s' : State) (id : Nat) (who : Addr) (n : Nat) (h : doCancel s id who = (s', .ok n)) :
    ∃ tx, tx ∈ s.pool ∧ tx.id = id ∧
      (∀ k, getBal s'.erc k = if k = (who, tx.token) ∧ id ∈ s.relTx then getBal s.erc k + (tx.amount + tx.fee)
        else getBal s.erc k) ∧
      id ∉ s'.relTx ∧ (∀ i ∈ s.relTx, i ≠ id → i ∈ s'.relTx) := by
  have hk : cancelRefundHook = true := by decide
  have hterms : ∀ tx : Tx, refundAmount tx = tx.amount + tx.fee := by
    intro tx; simp [refundAmount, cancelRefundTerms]
  unfold doCancel at h
  split at h
  · cases h
  · split at h
    · cases h
    · rename_i tx hf
      split at h
      · cases h
      · cases h
        have hid : tx.id = id := by simpa using find?_some hf
        refine ⟨tx, mem_of_find?_eq_some hf, hid, fun k => ?_, ?_, ?_⟩
        · by_cases hr : id ∈ s.relTx
          · simp only [hk, Bool.true_and, hid, List.contains_iff_mem, hr, if_true, getBal_addBal, hterms, and_true]
            split <;> simp_all
          · simp [hk, hid, hr]
        · simp [hk, hid]
        · intro i hi hne
          simp [hk, hid, hi, hne]

/-- non-vacuity: a precompile-originated transfer cancelled (ERC-20 refunded), a precompile-originated bridge call timed
out (ERC-20 refunded to its refund address) next to a message-originated one (coins only) -/
example : ∃ ops : List Op, let s := run { init 1 [((0, 0), 100), ((1, 0), 100)] {} with erc := [((0, 0), 40), ((1, 0), 40)] } ops
    getBal s.erc (0, 0) = 40 - 7 ∧ getBal s.erc (1, 0) = 40 - 5 + 5 ∧ getBal s.erc (7, 0) = 7 ∧ getBal s.bal (7, 0) = 7 + 3 ∧
    s.relTx = [] ∧ s.fromMsg = [] ∧ s.calls = [] := by
  refine ⟨[.observe 1000 .other,
           .psend 1 "0x0000000000000000000000000000000000000001" 0 5 0, .cancel 1 1,
           .pcall 0 7 "0x0000000000000000000000000000000000000001" "ab" "" [(0, 7)],
           .bridgeCall 0 7 "0x0000000000000000000000000000000000000001" "ab" "" [(0, 3)],
           .observe 41320 .other], ?_⟩
  decide

/-! ## round 4: the order of the settlement statements; origin marks = origin log over all histories -/

/-- the settlement statements of an outgoing bridge-call record, in the order they have in `/repo` now: the time-out
clean-up and a failed result refund first and delete the record afterwards; a successful result only deletes;
`DeleteOutgoingBridgeCallRecord` deletes the record, its confirmations and — last — its from-message mark.  The model RUNS
these lists (`callStmts`), so a reordering in the source changes `cleanupCalls` / `doExec` themselves. -/
theorem source_shapes_settlement_order :
    callCleanupBody = ["HandleOutgoingBridgeCallRefund", "DeleteOutgoingBridgeCallRecord"] ∧
    resultFailureBody = ["HandleOutgoingBridgeCallRefund", "DeleteOutgoingBridgeCallRecord"] ∧
    resultSuccessBody = ["DeleteOutgoingBridgeCallRecord"] ∧
    deleteRecordBody = ["DeleteOutgoingBridgeCall", "DeleteBridgeCallConfirm", "DeleteBridgeCallFromMsg"] := by decide

/-- `increase_fee_exact`, the data flow of both entry points (regenerated from the Go AST): `AddUnbatchedTxBridgeFee`
receives the transaction id, the account that pays and the added fee from `MsgIncreaseBridgeFee` field by field, and from the
`increaseBridgeFee` precompile: its caller (the same caller whose ERC-20 balance `handlerERC20Token` debits by `args.Fee` of
`args.Token`, and for whom the coins are converted to the bridge denom), `args.TxID`, the converted fee -/
theorem supplied_fields_reach_the_fee_increase :
    (["txId", "sender", "addBridgeFee"].map (argOf incFeeAddParams incFeeMsgArgs)) =
      [some "msg.TransactionId", some "sender", some "msg.AddBridgeFee"] ∧
    (["txId", "sender", "addBridgeFee"].map (argOf incFeeAddParams incFeePrecompileArgs)) =
      [some "args.TxID.Uint64()", some "sender.Bytes()", some "addBridgeFee"] ∧
    incFeePrecompileTakeArgs = ["ctx", "evm", "sender", "args.Token", "args.Fee"] ∧
    incFeePrecompileConvertArgs = ["ctx", "sender.Bytes()", "feeCoin", "fxTarget"] := by decide

/-- `refund_exact` for one record settled by refund, statements run in source order (every state, every record): the
refund address gets exactly the record's amounts; as ERC-20 iff the record was NOT marked from-message when the settlement
began — the refund reads the mark before the deletion removes it; afterwards the mark is gone, exactly this record is
removed, exactly one refund is logged.  With the two statements swapped the first clause is false (example below). -/
theorem settle_record_in_source_order (s : State) (c : Call) (body : List String)
    (hb : body = callCleanupBody ∨ body = resultFailureBody) (a : Addr) (t : Token) :
    getBal (callStmts c body s).erc (a, t) = getBal s.erc (a, t) +
      (if a = c.refund ∧ c.nonce ∉ s.fromMsg then creditOf t c.tokens else 0) ∧
    getBal (callStmts c body s).bal (a, t) = getBal s.bal (a, t) + (if a = c.refund then creditOf t c.tokens else 0) ∧
    c.nonce ∉ (callStmts c body s).fromMsg ∧ (callStmts c body s).calls = s.calls.erase c ∧
    (callStmts c body s).settled = s.settled ++ [⟨true, c.nonce, .refunded, c.refund, c.tokens⟩] := by
  have h0 : body = ["HandleOutgoingBridgeCallRefund", "DeleteOutgoingBridgeCallRecord"] := by
    rcases hb with rfl | rfl <;> decide
  have hd : deleteRecordBody = ["DeleteOutgoingBridgeCall", "DeleteBridgeCallConfirm", "DeleteBridgeCallFromMsg"] := by decide
  have he : callStmts c body s =
      { refundCall s c with calls := s.calls.erase c, fromMsg := s.fromMsg.filter (fun n => !([c.nonce].contains n)) } := by
    subst h0
    simp [callStmts, callStmt, callPrim, hd, refundCall]
  rw [he]
  refine ⟨(refund_form_call s c a t).1, (refund_exact_call s c a t).1, by simp, rfl, (refund_exact_call s c a t).2⟩

/-- the order matters: the same two statements swapped refund a message-originated record as ERC-20 -/
example : let s : State := { init 1 [] {} with calls := [⟨1, 0, 7, [(0, 5)], "", "", "", 9, 1⟩], fromMsg := [1] }
    let c : Call := ⟨1, 0, 7, [(0, 5)], "", "", "", 9, 1⟩
    getBal (callStmts c ["HandleOutgoingBridgeCallRefund", "DeleteOutgoingBridgeCallRecord"] s).erc (7, 0) = 0 ∧
    getBal (callStmts c ["DeleteOutgoingBridgeCallRecord", "HandleOutgoingBridgeCallRefund"] s).erc (7, 0) = 5 := by decide

/-- `origin_marks_are_origin` — over every operation list from every initial state: the store marks that decide the
FORM of a refund are exactly the logged origins of the entries still held.  A transfer id has an outgoing-transfer
relation iff it was created through the `crossChain` precompile (ghost log `sentEvm`) and is still in the pool or in a
batch; an outgoing bridge call is marked from-message iff it was created by `MsgBridgeCall` (ghost log `msgCalls`) and is
still stored.  So no mark outlives its entry, none is lost while the entry is queued — across batching, batch
cancellation, fee increases, out-of-order executions, time-outs. -/
theorem origin_marks_are_origin (s0 : State) (h0 : IsInit s0) (ops : List Op) :
    let s := run s0 ops
    let x := (runExt s0 {} ops).2
    (∀ id, id ∈ s.relTx ↔ (id ∈ x.sentEvm ∧ id ∈ poolIds s ++ batchIds s)) ∧
    (∀ n, n ∈ s.fromMsg ↔ (n ∈ x.msgCalls ∧ n ∈ callIds s)) := by
  have hm := MI_run (M_init h0) (inv_init h0) ops
  rw [runExt_fst] at hm
  have hi := reachable_inv s0 h0 ops
  rw [runExt_eq]
  simp only
  have nd1 : (allTxIds (run s0 ops)).Nodup := hi.tx.nodup_iff.mpr nodup_range'
  have nd2 : (allCallIds (run s0 ops)).Nodup := hi.call.nodup_iff.mpr nodup_range'
  constructor
  · intro id
    rw [hm.rel id]
    constructor
    · rintro ⟨h1, h2⟩
      refine ⟨h1, ?_⟩
      have hlt := hm.evmLt id h1
      have hmem : id ∈ allTxIds (run s0 ops) := (hi.tx.mem_iff).mpr (by simp only [mem_range'_1]; omega)
      simp only [allTxIds, mem_append] at hmem ⊢
      rcases hmem with h | h
      · exact h
      · exact absurd h h2
    · rintro ⟨h1, h2⟩
      refine ⟨h1, fun h3 => ?_⟩
      simp only [allTxIds, nodup_append] at nd1
      exact nd1.2.2 id h2 id h3 rfl
  · intro n
    rw [hm.marks n]
    constructor
    · rintro ⟨h1, h2⟩
      refine ⟨h1, ?_⟩
      have hlt := hm.msgLt n h1
      have hmem : n ∈ allCallIds (run s0 ops) := (hi.call.mem_iff).mpr (by simp only [mem_range'_1]; omega)
      simp only [allCallIds, mem_append] at hmem
      rcases hmem with h | h
      · exact h
      · exact absurd h h2
    · rintro ⟨h1, h2⟩
      refine ⟨h1, fun h3 => ?_⟩
      simp only [allCallIds, nodup_append] at nd2
      exact nd2.2.2 n h2 n h3 rfl

/-- `refund_form_by_origin` — the refund form over histories, stated against the ORIGIN (ghost log) rather than the store
mark: in every reachable state a successful cancel pays amount + fee as ERC-20 iff the transfer was created through the
`crossChain` precompile, and refunding a stored outgoing bridge call pays its refund address ERC-20 iff the call was NOT
created by `MsgBridgeCall` — whatever happened to the entry in between -/
theorem refund_form_by_origin (s0 : State) (h0 : IsInit s0) (ops : List Op) :
    let s := run s0 ops
    let x := (runExt s0 {} ops).2
    (∀ id who s' n, doCancel s id who = (s', .ok n) → ∃ tx ∈ s.pool, tx.id = id ∧
      ∀ k, getBal s'.erc k = if k = (who, tx.token) ∧ id ∈ x.sentEvm then getBal s.erc k + (tx.amount + tx.fee)
        else getBal s.erc k) ∧
    (∀ c ∈ s.calls, ∀ a t, getBal (refundCall s c).erc (a, t) = getBal s.erc (a, t) +
      (if a = c.refund ∧ c.nonce ∉ x.msgCalls then creditOf t c.tokens else 0)) := by
  obtain ⟨hrel, hmarks⟩ := origin_marks_are_origin s0 h0 ops
  simp only at hrel hmarks ⊢
  constructor
  · intro id who s' n h
    obtain ⟨tx, htx, hid, herc, _, _⟩ := refund_form_cancel _ s' id who n h
    refine ⟨tx, htx, hid, fun k => ?_⟩
    have hq : id ∈ poolIds (run s0 ops) ++ batchIds (run s0 ops) := by
      simp only [mem_append, poolIds, mem_map]; exact Or.inl ⟨tx, htx, hid⟩
    have : id ∈ (run s0 ops).relTx ↔ id ∈ ((runExt s0 {} ops).2).sentEvm := by
      rw [hrel id]; exact ⟨fun h => h.1, fun h => ⟨h, hq⟩⟩
    simp only [herc k, this]
  · intro c hc a t
    have hq : c.nonce ∈ callIds (run s0 ops) := by simp only [callIds, mem_map]; exact ⟨c, hc, rfl⟩
    have : c.nonce ∈ (run s0 ops).fromMsg ↔ c.nonce ∈ ((runExt s0 {} ops).2).msgCalls := by
      rw [hmarks c.nonce]; exact ⟨fun h => h.1, fun h => ⟨h, hq⟩⟩
    simp only [(refund_form_call _ c a t).1, this]

/-- non-vacuity: a history after which a precompile-originated transfer sits in a batch (relation kept), a
message-originated one beside it (no relation), a message-originated bridge call is stored (marked), a precompile one is
not marked -/
example : ∃ ops : List Op,
    let s := run { init 1 [((0, 0), 100), ((1, 0), 100)] {} with erc := [((0, 0), 40), ((1, 0), 40)] } ops
    let x := (runExt { init 1 [((0, 0), 100), ((1, 0), 100)] {} with erc := [((0, 0), 40), ((1, 0), 40)] } {} ops).2
    s.relTx = [1] ∧ x.sentEvm = [1] ∧ batchIds s = [1, 2] ∧ s.fromMsg = [2] ∧ x.msgCalls = [2] ∧ callIds s = [1, 2] := by
  refine ⟨[.observe 1000 .other,
           .psend 1 "0x0000000000000000000000000000000000000001" 0 5 3,
           .send 0 "0x0000000000000000000000000000000000000001" 0 5 2,
           .reqBatch 0 1 0 "0x0000000000000000000000000000000000000002",
           .pcall 0 7 "0x0000000000000000000000000000000000000001" "ab" "" [(0, 7)],
           .bridgeCall 0 7 "0x0000000000000000000000000000000000000001" "ab" "" [(0, 3)]], ?_⟩
  decide

/-- non-vacuity of the environment hypothesis: an admissible run in which two batches of different tokens are in flight
and the later one is executed first, then the earlier one -/
example : AdmissibleRun (init 2 [((0, 0), 100), ((0, 1), 100)] {}) {}
    [.observe 10 .other,
     .send 0 "0x0000000000000000000000000000000000000001" 0 5 2,
     .send 0 "0x0000000000000000000000000000000000000001" 1 5 2,
     .reqBatch 0 1 0 "0x0000000000000000000000000000000000000002", .block 1,
     .reqBatch 1 1 0 "0x0000000000000000000000000000000000000002",
     .observe 11 (.batch 1 2), .observe 12 (.batch 0 1)] := by
  simp only [AdmissibleRun, admissible]
  decide

/-- non-vacuity: a reachable state with a transfer in the pool, one in a batch, one executed and one refunded -/
example : ∃ ops : List Op, let s := run (init 1 [((0, 0), 100)] {}) ops
    poolIds s = [4] ∧ batchIds s = [3] ∧ settledTxIds s.settled = [1, 2] := by
  refine ⟨[.observe 10 .other,
           .send 0 "0x0000000000000000000000000000000000000001" 0 5 2,
           .send 0 "0x0000000000000000000000000000000000000001" 0 5 1,
           .reqBatch 0 1 2 "0x0000000000000000000000000000000000000002",
           .observe 11 (.batch 0 1), .cancel 2 0,
           .send 0 "0x0000000000000000000000000000000000000001" 0 5 1, .block 1,
           .reqBatch 0 1 0 "0x0000000000000000000000000000000000000002",
           .send 0 "0x0000000000000000000000000000000000000001" 0 5 1], ?_⟩
  decide

/-! ## round 5: the same with the oracles' votes inside the history (`Model/C06Vote.lean`) -/

section votes
open FxVerif.Model.C06Vote FxVerif.Proofs.C06Vote

/-- **exactly one place, settled exactly once — for voted histories.**  From an initial state, for any number of
oracles with any powers and any recorded total, after any list of user operations and single claims of the oracles
(reporting whatever heights and events, in any order, completing quorums or not): every transfer id and bridge-call nonce
ever issued is in exactly one place, ids are fresh, each is settled at most once, and no transfer is both executed and
refunded.  (The C05 state of a voted history is `run` of its trace — `vrun_base` — so `ids_fresh`, `partition`,
`settled_once`, `executed_never_refunded` apply.) -/
theorem exactly_one_place_settled_once_voted (b0 : State) (h0 : IsInit b0) (powers : List Nat) (total : Nat)
    (ops : List VOp) :
    let s := (vrun (vinit b0 powers total) ops).base
    (∀ id, 1 ≤ id → id < s.nextTxId → count id (allTxIds s) = 1) ∧
    (∀ n, 1 ≤ n → n < s.nextCallId → count n (allCallIds s) = 1) ∧
    s.nextTxId ∉ allTxIds s ∧ s.nextCallId ∉ allCallIds s ∧
    (settledTxIds s.settled).Nodup ∧ (settledCallIds s.settled).Nodup ∧
    (∀ e1 ∈ s.settled, ∀ e2 ∈ s.settled, e1.isCall = false → e2.isCall = false → e1.id = e2.id →
      e1.how = .executed → e2.how = .refunded → False) := by
  intro s
  have hs : s = run b0 (trace (vinit b0 powers total) ops) := vrun_base _ ops _
  rw [hs]
  have p := partition b0 h0 (trace (vinit b0 powers total) ops)
  have f := ids_fresh b0 h0 (trace (vinit b0 powers total) ops)
  have so := settled_once b0 h0 (trace (vinit b0 powers total) ops)
  exact ⟨p.1, p.2.2.1, f.2.1, f.2.2.2, so.1, so.2,
    fun e1 h1 e2 h2 c1 c2 hid hx hr => executed_never_refunded b0 h0 _ e1 e2 h1 h2 c1 c2 hid hx hr⟩

/-- non-vacuity: a voted history in which a batch is executed by the votes of two of three oracles while the third
reports another height: transfer 1 is settled (executed), transfer 2 is still in the pool -/
example :
    let s := (vrun (vinit (init 1 [((0, 0), 100)] {}) [400, 300, 300] 1000)
      [.vote 0 1 1000 .other, .vote 1 1 1000 .other, .vote 2 1 1000 .other,
       .base (.send 0 "0x0000000000000000000000000000000000000001" 0 5 2),
       .base (.reqBatch 0 1 0 "0x0000000000000000000000000000000000000002"),
       .base (.send 0 "0x0000000000000000000000000000000000000001" 0 7 1),
       .vote 0 2 3000 (.batch 0 1), .vote 1 2 9999 (.batch 0 1), .vote 2 2 3000 (.batch 0 1)]).base
    settledTxIds s.settled = [1] ∧ s.pool.map (·.id) = [2] ∧ s.batches = [] ∧ s.obsExt = 3000 := by decide

end votes

end FxVerif.Props.C05
