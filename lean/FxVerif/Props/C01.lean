import FxVerif.Proofs.C01
import FxVerif.Proofs.C01Gen
import FxVerif.Proofs.C01R4
import FxVerif.Proofs.C01Refine
/-!
# C01 — bridge events take effect exactly once, strictly in event-nonce order

All theorems are about `FxVerif.Model.C01.step` (the executable model compared with the real app on every run), whose
guards and constants are the ones `go/extract/c01.go` reads off the Go source (`FxVerif.Gen.C01`).  `reach p ops` is the
state after an ARBITRARY list of operations (claims of any oracle with competing hashes, bond, add-delegate, edit-bridger,
governance oracle updates, end blocks with slashing, unbond, deferred execution — succeeding or failing) from the
initial state with ARBITRARY module parameters `p`; theorems stated for `s : State` hold for every state, reachable or not.
-/
namespace FxVerif.Props.C01
open FxVerif.Gen.C01 FxVerif.Model.C01 FxVerif.Proofs.C01

/-- state reached from genesis (parameters `p`) by a history `ops` -/
abbrev reach (p : Params) (ops : List Op) : State := run (init p) ops

/-! ## the guards this file relies on are the ones in the source -/

/-- the shape of `Attest` / `GetLastEventNonceByOracle` / `checkBridgerIsOracle` the model encodes is the one extracted now -/
theorem extracted_guards :
    attestChecksContiguity = true ∧ tallyCalled = true ∧ tallyRequiresNotObserved = true ∧ tallyRequiresNextNonce = true ∧
    fallbackLastObservedMinusOne = true ∧ claimRequiresOnline = true ∧ 0 < maxKeepEventSize := by decide

/-- what `TryAttestation` does once the bar is reached, and what the handler does with a deferred claim: the last observed
nonce is set unconditionally (not only when the handler succeeds), the attestation is stored as observed, the handler runs
through `processAttestation`, the vote loop is left, and send-to-fx / bridge-call / bridge-call-result claims are only
parked at observation time (their effects run in `ExecuteClaim` alone) -/
theorem extracted_observation_shape :
    observeSetsLastObserved = true ∧ observeMarksObserved = true ∧ observeRunsHandler = true ∧ observeBreaksLoop = true ∧
    deferredClaimsOnlyParked = true := by decide

/-! ## 1. the last observed nonce advances by exactly one; no gaps -/

/-- one step moves `lastObserved` by 0 or by exactly 1 — for every state and every operation -/
theorem lastObserved_step (s : State) (op : Op) :
    (step s op).1.lastObserved = s.lastObserved ∨ (step s op).1.lastObserved = s.lastObserved + 1 := by
  have core : ∀ s' : State, Core s' = Core s → s'.lastObserved = s.lastObserved := by
    intro s' h; simp only [Core, Prod.mk.injEq] at h; exact h.1
  cases op with
  | claim w i n h k e =>
    simp only [step]
    by_cases hok : (claimStep s w i n h k).2 = .ok
    · obtain ⟨a, orc, _, _, _, _, _, _, heq⟩ := claim_ok s w i n h k hok
      rw [heq]
      unfold attest
      simp only []
      split
      · rename_i hc
        cases ht : tally s.oracles (required s.lastTotalPower) (voteAtt s a n h).votes 0
        · rw [tryAttest_false _ _ _ (by simpa using ht)]; exact Or.inl rfl
        · obtain ⟨h1, _⟩ := tryAttest_true { s with atts := setAtt s.atts (voteAtt s a n h) } (voteAtt s a n h) k (by simpa using ht)
          simp [tallyCond, tallyRequiresNextNonce] at hc
          right
          show (tryAttest { s with atts := setAtt s.atts (voteAtt s a n h) } (voteAtt s a n h) k).lastObserved = s.lastObserved + 1
          rw [h1, (voteAtt_key s a n h).1]; exact hc.2
      · exact Or.inl rfl
    · rw [claim_not_ok s w i n h k hok]; exact Or.inl rfl
  | bond o b e a d => exact Or.inl (core _ (bond_core s o b e a d).1)
  | addDelegate o a d => exact Or.inl (core _ (addDelegate_core s o a d).1)
  | editBridger o b => exact Or.inl (core _ (editBridger_core s o b).1)
  | unbond o u bal d => exact Or.inl (core _ (unbond_core s o u bal d))
  | gov l d => exact Or.inl (core _ (gov_core s l d).1)
  | endBlock l r => exact Or.inl (core _ (endBlock_core s l r).1)
  | exec n o c =>
    simp only [step]
    obtain ⟨P, L, h⟩ := exec_frame s n o c
    rw [h]; exact Or.inl rfl

/-- the nonces of the observation log are exactly 1, 2, …, lastObserved, in this order: every history applies event
nonces one at a time, in increasing order, without gaps -/
theorem observedLog_contiguous (p : Params) (ops : List Op) :
    (reach p ops).observedLog.map Prod.fst = List.range' 1 (reach p ops).lastObserved :=
  (inv_run _ ops (inv_init p)).logC

/-- an event nonce is applied at most once (over all competing claims for it) -/
theorem observed_nonce_applied_once (p : Params) (ops : List Op) : ((reach p ops).observedLog.map Prod.fst).Nodup := by
  rw [observedLog_contiguous]; exact List.nodup_range'

/-- what has taken effect stays in effect: the observation log of any history is a prefix of the log of every extension
of that history (an applied event nonce is never re-applied, re-ordered or replaced by a competing claim later) -/
theorem observedLog_only_grows (p : Params) (ops more : List Op) :
    (reach p ops).observedLog <+: (reach p (ops ++ more)).observedLog := by
  obtain ⟨⟨l, h⟩, _⟩ := logs_run (reach p ops) more
  exact ⟨l, by simp only [reach, run_append]; exact h.symm⟩

/-- the same for deferred executions: from one operation to the next the execution log only grows (roll-backs of failing
or refunded nested calls stay inside the operation that made them) -/
theorem executedLog_only_grows (p : Params) (ops more : List Op) :
    (reach p ops).executedLog <+: (reach p (ops ++ more)).executedLog := by
  obtain ⟨_, ⟨l, h⟩⟩ := logs_run (reach p ops) more
  exact ⟨l, by simp only [reach, run_append]; exact h.symm⟩

/-! ## 2. at most one observed attestation per nonce -/

theorem log_unique {l : List (Nat × Nat)} (hn : (l.map Prod.fst).Nodup) {n x y : Nat} (hx : (n, x) ∈ l) (hy : (n, y) ∈ l) : x = y := by
  induction l with
  | nil => simp at hx
  | cons q r ih =>
    simp only [List.map_cons, List.nodup_cons] at hn
    rcases List.mem_cons.mp hx with h1 | h1 <;> rcases List.mem_cons.mp hy with h2 | h2
    · rw [← h1] at h2; exact (Prod.mk.inj h2).2.symm
    · exact absurd (List.mem_map.mpr ⟨(n, y), h2, by rw [← h1]⟩) hn.1
    · exact absurd (List.mem_map.mpr ⟨(n, x), h1, by rw [← h2]⟩) hn.1
    · exact ih hn.2 h1 h2

/-- two observed attestations of the same nonce are for the same claim hash, and that (nonce, hash) is the entry of the
observation log -/
theorem observed_unique (p : Params) (ops : List Op) (a b : Att) (ha : a ∈ (reach p ops).atts) (hb : b ∈ (reach p ops).atts)
    (hao : a.observed = true) (hbo : b.observed = true) (hn : a.nonce = b.nonce) :
    a.hash = b.hash ∧ (a.nonce, a.hash) ∈ (reach p ops).observedLog ∧ a.nonce ≤ (reach p ops).lastObserved := by
  have hI := inv_run _ ops (inv_init p)
  have h1 := hI.obsIn a ha hao
  have h2 := hI.obsIn b hb hbo
  rw [← hn] at h2
  refine ⟨log_unique (observed_nonce_applied_once p ops) h1 h2, h1, ?_⟩
  have : a.nonce ∈ (reach p ops).observedLog.map Prod.fst := List.mem_map.mpr ⟨_, h1, rfl⟩
  rw [observedLog_contiguous] at this
  simp at this; omega

/-- an attestation for a nonce above `lastObserved` is never marked observed -/
theorem future_not_observed (p : Params) (ops : List Op) (a : Att) (ha : a ∈ (reach p ops).atts)
    (hf : (reach p ops).lastObserved < a.nonce) : a.observed = false := by
  cases hob : a.observed
  · rfl
  · have := (observed_unique p ops a a ha ha hob hob rfl).2.2; omega

/-! ## 3. an oracle cannot skip a nonce, and cannot vote twice for one -/

/-- an accepted claim is for exactly the oracle's next nonce (stored last nonce, or the fallback `lastObserved - 1` when the
key is absent) and moves the stored last nonce to it: no nonce can be skipped -/
theorem claim_advances_by_one (s : State) (w i n h : Nat) (k : Kind) (e : Nat) (hok : (step s (.claim w i n h k e)).2 = .ok) :
    ∃ a, s.byBridger.get (voter w i) = some a ∧ n = effLast s a + 1 ∧ (step s (.claim w i n h k e)).1.lastNonce.get a = some n := by
  simp only [step] at hok ⊢
  obtain ⟨a, orc, hga, _, _, hn, _, _, heq⟩ := claim_ok s w i n h k hok
  refine ⟨a, hga, hn, ?_⟩
  rw [heq, attest_lastNonce]; exact get_set_self _ _ _

/-- the stored per-oracle last nonce never decreases and never disappears, for every operation that keeps it (all but
`UnbondedOracle`, which deletes it) -/
theorem lastNonce_monotone (s : State) (op : Op) (hk : Op.keepsLastNonce op = true) (o v : Nat)
    (hv : s.lastNonce.get o = some v) : ∃ v', v ≤ v' ∧ (step s op).1.lastNonce.get o = some v' := by
  cases op with
  | claim w i n h k e =>
    simp only [step]
    by_cases hok : (claimStep s w i n h k).2 = .ok
    · obtain ⟨a, orc, _, _, _, hn, _, _, heq⟩ := claim_ok s w i n h k hok
      rw [heq, attest_lastNonce]
      by_cases hao : a = o
      · subst hao
        rw [effLast_of_get hv] at hn
        exact ⟨n, by omega, get_set_self _ _ _⟩
      · exact ⟨v, Nat.le_refl _, by rw [get_set_ne _ _ _ _ hao]; exact hv⟩
    · rw [claim_not_ok s w i n h k hok]; exact ⟨v, Nat.le_refl _, hv⟩
  | bond o' b e a d => exact ⟨v, Nat.le_refl _, by simp only [step]; rw [(bond_core s o' b e a d).2]; exact hv⟩
  | addDelegate o' a d => exact ⟨v, Nat.le_refl _, by simp only [step]; rw [(addDelegate_core s o' a d).2]; exact hv⟩
  | editBridger o' b => exact ⟨v, Nat.le_refl _, by simp only [step]; rw [(editBridger_core s o' b).2]; exact hv⟩
  | unbond o' u bal d =>
    have hk' : unbondDeletesLastNonce = false := by simpa [Op.keepsLastNonce] using hk
    exact ⟨v, Nat.le_refl _, by simp only [step]; rw [unbond_lastNonce s o' u bal d hk']; exact hv⟩
  | gov l d => exact ⟨v, Nat.le_refl _, by simp only [step]; rw [(gov_core s l d).2]; exact hv⟩
  | endBlock l r => exact ⟨v, Nat.le_refl _, by simp only [step]; rw [(endBlock_core s l r).2]; exact hv⟩
  | exec n o c =>
    refine ⟨v, Nat.le_refl _, ?_⟩
    simp only [step]
    obtain ⟨P, L, h⟩ := exec_frame s n o c
    rw [h]; exact hv

/-- the hypothesis of the partial theorems: the tree keeps the per-oracle last nonce on unbond, or the history contains
no unbond → re-bond of one oracle address (`noRebond`: no `BondedOracle` targets an oracle whose key an earlier
`UnbondedOracle` deleted) -/
def NoRebond (p : Params) (ops : List Op) : Prop := unbondDeletesLastNonce = false ∨ noRebond (init p) ops = true

theorem vinv_reach (p : Params) (ops : List Op) (hops : NoRebond p ops) : VInv (reach p ops) := by
  rcases hops with h | h
  · exact vinv_run _ ops (noRebond_of_kept h _ ops rfl) (vinv_init p)
  · exact vinv_run _ ops h (vinv_init p)

/-- PARTIAL (explicit hypothesis `NoRebond`: no oracle bonds again after `UnbondedOracle` deleted its last event nonce).
Then in every reachable state no vote list has a duplicate, an oracle has voted for at most one claim hash per nonce,
and every vote sits at a nonce not above the voter's stored last nonce (or the voter has unbonded for good).  All other
interleavings — slashing, governance removal, unbonding, add-delegate, competing hashes, any vote order — are covered. -/
theorem oracle_vote_once_partial (p : Params) (ops : List Op) (hops : NoRebond p ops) :
    (∀ a ∈ (reach p ops).atts, a.votes.Nodup) ∧
    (∀ a ∈ (reach p ops).atts, ∀ b ∈ (reach p ops).atts, ∀ o, a.nonce = b.nonce → o ∈ a.votes → o ∈ b.votes → a.hash = b.hash) ∧
    (∀ a ∈ (reach p ops).atts, ∀ o ∈ a.votes,
      (∃ v, (reach p ops).lastNonce.get o = some v ∧ a.nonce ≤ v) ∨ o ∈ (reach p ops).retired) := by
  have := vinv_reach p ops hops
  exact ⟨this.v2.1, this.v2.2, this.v1⟩

/-- on a tree whose `UnbondedOracle` keeps the per-oracle last nonce nothing is ever retired -/
theorem retired_reach (hk : unbondDeletesLastNonce = false) (p : Params) (ops : List Op) : (reach p ops).retired = [] := by
  have : ∀ (s : State), s.retired = [] → (run s ops).retired = [] := by
    induction ops with
    | nil => intro s h; exact h
    | cons op r ih => intro s h; exact ih _ (retired_step s op hk h)
  exact this _ rfl

/-- FULL STRENGTH (no hypothesis on the history; holds because the extractor reads that `UnbondedOracle` keeps
`LastEventNonceByOracle` — the repair `fix: an oracle that bonds again cannot vote twice…`; if the deletion comes back this
stops checking and `oracle_vote_once_false` applies).  In every reachable state — all interleavings of claims with
competing hashes, bond, add-delegate, edit-bridger, slashing end blocks, governance updates, unbond, RE-BOND, (re-entrant)
deferred execution — no vote list has a duplicate, an oracle has voted for at most one claim hash per nonce, and every
vote sits at a nonce not above the voter's stored last nonce. -/
theorem oracle_vote_once (p : Params) (ops : List Op) :
    (∀ a ∈ (reach p ops).atts, a.votes.Nodup) ∧
    (∀ a ∈ (reach p ops).atts, ∀ b ∈ (reach p ops).atts, ∀ o, a.nonce = b.nonce → o ∈ a.votes → o ∈ b.votes → a.hash = b.hash) ∧
    (∀ a ∈ (reach p ops).atts, ∀ o ∈ a.votes, ∃ v, (reach p ops).lastNonce.get o = some v ∧ a.nonce ≤ v) := by
  have hk : unbondDeletesLastNonce = false := by decide
  obtain ⟨h1, h2, h3⟩ := oracle_vote_once_partial p ops (Or.inl hk)
  refine ⟨h1, h2, ?_⟩
  intro a ha o ho
  rcases h3 a ha o ho with h | h
  · exact h
  · rw [retired_reach hk] at h; cases h

/-- the history of DESIGN §6-H: oracle 1 votes for nonce 1, is removed by governance, unbonds (its last nonce is deleted),
is listed again, bonds again and — through the absent-key fallback — votes for nonce 1 a second time -/
def rebondWitness : List Op :=
  let u : Nat := powerReduction
  [ .gov [1, 2, 3, 4] true,
    .bond 1 101 201 (10 * u) true, .bond 2 102 202 (10 * u) true, .bond 3 103 203 (10 * u) true, .bond 4 104 204 (10 * u) true,
    .claim 101 101 1 0 .pending 1001,
    .gov [2, 3, 4] true,
    .endBlock [] true,
    .unbond 1 (decide (unbondUbdRule = .requireExists)) 0 true,
    .gov [1, 2, 3, 4] true,
    .bond 1 101 201 (25 * u) true,
    .claim 101 101 1 0 .pending 1001 ]

def witnessParams : Params := { threshold := powerReduction, multiple := 100, slashFrac := 0 }

/-- the full-strength statement "an oracle cannot vote twice for a nonce" is FALSE of the code as it is: after
`rebondWitness` the attestation of nonce 1 carries oracle 1's vote twice (replayed on the real app by the harness:
`corpus/C01/h_rebond_double_vote.ops`).  Stated under the extracted fact that `UnbondedOracle` deletes the key. -/
theorem oracle_vote_once_false (hdel : unbondDeletesLastNonce = true) :
    ∃ a ∈ (reach witnessParams rebondWitness).atts, ¬ a.votes.Nodup := by
  refine ⟨⟨1, 0, [1, 1], true⟩, ?_, by decide⟩
  have : (reach witnessParams rebondWitness).atts = [⟨1, 0, [1, 1], true⟩] := by
    revert hdel; decide
  rw [this]; exact List.mem_cons_self

/-! ## 4. a parked claim executes at most once, and only after its nonce was observed -/

theorem pending_executes_once (p : Params) (ops : List Op) :
    (reach p ops).executedLog.Nodup ∧
    (∀ n ∈ (reach p ops).executedLog, n ∈ (reach p ops).observedLog.map Prod.fst) ∧
    (∀ n ∈ (reach p ops).pending, n ∈ (reach p ops).observedLog.map Prod.fst ∧ n ∉ (reach p ops).executedLog) := by
  have hI := inv_run _ ops (inv_init p)
  refine ⟨hI.execN, ?_, ?_⟩
  · intro n hn
    rw [observedLog_contiguous]
    have := hI.execR n hn
    simp only [List.mem_range'_1, reach] at this ⊢; omega
  · intro n hn
    refine ⟨?_, hI.pendX n hn⟩
    rw [observedLog_contiguous]
    have := hI.pendR n hn
    simp only [List.mem_range'_1, reach] at this ⊢; omega

/-- what the source says about `ExecuteClaim`: it looks the parked claim up and returns an error when there is none, it
deletes the parked entry unconditionally, the deletion comes BEFORE every statement that calls a handler, and the
precompile runs it inside a native action that is reverted when it returns an error.  `pending_executes_once` depends on
this order (through `inv_exec`); with the deletion after the handler it is false, see `delete_after_handler_runs_twice`. -/
theorem extracted_exec_order :
    execChecksPending = true ∧ execDeletesPending = true ∧ execDeletesBeforeHandler = true ∧
    execErrorRevertsNativeAction = true := by decide

/-- the effects of every event nonce are in force at most once, in every reachable state (the form the harness measures on
the real state after every operation: field `ex=`) -/
theorem effects_at_most_once (p : Params) (ops : List Op) (n : Nat) : (reach p ops).executedLog.count n ≤ 1 := by
  have hn := (pending_executes_once p ops).1
  generalize (reach p ops).executedLog = l at hn
  induction l with
  | nil => simp
  | cons x r ih =>
    rw [List.nodup_cons] at hn
    by_cases hx : x = n
    · subst hx
      have : List.count x r = 0 := List.count_eq_zero.mpr hn.1
      simp [this]
    · have := ih hn.2
      simp [List.count_cons, hx]; exact this

/-- a call without nested calls is the familiar atomic step: the parked entry is consumed and the effects are logged once -/
theorem exec_leaf_ok (s : State) (n : Nat) (hp : n ∈ s.pending) :
    step s (.exec n .ok .nil) =
      ({ s with pending := s.pending.filter (fun m => m != n), executedLog := s.executedLog ++ [n] }, .ok) := by
  simp [step, execStep, execCalls, execCallsWith, delPending, hp, execChecksPending, execDeletesPending, execDeletesBeforeHandler]

/-- a failing deferred execution leaves the whole state as it was (the entry deleted before the handler ran is restored
together with everything the calls made from inside the handler did) — for EVERY forest of nested calls -/
theorem exec_failure_restores (s : State) (n : Nat) (inner : Calls) : (step s (.exec n .fail inner)).1 = s := by
  simp only [step]; unfold execStep
  repeat' split
  all_goals first | rfl | simp_all

theorem exec_needs_pending (s : State) (n : Nat) (o : Outcome) (inner : Calls) (hok : (step s (.exec n o inner)).2 = .ok) :
    n ∈ s.pending := by
  simp only [step] at hok; unfold execStep at hok
  have hc : execChecksPending = true := by decide
  simp only [hc, Bool.true_and] at hok
  split at hok
  · simp at hok
  · rename_i h; simpa using h

/-- RE-ENTRANCY.  A call for a nonce that is not parked does nothing — whatever its outcome and whatever it would have
called — and the calls after it proceed from the unchanged state. -/
theorem call_not_parked_noop (df : Bool) (p : Px) (n : Nat) (o : Outcome) (inner next : Calls) (hn : n ∉ p.pending) :
    execCallsWith df p (.call n o inner next) = execCallsWith df p next := by
  have hc : execChecksPending = true := by decide
  rw [execCallsWith]
  simp [hc, hn]

/-- In the order of the source (entry deleted before the handler runs) no forest of calls ever parks a nonce: a nonce
that is not parked stays not parked through every nested / failing / refunded call. -/
theorem not_parked_stays (p : Px) (c : Calls) (n : Nat) (hn : n ∉ p.pending) : n ∉ (execCallsWith true p c).pending :=
  fun h => hn (execCalls_pending_subset c p n h)

/-- a deferred execution that does not fail CONSUMES the parked claim — whatever the called-back contracts did in between
(re-entered the same nonce, executed and rolled back other claims, reverted): afterwards the nonce is not parked any more
and its effects are in the log, so by `pending_executes_once` they can never run again -/
theorem exec_ok_consumes (s : State) (n : Nat) (o : Outcome) (inner : Calls) (hok : (step s (.exec n o inner)).2 = .ok) :
    n ∉ (step s (.exec n o inner)).1.pending ∧ n ∈ (step s (.exec n o inner)).1.executedLog := by
  have hp := exec_needs_pending s n o inner hok
  have hc : execChecksPending = true := by decide
  have hdf : execDeletesBeforeHandler = true := by decide
  have hd : execDeletesPending = true := by decide
  simp only [step] at hok ⊢
  unfold execStep at hok ⊢
  have hcont : s.pending.contains n = true := by simpa using hp
  simp only [hc, hcont, Bool.true_and, Bool.not_true] at hok ⊢
  cases o with
  | fail => simp at hok
  | refund =>
    simp only [execCalls, execCallsWith, hc, hcont, Bool.true_and, Bool.not_true]
    exact ⟨not_mem_delPending hd _ _, by simp⟩
  | ok =>
    simp only [execCalls, hdf]
    rw [execCallsWith]
    simp only [hc, hcont, Bool.true_and, Bool.not_true, execCallsWith]
    constructor
    · exact not_parked_stays _ inner n (not_mem_delPending hd _ _)
    · obtain ⟨l, hl⟩ := execCalls_log_extends true inner { pending := delPending s.pending n, log := s.executedLog ++ [n] }
      simp at hl ⊢
      rw [hl]; simp

/-- Hence, while the handler of nonce `n` is running, EVERY `executeClaim(n)` issued from inside it — directly by the
called-back contract or at any depth below, before or after other nested executions, refunds or failures — finds
nothing and has no effect: after any forest `c1` the re-entrant call is skipped. -/
theorem reentrant_call_has_no_effect (p : Px) (n : Nat) (hp : n ∈ p.pending) (c1 : Calls) (o : Outcome) (inner next : Calls) :
    let entered : Px := { pending := delPending p.pending n, log := p.log ++ [n] }
    let mid := execCallsWith true entered c1
    execCallsWith true mid (.call n o inner next) = execCallsWith true mid next := by
  intro entered mid
  refine call_not_parked_noop true mid n o inner next ?_
  exact not_parked_stays entered c1 n (not_mem_delPending (by decide) _ _)

/-- the order matters: with the parked entry deleted AFTER the handler (as in `execCallsWith false`) a contract that calls
`executeClaim(1)` from inside the handler of nonce 1 makes the effects of nonce 1 run twice -/
theorem delete_after_handler_runs_twice (h1 : execChecksPending = true) (h2 : execDeletesPending = true) :
    (execCallsWith false { pending := [1], log := [] } (.call 1 .ok (.call 1 .ok .nil .nil) .nil)).log = [1, 1] := by
  revert h1 h2; decide

/-! ## 5. only the bridger of an online registered oracle gets a claim accepted -/

theorem only_online_bridger_votes (s : State) (w i n h : Nat) (k : Kind) (e : Nat) (hok : (step s (.claim w i n h k e)).2 = .ok) :
    ∃ a orc, s.byBridger.get (voter w i) = some a ∧ s.oracles.get a = some orc ∧ orc.online = true := by
  simp only [step] at hok
  obtain ⟨a, orc, h1, h2, h3, _⟩ := claim_ok s w i n h k hok
  exact ⟨a, orc, h1, h2, h3⟩

/-! ## non-vacuity: the hypotheses are satisfiable and the interesting branches are taken -/

/-- a history in which nonce 1 and 2 are observed in order with competing hashes, a later nonce gets votes first, a parked
claim fails once and then executes -/
def demo : List Op :=
  let u : Nat := powerReduction
  [ .gov [1, 2, 3] true,
    .bond 1 101 201 (34 * u) true, .bond 2 102 202 (33 * u) true, .bond 3 103 203 (33 * u) true,
    .claim 101 101 1 0 .pending 1001,       -- 34 < 66
    .claim 102 102 1 1 .pending 1001,       -- competing hash for nonce 1
    .claim 101 101 2 0 .other 1002,         -- oracle 1 is ahead: nonce 2 gets a vote before nonce 1 is observed
    .claim 103 103 1 0 .pending 1001,       -- 34 + 33 = 67 ≥ 66: nonce 1 observed
    .exec 1 .fail .nil, .exec 1 .ok (.call 1 .ok .nil .nil), .exec 1 .ok .nil,
    .claim 102 102 2 0 .other 1002,         -- 33 + 34 ≥ 66: nonce 2 observed
    .claim 103 103 2 0 .other 1002 ]        -- vote for an already observed attestation

example : (reach witnessParams demo).lastObserved = 2 := by decide
example : (reach witnessParams demo).observedLog = [(1, 0), (2, 0)] := by decide
example : (reach witnessParams demo).executedLog = [1] := by decide
example : NoRebond witnessParams demo := Or.inr (by decide)
example (h : unbondDeletesLastNonce = true) : ¬ noRebond (init witnessParams) rebondWitness = true := by revert h; decide
example : (reach witnessParams demo).atts.map (fun a => (a.nonce, a.hash, a.votes, a.observed)) =
    [(1, 0, [1, 3], true), (1, 1, [2], false), (2, 0, [1, 2, 3], true)] := by decide

/-- nested executions: nonces 1..3 parked; executing 1 calls back a contract that re-enters 1 (nothing), executes 2 —
whose contract executes 3 and then reverts (3 is parked again, 2 is consumed with a refund) — and executes 3 again -/
example : execCallsWith true { pending := [1, 2, 3], log := [] }
    (.call 1 .ok (.call 1 .ok .nil (.call 2 .refund (.call 3 .ok .nil .nil) (.call 3 .ok .nil .nil))) .nil) =
    { pending := [], log := [1, 2, 3] } := by decide

/-! ## round 3 — histories with genesis export / import restarts at arbitrary points

`GOp` = an operation of the model or "export the module state and start a fresh store from that genesis"; `InitGenesis` is
interpreted from its regenerated statement list (`Gen.C01.genesisImport`, see `Model/C01Gen.lean`). -/

abbrev greach (p : Params) (ops : List GOp) : State := grun (init p) ops

/-- a restart keeps the last observed nonce and the observation / execution history, and keeps no parked claim -/
theorem genesis_keeps_observation_state (s : State) :
    (roundTrip s).lastObserved = s.lastObserved ∧ (roundTrip s).observedLog = s.observedLog ∧
    (roundTrip s).executedLog = s.executedLog ∧ (∀ a ∈ (roundTrip s).atts, a ∈ s.atts) := by
  obtain ⟨h1, _, h3, _, h5, h6, _, _⟩ := roundTrip_fields s
  exact ⟨h1, h5, h6, h3⟩

/-- one step of a history with restarts moves `lastObserved` by 0 or by exactly 1 -/
theorem lastObserved_gstep (s : State) (op : GOp) :
    (gstep s op).1.lastObserved = s.lastObserved ∨ (gstep s op).1.lastObserved = s.lastObserved + 1 := by
  cases op with
  | op o => exact lastObserved_step s o
  | genesis => exact Or.inl (genesis_keeps_observation_state s).1

/-- contiguity over restarts: the nonces of the observation log are exactly 1 … lastObserved, in order -/
theorem observedLog_contiguous_g (p : Params) (ops : List GOp) :
    (greach p ops).observedLog.map Prod.fst = List.range' 1 (greach p ops).lastObserved :=
  (inv_grun _ ops (inv_init p)).logC

theorem observed_nonce_applied_once_g (p : Params) (ops : List GOp) : ((greach p ops).observedLog.map Prod.fst).Nodup := by
  rw [observedLog_contiguous_g]; exact List.nodup_range'

/-- an attestation observed in a state reached with restarts is the one in the observation log, one hash per nonce -/
theorem observed_unique_g (p : Params) (ops : List GOp) (a b : Att) (ha : a ∈ (greach p ops).atts) (hb : b ∈ (greach p ops).atts)
    (hao : a.observed = true) (hbo : b.observed = true) (hn : a.nonce = b.nonce) : a.hash = b.hash := by
  have hI := inv_grun _ ops (inv_init p)
  have h1 := hI.obsIn a ha hao
  have h2 := hI.obsIn b hb hbo
  rw [← hn] at h2
  exact log_unique (observed_nonce_applied_once_g p ops) h1 h2

/-- deferred effects at most once, only after observation — over restarts -/
theorem pending_executes_once_g (p : Params) (ops : List GOp) :
    (greach p ops).executedLog.Nodup ∧
    (∀ n ∈ (greach p ops).executedLog, 1 ≤ n ∧ n ≤ (greach p ops).lastObserved) ∧
    (∀ n ∈ (greach p ops).pending, 1 ≤ n ∧ n ≤ (greach p ops).lastObserved ∧ n ∉ (greach p ops).executedLog) := by
  have hI := inv_grun _ ops (inv_init p)
  exact ⟨hI.execN, hI.execR, fun n hn => ⟨(hI.pendR n hn).1, (hI.pendR n hn).2, hI.pendX n hn⟩⟩

/-- WHAT A RESTART LOSES: `ExportGenesis` does not export the parked claims (extracted `exportHasPending = false`), so after a
restart nothing is parked and every `executeClaim` finds nothing — an observed send-to-fx / bridge-call event that was still
parked at export time never takes effect afterwards ("at most once" holds, "exactly once" does not; recorded as a finding) -/
theorem genesis_drops_parked_claims (s : State) (n : Nat) (o : Outcome) (c : Calls) :
    (roundTrip s).pending = [] ∧ (step (roundTrip s) (.exec n o c)).2 = .notFound := by
  have hp := (roundTrip_fields s).2.1
  refine ⟨hp, ?_⟩
  have hc : execChecksPending = true := by decide
  simp [step, execStep, hc, hp]

/-- an oracle votes at most once per nonce over restarts: no vote list has a duplicate, an oracle has voted for at most one
claim hash per nonce, every vote sits at a nonce not above the voter's EFFECTIVE last nonce (stored key, or the fallback
`lastObserved - 1` when `InitGenesis` wrote none).  The per-oracle last nonces are not exported: this is a statement about
their reconstruction from the votes of the exported attestations. -/
theorem oracle_vote_once_g (p : Params) (ops : List GOp) :
    (∀ a ∈ (greach p ops).atts, a.votes.Nodup) ∧
    (∀ a ∈ (greach p ops).atts, ∀ b ∈ (greach p ops).atts, ∀ o, a.nonce = b.nonce → o ∈ a.votes → o ∈ b.votes → a.hash = b.hash) ∧
    (∀ a ∈ (greach p ops).atts, ∀ o ∈ a.votes, a.nonce ≤ effLast (greach p ops) o) := by
  have hW := winv_grun (by decide) _ ops (winv_init p)
  exact ⟨hW.w2.1, hW.w2.2, hW.w1⟩

/-- hence, in every state reached with restarts, a claim is accepted only for a nonce ABOVE every nonce its oracle has a
vote on: no re-vote after an export / import -/
theorem no_revote_g (p : Params) (ops : List GOp) (w i n h : Nat) (k : Kind) (e : Nat)
    (hok : (step (greach p ops) (.claim w i n h k e)).2 = .ok) :
    ∃ o, (greach p ops).byBridger.get (voter w i) = some o ∧ ∀ a ∈ (greach p ops).atts, o ∈ a.votes → a.nonce < n := by
  simp only [step] at hok
  obtain ⟨o, _, hgo, _, _, hn, _⟩ := claim_ok _ w i n h k hok
  refine ⟨o, hgo, ?_⟩
  intro a ha hoa
  have := (oracle_vote_once_g p ops).2.2 a ha o hoa
  omega

/-- the reconstruction reads the last observed nonce as its fallback, so it must run after `SetLastObservedEventNonce`;
`genesis_import_order` (Props.C02) records that it does.  With the two the other way round an oracle that voted only for
already observed nonces gets a key below them and can vote for an observed nonce again: -/
theorem rebuild_before_lastObserved_allows_revote :
    let g : Genesis := { lastObserved := 5, atts := [⟨3, 0, [1], true⟩] }
    (importWith [.setLastObserved, .loadAtts, .rebuildLastNonce] g).lastNonce = [] ∧
    (importWith [.loadAtts, .rebuildLastNonce, .setLastObserved] g).lastNonce = [(1, 3)] := by decide

/-! ### non-vacuity -/

/-- nonce 1 observed and parked, nonce 2 gets one vote, restart, the voter of nonce 2 is refused for nonce 2 and the
parked claim is gone -/
def restartDemo : List GOp :=
  let u : Nat := powerReduction
  [ .op (.gov [1, 2, 3] true),
    .op (.bond 1 101 201 (34 * u) true), .op (.bond 2 102 202 (33 * u) true), .op (.bond 3 103 203 (33 * u) true),
    .op (.claim 101 101 1 0 .pending 1001), .op (.claim 103 103 1 0 .pending 1001),   -- nonce 1 observed, parked
    .op (.claim 101 101 2 0 .other 1002),
    .genesis,
    .op (.claim 101 101 2 1 .other 1002),     -- refused (voted for nonce 2 already, now with a competing claim)
    .op (.exec 1 .ok .nil),                   -- not found: the parked claim was not exported
    .op (.claim 102 102 1 0 .pending 1001),   -- oracle 2 never voted: fallback lastObserved - 1 = 0, votes for 1 then 2
    .op (.claim 102 102 2 0 .other 1002) ]

example : (greach witnessParams (restartDemo.take 7)).pending = [1] := by decide
example : (greach witnessParams (restartDemo.take 8)).pending = [] ∧ (greach witnessParams (restartDemo.take 8)).lastNonce = [(1, 2), (3, 1)] := by decide
example : (gstep (greach witnessParams (restartDemo.take 8)) (.op (.claim 101 101 2 1 .other 1002))).2 = .nonContiguous := by decide
example : (gstep (greach witnessParams (restartDemo.take 9)) (.op (.exec 1 .ok .nil))).2 = .notFound := by decide
example : (greach witnessParams restartDemo).lastObserved = 2 ∧ (greach witnessParams restartDemo).observedLog = [(1, 0), (2, 0)] := by decide


/-! ## round 4 — claims whose handler panics; claims inside signed transactions

All six claim types are now voted and executed by the harness.  Two of the handlers that run AT OBSERVATION TIME can panic:
`OutgoingTxBatchExecuted` (batch not in the store) and `UpdateOracleSetExecuted` (claim contradicts the stored oracle set of
its nonce).  The panic leaves `processAttestation`'s cache context and the whole claim message: `Kind.panics`. -/

/-- a claim whose handler would panic NEVER takes effect: whatever the votes and powers, it moves neither the last observed
nonce nor the observation log nor the parked claims (either it is an ordinary vote below the bar, or the message is undone) -/
theorem panicking_handler_never_observes (s : State) (w i n h : Nat) (ms : List Nat) (e : Nat) :
    (step s (.claim w i n h (.panics ms) e)).1.lastObserved = s.lastObserved ∧
    (step s (.claim w i n h (.panics ms) e)).1.observedLog = s.observedLog ∧
    (step s (.claim w i n h (.panics ms) e)).1.pending = s.pending := by
  simp only [step]
  by_cases hok : (claimStep s w i n h (.panics ms)).2 = .ok
  · obtain ⟨a, hga, hno⟩ := panics_not_ok_or_not_observing s w i n h ms hok
    obtain ⟨a', _, hga', _, _, _, _, _, heq⟩ := claim_ok s w i n h (.panics ms) hok
    rw [hga] at hga'; cases hga'
    rw [heq]
    exact attest_not_observing s a n h _ hno
  · rw [claim_not_ok s w i n h _ hok]; exact ⟨rfl, rfl, rfl⟩

/-- a claim message whose handler panicked leaves NO trace: not the vote, not the per-oracle nonce (the oracle may vote for
this nonce again, e.g. for a competing claim), not the observation -/
theorem panicked_claim_leaves_no_trace (s : State) (w i n h : Nat) (k : Kind) (e : Nat)
    (hp : (step s (.claim w i n h k e)).2 = .panicked) : (step s (.claim w i n h k e)).1 = s := by
  simp only [step] at hp ⊢
  exact claim_not_ok s w i n h k (by rw [hp]; decide)

/-- only a claim marked `panics` can end that way, and only when its vote would have made the event take effect -/
theorem panicked_only_at_observation (s : State) (w i n h : Nat) (k : Kind) (e : Nat)
    (hp : (step s (.claim w i n h k e)).2 = .panicked) :
    ∃ ms a, k = .panics ms ∧ s.byBridger.get (voter w i) = some a ∧ observesNow s a n h = true := by
  simp only [step] at hp
  unfold claimStep at hp
  repeat' split at hp
  all_goals first | (simp at hp; done) | skip
  rename_i _ _ a hga _ _ _ _ _ _ hpn
  cases k with
  | panics ms =>
    refine ⟨ms, a, rfl, hga, ?_⟩
    have hr : observeRunsHandler = true := by decide
    simpa [handlerPanics, hr] using hpn
  | pending => simp [handlerPanics] at hpn
  | other => simp [handlerPanics] at hpn
  | oracleSet ms => simp [handlerPanics] at hpn

/-- a claim inside a signed transaction either never reaches the message server (and nothing happens) or is exactly the
in-process claim: every theorem about histories of `claim` operations covers histories of claim TRANSACTIONS -/
theorem tx_claim_is_claim_or_nothing (s : State) (w i n h : Nat) (k : Kind) :
    txClaimStep s w i n h k = (s, .undeliverable) ∨ txClaimStep s w i n h k = claimStep s w i n h k :=
  txClaim_cases s w i n h k

theorem lastObserved_tx_step (s : State) (w i n h : Nat) (k : Kind) :
    (txClaimStep s w i n h k).1.lastObserved = s.lastObserved ∨ (txClaimStep s w i n h k).1.lastObserved = s.lastObserved + 1 := by
  rcases tx_claim_is_claim_or_nothing s w i n h k with e | e
  · rw [e]; exact Or.inl rfl
  · rw [e]; exact lastObserved_step s (.claim w i n h k 0)

/-! ## round 4 — the other attestation models of this tree are projections of this one

`Model/C05.doObserve` (C05 / C06) and `Model/C03Attest.voteWith` (C03) carry their own copies of "a vote makes the event take
effect".  For the fields they share with `Model/C01` they are refinements of its `claim` step — so the three cannot drift
apart without a proof obligation of THIS file breaking (each side is tied to the source through its own regenerated facts:
`Gen.C05.tryAttestationOrder`, `Gen.C03.attestTrySites`, `Gen.C01.*`). -/

open FxVerif.Proofs.C01Refine in
/-- C05 / C06.  `Sim5`: same last observed nonce, every nonce parked in the C05 state is parked in the C01 state.  For every
pair of related states and every event `ev` of the C05 model, submitted to the C01 model as a claim of the corresponding kind
(`kindOfEv`: result claims are parked, a batch event without its batch panics, the rest runs at once), by ANY bridger, for
ANY nonce and claim id:
* the claim message is undone by a handler panic  ⇒  `doObserve` answers `panic` and changes nothing either;
* the claim is accepted and makes its event take effect  ⇒  `doObserve` answers `ok n` for that very nonce `n`, which is the
  old last observed nonce + 1 in both, the states are related again, and `n` is parked in both or in neither;
* the claim is accepted as a mere vote  ⇒  the C05 model does not move and the states stay related. -/
theorem c05_observation_refines_c01 (s1 : State) (s5 : FxVerif.Model.C05.State) (hS : Sim5 s1 s5)
    (w i n h e hgt : Nat) (ev : FxVerif.Model.C05.Ev) :
    ((step s1 (.claim w i n h (kindOfEv s5 ev) e)).2 = .panicked →
        (step s1 (.claim w i n h (kindOfEv s5 ev) e)).1 = s1 ∧ FxVerif.Model.C05.doObserve s5 hgt ev = (s5, .panic)) ∧
    ((step s1 (.claim w i n h (kindOfEv s5 ev) e)).2 = .ok →
        (step s1 (.claim w i n h (kindOfEv s5 ev) e)).1.lastObserved ≠ s1.lastObserved →
        (FxVerif.Model.C05.doObserve s5 hgt ev).2 = .ok n ∧ n = s1.lastObserved + 1 ∧
        Sim5 (step s1 (.claim w i n h (kindOfEv s5 ev) e)).1 (FxVerif.Model.C05.doObserve s5 hgt ev).1 ∧
        ((parks (kindOfEv s5 ev) = true ↔ n ∈ (FxVerif.Model.C05.doObserve s5 hgt ev).1.pending.map (·.1)) ∨ n ∈ s5.pending.map (·.1))) ∧
    ((step s1 (.claim w i n h (kindOfEv s5 ev) e)).2 = .ok →
        (step s1 (.claim w i n h (kindOfEv s5 ev) e)).1.lastObserved = s1.lastObserved →
        Sim5 (step s1 (.claim w i n h (kindOfEv s5 ev) e)).1 s5) := by
  refine ⟨?_, ?_, ?_⟩
  · intro hp
    obtain ⟨ms, _, hk, _, _⟩ := panicked_only_at_observation s1 w i n h _ e hp
    refine ⟨panicked_claim_leaves_no_trace s1 w i n h _ e hp, ?_⟩
    rw [doObserve_eval, (handleEvent_none_iff s5 hgt ev).mpr ⟨ms, hk⟩]
  · intro hok hmoved
    simp only [step] at hok hmoved ⊢
    obtain ⟨a, _, hga, _, _, _, _, _, heq⟩ := claim_ok s1 w i n h _ hok
    rw [heq] at hmoved ⊢
    have hobs : observesNow s1 a n h = true := by
      cases hx : observesNow s1 a n h
      · exact absurd (attest_not_observing s1 a n h _ hx).1 hmoved
      · rfl
    have hk : ∀ ms, kindOfEv s5 ev ≠ .panics ms := by
      intro ms hc
      rw [hc] at hok
      obtain ⟨a', hga', hno⟩ := panics_not_ok_or_not_observing s1 w i n h ms hok
      rw [hga] at hga'; cases hga'
      rw [hobs] at hno; cases hno
    obtain ⟨hn, hlo, hpend⟩ := attest_observing s1 a n h (kindOfEv s5 ev) hobs
    obtain ⟨hr, ho⟩ := doObserve_obs s5 hgt ev hk
    have ho1 : (FxVerif.Model.C05.doObserve s5 hgt ev).1.eventNonce = s5.eventNonce + 1 := congrArg Prod.fst ho
    have ho2 : (FxVerif.Model.C05.doObserve s5 hgt ev).1.pending.map (·.1) =
        s5.pending.map (·.1) ++ (if parks (kindOfEv s5 ev) then [s5.eventNonce + 1] else []) := congrArg Prod.snd ho
    have hen : s5.eventNonce + 1 = n := by rw [hS.1, hn]
    refine ⟨by rw [hr, hen], hn, ⟨by rw [ho1, hlo, hen], ?_⟩, ?_⟩
    · intro m hm
      rw [ho2] at hm
      rcases List.mem_append.mp hm with h1 | h1
      · exact (hpend m).mpr (Or.inl (hS.2 m h1))
      · cases hpk : parks (kindOfEv s5 ev)
        · simp [hpk] at h1
        · simp [hpk] at h1
          exact (hpend m).mpr (Or.inr ⟨hpk, by rw [h1, hen]⟩)
    · by_cases hin : n ∈ s5.pending.map (·.1)
      · exact Or.inr hin
      · left
        rw [ho2]
        cases hpk : parks (kindOfEv s5 ev)
        · simp [hpk]; simpa using hin
        · simp [hpk, hen]
  · intro hok hsame
    simp only [step] at hok hsame ⊢
    obtain ⟨a, _, _, _, _, _, _, _, heq⟩ := claim_ok s1 w i n h _ hok
    rw [heq] at hsame ⊢
    have hno : observesNow s1 a n h = false := by
      cases hx : observesNow s1 a n h
      · rfl
      · obtain ⟨hn, hlo, _⟩ := attest_observing s1 a n h (kindOfEv s5 ev) hx
        rw [hlo, hn] at hsame; omega
    obtain ⟨h1, _, h3⟩ := attest_not_observing s1 a n h (kindOfEv s5 ev) hno
    exact ⟨by rw [h1]; exact hS.1, by rw [h3]; exact hS.2⟩


open FxVerif.Proofs.C01Refine in
/-- C05 / C06, WHOLE RUNS.  A joint history (`JOp`: claims of any bridger / nonce / claim id carrying an event of the C05 model —
the C05 model observes the event exactly when the claim makes it take effect in this model —, registry operations of this
model, pool / batch / bridge-call operations of the C05 model, deferred executions of parked result claims in both) from the
initial states keeps the two models together: in EVERY state reached the C05 model's event counter IS this model's last
observed nonce, every claim parked there is parked here, its parked nonces are distinct — and therefore the contiguity theorem
of this property speaks about the C05 / C06 model's event order: the events it applied are 1 … eventNonce, in this order. -/
theorem c05_runs_refine_c01_runs (p : Params) (s5 : FxVerif.Model.C05.State) (h0 : s5.eventNonce = 0) (hp : s5.pending = [])
    (ops : List JOp) :
    (jrun (init p, s5) ops).2.eventNonce = (jrun (init p, s5) ops).1.lastObserved ∧
    (∀ n ∈ (jrun (init p, s5) ops).2.pending.map (·.1), n ∈ (jrun (init p, s5) ops).1.pending) ∧
    ((jrun (init p, s5) ops).2.pending.map (·.1)).Nodup ∧
    (jrun (init p, s5) ops).1.observedLog.map Prod.fst = List.range' 1 (jrun (init p, s5) ops).2.eventNonce := by
  have hR : Rel5 (init p, s5).1 (init p, s5).2 :=
    ⟨by simp [h0, init], by simp [hp], by simp [hp], by simp [hp]⟩
  have h := rel5_run (init p, s5) ops hR
  have hI := inv_jrun (init p, s5) ops (inv_init p)
  exact ⟨h.lo, h.sub, h.nd, by rw [h.lo]; exact hI.logC⟩

/-- how the outcomes of the two models correspond -/
def resMatch : FxVerif.Model.C03.VoteResult → Out → Prop
  | .ok, .ok => True
  | .logicCheck, .invalid => True
  | .nonContiguous, .nonContiguous => True
  | .panic, .panicked => True
  | _, _ => False

open FxVerif.Proofs.C01Refine in
/-- C03.  `Model/C03Attest.vote` (the call sites `TryAttestation(att, claim)` of `Keeper.Attest` regenerated into
`Gen.C03.attestTrySites`) against `claimStep` of this model, for EVERY pair of states that agree on what one vote reads:
the last observed nonce, the voter's effective last nonce, the result of `claimLogicCheck`, the votes and the observed flag of
the attestation the claim is filed under, every oracle's power, the recorded total — and for every claim object, hash type,
hash order, registered online oracle `o` and its bridger.  Then the two agree on the OUTCOME (accepted / claimLogicCheck /
non-contiguous / handler panic), on whether the event takes effect NOW, on the new last observed nonce, on the voter's new
effective last nonce, and on whether the event nonce is parked afterwards (when it was not before). -/
theorem c03_vote_refines_c01_claim {η : Type} [DecidableEq η] (key : FxVerif.Model.C03.AnyClaim → η) (le : η → η → Bool)
    (s3 : FxVerif.Model.C03.AState η) (s1 : State) (o : Nat) (c : FxVerif.Model.C03.AnyClaim) (hp : Bool)
    (w i h : Nat) (kind : Kind) (orc : Oracle)
    (hreg : s1.byBridger.get (voter w i) = some o) (horc : s1.oracles.get o = some orc) (hon : orc.online = true)
    (hvb : validateBasic w i = true)
    (hlo : s3.lastObserved = s1.lastObserved)
    (hln : FxVerif.Model.C03.lastNonceOf s3 o = effLast s1 o)
    (hlc : FxVerif.Model.C03.logicCheck s3 c = logicCheck s1 kind)
    (hpw : ∀ v, s3.powers.lookup v = (s1.oracles.get v).map Oracle.power)
    (htot : s3.total = s1.lastTotalPower)
    (hatt : ((FxVerif.Model.C03.attFor key s3 c).votes.map (·.1), (FxVerif.Model.C03.attFor key s3 c).observed) = attView s1 c.nonce h)
    (hkp : hp = true ↔ ∃ ms, kind = .panics ms)
    (hkd : c.deferred = parks kind) :
    resMatch (FxVerif.Model.C03.vote key le s3 o c hp).2 (claimStep s1 w i c.nonce h kind).2 ∧
    observes3 key s3 o c = observesNow s1 o c.nonce h ∧
    (FxVerif.Model.C03.vote key le s3 o c hp).1.lastObserved = (claimStep s1 w i c.nonce h kind).1.lastObserved ∧
    ((claimStep s1 w i c.nonce h kind).2 = .ok →
      FxVerif.Model.C03.lastNonceOf (FxVerif.Model.C03.vote key le s3 o c hp).1 o = effLast (claimStep s1 w i c.nonce h kind).1 o ∧
      (c.nonce ∉ s3.pending.map (·.1) → c.nonce ∉ s1.pending →
        (c.nonce ∈ (FxVerif.Model.C03.vote key le s3 o c hp).1.pending.map (·.1) ↔ c.nonce ∈ (claimStep s1 w i c.nonce h kind).1.pending))) := by
  have hv1 : (attView s1 c.nonce h).1 = (FxVerif.Model.C03.attFor key s3 c).votes.map (·.1) := by rw [← hatt]
  have hv2 : (attView s1 c.nonce h).2 = (FxVerif.Model.C03.attFor key s3 c).observed := by rw [← hatt]
  obtain ⟨hvv, hvo⟩ := voteAtt_view s1 o c.nonce h
  -- the two "takes effect now" conditions are the same Boolean
  have hobs : observes3 key s3 o c = observesNow s1 o c.nonce h := by
    unfold observes3 observesNow tallyCond FxVerif.Model.C03.crosses
    have f1 : tallyCalled = true := by decide
    have f2 : tallyRequiresNotObserved = true := by decide
    have f3 : tallyRequiresNextNonce = true := by decide
    rw [crossesFrom_eq_tally s3 s1.oracles s1.lastTotalPower hpw htot, hvv, hvo, hv1, hv2, hlo]
    simp [f1, f2, f3]
  have hco : attestChecksContiguity = true := by decide
  have hro : claimRequiresOnline = true := by decide
  have hrh : observeRunsHandler = true := by decide
  -- evaluate both steps
  suffices hmain :
      resMatch (FxVerif.Model.C03.vote key le s3 o c hp).2 (claimStep s1 w i c.nonce h kind).2 ∧
      (FxVerif.Model.C03.vote key le s3 o c hp).1.lastObserved = (claimStep s1 w i c.nonce h kind).1.lastObserved ∧
      ((claimStep s1 w i c.nonce h kind).2 = .ok →
        FxVerif.Model.C03.lastNonceOf (FxVerif.Model.C03.vote key le s3 o c hp).1 o = effLast (claimStep s1 w i c.nonce h kind).1 o ∧
        (c.nonce ∉ s3.pending.map (·.1) → c.nonce ∉ s1.pending →
          (c.nonce ∈ (FxVerif.Model.C03.vote key le s3 o c hp).1.pending.map (·.1) ↔ c.nonce ∈ (claimStep s1 w i c.nonce h kind).1.pending)))
    from ⟨hmain.1, hobs, hmain.2.1, hmain.2.2⟩
  rw [vote_unfold]
  unfold claimStep
  simp only [hvb, hreg, horc, hon, hro, hco, Bool.not_true, Bool.false_eq_true, if_false, Bool.true_and, Bool.and_false, hlc, hln]
  by_cases hL : logicCheck s1 kind = true
  · simp only [hL, Bool.not_true, Bool.false_eq_true, if_false]
    by_cases hN : c.nonce = effLast s1 o + 1
    · have hN' : (c.nonce != effLast s1 o + 1) = false := by simp [hN]
      simp only [hN', Bool.false_eq_true, if_false]
      rw [hit_eval]
      cases hO : observesNow s1 o c.nonce h
      · -- a mere vote in both
        have hO3 : observes3 key s3 o c = false := by rw [hobs, hO]
        have hnp : handlerPanics s1 o c.nonce h kind = false := by
          cases kind <;> simp [handlerPanics, hO]
        simp only [hO3, Bool.false_eq_true, if_false, hnp]
        obtain ⟨a1, a2, a3⟩ := attest_not_observing s1 o c.nonce h kind hO
        refine ⟨trivial, by rw [a1]; exact hlo, fun _ => ⟨?_, fun h3 h1 => ?_⟩⟩
        · rw [lastNonceOf_setLast, effLast_of_get (by rw [attest_lastNonce]; exact get_set_self _ _ _)]
        · rw [a3]
          exact ⟨fun hx => absurd hx h3, fun hx => absurd hx h1⟩
      · have hO3 : observes3 key s3 o c = true := by rw [hobs, hO]
        simp only [hO3, if_true]
        cases hpb : hp
        · -- observed in both
          have hnk : ∀ ms, kind ≠ .panics ms := by
            intro ms hc
            have : hp = true := hkp.mpr ⟨ms, hc⟩
            rw [hpb] at this; cases this
          have hnp : handlerPanics s1 o c.nonce h kind = false := by
            cases kind with
            | panics ms => exact absurd rfl (hnk ms)
            | _ => rfl
          simp only [Bool.false_eq_true, if_false, hnp]
          obtain ⟨b1, b2, b3⟩ := attest_observing s1 o c.nonce h kind hO
          refine ⟨trivial, ?_, fun _ => ⟨?_, fun h3 h1 => ?_⟩⟩
          · rw [b2]; rfl
          · rw [lastNonceOf_setLast, effLast_of_get (by rw [attest_lastNonce]; exact get_set_self _ _ _)]
          · rw [b3 c.nonce]
            simp only [FxVerif.Model.C03.setLast, FxVerif.Model.C03.observe, hkd]
            cases hpk : parks kind
            · simp only [Bool.false_eq_true, if_false]
              constructor
              · intro hx; exact absurd hx h3
              · intro hx
                rcases hx with hx | ⟨hx, _⟩
                · exact absurd hx h1
                · cases hx
            · simp [FxVerif.Model.C03.setPending]
        · -- handler panic in both: everything undone
          obtain ⟨ms, hk⟩ := hkp.mp hpb
          have hnp : handlerPanics s1 o c.nonce h kind = true := by rw [hk]; simp [handlerPanics, hrh, hO]
          simp only [if_true, hnp]
          exact ⟨trivial, hlo, fun hx => by cases hx⟩
    · have hN' : (c.nonce != effLast s1 o + 1) = true := by simp [hN]
      simp only [hN', if_true]
      exact ⟨trivial, hlo, fun hx => by cases hx⟩
  · have hL' : logicCheck s1 kind = false := by cases hx : logicCheck s1 kind <;> simp_all
    simp only [hL', Bool.not_false, if_true]
    exact ⟨trivial, hlo, fun hx => by cases hx⟩

open FxVerif.Proofs.C01Refine in
/-- C03, the attestation table: under the same local correspondence, after an ACCEPTED vote the attestation the claim is filed
under has the same votes (the new vote appended) and the same observed flag in both models — also when the vote made the event
take effect and the C01 model pruned old attestations in the same step (the attestation of the nonce just observed is never
pruned) -/
theorem c03_vote_refines_c01_claim_att {η : Type} [DecidableEq η] (key : FxVerif.Model.C03.AnyClaim → η) (le : η → η → Bool)
    (s3 : FxVerif.Model.C03.AState η) (s1 : State) (o : Nat) (c : FxVerif.Model.C03.AnyClaim) (hp : Bool)
    (w i h : Nat) (kind : Kind) (orc : Oracle)
    (hreg : s1.byBridger.get (voter w i) = some o) (horc : s1.oracles.get o = some orc) (hon : orc.online = true)
    (hvb : validateBasic w i = true)
    (hlo : s3.lastObserved = s1.lastObserved)
    (hln : FxVerif.Model.C03.lastNonceOf s3 o = effLast s1 o)
    (hlc : FxVerif.Model.C03.logicCheck s3 c = logicCheck s1 kind)
    (hpw : ∀ v, s3.powers.lookup v = (s1.oracles.get v).map Oracle.power)
    (htot : s3.total = s1.lastTotalPower)
    (hatt : ((FxVerif.Model.C03.attFor key s3 c).votes.map (·.1), (FxVerif.Model.C03.attFor key s3 c).observed) = attView s1 c.nonce h)
    (hkp : hp = true ↔ ∃ ms, kind = .panics ms)
    (hkd : c.deferred = parks kind)
    (hok : (claimStep s1 w i c.nonce h kind).2 = .ok) :
    ∃ a3 a1, FxVerif.Model.C03.getAtt (FxVerif.Model.C03.vote key le s3 o c hp).1.atts c.nonce (key c) = some a3 ∧
      findAtt (claimStep s1 w i c.nonce h kind).1.atts c.nonce h = some a1 ∧
      a3.votes.map (·.1) = a1.votes ∧ a3.observed = a1.observed := by
  obtain ⟨hres, hobs, _, _⟩ := c03_vote_refines_c01_claim key le s3 s1 o c hp w i h kind orc hreg horc hon hvb hlo hln hlc hpw htot hatt hkp hkd
  have hok3 : (FxVerif.Model.C03.vote key le s3 o c hp).2 = .ok := by
    rw [hok] at hres
    cases hr : (FxVerif.Model.C03.vote key le s3 o c hp).2 <;> simp [hr, resMatch] at hres ⊢
  obtain ⟨a3, hg3, hv3, ho3⟩ := vote_voted_att key le s3 o c hp hok3
  obtain ⟨a', _, hga', _, _, _, _, _, heq⟩ := claim_ok s1 w i c.nonce h kind hok
  rw [hreg] at hga'; cases hga'
  obtain ⟨a1, hg1, hv1, ho1⟩ := attest_voted_att s1 o c.nonce h kind
  refine ⟨a3, a1, hg3, by rw [heq]; exact hg1, ?_, ?_⟩
  · rw [hv3, hv1, ← hatt]
  · rw [ho3, ho1, ← hatt, hobs]

/-! ### non-vacuity of the refinement statements -/

section
open FxVerif.Proofs.C01Refine

/-- one oracle holding all the power (as the C05 model assumes), nothing observed yet -/
def soleOracle : State :=
  { oracles := [(1, ⟨101, 201, 50 * powerReduction, true, 0⟩)], byBridger := [(101, 1)], lastTotalPower := 50 }

example : Sim5 soleOracle {} := ⟨rfl, by intro n hn; cases hn⟩
/-- a result claim: observed and parked under nonce 1 in both models -/
example : (step soleOracle (.claim 101 101 1 0 (kindOfEv {} (.result 7 true)) 0)).2 = .ok ∧
    (step soleOracle (.claim 101 101 1 0 (kindOfEv {} (.result 7 true)) 0)).1.lastObserved = 1 ∧
    (step soleOracle (.claim 101 101 1 0 (kindOfEv {} (.result 7 true)) 0)).1.pending = [1] := by decide
/-- a batch event without its batch: panic in both -/
example : (step soleOracle (.claim 101 101 1 0 (kindOfEv {} (.batch 0 9)) 0)).2 = .panicked := by decide

/-- the hypotheses of `c03_vote_refines_c01_claim` are satisfiable: the C03 state that sees the same single oracle, and a
bridge-call-result claim for nonce 1 (deferred ↔ parked) -/
def resultClaim : FxVerif.Model.C03.AnyClaim :=
  .bcr { ChainName := [], BridgerAddress := [], EventNonce := 1, BlockHeight := 1, Nonce := 1, TxOrigin := [], Success := true, Cause := [] }

def soleOracle3 : FxVerif.Model.C03.AState Nat := { powers := [(1, 50)], total := 50 }

example : soleOracle.byBridger.get (voter 101 101) = some 1 ∧ soleOracle3.lastObserved = soleOracle.lastObserved ∧
    FxVerif.Model.C03.lastNonceOf soleOracle3 1 = effLast soleOracle 1 ∧
    FxVerif.Model.C03.logicCheck soleOracle3 resultClaim = logicCheck soleOracle .pending ∧
    soleOracle3.total = soleOracle.lastTotalPower ∧ resultClaim.deferred = parks .pending ∧
    ((FxVerif.Model.C03.attFor (fun _ => 0) soleOracle3 resultClaim).votes.map (·.1),
      (FxVerif.Model.C03.attFor (fun _ => 0) soleOracle3 resultClaim).observed) = attView soleOracle resultClaim.nonce 0 := by decide
example : ∀ v, soleOracle3.powers.lookup v = (soleOracle.oracles.get v).map Oracle.power := by
  intro v
  by_cases hv : v = 1
  · subst hv; decide
  · have h1 : (1 == v) = false := by simp; omega
    have h2 : (v == 1) = false := by simp [hv]
    simp [soleOracle3, soleOracle, List.lookup, Map.get, h2, Ne.symm hv]
example : (FxVerif.Model.C03.vote (fun _ => 0) (fun _ _ => true) soleOracle3 1 resultClaim false).2 = .ok ∧
    (FxVerif.Model.C03.vote (fun _ => 0) (fun _ _ => true) soleOracle3 1 resultClaim false).1.lastObserved = 1 ∧
    (claimStep soleOracle 101 101 1 0 .pending).1.lastObserved = 1 := by decide

/-- a joint history: a transfer and a bridge call in the C05 model, a result claim observed and parked in both, executed in
both (the outgoing call exists: success), a batch event without its batch (panic in both: nothing moves) -/
def jointDemo : List JOp :=
  [ .right (.bridgeCall 0 0 "0x0000000000000000000000000000000000000001" "ab" "" []),
    .claim 101 101 1 0 0 1001 (.result 1 true),
    .exec 1,
    .claim 101 101 2 0 0 1002 (.batch 0 9),
    .claim 101 101 2 1 0 1002 .other ]

example : let r := jrun (soleOracle, { obsExt := 1000, fxHeight := 5 }) jointDemo
    r.1.lastObserved = 2 ∧ r.2.eventNonce = 2 ∧ r.1.executedLog = [1] ∧ r.2.pending = [] ∧ r.1.pending = [] := by decide

end

/-! ### non-vacuity -/

/-- two oracles of 50 each: the first vote for a panicking claim is an ordinary vote, the second would cross the bar and is
undone as a whole; the competing (sound) claim is then observed with the same two voters -/
def panicDemo : List Op :=
  let u : Nat := powerReduction
  [ .gov [1, 2] true, .bond 1 101 201 (50 * u) true, .bond 2 102 202 (50 * u) true,
    .claim 101 101 1 0 (.panics []) 1001,     -- 50 < 66: vote stored
    .claim 102 102 1 0 (.panics []) 1001,     -- would observe: handler panics, message undone
    .claim 102 102 1 1 .other 1001 ]          -- oracle 2 is free to vote for the competing claim

example : (step (reach witnessParams (panicDemo.take 4)) (.claim 102 102 1 0 (.panics []) 1001)).2 = .panicked := by decide
example : (reach witnessParams (panicDemo.take 5)).atts.map (fun a => (a.nonce, a.hash, a.votes, a.observed)) = [(1, 0, [1], false)] := by decide
example : (reach witnessParams panicDemo).lastObserved = 0 ∧ (reach witnessParams panicDemo).lastNonce = [(1, 1), (2, 1)] := by decide
example : (txClaimStep (reach witnessParams (panicDemo.take 3)) 101 101 1 0 .other).2 = .undeliverable := by decide

end FxVerif.Props.C01
