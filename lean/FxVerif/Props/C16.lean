import FxVerif.Model.C16
import FxVerif.Proofs.C16Sem
import FxVerif.Proofs.C16Store
import FxVerif.Model.C16Tx
import FxVerif.Model.C16Blk
import FxVerif.Proofs.C16Tx
import FxVerif.Proofs.C16Dep
import FxVerif.Gen.C16Proto
/-!
# C16 — privileged messages take effect only when issued by the governance authority

Property theorems only.  `handlers` is regenerated from `/repo` on every run; if a handler loses its guard, gains a
statement before it, or a new authority-carrying handler appears without one, `all_handlers_guarded` stops checking.
-/
namespace FxVerif.Props.C16
open FxVerif.Gen.C16 FxVerif.Model.C16
open FxVerif.Gen (C16Dep.impls C16Dep.helpers C16Dep.types C16Dep.unread C16Dep.wiring C16Dep.handlerPkgs C16Sem.proposalExec C16Sem.helpers C16Sem.impls C16Sem.types C16Sem.services C16Sem.registrations C16Sem.msgInfos C16Sem.updateStoreProg C16Tx.runTxProg C16Tx.runMsgsStopsAtError)

/-- obligation over the regenerated table: every handler is guarded, or forwards to a guarded one -/
theorem all_handlers_guarded : handlers.all (fun h => shapeOk handlers h.shape) = true := by decide

/-- obligation over the regenerated wiring facts: the authority every fx-core keeper (and the ethermint EVM / fee-market
keeper) compares against is the governance module account, as constructed in app/keepers/keepers.go -/
theorem authority_wired_to_gov :
    authAddrDef = "authtypes.NewModuleAddress(govtypes.ModuleName).String()" ∧
    wiring.length ≥ 10 ∧
    wiring.all (fun w => w.2 == "authAddr" || w.2 == "authtypes.NewModuleAddress(govtypes.ModuleName)") = true := by
  decide

/-- a protected shape rejects every authority that is not the governance account (even modulo ASCII case), whatever the
rest of the handler does, and leaves the state exactly as it was -/
theorem protected_shape_rejects {σ : Type} (tbl : List Handler) (sh : Shape) (gov auth : List Char) (routeOk : Bool)
    (body : σ → Res × σ) (s : σ) (hok : shapeOk tbl sh = true)
    (hne : lowerAscii gov ≠ lowerAscii auth) :
    run tbl sh gov auth routeOk body s = (.err, s) := by
  have hg : ∀ c, guardPasses c gov auth = false := by
    intro c
    cases c with
    | strict =>
      simp only [guardPasses, beq_eq_false_iff_ne, ne_eq]
      intro h; exact hne (by rw [h])
    | fold => simpa [guardPasses] using hne
  cases sh with
  | guard c => simp [run, hg c]
  | unguarded => simp [shapeOk] at hok
  | forward m =>
    simp only [shapeOk] at hok
    unfold run
    cases routeOk with
    | false => simp
    | true =>
      simp only [Bool.not_true, Bool.false_eq_true, ↓reduceIte]
      cases ht : target tbl m with
      | none => simp [ht] at hok
      | some t =>
        simp only [ht] at hok
        cases hs : t.shape with
        | guard c => simp [hs, hg c]
        | unguarded => simp [hs] at hok
        | forward _ => simp [hs] at hok

/-- C16, first sentence: for every authority-carrying handler of fx-core (the regenerated table), any authority other
than the governance account is rejected and the state is unchanged — for all payloads (`body` arbitrary), all states -/
theorem unauthorized_rejected {σ : Type} (h : Handler) (hmem : h ∈ handlers) (gov auth : List Char) (routeOk : Bool)
    (body : σ → Res × σ) (s : σ) (hne : lowerAscii gov ≠ lowerAscii auth) :
    run handlers h.shape gov auth routeOk body s = (.err, s) := by
  have hall := all_handlers_guarded
  rw [List.all_eq_true] at hall
  exact protected_shape_rejects handlers h.shape gov auth routeOk body s (hall h hmem) hne

/-- for the strictly comparing handlers, even a case variant of the governance address is rejected -/
theorem strict_guard_exact {σ : Type} (tbl : List Handler) (gov auth : List Char) (routeOk : Bool)
    (body : σ → Res × σ) (s : σ) (hne : gov ≠ auth) :
    run tbl (.guard .strict) gov auth routeOk body s = (.err, s) := by
  simp [run, guardPasses, hne]

/-- the guard lets the governance authority through (the check is not vacuous: the privileged path is reachable) -/
theorem gov_authority_runs_body {σ : Type} (tbl : List Handler) (c : Cmp) (gov : List Char) (routeOk : Bool)
    (body : σ → Res × σ) (s : σ) : run tbl (.guard c) gov gov routeOk body s = body s := by
  cases c <;> simp [run, guardPasses]

/-- raw store update: with a wrong authority nothing changes -/
theorem update_store_needs_authority (gov auth : List Char) (us : List Upd) (s : KV) (hne : gov ≠ auth) :
    updateStore gov auth us s = (.err, s) := by
  simp [updateStore, hne]

/-- raw store update is compare-and-set: it succeeds only if every entry's stated old value equals the value current at
the moment that entry is applied; the first entry sees the original store -/
theorem update_store_cas_head (gov : List Char) (u : Upd) (us : List Upd) (s : KV)
    (hold : kvGet s u.key ≠ u.old) : updateStore gov gov (u :: us) s = (.err, s) := by
  simp only [updateStore, bne_self_eq_false, Bool.false_eq_true, ↓reduceIte, applyUpds]
  by_cases hsp : u.spaceOk
  · simp [hsp, hold]
  · simp [hsp]

/-- all-or-nothing: a failing entry anywhere in the list leaves the whole store unchanged -/
theorem update_store_atomic (gov auth : List Char) (us : List Upd) (s : KV) :
    (updateStore gov auth us s).1 = .err → (updateStore gov auth us s).2 = s := by
  unfold updateStore
  split
  · intro _; rfl
  · split <;> simp

/-- a single successful update writes exactly the new value at exactly that key -/
theorem update_store_writes (gov : List Char) (u : Upd) (s : KV) (hsp : u.spaceOk = true)
    (hold : kvGet s u.key = u.old) :
    updateStore gov gov [u] s = (.ok, kvSet s u.key u.new) := by
  simp [updateStore, applyUpds, hsp, hold]


/-! ## semantic layer: the guard EXPRESSIONS, helpers, method promotion and the router dispatch as regenerated terms -/

/-- obligation over the regenerated bodies: every leading guard condition (with the helper it calls, followed one level)
normalises to exactly one comparison of the request's authority with the keeper's authority -/
theorem leading_guards_compare_authority :
    C16Sem.impls.all (fun i => match firstGuard i.body with
      | some g => (guardCmp C16Sem.helpers g).isSome
      | none => true) = true := by decide

/-- (a) for every handler in the regenerated table, the leading guard rejects IF AND ONLY IF the request's authority is
not related to the keeper's authority (`!=`: not the same string; `!strings.EqualFold`: not case-fold-equal;
`!bytes.Equal` on decoded operands: not the same address bytes) — for every authority string and every environment.  A
helper that accepts "governance or something else", a comparison with a different account or a different field, a
comparison hidden in a branch: any of these makes `guardCmp` fail and this theorem stop checking. -/
theorem guard_rejects_iff (i : Impl) (hi : i ∈ C16Sem.impls) (g : BExpr) (hg : firstGuard i.body = some g) :
    ∃ c, guardCmp C16Sem.helpers g = some c ∧
      ∀ (env : Env) (auth : Str), (evalB C16Sem.helpers env auth g = true ↔ relK env.cfg c env.gov auth = false) := by
  have h := List.all_eq_true.mp leading_guards_compare_authority i hi
  simp only [hg] at h
  cases hc : guardCmp C16Sem.helpers g with
  | none => simp [hc] at h
  | some c =>
    refine ⟨c, rfl, fun env auth => ?_⟩
    rw [guardCmp_sound C16Sem.helpers env auth g c hc]
    cases relK env.cfg c env.gov auth <;> simp

/-- the shape table and the semantic table are two readings of the same source: every handler of the shape table has an
implementation (same position, same method, same message) in the semantic table, and the two classifications agree -/
theorem shape_and_semantic_tables_agree :
    (handlers.zip C16Sem.impls).all (fun hi =>
      hi.2.method == hi.1.method && hi.2.msg == hi.1.msg &&
        (shapeOk handlers hi.1.shape == (protectedAt prog 4 hi.2.recv hi.2.method).isSome)) = true ∧
    C16Sem.impls.length = handlers.length := by decide

/-- what the three comparison kinds mean -/
theorem relK_strict_iff (cfg : AddrCfg) (a b : Str) : relK cfg .strict a b = true ↔ a = b := by simp [relK]

theorem relK_fold_iff (cfg : AddrCfg) (a b : Str) : relK cfg .fold a b = true ↔ a.map foldC = b.map foldC := by
  simp [relK, foldEq]

theorem relK_addr_iff (cfg : AddrCfg) (a b : Str) :
    relK cfg .addr a b = true ↔ decodeOrEmpty cfg a = decodeOrEmpty cfg b := by simp [relK]

/-- (b) obligation over the regenerated dispatch tables: for every `RegisterMsgServer` call site, every method of the
registered service whose request carries an authority resolves — from the concrete type that is registered, through Go's
method promotion over embedded structs — to an implementation for that very message which is protected (guard first, or
delegation to protected implementations only); and every in-repo Msg service is registered with a resolved type -/
theorem dispatch_table_ok :
    C16Sem.registrations.all (registrationOk prog C16Sem.services) = true ∧
    C16Sem.services.all (serviceRegistered C16Sem.registrations) = true := by decide

/-- (b)+(d) every routed authority-carrying message reaches a guarded implementation: whatever concrete type is
registered, whichever method is promoted, whatever the rest of any handler does (`W`), for every state and payload — an
authority that is not related to the keeper's authority is rejected and the state is exactly what it was -/
theorem routed_unauthorized_rejected {σ : Type} (r : Registration) (hr : r ∈ C16Sem.registrations)
    (sv : Service) (hsv : sv ∈ C16Sem.services) (hpkg : sv.pkg = r.service)
    (mm : String × String) (hmm : mm ∈ sv.methods) (hmsg : mm.2 ≠ "") :
    ∃ (c : CmpK) (impl : Impl), resolve prog r.impl mm.1 = some impl ∧ impl.msg = mm.2 ∧
      protectedAt prog 4 r.impl mm.1 = some c ∧
      ∀ (env : Env) (auth : Str) (W : World σ) (payloadOk : Bool) (s : σ), relK env.cfg c env.gov auth = false →
        routed prog C16Sem.msgInfos env auth W payloadOk r.impl mm.1 mm.2 s = (.err, s) := by
  have h := List.all_eq_true.mp dispatch_table_ok.1 r hr
  unfold registrationOk at h
  have h2 := List.all_eq_true.mp h sv hsv
  simp only [hpkg, bne_self_eq_false, Bool.false_or] at h2
  have h3 := List.all_eq_true.mp h2 mm hmm
  have hne : (mm.2 == "") = false := by simpa using hmsg
  simp only [hne, Bool.false_or, Bool.and_eq_true] at h3
  obtain ⟨hres, hprot⟩ := h3
  cases hr' : resolve prog r.impl mm.1 with
  | none => simp [hr'] at hres
  | some impl =>
    cases hp : protectedAt prog 4 r.impl mm.1 with
    | none => simp [hp] at hprot
    | some c =>
      refine ⟨c, impl, rfl, by simpa [hr'] using hres, rfl, ?_⟩
      intro env auth W payloadOk s hrel
      unfold routed routedStage
      split
      · rfl
      · split
        · rfl
        · exact protectedAt_sound prog env auth W c hrel 4 r.impl mm.1 s hp

/-- obligation: a handler that compares case-insensitively is only reachable behind a `ValidateBasic` that decodes the
authority as an account address first -/
theorem fold_guards_behind_decoding_validate_basic :
    C16Sem.registrations.all (fun r => C16Sem.services.all fun sv => sv.pkg != r.service ||
      sv.methods.all fun mm => protectedAt prog 4 r.impl mm.1 != some .fold || vbDecodes C16Sem.msgInfos mm.2) = true := by
  decide

/-- look-alike encodings: through the router, a privileged message gets past `ValidateBasic` and the guard only if its
authority is the keeper's authority string itself — or, for the case-insensitively comparing handler, that string in
upper case (the other valid bech32 spelling of the same address).  Mixed case, `ſ`/`K` (which `strings.EqualFold`
identifies with `s`/`k`), other prefixes, hex, padding: all rejected with the state unchanged. -/
theorem routed_only_governance_string {σ : Type} (r : Registration) (hr : r ∈ C16Sem.registrations)
    (sv : Service) (hsv : sv ∈ C16Sem.services) (hpkg : sv.pkg = r.service)
    (mm : String × String) (hmm : mm ∈ sv.methods) (hmsg : mm.2 ≠ "")
    (hkind : protectedAt prog 4 r.impl mm.1 = some .strict ∨ protectedAt prog 4 r.impl mm.1 = some .fold)
    (env : Env) (hgov : lowerAsciiStr env.gov = true) (auth : Str) (W : World σ) (payloadOk : Bool) (s : σ)
    (h1 : auth ≠ env.gov)
    (h2 : protectedAt prog 4 r.impl mm.1 = some .strict ∨ auth ≠ env.gov.map upperC) :
    routed prog C16Sem.msgInfos env auth W payloadOk r.impl mm.1 mm.2 s = (.err, s) := by
  obtain ⟨c, impl, _, _, hp, hrej⟩ := routed_unauthorized_rejected (σ := σ) r hr sv hsv hpkg mm hmm hmsg
  cases c with
  | strict =>
    apply hrej
    simp only [relK, beq_eq_false_iff_ne, ne_eq]
    exact fun h => h1 h.symm
  | addr => rcases hkind with h | h <;> rw [hp] at h <;> cases h
  | lenient => rcases hkind with h | h <;> rw [hp] at h <;> cases h
  | evm20 => rcases hkind with h | h <;> rw [hp] at h <;> cases h
  | fold =>
    have hvb : vbDecodes C16Sem.msgInfos mm.2 = true := by
      have h := List.all_eq_true.mp fold_guards_behind_decoding_validate_basic r hr
      have h' := List.all_eq_true.mp h sv hsv
      simp only [hpkg, bne_self_eq_false, Bool.false_or] at h'
      have h'' := List.all_eq_true.mp h' mm hmm
      simpa [hp] using h''
    have h2' : auth ≠ env.gov.map upperC := by
      rcases h2 with h | h
      · rw [hp] at h; cases h
      · exact h
    by_cases hdec : (accAddress env.cfg auth).isSome = true
    · by_cases hf : foldEq env.gov auth = true
      · rcases fold_decodable_exact env.cfg env.gov auth hgov hf hdec with h | h
        · exact absurd h h1
        · exact absurd h h2'
      · apply hrej
        simpa [relK] using hf
    · unfold routed routedStage
      have : (accAddress env.cfg auth).isNone = true := by
        cases hh : accAddress env.cfg auth with
        | none => rfl
        | some _ => simp [hh] at hdec
      simp [hvb, this]

/-- the same in terms of the ACCOUNT: whenever a routed privileged message is not rejected-with-the-state-unchanged, its
authority decodes (`sdk.AccAddressFromBech32`, modelled in full: character range, single case, separator, charset,
checksum, 5→8 bit regrouping, prefix, address length) to the very address bytes the keeper's authority string decodes to -/
theorem routed_accepts_only_governance_account {σ : Type} (r : Registration) (hr : r ∈ C16Sem.registrations)
    (sv : Service) (hsv : sv ∈ C16Sem.services) (hpkg : sv.pkg = r.service)
    (mm : String × String) (hmm : mm ∈ sv.methods) (hmsg : mm.2 ≠ "")
    (hkind : protectedAt prog 4 r.impl mm.1 = some .strict ∨ protectedAt prog 4 r.impl mm.1 = some .fold)
    (env : Env) (hgov : lowerAsciiStr env.gov = true) (auth : Str) (W : World σ) (payloadOk : Bool) (s : σ)
    (hacc : routed prog C16Sem.msgInfos env auth W payloadOk r.impl mm.1 mm.2 s ≠ (.err, s)) :
    accAddress env.cfg auth = accAddress env.cfg env.gov := by
  by_cases h1 : auth = env.gov
  · rw [h1]
  · by_cases h2 : auth = env.gov.map upperC
    · rw [h2]; exact accAddress_upper env.cfg env.gov hgov
    · exact absurd (routed_only_governance_string r hr sv hsv hpkg mm hmm hmsg hkind env hgov auth W payloadOk s h1
        (Or.inr h2)) hacc

/-! ### why the guards have to compare STRINGS: what the byte-comparing guard kinds accept (round 4)

The translator reads guards that decode first (`sdk.AccAddressFromBech32`, the lenient `fxtypes.ParseAddress`,
`common.BytesToAddress` of the decoded bytes) into `.addrEq` / `.decEq`, the model interprets them (`relK`), and the
obligations `handlers_compare_strings` / `registered_handlers_compare_strings` insist that no fx-core handler uses one.
These theorems say what would be accepted otherwise — for ALL addresses, paddings and prefixes. -/

/-- a guard that compares `common.BytesToAddress` of the decoded operands accepts EVERY account address whose bytes end
with the 20 bytes of the governance account -/
theorem evm20_accepts_suffix (cfg : AddrCfg) (gov a : Str) (pad g : List Nat) (hg : g.length = 20)
    (hgov : accAddress cfg gov = some g) (ha : accAddress cfg a = some (pad ++ g)) :
    relK cfg .evm20 gov a = true := by
  have h0 : evmAddr g = g := by simpa using evmAddr_suffix [] g hg
  simp [relK, decodeOr, decodeOrEmpty, hgov, ha, evmAddr_suffix pad g hg, h0]

/-- …although it is a different account whenever the padding is not empty -/
theorem suffix_is_other_account (cfg : AddrCfg) (gov a : Str) (pad g : List Nat) (hp : pad ≠ [])
    (hgov : accAddress cfg gov = some g) (ha : accAddress cfg a = some (pad ++ g)) :
    accAddress cfg a ≠ accAddress cfg gov := by
  rw [hgov, ha]
  intro h
  have := congrArg List.length (Option.some.inj h)
  simp only [List.length_append] at this
  have : pad.length = 0 := by omega
  exact hp (List.length_eq_zero_iff.mp this)

/-- the address comparison after `sdk.AccAddressFromBech32` is exact on accounts -/
theorem addr_guard_exact (cfg : AddrCfg) (gov a : Str) (hgov : (accAddress cfg gov).isSome = true)
    (hne : accAddress cfg gov ≠ some []) (h : relK cfg .addr gov a = true) : accAddress cfg a = accAddress cfg gov := by
  simp only [relK, decodeOrEmpty, beq_iff_eq] at h
  cases hg : accAddress cfg gov with
  | none => simp [hg] at hgov
  | some g =>
    cases ha : accAddress cfg a with
    | none =>
      simp only [hg, ha, Option.getD_some, Option.getD_none] at h
      subst h; exact absurd hg hne
    | some x => simp only [hg, ha, Option.getD_some] at h; rw [h]

/-- the lenient decoder does not look at the prefix: two bech32 strings with the same data part decode alike whatever
their human-readable parts are -/
theorem lenient_ignores_prefix (cfg : AddrCfg) (a b : Str) (h1 h2 : Str) (d : List Nat) (bz : List Nat)
    (ha : bechDecode a = some (h1, d)) (hb : bechDecode b = some (h2, d)) (hc : convert5to8 d = some bz) :
    relK cfg .lenient a b = true := by
  simp [relK, decodeOr, parseAddress, ha, hb, hc]

example : protectedBody [] (fun _ _ => none)
    [.nop "", .rejectIf (.not (.decodes .acc .reqAuthority)), .rejectIf (.not (.decEq .evm20 .reqAuthority .keeperAuthority)),
      .work 3 ""] = some .evm20 := by decide
example : relK { pref := strOf "cosmos", minLen := 1, maxLen := 255 } .evm20
    (strOf "cosmos10d07y265gmmuvt4z0w9aw880jnsr700j6zn9kn")
    (strOf "cosmos1qqqqqqqqqqqqqqqqqqq8khlz9d2yda7x9638hz7hrnhefcpl8heqsp02w9") = true := by decide +kernel
example : relK { pref := strOf "cosmos", minLen := 1, maxLen := 255 } .addr
    (strOf "cosmos10d07y265gmmuvt4z0w9aw880jnsr700j6zn9kn")
    (strOf "cosmos1qqqqqqqqqqqqqqqqqqq8khlz9d2yda7x9638hz7hrnhefcpl8heqsp02w9") = false := by decide +kernel
example : ∃ pad g : List Nat, g.length = 20 ∧ pad ≠ [] := ⟨[1], List.replicate 20 7, by decide, by decide⟩

/-! ### handler level: the registered Msg servers called directly (no `ValidateBasic` in front) -/

/-- obligation over the regenerated bodies: no implementation compares DECODED addresses — every one of them, run on its
own receiver type, is protected by a comparison of the authority STRING with the keeper's authority string (`!=` or
`!strings.EqualFold`).  A guard that decodes both sides first (and so accepts every spelling some decoder maps to the
governance account: `0x…`, another prefix) makes this stop checking. -/
theorem handlers_compare_strings :
    C16Sem.impls.all (fun i => protectedAt prog 4 i.recv i.method == some .strict ||
      protectedAt prog 4 i.recv i.method == some .fold) = true := by decide

/-- the same for what is registered: every authority-carrying method of every registered service, resolved from the
registered concrete type -/
theorem registered_handlers_compare_strings :
    C16Sem.registrations.all (fun r => C16Sem.services.all fun sv => sv.pkg != r.service ||
      sv.methods.all fun mm => mm.2 == "" || protectedAt prog 4 r.impl mm.1 == some .strict ||
        protectedAt prog 4 r.impl mm.1 == some .fold) = true := by decide

/-- a comparison of strings (strict or case-folding) fails for every authority that is not a case-fold variant of the
keeper's authority -/
theorem string_guard_fails_of_not_fold (cfg : AddrCfg) (c : CmpK) (hc : c = .strict ∨ c = .fold) (gov auth : Str)
    (h : foldEq gov auth = false) : relK cfg c gov auth = false := by
  rcases hc with rfl | rfl
  · simp only [relK, beq_eq_false_iff_ne, ne_eq]
    intro he
    subst he
    simp [foldEq] at h
  · simpa [relK] using h

/-- HANDLER LEVEL, every implementation (the registered types and the per-chain servers behind the crosschain router):
called directly — no `ValidateBasic`, no router — with an authority that is not a case-fold variant of the keeper's
authority string, it returns an error and leaves the state it was given untouched; whatever the rest of any handler does,
whichever route exists.  So `0x…`, another bech32 prefix, the validator-operator spelling, padding, the module NAME are
refused by the handler itself, not only by the router's `ValidateBasic`. -/
theorem handler_level_rejects_non_variants {σ : Type} (i : Impl) (hi : i ∈ C16Sem.impls)
    (env : Env) (auth : Str) (W : World σ) (s : σ) (h : foldEq env.gov auth = false) :
    exec prog env auth W 4 i.recv i.method s = (.err, s) := by
  have hk := List.all_eq_true.mp handlers_compare_strings i hi
  simp only [Bool.or_eq_true, beq_iff_eq] at hk
  rcases hk with hp | hp
  · exact protectedAt_sound prog env auth W .strict (string_guard_fails_of_not_fold env.cfg .strict (Or.inl rfl) _ _ h)
      4 i.recv i.method s hp
  · exact protectedAt_sound prog env auth W .fold (string_guard_fails_of_not_fold env.cfg .fold (Or.inr rfl) _ _ h)
      4 i.recv i.method s hp

/-- HANDLER LEVEL, what is registered: the same for every authority-carrying method of every registered Msg service,
resolved from the registered concrete type through method promotion -/
theorem registered_handler_level_rejects_non_variants {σ : Type} (r : Registration) (hr : r ∈ C16Sem.registrations)
    (sv : Service) (hsv : sv ∈ C16Sem.services) (hpkg : sv.pkg = r.service)
    (mm : String × String) (hmm : mm ∈ sv.methods) (hmsg : mm.2 ≠ "")
    (env : Env) (auth : Str) (W : World σ) (s : σ) (h : foldEq env.gov auth = false) :
    exec prog env auth W 4 r.impl mm.1 s = (.err, s) := by
  have h1 := List.all_eq_true.mp registered_handlers_compare_strings r hr
  have h2 := List.all_eq_true.mp h1 sv hsv
  simp only [hpkg, bne_self_eq_false, Bool.false_or] at h2
  have h3 := List.all_eq_true.mp h2 mm hmm
  have hne : (mm.2 == "") = false := by simpa using hmsg
  simp only [hne, Bool.false_or, Bool.or_eq_true, beq_iff_eq] at h3
  rcases h3 with hp | hp
  · exact protectedAt_sound prog env auth W .strict (string_guard_fails_of_not_fold env.cfg .strict (Or.inl rfl) _ _ h)
      4 r.impl mm.1 s hp
  · exact protectedAt_sound prog env auth W .fold (string_guard_fails_of_not_fold env.cfg .fold (Or.inr rfl) _ _ h)
      4 r.impl mm.1 s hp

/-- the strictly comparing implementations refuse even the case variants at handler level -/
theorem handler_level_strict_exact {σ : Type} (T m : String) (hp : protectedAt prog 4 T m = some .strict)
    (env : Env) (auth : Str) (W : World σ) (s : σ) (h : auth ≠ env.gov) :
    exec prog env auth W 4 T m s = (.err, s) := by
  apply protectedAt_sound prog env auth W .strict _ 4 T m s hp
  simp only [relK, beq_eq_false_iff_ne, ne_eq]
  exact fun he => h he.symm

/-- with the obligation above the two router-level theorems need no side condition on the comparison kind -/
theorem routed_accepts_only_governance_account_all {σ : Type} (r : Registration) (hr : r ∈ C16Sem.registrations)
    (sv : Service) (hsv : sv ∈ C16Sem.services) (hpkg : sv.pkg = r.service)
    (mm : String × String) (hmm : mm ∈ sv.methods) (hmsg : mm.2 ≠ "")
    (env : Env) (hgov : lowerAsciiStr env.gov = true) (auth : Str) (W : World σ) (payloadOk : Bool) (s : σ)
    (hacc : routed prog C16Sem.msgInfos env auth W payloadOk r.impl mm.1 mm.2 s ≠ (.err, s)) :
    accAddress env.cfg auth = accAddress env.cfg env.gov := by
  have h1 := List.all_eq_true.mp registered_handlers_compare_strings r hr
  have h2 := List.all_eq_true.mp h1 sv hsv
  simp only [hpkg, bne_self_eq_false, Bool.false_or] at h2
  have h3 := List.all_eq_true.mp h2 mm hmm
  have hne : (mm.2 == "") = false := by simpa using hmsg
  simp only [hne, Bool.false_or, Bool.or_eq_true, beq_iff_eq] at h3
  exact routed_accepts_only_governance_account r hr sv hsv hpkg mm hmm hmsg h3 env hgov auth W payloadOk s hacc

/-- the crosschain router: without a route for the message's chain the forwarding implementation errors with the state
untouched, before any per-chain server runs -/
theorem no_route_rejected {σ : Type} (P : Program) (env : Env) (auth : Str) (W : World σ) (f : Nat) (T m : String) (s : σ)
    (hn : needsRoute P T m = true) (hr : W.routeOk = false) : exec P env auth W (f + 1) T m s = (.err, s) := by
  unfold needsRoute at hn
  simp only [exec]
  cases hres : resolve P T m with
  | none => simp [hres] at hn
  | some impl =>
    simp only [hres] at hn ⊢
    generalize impl.body = body at hn
    induction body with
    | nil => simp [needsRouteBody] at hn
    | cons st rest ih =>
      cases st with
      | nop _ => simp only [needsRouteBody] at hn; simp only [execBody]; exact ih hn
      | forward nr ts m' =>
        cases nr with
        | true => simp [execBody, hr]
        | false => simp [needsRouteBody] at hn
      | rejectIf _ => simp [needsRouteBody] at hn
      | work _ _ => simp [needsRouteBody] at hn
      | ensureModuleAcc _ _ => simp [needsRouteBody] at hn

/-! ### who has to have signed: transactions, `MsgExec`, proposals -/

/-- obligation over the regenerated .proto facts: every message of /repo/proto with a `string authority` field declares
exactly that field as its signer (`option (cosmos.msg.v1.signer) = "authority"`), which is what makes `txRun` / `authzRun` /
`proposalRun` take the decoded authority as the account that has to have signed (the compiled descriptors are what
runs: the harness compares `GetMsgV1Signers` of the running codec with the decoded authority for every such message) -/
theorem authority_messages_signed_by_authority :
    FxVerif.Gen.C16Proto.msgs.all (fun m => !m.2.2 || m.2.1 == ["authority"]) = true ∧
    (FxVerif.Gen.C16Proto.msgs.filter (fun m => m.2.2)).length ≥ 11 := by decide

/-- through the router, an authority that does not decode to the account the keeper's authority decodes to is rejected
with the state untouched (contrapositive of `routed_accepts_only_governance_account_all`) -/
theorem routed_rejects_other_accounts {σ : Type} (r : Registration) (hr : r ∈ C16Sem.registrations)
    (sv : Service) (hsv : sv ∈ C16Sem.services) (hpkg : sv.pkg = r.service)
    (mm : String × String) (hmm : mm ∈ sv.methods) (hmsg : mm.2 ≠ "")
    (env : Env) (hgov : lowerAsciiStr env.gov = true) (auth : Str) (W : World σ) (payloadOk : Bool) (s : σ)
    (h : accAddress env.cfg auth ≠ accAddress env.cfg env.gov) :
    routed prog C16Sem.msgInfos env auth W payloadOk r.impl mm.1 mm.2 s = (.err, s) :=
  Classical.byContradiction fun hc =>
    h (routed_accepts_only_governance_account_all r hr sv hsv hpkg mm hmm hmsg env hgov auth W payloadOk s hc)

theorem onBranch_of_err {σ : Type} (f : σ → Res × σ) (s : σ) (h : f s = (.err, s)) : onBranch f s = (.err, s) := by
  simp [onBranch, h]

theorem onBranch_err_state {σ : Type} (f : σ → Res × σ) (s : σ) (h : (onBranch f s).1 = .err) : (onBranch f s).2 = s := by
  unfold onBranch at h ⊢
  cases hf : f s with
  | mk r s' => cases r <;> simp [hf] at h ⊢

/-- SIGNED TRANSACTIONS: a transaction signed with the key of any account other than the governance module account
(which has no key) cannot make a privileged message take effect, whatever authority string the message carries, whatever
the payload, whatever the handlers do after their guards: either `ValidateBasic` refuses it, or the ante handler does
(the authority does not decode, or decodes to an account that did not sign), or — the authority being the signer's own
address — the handler's guard does; the state the messages see is untouched. -/
theorem signed_tx_needs_governance_key {σ : Type} (r : Registration) (hr : r ∈ C16Sem.registrations)
    (sv : Service) (hsv : sv ∈ C16Sem.services) (hpkg : sv.pkg = r.service)
    (mm : String × String) (hmm : mm ∈ sv.methods) (hmsg : mm.2 ≠ "")
    (env : Env) (hgov : lowerAsciiStr env.gov = true) (g : List Nat) (hg : accAddress env.cfg env.gov = some g)
    (signer : List Nat) (hs : signer ≠ g) (auth : Str) (W : World σ) (payloadOk : Bool) (s : σ) :
    (txRun prog C16Sem.msgInfos env auth W payloadOk r.impl mm.1 mm.2 signer s).2 = (.err, s) := by
  unfold txRun
  split
  · rfl
  · cases ha : accAddress env.cfg auth with
    | none => rfl
    | some bz =>
      simp only
      by_cases hb : bz = signer
      · subst hb
        simp only [bne_self_eq_false, Bool.false_eq_true, ↓reduceIte]
        apply onBranch_of_err
        apply routed_rejects_other_accounts r hr sv hsv hpkg mm hmm hmsg env hgov auth W payloadOk s
        rw [ha, hg]
        intro he
        exact hs (Option.some.inj he)
      · have : (bz != signer) = true := by simpa using hb
        simp [this]

/-- `x/authz`: a `MsgExec` signed by a grantee other than the governance module account cannot make a privileged message
take effect (no account other than the message's own signer is accepted without a grant, and the governance module
account grants nothing — monitored on the running app) -/
theorem authz_exec_needs_governance_grantee {σ : Type} (r : Registration) (hr : r ∈ C16Sem.registrations)
    (sv : Service) (hsv : sv ∈ C16Sem.services) (hpkg : sv.pkg = r.service)
    (mm : String × String) (hmm : mm ∈ sv.methods) (hmsg : mm.2 ≠ "")
    (env : Env) (hgov : lowerAsciiStr env.gov = true) (g : List Nat) (hg : accAddress env.cfg env.gov = some g)
    (grantee : List Nat) (hs : grantee ≠ g) (auth : Str) (W : World σ) (payloadOk : Bool) (s : σ) :
    (authzRun prog C16Sem.msgInfos env auth W payloadOk r.impl mm.1 mm.2 grantee s).2 = (.err, s) := by
  unfold authzRun
  split
  · rfl
  · cases ha : accAddress env.cfg auth with
    | none => rfl
    | some bz =>
      simp only
      by_cases hb : bz = grantee
      · subst hb
        simp only [bne_self_eq_false, Bool.false_eq_true, ↓reduceIte]
        apply onBranch_of_err
        apply routed_rejects_other_accounts r hr sv hsv hpkg mm hmm hmsg env hgov auth W payloadOk s
        rw [ha, hg]
        intro he
        exact hs (Option.some.inj he)
      · have : (bz != grantee) = true := by simpa using hb
        simp [this]

/-- PROPOSALS: a privileged message executed by a passed proposal carries an authority that decodes to the governance
module account — by the submission check and, independently, by the handler's guard behind the router -/
theorem proposal_effect_only_governance_account {σ : Type} (P : Program) (infos : List MsgInfo) (env : Env) (auth : Str)
    (W : World σ) (payloadOk : Bool) (T m msg : String) (s : σ)
    (h : (proposalRun P infos env auth W payloadOk T m msg s).2.1 = .ok) :
    (accAddress env.cfg auth).isSome = true ∧ accAddress env.cfg auth = accAddress env.cfg env.gov := by
  unfold proposalRun at h
  split at h
  · simp at h
  · split at h
    · simp at h
    · rename_i hc
      simp only [Bool.or_eq_true, Option.isNone_iff_eq_none, bne_iff_ne, ne_eq, not_or, Decidable.not_not] at hc
      refine ⟨?_, hc.2⟩
      cases hh : accAddress env.cfg auth with
      | none => exact absurd hh hc.1
      | some _ => rfl

/-- every one of the three ways in is all-or-nothing for the state the messages see: a failure at any stage (stateless
validation, ante handler, grant lookup, submission check, guard, work that fails after writing) leaves it exactly as it was -/
theorem tx_failure_leaves_state {σ : Type} (P : Program) (infos : List MsgInfo) (env : Env) (auth : Str) (W : World σ)
    (payloadOk : Bool) (T m msg : String) (who : List Nat) (s : σ) :
    ((txRun P infos env auth W payloadOk T m msg who s).2.1 = .err → (txRun P infos env auth W payloadOk T m msg who s).2.2 = s) ∧
    ((authzRun P infos env auth W payloadOk T m msg who s).2.1 = .err → (authzRun P infos env auth W payloadOk T m msg who s).2.2 = s) ∧
    ((proposalRun P infos env auth W payloadOk T m msg s).2.1 = .err → (proposalRun P infos env auth W payloadOk T m msg s).2.2 = s) := by
  refine ⟨?_, ?_, ?_⟩
  · unfold txRun
    split
    · intro _; rfl
    · cases accAddress env.cfg auth with
      | none => intro _; rfl
      | some bz =>
        simp only
        split
        · intro _; rfl
        · exact onBranch_err_state _ s
  · unfold authzRun
    split
    · intro _; rfl
    · cases accAddress env.cfg auth with
      | none => intro _; rfl
      | some bz =>
        simp only
        split
        · intro _; rfl
        · exact onBranch_err_state _ s
  · unfold proposalRun
    split
    · intro _; rfl
    · split
      · intro _; rfl
      · exact onBranch_err_state _ s

/-- the three ways in do let the governance account through (non-vacuity of the stages): with the keeper's authority
itself, signed for by the account it decodes to, the message reaches the router -/
theorem governance_reaches_router {σ : Type} (P : Program) (infos : List MsgInfo) (env : Env) (W : World σ)
    (T m msg : String) (g : List Nat) (hg : accAddress env.cfg env.gov = some g) (s : σ) :
    (txRun P infos env env.gov W true T m msg g s).1 = .msgs ∧ (proposalRun P infos env env.gov W true T m msg s).1 = .msgs := by
  constructor
  · simp [txRun, basicOk, hg]
  · simp [proposalRun, basicOk, hg]

/-! ### the dependency handlers (Cosmos SDK / IBC / ethermint), regenerated from the module cache -/

/-! ### the transaction pipeline `baseapp.runTx`, regenerated from the pinned SDK and interpreted (round 4) -/

/-- THE REGENERATED `baseapp.runTx` (statement list of the pinned SDK, interpreted): for every transaction, ante handler,
message list, environment (block gas, decoding, mempool, post handler) the run ends in one of three ways — nothing
written at all; or, only after `ValidateBasic` and the ante handler passed, exactly what the ante handler wrote; or the
closed form `runTxSpec`.  Depends on the ORDER read off the source: `ValidateBasic` before the ante handler, the ante
branch written after its error check, the message branch written under `err == nil`. -/
theorem run_tx_gen_outcome {σ : Type} (inp : TxIn σ) (s : σ) : TxOutcome inp s (runTxGen inp s) := by
  unfold runTxGen runTxProg
  simp only [C16Tx.runTxProg, C16Tx.runMsgsStopsAtError]
  repeat (first | rw [skip_step] | (apply peel_env _ _ _ _ _ _ _ (Or.inl rfl)))
  cases hb : inp.basicOk with
  | false => exact Or.inl (by simp [runSteps, tStep, hb])
  | true =>
    rw [show ∀ ts M, runSteps true inp (.validateBasic :: ts) M = runSteps true inp ts M from
      fun ts M => by simp [runSteps, tStep, hb]]
    repeat (first | rw [skip_step] | (apply peel_env _ _ _ _ _ _ _ (Or.inl rfl)))
    rcases ha : inp.ante s with ⟨ra, s1⟩
    cases ra with
    | err => exact Or.inl (by simp [runSteps, tStep, anteRun, anteStep, ha])
    | ok =>
      rw [ante_block]
      simp only [anteRun, anteStep, ha, Bool.false_eq_true, ↓reduceIte, reduceCtorEq, beq_iff_eq]
      repeat (first | rw [skip_step] | (apply peel_env _ _ _ _ _ _ _ (Or.inr ⟨hb, s1, ha, Or.inl rfl⟩)))
      rcases hm : loopMsgsG true inp.msgs s1 .ok with ⟨rm, s2⟩
      cases rm <;> cases hp : inp.postOk <;>
        exact Or.inr ⟨hb, s1, ha, Or.inr (by simp [runSteps, tStep, runTxSpec, hb, ha, hm, hp])⟩

/-- without environment-decided early returns the regenerated pipeline IS the closed form -/
theorem run_tx_gen_spec {σ : Type} (inp : TxIn σ) (s : σ) (henv : ∀ i, inp.envReject i = false) :
    runTxGen inp s = runTxSpec inp s := by
  unfold runTxGen runTxProg runTxSpec
  simp only [C16Tx.runTxProg, C16Tx.runMsgsStopsAtError, runSteps, tStep, anteRun, anteStep, henv, Bool.false_eq_true, ↓reduceIte]
  cases hb : inp.basicOk with
  | false => simp
  | true =>
    simp only [↓reduceIte, Bool.not_true, Bool.false_eq_true]
    rcases ha : inp.ante s with ⟨ra, s1⟩
    cases ra with
    | err => simp
    | ok =>
      simp only
      rcases hm : loopMsgsG true inp.msgs s1 .ok with ⟨rm, s2⟩
      cases rm <;> cases hp : inp.postOk <;> simp [hm]

/-- a FAILED transaction leaves the state as it was, or as the successful ante handler left it (fee payment, sequence
number) — never anything one of its messages wrote, whichever message failed and whatever the earlier ones did -/
theorem run_tx_failure_keeps_only_ante {σ : Type} (inp : TxIn σ) (s : σ) (h : (runTxGen inp s).1 = .err) :
    (runTxGen inp s).2 = s ∨ ((inp.ante s).1 = .ok ∧ (runTxGen inp s).2 = (inp.ante s).2) := by
  rcases run_tx_gen_outcome inp s with h0 | ⟨hb, s1, ha, h1 | h1⟩
  · left; rw [h0]
  · right; rw [h1, ha]; exact ⟨rfl, rfl⟩
  · rw [h1] at h ⊢
    unfold runTxSpec at h ⊢
    simp only [hb, Bool.not_true, Bool.false_eq_true, ↓reduceIte, ha] at h ⊢
    rcases hm : loopMsgsG true inp.msgs s1 .ok with ⟨rm, s2⟩
    cases rm with
    | err => right; simp
    | ok =>
      cases hp : inp.postOk with
      | true => simp [hm, hp] at h
      | false => right; simp

/-- a message failing `ValidateBasic` (a malformed authority) stops the transaction before the ante handler runs -/
theorem run_tx_basic_before_ante {σ : Type} (inp : TxIn σ) (s : σ) (h : inp.basicOk = false) :
    runTxGen inp s = (.err, s) := by
  rcases run_tx_gen_outcome inp s with h0 | ⟨hb, _⟩
  · exact h0
  · rw [h] at hb; cases hb

/-- a transaction the ante handler refuses (wrong signer) leaves nothing, not even what the ante handler wrote before refusing -/
theorem run_tx_ante_failure_discards {σ : Type} (inp : TxIn σ) (s : σ) (h : (inp.ante s).1 = .err) :
    runTxGen inp s = (.err, s) := by
  rcases run_tx_gen_outcome inp s with h0 | ⟨_, s1, ha, _⟩
  · exact h0
  · rw [ha] at h; cases h

/-- the hand-written `txRun` (stages basic / ante / messages on a branch) is the regenerated pipeline run on the
transaction it describes: its shape is no longer an assumption about the SDK but a consequence of `Gen/C16Tx.lean` -/
theorem tx_run_is_regenerated_pipeline {σ : Type} (P : Program) (infos : List MsgInfo) (env : Env) (auth : Str) (W : World σ)
    (payloadOk : Bool) (T m msg : String) (signer : List Nat) (s : σ) :
    (txRun P infos env auth W payloadOk T m msg signer s).2 =
      runTxGen (txRunIn P infos env auth W payloadOk T m msg signer) s := by
  rw [run_tx_gen_spec _ _ (fun _ => rfl)]
  unfold txRun runTxSpec txRunIn
  cases hb : basicOk infos env.cfg auth payloadOk msg with
  | false => simp
  | true =>
    simp only [Bool.not_true, Bool.false_eq_true, ↓reduceIte]
    cases ha : accAddress env.cfg auth with
    | none => simp
    | some bz =>
      by_cases hs : bz = signer
      · subst hs
        simp only [bne_self_eq_false, Bool.false_eq_true, ↓reduceIte, beq_self_eq_true, loopMsgsG, onBranch]
        rcases routed P infos env auth W payloadOk T m msg s with ⟨r, s'⟩
        cases r <;> simp
      · have h1 : (bz != signer) = true := by simpa using hs
        have h2 : (some bz == some signer) = false := by simpa using hs
        simp [h1, h2]
/-- obligations over `Gen/C16Tx.lean`: `runMsgs` returns at the first failing message; every statement of `runTx` was
recognised -/
theorem run_tx_prog_recognised :
    C16Tx.runMsgsStopsAtError = true ∧
    C16Tx.runTxProg.all (fun t => match t with
      | .other _ => false
      | .ante as => as.all (fun a => match a with | .other _ => false | _ => true)
      | _ => true) = true := by decide

/-- why the ORDER matters (1): were the ante branch written BEFORE its error check, a refused transaction would keep
what the ante handler wrote -/
theorem ante_write_before_check_leaks :
    runTxProg (σ := Nat) [.ante [.branch, .call true, .write, .returnIfErr]] true
      { envReject := fun _ => false, basicOk := true, ante := fun s => (.err, s + 1), msgs := [], postOk := true, unknown := id } 0
      = (.err, 1) := by decide

/-- why the ORDER matters (2): were the message branch written outside the `err == nil` guard, a transaction whose
message fails after writing would keep that write -/
theorem unguarded_write_leaks :
    runTxProg (σ := Nat) [.branchMsgs, .runMsgs true, .writeAlways] true
      { envReject := fun _ => false, basicOk := true, ante := fun s => (.ok, s), msgs := [fun s => (.err, s + 1)], postOk := true, unknown := id } 0
      = (.err, 1) := by decide

/-- why the ORDER matters (3): were `ValidateBasic` run AFTER the ante handler, a transaction with a malformed message
would still pay its fee (keep the ante handler's writes) -/
theorem basic_after_ante_leaks :
    runTxProg (σ := Nat) [.ante [.branch, .call true, .returnIfErr, .write], .validateBasic] true
      { envReject := fun _ => false, basicOk := false, ante := fun s => (.ok, s + 1), msgs := [], postOk := true, unknown := id } 0
      = (.err, 1) := by decide

/-- why the BRANCH matters: were the messages run on the block's own state, a failing message's writes would stay -/
theorem msgs_off_branch_leak :
    runTxProg (σ := Nat) [.branchMsgs, .runMsgs false, .writeIfOk] true
      { envReject := fun _ => false, basicOk := true, ante := fun s => (.ok, s), msgs := [fun s => (.err, s + 1)], postOk := true, unknown := id } 0
      = (.err, 1) := by decide

example : (runTxGen (σ := Nat)
    { envReject := fun _ => false, basicOk := true, ante := fun s => (.ok, s + 10),
      msgs := [fun s => (.ok, s + 1), fun s => (.err, s + 5)], postOk := true, unknown := id } 0) = (.err, 10) := by decide
example : (runTxGen (σ := Nat)
    { envReject := fun _ => false, basicOk := true, ante := fun s => (.ok, s + 10),
      msgs := [fun s => (.ok, s + 1), fun s => (.ok, s + 5)], postOk := true, unknown := id } 0) = (.ok, 16) := by decide
example : ∃ inp : TxIn Nat, (runTxGen inp 0).1 = .err ∧ (inp.ante 0).1 = .ok :=
  ⟨{ envReject := fun _ => false, basicOk := true, ante := fun s => (.ok, s), msgs := [fun s => (.err, s)], postOk := true, unknown := id },
    by decide, rfl⟩

/-- a transaction one of whose messages fails in EVERY state fails as a whole and keeps nothing but what the ante handler
wrote — whatever the messages before it did on the branch, whatever stands after it -/
theorem tx_with_refused_message_keeps_only_ante {σ : Type} (inp : TxIn σ) (pre post : List (σ → Res × σ))
    (f : σ → Res × σ) (hm : inp.msgs = pre ++ f :: post) (hf : ∀ x, (f x).1 = .err) (s : σ) :
    (runTxGen inp s).1 = .err ∧
      ((runTxGen inp s).2 = s ∨ ((inp.ante s).1 = .ok ∧ (runTxGen inp s).2 = (inp.ante s).2)) := by
  have hfail : (runTxGen inp s).1 = .err := by
    rcases run_tx_gen_outcome inp s with h0 | ⟨hb, s1, ha, h1 | h1⟩
    · rw [h0]
    · rw [h1]
    · rw [h1]
      unfold runTxSpec
      simp only [hb, Bool.not_true, Bool.false_eq_true, ↓reduceIte, ha]
      have hl := loopMsgsG_fails_of_refused f hf pre post s1 .ok
      rw [← hm] at hl
      rcases hm' : loopMsgsG true inp.msgs s1 .ok with ⟨rm, s2⟩
      rw [hm'] at hl
      simp only at hl
      subst hl
      rfl
  exact ⟨hfail, run_tx_failure_keeps_only_ante inp s hfail⟩

/-- SIBLING MESSAGES: a transaction that carries — anywhere among its messages — a privileged message whose authority does
not decode to the governance account is refused as a whole: the effects of every other message in it (a bank send in
front of the privileged message, anything behind it) never reach the block's state (monitored on the `blk` lines) -/
theorem siblings_of_refused_privileged_message_never_survive {σ : Type} (r : Registration) (hr : r ∈ C16Sem.registrations)
    (sv : Service) (hsv : sv ∈ C16Sem.services) (hpkg : sv.pkg = r.service)
    (mm : String × String) (hmm : mm ∈ sv.methods) (hmsg : mm.2 ≠ "")
    (env : Env) (hgov : lowerAsciiStr env.gov = true) (auth : Str) (W : World σ) (payloadOk : Bool)
    (h : accAddress env.cfg auth ≠ accAddress env.cfg env.gov)
    (inp : TxIn σ) (pre post : List (σ → Res × σ))
    (hm : inp.msgs = pre ++ routed prog C16Sem.msgInfos env auth W payloadOk r.impl mm.1 mm.2 :: post) (s : σ) :
    (runTxGen inp s).1 = .err ∧
      ((runTxGen inp s).2 = s ∨ ((inp.ante s).1 = .ok ∧ (runTxGen inp s).2 = (inp.ante s).2)) :=
  tx_with_refused_message_keeps_only_ante inp pre post _ hm
    (fun x => by rw [routed_rejects_other_accounts r hr sv hsv hpkg mm hmm hmsg env hgov auth W payloadOk x h]) s

example : ∃ (f : Nat → Res × Nat), ∀ x, (f x).1 = .err := ⟨fun x => (.err, x), fun _ => rfl⟩

/-! ### whole blocks (round 4): `FinalizeBlock` runs the transactions one after the other on the block's state -/

/-- the transaction carries an authority message of a registered Msg service, served by the registered concrete type -/
def txRoutedBy {σ : Type} (t : BlockTx σ) : Prop :=
  ∃ r ∈ C16Sem.registrations, ∃ sv ∈ C16Sem.services, sv.pkg = r.service ∧
    ∃ mm ∈ sv.methods, mm.2 ≠ "" ∧ t.T = r.impl ∧ t.m = mm.1 ∧ t.msg = mm.2

/-- the transaction is signed with the key of an account other than the one the keeper's authority spells -/
def txForeign {σ : Type} (t : BlockTx σ) : Prop :=
  lowerAsciiStr t.env.gov = true ∧ ∃ g, accAddress t.env.cfg t.env.gov = some g ∧ t.signer ≠ g

/-- one transaction of a block, not signed with the governance key: refused, the state the handlers write untouched -/
theorem block_tx_foreign_noop {σ : Type} (t : BlockTx σ) (hr : txRoutedBy t) (hf : txForeign t) (s : σ) :
    (t.run prog C16Sem.msgInfos s).2 = (.err, s) := by
  obtain ⟨r, hr, sv, hsv, hpkg, mm, hmm, hmsg, hT, hm, hmsgEq⟩ := hr
  obtain ⟨hgov, g, hg, hs⟩ := hf
  unfold BlockTx.run
  rw [hT, hm, hmsgEq]
  exact signed_tx_needs_governance_key r hr sv hsv hpkg mm hmm hmsg t.env hgov g hg t.signer hs t.auth t.W t.payloadOk s

/-- WHOLE BLOCKS: a block of ANY number of transactions carrying privileged messages (any message types, payloads,
authorities, interleavings), none of them signed with the governance key, leaves the state the privileged handlers
write exactly as it was, and every one of its transactions is refused — by induction over the block -/
theorem block_needs_governance_key {σ : Type} (txs : List (BlockTx σ))
    (h : ∀ t ∈ txs, txRoutedBy t ∧ txForeign t) (s : σ) :
    (blockRun prog C16Sem.msgInfos txs s).2 = s ∧
      ∀ r ∈ (blockRun prog C16Sem.msgInfos txs s).1, r.2 = .err := by
  induction txs generalizing s with
  | nil => simp [blockRun]
  | cons t ts ih =>
    have ht := h t (by simp)
    have h1 := block_tx_foreign_noop t ht.1 ht.2 s
    have ih' := ih (fun t' ht' => h t' (by simp [ht'])) s
    have e1 : (t.run prog C16Sem.msgInfos s).2.2 = s := by rw [h1]
    have e2 : (t.run prog C16Sem.msgInfos s).2.1 = .err := by rw [h1]
    simp only [blockRun, e1, e2]
    refine ⟨ih'.1, ?_⟩
    intro r hr
    rcases List.mem_cons.mp hr with rfl | hr
    · rfl
    · exact ih'.2 r hr

/-- the state after a block is the state after ONLY its governance-signed transactions: wherever the foreign ones stand
in the block — before, between, after — they are no-ops for the state the privileged handlers write (`p` marks the
transactions that may be governance's; everything it does not mark is routed and foreign) -/
theorem block_effect_is_governance_txs {σ : Type} (p : BlockTx σ → Bool) (txs : List (BlockTx σ))
    (h : ∀ t ∈ txs, p t = false → txRoutedBy t ∧ txForeign t) (s : σ) :
    (blockRun prog C16Sem.msgInfos txs s).2 = (blockRun prog C16Sem.msgInfos (txs.filter p) s).2 := by
  induction txs generalizing s with
  | nil => rfl
  | cons t ts ih =>
    have ih' := fun s' => ih (fun t' ht' => h t' (by simp [ht'])) s'
    cases hp : p t with
    | true =>
      simp only [List.filter_cons, hp, ↓reduceIte, blockRun]
      exact ih' _
    | false =>
      have ht := h t (by simp) hp
      have h1 := block_tx_foreign_noop t ht.1 ht.2 s
      have e1 : (t.run prog C16Sem.msgInfos s).2.2 = s := by rw [h1]
      simp only [List.filter_cons, hp, Bool.false_eq_true, ↓reduceIte, blockRun, e1]
      exact ih' s

-- non-vacuity of `txRoutedBy` / `txForeign`: a registered service with an authority method exists; the governance string
-- of the running app is lower-case ASCII and decodes, and an ordinary 20-byte account differs from what it decodes to
example : C16Sem.registrations.any (fun r => C16Sem.services.any (fun sv => sv.pkg == r.service &&
    sv.methods.any (fun mm => mm.2 != ""))) = true := by decide
example : lowerAsciiStr (strOf "cosmos10d07y265gmmuvt4z0w9aw880jnsr700j6zn9kn") = true ∧
    (accAddress { pref := strOf "cosmos", minLen := 1, maxLen := 255 } (strOf "cosmos10d07y265gmmuvt4z0w9aw880jnsr700j6zn9kn")).isSome = true ∧
    accAddress { pref := strOf "cosmos", minLen := 1, maxLen := 255 } (strOf "cosmos10d07y265gmmuvt4z0w9aw880jnsr700j6zn9kn") ≠
      some (List.replicate 20 1) := by decide +kernel
example : (blockRun (σ := Nat) prog C16Sem.msgInfos [] 0).2 = 0 := rfl

/-! ### whole blocks of multi-message, multi-signer transactions; `x/authz` inside blocks; begin / end blockers (round 5) -/

/-- the closed form `txRunN` (multi-message, multi-signer transaction) IS the regenerated `baseapp.runTx` statement list
run on the transaction it describes — the block model of round 5 has no hand-written pipeline of its own -/
theorem tx_run_n_is_regenerated_pipeline {σ : Type} (P : Program) (infos : List MsgInfo) (t : BlockTxN σ) (s : σ) :
    (txRunN P infos t s).2 = runTxGen (txInN P infos t) s := by
  rw [run_tx_gen_spec _ _ (fun _ => rfl)]
  unfold txRunN runTxSpec txInN
  cases hb : t.msgs.all (·.basic infos) with
  | false => simp
  | true =>
    simp only [Bool.not_true, Bool.false_eq_true, ↓reduceIte]
    cases ha : anteOkN t with
    | false => simp
    | true =>
      simp only [Bool.not_true, Bool.false_eq_true, ↓reduceIte]
      rcases loopMsgsG true (t.msgs.map (·.handler P infos)) s .ok with ⟨r, s'⟩
      cases r <;> rfl

/-- the privileged message is an authority message of a registered Msg service, served by the registered concrete type -/
def privRouted {σ : Type} (p : PrivMsg σ) : Prop :=
  ∃ r ∈ C16Sem.registrations, ∃ sv ∈ C16Sem.services, sv.pkg = r.service ∧
    ∃ mm ∈ sv.methods, mm.2 ≠ "" ∧ p.T = r.impl ∧ p.m = mm.1 ∧ p.msg = mm.2

/-- none of the keys that signed is the key of the account the keeper's authority spells (it has none) -/
def privForeign {σ : Type} (p : PrivMsg σ) (keys : List (List Nat)) : Prop :=
  lowerAsciiStr p.env.gov = true ∧ ∃ g, accAddress p.env.cfg p.env.gov = some g ∧ g ∉ keys

def bmsgPriv {σ : Type} : BMsg σ → Option (PrivMsg σ)
  | .priv p => some p
  | .exec _ p => some p
  | .plain _ _ => none

/-- every privileged message of the transaction (direct or inside a `MsgExec`) is routed, and no governance key signed -/
def txNForeign {σ : Type} (t : BlockTxN σ) : Prop :=
  ∀ b ∈ t.msgs, ∀ p, bmsgPriv b = some p → privRouted p ∧ privForeign p t.keys

/-- a routed privileged message whose authority decodes to an account other than the governance account is refused by
its handler in EVERY state, leaving it untouched -/
theorem priv_handler_refuses {σ : Type} (p : PrivMsg σ) (hr : privRouted p) (hgov : lowerAsciiStr p.env.gov = true)
    (h : accAddress p.env.cfg p.auth ≠ accAddress p.env.cfg p.env.gov) (x : σ) :
    p.handler prog C16Sem.msgInfos x = (.err, x) := by
  obtain ⟨r, hr, sv, hsv, hpkg, mm, hmm, hmsg, hT, hm, hmsgEq⟩ := hr
  unfold PrivMsg.handler
  rw [hT, hm, hmsgEq]
  exact routed_rejects_other_accounts r hr sv hsv hpkg mm hmm hmsg p.env hgov p.auth p.W p.payloadOk x h

/-- `x/authz` inside a transaction: a `MsgExec` whose grantee is not the governance account never lets its inner
privileged message take effect — in every state, whatever the inner authority says -/
theorem exec_handler_refuses {σ : Type} (grantee : List Nat) (p : PrivMsg σ) (hr : privRouted p)
    (hgov : lowerAsciiStr p.env.gov = true) (g : List Nat) (hg : accAddress p.env.cfg p.env.gov = some g)
    (hne : grantee ≠ g) (x : σ) :
    execHandler prog C16Sem.msgInfos grantee p x = (.err, x) := by
  unfold execHandler
  split
  · rfl
  · cases ha : accAddress p.env.cfg p.auth with
    | none => rfl
    | some bz =>
      simp only
      by_cases hb : bz = grantee
      · subst hb
        simp only [bne_self_eq_false, Bool.false_eq_true, ↓reduceIte]
        apply priv_handler_refuses p hr hgov
        rw [ha, hg]
        intro he
        exact hne (Option.some.inj he)
      · have : (bz != grantee) = true := by simpa using hb
        simp [this]

theorem addSigner_mem (acc : List (List Nat)) (a : List Nat) : a ∈ addSigner acc a ∧ ∀ x ∈ acc, x ∈ addSigner acc a := by
  unfold addSigner
  by_cases h : acc.contains a = true
  · simp only [h, ↓reduceIte]
    exact ⟨by simpa using h, fun _ hx => hx⟩
  · simp only [h, Bool.false_eq_true, ↓reduceIte]
    exact ⟨by simp, fun x hx => by simp [hx]⟩

/-- the signers of a transaction contain the signer of every one of its messages -/
theorem signersN_covers {σ : Type} (msgs : List (BMsg σ)) :
    ∀ (acc ss : List (List Nat)), signersN msgs acc = some ss →
      (∀ x ∈ acc, x ∈ ss) ∧ ∀ b ∈ msgs, ∃ a, b.signer = some a ∧ a ∈ ss := by
  induction msgs with
  | nil =>
    intro acc ss h
    simp only [signersN, Option.some.injEq] at h
    subst h
    exact ⟨fun _ hx => hx, fun b hb => by simp at hb⟩
  | cons b bs ih =>
    intro acc ss h
    simp only [signersN] at h
    cases hs : b.signer with
    | none => simp [hs] at h
    | some a =>
      simp only [hs] at h
      obtain ⟨h1, h2⟩ := ih _ _ h
      have hm := addSigner_mem acc a
      refine ⟨fun x hx => h1 x (hm.2 x hx), ?_⟩
      intro b' hb'
      rcases List.mem_cons.mp hb' with rfl | hb'
      · exact ⟨a, hs, h1 a hm.1⟩
      · exact h2 b' hb'

/-- MULTI-MESSAGE, MULTI-SIGNER TRANSACTIONS: a transaction with ANY number of messages — privileged ones with any
authority strings and payloads, `MsgExec`s wrapping privileged messages for any grantee, arbitrary other messages with
arbitrary handlers, in any order — signed with ANY set of keys none of which is the governance key, and carrying at
least one privileged message, is refused as a whole: no message of it (not the privileged ones, not their siblings
before or behind) changes the state the handlers write. -/
theorem multi_tx_needs_governance_key {σ : Type} (t : BlockTxN σ) (hf : txNForeign t) (hp : t.hasPriv = true) (s : σ) :
    (txRunN prog C16Sem.msgInfos t s).2 = (.err, s) := by
  unfold txRunN
  split
  · rfl
  · split
    · rfl
    · rename_i _ ha
      -- the ante handler passed: every message's signer is one of the keys
      have hss : signersN t.msgs [] = some t.keys := by
        unfold anteOkN at ha
        cases hsn : signersN t.msgs [] with
        | none => simp [hsn] at ha
        | some ss =>
          have : ss = t.keys := by simpa [hsn] using ha
          rw [this]
      obtain ⟨_, hcov⟩ := signersN_covers t.msgs [] t.keys hss
      -- a privileged message of the transaction
      obtain ⟨b, hb, hbp⟩ := List.any_eq_true.mp hp
      obtain ⟨a, hsa, hak⟩ := hcov b hb
      have href : ∀ x, (b.handler prog C16Sem.msgInfos x).1 = .err := by
        intro x
        cases b with
        | plain _ _ => simp [BMsg.isPriv] at hbp
        | priv p =>
          obtain ⟨hr, hgov, g, hg, hgk⟩ := hf _ hb p rfl
          simp only [BMsg.signer] at hsa
          have : p.handler prog C16Sem.msgInfos x = (.err, x) := by
            apply priv_handler_refuses p hr hgov
            rw [hsa, hg]
            intro he
            exact hgk (Option.some.inj he ▸ hak)
          simp only [BMsg.handler, this]
        | exec gr p =>
          obtain ⟨hr, hgov, g, hg, hgk⟩ := hf _ hb p rfl
          simp only [BMsg.signer, Option.some.injEq] at hsa
          have : execHandler prog C16Sem.msgInfos gr p x = (.err, x) := by
            apply exec_handler_refuses gr p hr hgov g hg
            intro he
            exact hgk (he ▸ hsa ▸ hak)
          simp only [BMsg.handler, this]
      obtain ⟨pre, post, hsplit⟩ := List.append_of_mem hb
      have hl := loopMsgsG_fails_of_refused _ href (pre.map (·.handler prog C16Sem.msgInfos))
        (post.map (·.handler prog C16Sem.msgInfos)) s .ok
      have hmap : t.msgs.map (·.handler prog C16Sem.msgInfos) =
          pre.map (·.handler prog C16Sem.msgInfos) ++ b.handler prog C16Sem.msgInfos :: post.map (·.handler prog C16Sem.msgInfos) := by
        rw [hsplit]; simp
      rw [hmap]
      rcases hm : loopMsgsG true (pre.map (·.handler prog C16Sem.msgInfos) ++ b.handler prog C16Sem.msgInfos ::
        post.map (·.handler prog C16Sem.msgInfos)) s .ok with ⟨rm, s2⟩
      rw [hm] at hl
      simp only at hl
      subst hl
      rfl

/-- WHOLE BLOCKS of such transactions: the state after the block is the state after ONLY the transactions `p` marks
(those that may carry a governance key, and those that carry no privileged message at all); every other transaction —
wherever it stands, however many messages and signers it has — is a no-op for the state the handlers write -/
theorem block_n_effect_is_marked_txs {σ : Type} (p : BlockTxN σ → Bool) (txs : List (BlockTxN σ))
    (h : ∀ t ∈ txs, p t = false → txNForeign t ∧ t.hasPriv = true) (s : σ) :
    (blockRunN prog C16Sem.msgInfos txs s).2 = (blockRunN prog C16Sem.msgInfos (txs.filter p) s).2 := by
  induction txs generalizing s with
  | nil => rfl
  | cons t ts ih =>
    have ih' := fun s' => ih (fun t' ht' => h t' (by simp [ht'])) s'
    cases hp : p t with
    | true =>
      simp only [List.filter_cons, hp, ↓reduceIte, blockRunN]
      exact ih' _
    | false =>
      have ht := h t (by simp) hp
      have h1 := multi_tx_needs_governance_key t ht.1 ht.2 s
      have e1 : (txRunN prog C16Sem.msgInfos t s).2.2 = s := by rw [h1]
      simp only [List.filter_cons, hp, Bool.false_eq_true, ↓reduceIte, blockRunN, e1]
      exact ih' s

/-- … and each of the unmarked transactions is reported as failed -/
theorem block_n_foreign_all_fail {σ : Type} (txs : List (BlockTxN σ))
    (h : ∀ t ∈ txs, txNForeign t ∧ t.hasPriv = true) (s : σ) :
    (blockRunN prog C16Sem.msgInfos txs s).2 = s ∧ ∀ r ∈ (blockRunN prog C16Sem.msgInfos txs s).1, r.2 = .err := by
  induction txs generalizing s with
  | nil => simp [blockRunN]
  | cons t ts ih =>
    have ht := h t (by simp)
    have h1 := multi_tx_needs_governance_key t ht.1 ht.2 s
    have ih' := ih (fun t' ht' => h t' (by simp [ht'])) s
    have e1 : (txRunN prog C16Sem.msgInfos t s).2.2 = s := by rw [h1]
    have e2 : (txRunN prog C16Sem.msgInfos t s).2.1 = .err := by rw [h1]
    simp only [blockRunN, e1, e2]
    refine ⟨ih'.1, ?_⟩
    intro r hr
    rcases List.mem_cons.mp hr with rfl | hr
    · rfl
    · exact ih'.2 r hr

/-- BEGIN / END BLOCKERS: whatever the begin- and end-blockers do (arbitrary functions of the state), a block all of whose
transactions carry privileged messages and no governance key ends in EXACTLY the state the empty block ends in -/
theorem block_full_foreign_is_empty_block {σ : Type} (beginB endB : σ → σ) (txs : List (BlockTxN σ))
    (h : ∀ t ∈ txs, txNForeign t ∧ t.hasPriv = true) (s : σ) :
    (blockRunFull prog C16Sem.msgInfos beginB endB txs s).2 = (blockRunFull prog C16Sem.msgInfos beginB endB [] s).2 := by
  unfold blockRunFull
  simp only [(block_n_foreign_all_fail txs h (beginB s)).1, blockRunN]

/-- the order of `signersN` matters for what the ante handler accepts, not for the theorem: a transaction with two
privileged messages of two signers passes the ante handler with both keys and is then refused by the first guard -/
example : addSigner (addSigner [] [1]) [2] = [[1], [2]] ∧ addSigner [[1], [2]] [1] = [[1], [2]] := by decide
example : (blockRunFull (σ := Nat) prog C16Sem.msgInfos (· + 1) (· * 2) [] 3).2 = 8 := rfl
example : (txRunN (σ := Nat) prog C16Sem.msgInfos ⟨[.plain [1] (fun s => (.ok, s + 5))], [[1]]⟩ 0) = (.msgs, (.ok, 5)) := by decide
example : (txRunN (σ := Nat) prog C16Sem.msgInfos ⟨[.plain [1] (fun s => (.ok, s + 5)), .plain [2] (fun s => (.err, s + 1))], [[1], [2]]⟩ 0)
    = (.msgs, (.err, 0)) := by decide
example : (txRunN (σ := Nat) prog C16Sem.msgInfos ⟨[.plain [1] (fun s => (.ok, s + 5))], [[2]]⟩ 0).1 = .ante := by decide

/-- obligation over `Gen/C16Dep.lean`: every keeper package the app imports could be read, and every dependency handler
whose request carries an authority — except the listed `MsgExecLegacyContent` — starts (after statements that cannot
touch state) with a rejecting `if` that must fire whenever the request's authority is not the keeper's authority string
(a bare `!=`, or a helper made of reject-only checks one of which is that `!=`) -/
theorem dependency_handlers_guarded :
    C16Dep.unread = [] ∧
    C16Dep.impls.all (fun i => depExceptions.contains i.msg ||
      depProtected depProg i.recv i.method == some .strict) = true := by decide

/-- obligation over the regenerated wiring facts: every dependency keeper constructor called in app/keepers/keepers.go that
has a parameter named `authority` (found in the constructor's declaration in the module cache) is passed `authAddr`
(= `authtypes.NewModuleAddress(govtypes.ModuleName).String()`, `authority_wired_to_gov`) or the governance module address
itself; and every package that contributes a dependency handler is constructed there -/
theorem dependency_authority_wired_to_gov :
    C16Dep.wiring.all (fun w => w.2.2 == "authAddr" || w.2.2 == "authtypes.NewModuleAddress(govtypes.ModuleName)" ||
      w.2.2 == "authtypes.NewModuleAddress(govtypes.ModuleName).String()") = true ∧
    C16Dep.handlerPkgs.all (fun p => C16Dep.wiring.any (fun w => w.1 == p)) = true ∧
    C16Dep.handlerPkgs.length ≥ 10 := by decide

/-- every dependency handler (all but the listed exception), called directly with an authority string other than the
keeper's, returns an error and leaves the state untouched — for every payload, state and whatever the rest of the
handler does.  (That each dependency keeper's authority is the governance module account is the wiring in
app/keepers/keepers.go: `authAddr` / `authtypes.NewModuleAddress(govtypes.ModuleName)`, `authority_wired_to_gov`
for the ones with a module-address argument; the running app's values are monitored.) -/
theorem dependency_handler_rejects {σ : Type} (i : Impl) (hi : i ∈ C16Dep.impls) (hx : depExceptions.contains i.msg = false)
    (env : Env) (auth : Str) (W : World σ) (s : σ) (h : auth ≠ env.gov) :
    exec depProg env auth W 4 i.recv i.method s = (.err, s) := by
  have hk := List.all_eq_true.mp dependency_handlers_guarded.2 i hi
  simp only [hx, Bool.false_or, beq_iff_eq] at hk
  apply depProtected_sound depProg env auth W .strict _ 3 i.recv i.method s hk
  simp only [relK, beq_eq_false_iff_ne, ne_eq]
  exact fun he => h he.symm

/-- obligation over `Gen/C16Dep.lean` (round 4): the listed exception (`MsgExecLegacyContent`) has a STATE-READING guard
program — after statements that cannot touch state it fetches the module account named "gov" from the x/auth state (and
nothing else) and rejects when that account's address string differs (`!=`) from the request's authority -/
theorem dependency_exceptions_state_guarded :
    C16Dep.impls.all (fun i => !depExceptions.contains i.msg ||
      (depStateGuarded depProg "gov" i.recv i.method && depEnsured depProg i.recv i.method == ["gov"])) = true := by decide

/-- the exception handler, called directly with an authority string other than the keeper's, returns an error and
leaves the state untouched — provided the x/auth state holds the governance module account (so fetching it creates
nothing) under the address the keeper's authority spells (both monitored on the running app; the `dcall` lines for
`MsgExecLegacyContent` tie the model) -/
theorem dependency_exception_rejects {σ : Type} (i : Impl) (hi : i ∈ C16Dep.impls) (hx : depExceptions.contains i.msg = true)
    (env : Env) (auth : Str) (W : World σ) (s : σ) (hst : env.stateModAddr "gov" = env.gov)
    (hacc : ∀ s', W.ensureAcc "gov" s' = s') (h : auth ≠ env.gov) :
    exec depProg env auth W 4 i.recv i.method s = (.err, s) := by
  have hk := List.all_eq_true.mp dependency_exceptions_state_guarded i hi
  simp only [hx, Bool.not_true, Bool.false_or, Bool.and_eq_true, beq_iff_eq] at hk
  apply depStateGuarded_sound depProg env auth W "gov" hst h 3 i.recv i.method s hk.1
  intro n hn s'
  rw [hk.2] at hn
  simp only [List.mem_singleton] at hn
  subst hn
  exact hacc s'

/-- EVERY dependency handler (SDK / IBC / ethermint), no exception left to the monitors: called directly with an authority
string other than the governance authority it returns an error and leaves the state untouched -/
theorem every_dependency_handler_rejects {σ : Type} (i : Impl) (hi : i ∈ C16Dep.impls)
    (env : Env) (auth : Str) (W : World σ) (s : σ) (hst : env.stateModAddr "gov" = env.gov)
    (hacc : ∀ s', W.ensureAcc "gov" s' = s') (h : auth ≠ env.gov) :
    exec depProg env auth W 4 i.recv i.method s = (.err, s) := by
  cases hx : depExceptions.contains i.msg with
  | false => exact dependency_handler_rejects i hi hx env auth W s h
  | true => exact dependency_exception_rejects i hi hx env auth W s hst hacc h

/-- why the hypothesis on the x/auth state is needed: were the stored governance account a different address, the
state-reading guard would let THAT address through (the guard follows the state, not the keeper's configuration) -/
theorem state_guard_follows_state :
    ∃ (env : Env) (auth : Str), auth ≠ env.gov ∧
      execBody (σ := Nat) [] env auth { work := fun _ _ _ s => .ret .ok (s + 1), routeOk := true, pick := 0, unknown := fun s => (.err, s) }
        "T" "m" (fun _ _ s => (.err, s))
        [.ensureModuleAcc "gov" "", .rejectIf (.ne (.moduleAccInState "gov") .reqAuthority), .work 2 ""] 0 = (.ok, 1) := by
  refine ⟨
    { cfg := { pref := [], minLen := 0, maxLen := 0 }, gov := [1], modAddr := fun _ => [], field := fun _ => [],
      otherS := fun _ => [], otherB := fun _ => false, callB := fun _ => false, otherH := fun _ => none,
      listNonEmpty := fun _ => false, payloadGood := true, clob := fun _ => none, stateModAddr := fun _ => [2] }, [2], ?_, ?_⟩
  · decide
  · rfl

/-- the one-sided procedure agrees with the exact one on every fx-core guard: whatever `guardCmp` classifies, `mustReject`
classifies the same way (so the dependency theorem is not a weaker reading of the same shapes) -/
theorem must_reject_extends_guard_cmp :
    C16Sem.impls.all (fun i => match firstGuard i.body with
      | some g => guardCmp C16Sem.helpers g == mustReject C16Sem.helpers g
      | none => true) = true := by decide

/-- the guard is not vacuous: with the keeper's authority itself a guarded body runs its rest -/
theorem gov_authority_passes_guard {σ : Type} (i : Impl) (hi : i ∈ C16Sem.impls) (g : BExpr) (rest : List Stmt)
    (hb : i.body = .rejectIf g :: rest) (env : Env) (W : World σ) (call : String → String → σ → Res × σ) (s : σ) :
    execBody C16Sem.helpers env env.gov W i.recv i.method call i.body s =
      execBody C16Sem.helpers env env.gov W i.recv i.method call rest s := by
  obtain ⟨c, hc, _⟩ := guard_rejects_iff i hi g (by rw [hb]; rfl)
  rw [hb]
  apply guard_passes C16Sem.helpers env env.gov W i.recv i.method call g rest c s hc
  cases c <;> simp [relK, foldEq]

/-- (d) why the guard has to come first: a body that does work before its guard (an early return, a write) is NOT
protected — there is a world in which a foreign authority changes the state and gets success -/
theorem work_before_guard_unprotected :
    ∃ (W : World Nat) (env : Env) (auth : Str), relK env.cfg .strict env.gov auth = false ∧
      execBody [] env auth W "T" "m" (fun _ _ s => (.err, s))
        [.work 0 "if <payload empty> { delete; return ok }", .rejectIf (.ne .keeperAuthority .reqAuthority)] 0 = (.ok, 1) := by
  refine ⟨{ work := fun _ _ _ s => .ret .ok (s + 1), routeOk := true, pick := 0, unknown := fun s => (.err, s) },
    { cfg := { pref := [], minLen := 0, maxLen := 0 }, gov := [1], modAddr := fun _ => [], field := fun _ => [],
      otherS := fun _ => [], otherB := fun _ => false, callB := fun _ => false, otherH := fun _ => none,
      listNonEmpty := fun _ => false, payloadGood := true, clob := fun _ => none }, [2], ?_, ?_⟩
  · decide
  · rfl

/-- (d) a check that only ASSIGNS a named error result is not a rejection: when a later loop overwrites that result (nil
after a well-formed entry) the helper reports no error for EVERY authority — exactly when the list is non-empty and
well-formed; with an empty list the assigned error survives -/
theorem named_result_overwritten_is_no_guard (env : Env) (auth : Str) (c : BExpr) (f : String) :
    helperVal env auth false [.setIf c true, .clobberLoop f, .retVar] =
      if env.listNonEmpty f then !env.payloadGood else evalB0 env auth c := by
  cases h1 : env.listNonEmpty f <;> cases h2 : env.payloadGood <;> simp [helperVal, h1, h2] <;>
    cases evalB0 env auth c <;> rfl

/-- (d) at message level every rejection — by a guard, by work that fails after writing, by a later check — leaves the
stores as they were, because the message runs on a branch that is written back only on success -/
theorem rejected_message_leaves_stores_unchanged (f : Stores → Res × Stores) (S : Stores)
    (h : (viaCache f S).1 = .err) : (viaCache f S).2 = S := viaCache_err f S h

/-- (d) for EVERY handler kind — guard first, work before the guard, early returns, delegation, an unresolved method,
whatever the world does — a routed message that ends in an error leaves the state exactly as it was, because the router
runs it on a branch that is only written back on success -/
theorem any_handler_rejected_state_unchanged {σ : Type} (P : Program) (infos : List MsgInfo) (env : Env) (auth : Str)
    (W : World σ) (payloadOk : Bool) (T m msg : String) (s : σ)
    (h : (onBranch (routed P infos env auth W payloadOk T m msg) s).1 = .err) :
    (onBranch (routed P infos env auth W payloadOk T m msg) s).2 = s := by
  unfold onBranch at h ⊢
  cases hf : routed P infos env auth W payloadOk T m msg s with
  | mk r s' => cases r <;> simp [hf] at h ⊢

/-! ## (c) the raw store update in full -/

/-- the regenerated loop program (statements of the handler's `range req.UpdateStores` loop in SOURCE ORDER) computes,
for all entry lists and all stores, sequential compare-and-set: every entry is compared with the value current when it
is reached (a check-all-then-write-all split, or a write before the compare, makes this theorem stop checking) -/
theorem update_store_prog_refines_cas (known : List String) (es : List Entry) (S : Stores) :
    runProg known C16Sem.updateStoreProg es S = casAll known es S := by
  have hp : ∃ v, C16Sem.updateStoreProg = [[.lookupSpace, .get v, .failUnlessEq v "OldValue", .set "Value"]] :=
    ⟨_, rfl⟩
  obtain ⟨v, hv⟩ := hp
  rw [hv, runProg_single, runLoop_canonical]

/-- the handler the loop belongs to starts with the strict authority guard (so `updateStoreHandler`'s `auth ≠ gov` IS the
regenerated guard) and then runs the loop as its first piece of work -/
theorem update_store_guard_strict :
    C16Sem.impls.any (fun i => i.msg == "x/gov/types.MsgUpdateStore" &&
      (match firstGuard i.body with | some g => guardCmp C16Sem.helpers g == some .strict | none => false) &&
      (match i.body with | .rejectIf _ :: .nop _ :: .work _ _ :: _ => true | .rejectIf _ :: .work _ _ :: _ => true | _ => false)) = true := by
  decide

/-- obligation: the raw-store-update handler is `guard; no-op; <loop>; <return ok>` -/
theorem update_store_body_shape :
    C16Sem.impls.any (fun i => i.msg == "x/gov/types.MsgUpdateStore" &&
      (match i.body with
        | [.rejectIf g, .nop _, .work a _, .work b _] => guardCmp C16Sem.helpers g == some .strict && a != b
        | _ => false)) = true := by decide

/-- the handler model of the semantic layer (`execBody` over the regenerated statements), with the loop statement
interpreted by the regenerated loop program and the last statement returning success, IS `updateStoreHandler` -/
theorem update_store_exec_is_handler (i : Impl) (g : BExpr) (n sa sb : String) (a b : Nat)
    (hb : i.body = [.rejectIf g, .nop n, .work a sa, .work b sb]) (hab : a ≠ b)
    (hg : guardCmp C16Sem.helpers g = some .strict)
    (known : List String) (es : List Entry) (env : Env) (auth : Str) (W : World Stores)
    (hW : ∀ T m id S, W.work T m id S =
      if id = a then (match runProg known C16Sem.updateStoreProg es S with
        | (true, S') => .cont S'
        | (false, S') => .ret .err S')
      else .ret .ok S)
    (call : String → String → Stores → Res × Stores) (S : Stores) :
    execBody C16Sem.helpers env auth W i.recv i.method call i.body S = updateStoreHandler known env.gov auth es S := by
  rw [hb]
  unfold updateStoreHandler
  have hgs := guardCmp_sound C16Sem.helpers env auth g .strict hg
  by_cases ha : auth = env.gov
  · have hrel : relK env.cfg .strict env.gov auth = true := by simp [relK, ha]
    rw [hrel] at hgs
    rw [if_neg (by simp [ha])]
    simp only [execBody, hgs, Bool.not_true, Bool.false_eq_true, ↓reduceIte, hW]
    cases hr : runProg known C16Sem.updateStoreProg es S with
    | mk ok S' =>
      cases ok
      · simp
      · simp [Ne.symm hab]
  · have hrel : relK env.cfg .strict env.gov auth = false := by
      simp only [relK, beq_eq_false_iff_ne, ne_eq]; exact fun h => ha h.symm
    simp [execBody, hgs, hrel, ha]

/-- it succeeds iff at EVERY position the store space is known and the stated old value equals the value current there,
i.e. after the writes of all earlier entries (same key twice included) -/
theorem update_store_ok_iff (known : List String) (es : List Entry) (S : Stores) :
    (runProg known C16Sem.updateStoreProg es S).1 = true ↔
      ∀ (pre : List Entry) (e : Entry) (post : List Entry), es = pre ++ e :: post →
        known.contains e.space = true ∧ sGet (writes pre S) e.sk = e.old := by
  rw [update_store_prog_refines_cas]; exact casAll_ok_iff known es S

/-- on success the stores are exactly the writes of all entries in order -/
theorem update_store_ok_state (known : List String) (es : List Entry) (S : Stores)
    (h : (runProg known C16Sem.updateStoreProg es S).1 = true) :
    (runProg known C16Sem.updateStoreProg es S).2 = writes es S := by
  rw [update_store_prog_refines_cas] at h ⊢; exact casAll_ok_state known es S h

/-- on failure the handler's own context holds the writes of the entries before the first failing one (so the handler
alone is NOT all-or-nothing; the enclosing branch is what makes it so) -/
theorem update_store_err_partial (known : List String) (es : List Entry) (S : Stores)
    (h : (runProg known C16Sem.updateStoreProg es S).1 = false) :
    ∃ (pre : List Entry) (e : Entry) (post : List Entry), es = pre ++ e :: post ∧
      (runProg known C16Sem.updateStoreProg es S).2 = writes pre S ∧
      (known.contains e.space = false ∨ sGet (writes pre S) e.sk ≠ e.old) := by
  rw [update_store_prog_refines_cas] at h ⊢
  obtain ⟨pre, e, post, h1, h2, _, h4⟩ := casAll_err_state known es S h
  exact ⟨pre, e, post, h1, h2, h4⟩

/-- after a successful update every key holds the new value of the LAST entry naming it, every other key what it held -/
theorem update_store_last_write_wins (known : List String) (es : List Entry) (S : Stores) (k : SKey)
    (h : (runProg known C16Sem.updateStoreProg es S).1 = true) :
    sGet (runProg known C16Sem.updateStoreProg es S).2 k =
      match es.reverse.find? (fun e => decide (e.sk = k)) with
      | some e => e.new
      | none => sGet S k := by
  rw [update_store_ok_state known es S h]; exact sGet_writes es S k

/-- the same key twice: the second entry must state the FIRST entry's new value as its old value -/
theorem update_store_same_key_twice (known : List String) (e1 e2 : Entry) (S : Stores) (hk : e2.sk = e1.sk)
    (hs : known.contains e1.space = true) :
    (runProg known C16Sem.updateStoreProg [e1, e2] S).1 = true ↔ sGet S e1.sk = e1.old ∧ e2.old = e1.new := by
  rw [update_store_ok_iff]
  have hs2 : known.contains e2.space = true := by
    have : e2.space = e1.space := congrArg Prod.fst hk
    rw [this]; exact hs
  constructor
  · intro h
    have a := h [] e1 [e2] rfl
    have b := h [e1] e2 [] rfl
    refine ⟨by simpa [writes] using a.2, ?_⟩
    have := b.2
    simp only [writes, List.foldl_cons, List.foldl_nil, hk, sGet_sSet_same] at this
    exact this.symm
  · intro ⟨ha, hb⟩ pre e post hsplit
    match pre, hsplit with
    | [], hsplit =>
      simp only [List.nil_append, List.cons.injEq] at hsplit
      obtain ⟨rfl, _⟩ := hsplit
      exact ⟨hs, by simpa [writes] using ha⟩
    | [p], hsplit =>
      simp only [List.cons_append, List.nil_append, List.cons.injEq] at hsplit
      obtain ⟨rfl, rfl, _⟩ := hsplit
      refine ⟨hs2, ?_⟩
      simp only [writes, List.foldl_cons, List.foldl_nil, hk, sGet_sSet_same]
      exact hb.symm
    | p :: q :: rest, hsplit =>
      simp only [List.cons_append, List.cons.injEq] at hsplit
      obtain ⟨_, _, h3⟩ := hsplit
      cases rest <;> simp at h3

/-- message level (handler inside the branch): applied iff the authority is the keeper's authority and the whole list is
compare-and-set consistent; otherwise NOTHING changes in any store -/
theorem update_store_msg (known : List String) (gov auth : Str) (es : List Entry) (S : Stores) :
    updateStoreMsg known gov auth es S =
      if auth = gov ∧ (casAll known es S).1 = true then (.ok, writes es S) else (.err, S) := by
  unfold updateStoreMsg viaCache updateStoreHandler
  by_cases ha : auth = gov
  · simp only [ha, ne_eq, not_true_eq_false, ↓reduceIte, true_and]
    rw [update_store_prog_refines_cas]
    cases hc : casAll known es S with
    | mk b S' =>
      cases b
      · simp
      · have := casAll_ok_state known es S (by rw [hc])
        rw [hc] at this
        simp [← this]
  · simp [ha]

/-- a wrong authority changes nothing even in the handler's own context -/
theorem update_store_handler_unauthorized (known : List String) (gov auth : Str) (es : List Entry) (S : Stores)
    (h : auth ≠ gov) : updateStoreHandler known gov auth es S = (.err, S) := by
  simp [updateStoreHandler, h]

/-- a proposal (several messages on one branch, written back only if all succeed) is all-or-nothing -/
theorem proposal_atomic (fs : List (Stores → Res × Stores)) (S : Stores) (h : (runProposal fs S).1 = .err) :
    (runProposal fs S).2 = S := viaCache_err _ S h

/-- the end-blocker's execution of a passed proposal, AS REGENERATED from x/gov/abci.go (handlers on the cache context,
`break` on the first error, `writeCache()` only under `err == nil`), is the all-or-nothing `runProposal` — for all
message lists and stores -/
theorem proposal_exec_is_atomic (fs : List (Stores → Res × Stores)) (S : Stores) :
    runProposalWith C16Sem.proposalExec fs S = runProposal fs S := by
  have hp : C16Sem.proposalExec = ⟨true, true, true⟩ := by decide
  rw [hp]
  unfold runProposalWith runProposal viaCache
  simp only [loopMsgs_break fs S .ok rfl]
  cases h : runMsgs fs S with
  | mk r X => cases r <;> simp

theorem proposal_ok_is_sequence (fs : List (Stores → Res × Stores)) (S : Stores) (h : (runProposal fs S).1 = .ok) :
    runProposal fs S = runMsgs fs S := viaCache_ok _ S h

-- non-vacuity: the table is non-empty and contains each shape the theorems speak about
example : handlers.length ≥ 11 := by decide
example : handlers.any (fun h => match h.shape with | .forward _ => true | _ => false) = true := by decide
example : ∃ gov auth : List Char, lowerAscii gov ≠ lowerAscii auth := ⟨['a'], ['b'], by decide⟩
example : updateStore ['g'] ['g'] [⟨true, [1], [], [7]⟩] [] = (.ok, [([1], [7])]) := by decide

example : C16Dep.impls.length ≥ 15 := by decide
example : C16Dep.impls.any (fun i => depExceptions.contains i.msg) = true := by decide
example : ∃ env : Env, env.stateModAddr "gov" = env.gov :=
  ⟨{ cfg := { pref := [], minLen := 0, maxLen := 0 }, gov := [1], modAddr := fun _ => [], field := fun _ => [],
     otherS := fun _ => [], otherB := fun _ => false, callB := fun _ => false, otherH := fun _ => none,
     listNonEmpty := fun _ => false, payloadGood := true, clob := fun _ => none, stateModAddr := fun _ => [1] }, rfl⟩
example : depProtected depProg "github.com/cosmos/cosmos-sdk/x/distribution/keeper.msgServer" "CommunityPoolSpend" = some .strict := by decide
example : C16Sem.impls.length ≥ 11 := by decide
example : ∃ gov auth : Str, foldEq gov auth = false := ⟨[103], [48, 120], by decide⟩
-- the governance module account of a chain with the `cosmos` prefix decodes, and other accounts exist
example : (accAddress { pref := strOf "cosmos", minLen := 1, maxLen := 255 } (strOf "cosmos10d07y265gmmuvt4z0w9aw880jnsr700j6zn9kn")).isSome = true := by decide +kernel
example : lowerAsciiStr (strOf "cosmos10d07y265gmmuvt4z0w9aw880jnsr700j6zn9kn") = true := by decide
example : needsRoute prog "x/crosschain/keeper.msgServer" "UpdateParams" = true := by decide
example : needsRoute prog "x/crosschain/keeper.MsgServer" "UpdateParams" = false := by decide
example : C16Sem.impls.any (fun i => protectedAt prog 4 i.recv i.method == some .fold) = true := by decide
example : protectedAt prog 4 "x/crosschain/keeper.msgServer" "UpdateParams" = some .strict := by decide
example : protectedAt prog 4 "x/evm/keeper.Keeper" "CallContract" = some .fold := by decide
example : (runProg ["erc20"] C16Sem.updateStoreProg [⟨"erc20", [1], [], [7]⟩, ⟨"erc20", [1], [7], [8]⟩] []).1 = true := by decide
example : (runProg ["erc20"] C16Sem.updateStoreProg [⟨"erc20", [1], [], [7]⟩, ⟨"erc20", [1], [], [8]⟩] []) =
    (false, [(("erc20", [1]), [7])]) := by decide

end FxVerif.Props.C16
