import FxVerif.Model.C16
/-!
# C16 — privileged messages take effect only when issued by the governance authority

Property theorems only.  `handlers` is regenerated from `/repo` on every run; if a handler loses its guard, gains a
statement before it, or a new authority-carrying handler appears without one, `all_handlers_guarded` stops checking.
-/
namespace FxVerif.Props.C16
open FxVerif.Gen.C16 FxVerif.Model.C16

/-- obligation over the regenerated table: every handler is guarded, or forwards to a guarded one -/
theorem all_handlers_guarded : handlers.all (fun h => shapeOk handlers h.shape) = true := by decide

/-- obligation over the regenerated wiring facts: the authority every fx-core keeper (and the ethermint EVM / fee-market
keeper) compares against is the governance module account, as constructed in app/keepers/keepers.go -/
theorem authority_wired_to_gov :
    authAddrDef = "authtypes.NewModuleAddress(govtypes.ModuleName).String()" ∧
    wiring.length ≥ 10 ∧
    wiring.all (fun w => w.2 == "authAddr" || w.2 == "authtypes.NewModuleAddress(govtypes.ModuleName)") = true := by
  decide

/-- a protected shape rejects every authority that is not the governance account (even modulo ASCII case), whatever the
rest of the handler does, and leaves the state exactly as it was -/
theorem protected_shape_rejects {σ : Type} (tbl : List Handler) (sh : Shape) (gov auth : List Char) (routeOk : Bool)
    (body : σ → Res × σ) (s : σ) (hok : shapeOk tbl sh = true)
    (hne : lowerAscii gov ≠ lowerAscii auth) :
    run tbl sh gov auth routeOk body s = (.err, s) := by
  have hg : ∀ c, guardPasses c gov auth = false := by
    intro c
    cases c with
    | strict =>
      simp only [guardPasses, beq_eq_false_iff_ne, ne_eq]
      intro h; exact hne (by rw [h])
    | fold => simpa [guardPasses] using hne
  cases sh with
  | guard c => simp [run, hg c]
  | unguarded => simp [shapeOk] at hok
  | forward m =>
    simp only [shapeOk] at hok
    unfold run
    cases routeOk with
    | false => simp
    | true =>
      simp only [Bool.not_true, Bool.false_eq_true, ↓reduceIte]
      cases ht : target tbl m with
      | none => simp [ht] at hok
      | some t =>
        simp only [ht] at hok
        cases hs : t.shape with
        | guard c => simp [hs, hg c]
        | unguarded => simp [hs] at hok
        | forward _ => simp [hs] at hok

/-- C16, first sentence: for every authority-carrying handler of fx-core (the regenerated table), any authority other
than the governance account is rejected and the state is unchanged — for all payloads (`body` arbitrary), all states -/
theorem unauthorized_rejected {σ : Type} (h : Handler) (hmem : h ∈ handlers) (gov auth : List Char) (routeOk : Bool)
    (body : σ → Res × σ) (s : σ) (hne : lowerAscii gov ≠ lowerAscii auth) :
    run handlers h.shape gov auth routeOk body s = (.err, s) := by
  have hall := all_handlers_guarded
  rw [List.all_eq_true] at hall
  exact protected_shape_rejects handlers h.shape gov auth routeOk body s (hall h hmem) hne

/-- for the strictly comparing handlers, even a case variant of the governance address is rejected -/
theorem strict_guard_exact {σ : Type} (tbl : List Handler) (gov auth : List Char) (routeOk : Bool)
    (body : σ → Res × σ) (s : σ) (hne : gov ≠ auth) :
    run tbl (.guard .strict) gov auth routeOk body s = (.err, s) := by
  simp [run, guardPasses, hne]

/-- the guard lets the governance authority through (the check is not vacuous: the privileged path is reachable) -/
theorem gov_authority_runs_body {σ : Type} (tbl : List Handler) (c : Cmp) (gov : List Char) (routeOk : Bool)
    (body : σ → Res × σ) (s : σ) : run tbl (.guard c) gov gov routeOk body s = body s := by
  cases c <;> simp [run, guardPasses]

/-- raw store update: with a wrong authority nothing changes -/
theorem update_store_needs_authority (gov auth : List Char) (us : List Upd) (s : KV) (hne : gov ≠ auth) :
    updateStore gov auth us s = (.err, s) := by
  simp [updateStore, hne]

/-- raw store update is compare-and-set: it succeeds only if every entry's stated old value equals the value current at
the moment that entry is applied; the first entry sees the original store -/
theorem update_store_cas_head (gov : List Char) (u : Upd) (us : List Upd) (s : KV)
    (hold : kvGet s u.key ≠ u.old) : updateStore gov gov (u :: us) s = (.err, s) := by
  simp only [updateStore, bne_self_eq_false, Bool.false_eq_true, ↓reduceIte, applyUpds]
  by_cases hsp : u.spaceOk
  · simp [hsp, hold]
  · simp [hsp]

/-- all-or-nothing: a failing entry anywhere in the list leaves the whole store unchanged -/
theorem update_store_atomic (gov auth : List Char) (us : List Upd) (s : KV) :
    (updateStore gov auth us s).1 = .err → (updateStore gov auth us s).2 = s := by
  unfold updateStore
  split
  · intro _; rfl
  · split <;> simp

/-- a single successful update writes exactly the new value at exactly that key -/
theorem update_store_writes (gov : List Char) (u : Upd) (s : KV) (hsp : u.spaceOk = true)
    (hold : kvGet s u.key = u.old) :
    updateStore gov gov [u] s = (.ok, kvSet s u.key u.new) := by
  simp [updateStore, applyUpds, hsp, hold]

-- non-vacuity: the table is non-empty and contains each shape the theorems speak about
example : handlers.length ≥ 11 := by decide
example : handlers.any (fun h => match h.shape with | .forward _ => true | _ => false) = true := by decide
example : ∃ gov auth : List Char, lowerAscii gov ≠ lowerAscii auth := ⟨['a'], ['b'], by decide⟩
example : updateStore ['g'] ['g'] [⟨true, [1], [], [7]⟩] [] = (.ok, [([1], [7])]) := by decide

end FxVerif.Props.C16
