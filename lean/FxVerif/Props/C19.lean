import FxVerif.Model.C19
import FxVerif.Proofs.C19
/-!
# C19 — IBC transfer middleware: inbound credit or error, memo-call sender, refund exactly once, relation removed

Property theorems only.  `step = stepWith genCfg` and `genCfg` is computed from `FxVerif.Gen.C19`, which is regenerated
from `/repo` on every run; the facts a theorem relies on are discharged by `decide` *inside* its proof, so a change of
the corresponding source shape stops the theorem from checking.

`relation_removed_always` needs `ackSuccessDeletePrefix = relationSetPrefix`: it does NOT check on the tree as it
stands (`AfterIBCAckSuccess` deletes under prefix 7, the record lives under prefix 4) and checks on the repaired tree.
-/
namespace FxVerif.Props.C19
open FxVerif.Model.C19 FxVerif.Proofs.C19

/-! ## 1. inbound transfer: exact credit in ERC-20 form, or error acknowledgement and nothing changes -/

/-- For every state and every inbound packet addressed to a hex account: either the acknowledgement is a success and
* bridged token `B`: the receiver's ERC-20 balance grew by exactly `amt`, nobody else's ERC-20 balance changed, native
  balances are untouched, and the receiver holds neither more voucher nor more base coin than before (for a receiver
  other than the two module accounts, which hold the locked voucher / escrowed base coin);
* native coin `F`: the receiver's balance grew by exactly `amt` (receiver other than the channel escrow account, from
  which the coins come), ERC-20 / voucher / base balances untouched;
* the token is not an unregistered voucher, the amount is positive, and the packet bookkeeping is untouched;
or the acknowledgement is an error and the state is exactly the old one.
The fact `recvErrorReturnsErrorAck` (keeper error ⇒ error acknowledgement) and the call order are taken from the generated facts. -/
theorem recv_credit_or_error (s : State) (ch : Ch) (t : Tok) (to : Addr) (amt : Nat) (m : Memo) :
    let r := step s (.recv ch t .hex to amt m)
    (r.2.isRecv true ∧ t ≠ .X ∧ 0 < amt ∧ r.1.ctl = s.ctl ∧
      (t = .B →
        sget r.1.bal.erc (to, ch) = sget s.bal.erc (to, ch) + amt ∧
        (∀ k, k ≠ (to, ch) → sget r.1.bal.erc k = sget s.bal.erc k) ∧
        r.1.bal.fx = s.bal.fx ∧
        (to ≠ transferMod → sget r.1.bal.vch (to, Tok.B, ch) = sget s.bal.vch (to, Tok.B, ch)) ∧
        (to ≠ erc20Mod → sget r.1.bal.base (to, ch) = sget s.bal.base (to, ch))) ∧
      (t = .F →
        (to ≠ escrow ch → sget r.1.bal.fx to = sget s.bal.fx to + amt) ∧
        r.1.bal.erc = s.bal.erc ∧ r.1.bal.vch = s.bal.vch ∧ r.1.bal.base = s.bal.base))
    ∨ (r.2.isRecv false ∧ r.1 = s) := by
  have hD : genCfg.recvDiscards = true := by decide
  have hO : genCfg.recvOrder = true := by decide
  exact recvWith_credit_or_error genCfg hD hO s ch t to amt m

/-- a non-native token sent to a bech32 receiver is always answered with an error acknowledgement, state unchanged -/
theorem recv_bech_nonnative_error (s : State) (ch : Ch) (t : Tok) (to : Addr) (amt : Nat) (m : Memo) (ht : t ≠ .F) :
    let r := step s (.recv ch t .bech to amt m)
    r.2.isRecv false ∧ r.1 = s := by
  have hD : genCfg.recvDiscards = true := by decide
  have hO : genCfg.recvOrder = true := by decide
  exact recvWith_bech_error genCfg hD hO s ch t to amt m ht

/-- a reverting memo call makes the whole receive an error with nothing credited; a succeeding one is counted once -/
theorem recv_memo_call (s : State) (ch : Ch) (t : Tok) (k : RKind) (to : Addr) (amt : Nat) :
    (let r := step s (.recv ch t k to amt .callrev); r.2.isRecv false ∧ r.1 = s) ∧
    (let r := step s (.recv ch t k to amt .callok);
      (r.2.isRecv true ∧ r.1.bal.marker = s.bal.marker + 1) ∨ (r.2.isRecv false ∧ r.1 = s)) := by
  have hD : genCfg.recvDiscards = true := by decide
  have hO : genCfg.recvOrder = true := by decide
  exact recvWith_memo genCfg hD hO s ch t k to amt

/-! ## 2. the memo-call sender cannot be a local account -/

/-- the generated format string, argument order and hash arguments give `H (port ++ "/" ++ channel) sender` -/
theorem intermediate_sender_shape {α : Type} (H : List Char → List Char → α) (port channel sender : List Char) :
    intermediateSender H port channel sender = H (port ++ '/' :: channel) sender := by
  have hf : FxVerif.Gen.C19.intermediateSenderFmt.toList = ['%', 's', '/', '%', 's'] := by decide
  have ha : FxVerif.Gen.C19.intermediateSenderFmtArgs = ["sourcePort", "sourceChannel"] := by decide
  have hh : FxVerif.Gen.C19.intermediateSenderHashArgs = ["prefix", "[]byte(sender)"] := by decide
  simp [intermediateSender, senderPrefix, hf, ha, hh, sprintf, argVal]

/-- (a) pre-image injectivity: IBC identifiers contain no `/`, hence the hashed pair (prefix, sender) determines port,
channel and original sender -/
theorem intermediate_sender_preimage_injective (port channel sender port' channel' sender' : List Char)
    (hp : '/' ∉ port) (hp' : '/' ∉ port')
    (h : (senderPrefix port channel, sender) = (senderPrefix port' channel', sender')) :
    port = port' ∧ channel = channel' ∧ sender = sender' := by
  have hshape : ∀ p c : List Char, senderPrefix p c = p ++ '/' :: c := by
    intro p c
    have := intermediate_sender_shape (fun x _ => x) p c []
    simpa [intermediateSender, argVal, show FxVerif.Gen.C19.intermediateSenderHashArgs = ["prefix", "[]byte(sender)"] by decide]
      using this
  simp only [Prod.mk.injEq, hshape] at h
  have := prefix_inj port port' channel channel' hp hp' h.1
  exact ⟨this.1, this.2, h.2⟩

/-- (b) `H` is `address.Hash` (SHA-256 of SHA-256(typ) ++ key, truncated to 20 bytes), `acct` the derivation of a local
account address from a public key.  **Both hypotheses are cryptographic assumptions and are NOT proved here**:
`hInj` — collision resistance of `H`, idealised as injectivity; `hSep` — no cross-collision between `H` and
public-key-derived addresses.  Under them: memo-call senders derived from different (port, channel, original sender)
differ, and no derived sender equals a local account, so a memo call can never act with a local account's authority. -/
theorem intermediate_sender_not_local {α κ : Type} (H : List Char → List Char → α) (acct : κ → α)
    (hInj : ∀ x y x' y', H x y = H x' y' → x = x' ∧ y = y')
    (hSep : ∀ x y pk, H x y ≠ acct pk)
    (port channel sender : List Char) (hp : '/' ∉ port) :
    (∀ port' channel' sender', '/' ∉ port' →
        intermediateSender H port channel sender = intermediateSender H port' channel' sender' →
        port = port' ∧ channel = channel' ∧ sender = sender') ∧
    (∀ pk, intermediateSender H port channel sender ≠ acct pk) := by
  constructor
  · intro port' channel' sender' hp' h
    rw [intermediate_sender_shape, intermediate_sender_shape] at h
    obtain ⟨h1, h2⟩ := hInj _ _ _ _ h
    have := prefix_inj port port' channel channel' hp hp' h1
    exact ⟨this.1, this.2, h2⟩
  · intro pk
    rw [intermediate_sender_shape]
    exact hSep _ _ pk

-- the two hypotheses are jointly satisfiable (tagged disjoint union as the ideal hash)
example : ∃ (H : List Char → List Char → (List Char × List Char) ⊕ Nat) (acct : Nat → (List Char × List Char) ⊕ Nat),
    (∀ x y x' y', H x y = H x' y' → x = x' ∧ y = y') ∧ (∀ x y pk, H x y ≠ acct pk) :=
  ⟨fun x y => .inl (x, y), fun pk => .inr pk, by intro x y x' y' h; simpa using h, by intro x y pk h; cases h⟩

-- without the no-slash rule the pre-image is ambiguous: the hypothesis is needed
example : ['a', '/', 'b'] ++ '/' :: ['c'] = ['a'] ++ '/' :: ['b', '/', 'c'] := by decide

/-! ## 3. refunds: exactly once, to the sender, in ERC-20 form -/

theorem genCfg_sound : Sound genCfg := ⟨by decide, by decide, by decide⟩

/-- For the state reached from `init` by ANY list of operations:
* the refund log has no two entries for the same (channel, sequence);
* a refunded transfer is no longer committed and was never acknowledged successfully (and vice versa);
* a refund of a transfer started from the EVM names that transfer's sender, token and amount, and for a bridged
  token it was made in ERC-20 form. -/
theorem refund_exactly_once (ops : List Op) :
    let c := (run init ops).ctl
    (c.refundLog.map RefundRec.key).Nodup ∧
    (∀ r ∈ c.refundLog, (∀ x ∈ c.commits, x.1 ≠ r.key) ∧ r.key ∉ c.ackedOk) ∧
    (∀ k ∈ c.ackedOk, ∀ r ∈ c.refundLog, r.key ≠ k) ∧
    (∀ r ∈ c.refundLog, ∀ e ∈ c.evmSent, r.key = e.key →
      r.sender = e.sender ∧ r.tok = e.tok ∧ r.amt = e.amt ∧ (e.tok = .B → r.erc20Form = true)) := by
  have h := run_inv genCfg genCfg_sound ops init inv_init
  refine ⟨h.nodup, fun r hr => ⟨h.rNC r hr, h.rNA r hr⟩, ?_, h.rE⟩
  intro k hk r hr he
  exact h.rNA r hr (he ▸ hk)

/-- The refund is real, not only logged: in any reachable state, an error acknowledgement or a timeout of an in-flight
EVM-originated transfer of a bridged token raises the sender's ERC-20 balance by exactly the sent amount, leaves him
no extra voucher and no extra base coin (sender other than the module accounts), and appends exactly one log entry. -/
theorem evm_refund_credits_erc20 (ops : List Op) (e : SentRec) (mode : Mode) (hm : mode ≠ .ackOk)
    (he : e ∈ (run init ops).ctl.evmSent) (hB : e.tok = .B)
    (hc : ∃ x ∈ (run init ops).ctl.commits, x.1 = e.key) :
    let s := run init ops
    let r := step s (.settle e.ch e.seq mode)
    r.2.isDone ∧
    sget r.1.bal.erc (e.sender, e.ch) = sget s.bal.erc (e.sender, e.ch) + e.amt ∧
    (e.sender ≠ transferMod → sget r.1.bal.vch (e.sender, Tok.B, e.ch) = sget s.bal.vch (e.sender, Tok.B, e.ch)) ∧
    (e.sender ≠ erc20Mod → sget r.1.bal.base (e.sender, e.ch) = sget s.bal.base (e.sender, e.ch)) ∧
    r.1.ctl.refundLog = ⟨e.ch, e.seq, e.sender, .B, e.amt, true⟩ :: s.ctl.refundLog := by
  have h := run_inv genCfg genCfg_sound ops init inv_init
  have hE : genCfg.ackErrRefunds = true := by decide
  have hT : genCfg.timeoutRefunds = true := by decide
  exact settle_refund_credits genCfg genCfg_sound hE hT (run init ops) e mode hm h he hB hc

/-! ## 4. the relation record is removed on success, failure and timeout alike -/

/-- error acknowledgement and timeout (holds on the tree as it stands and on the repaired tree): for every state and
every processed (`done`) error ack / timeout of (ch, seq), the relation record of (ch, seq) is gone afterwards -/
theorem relation_removed_on_failure_partial (s : State) (ch : Ch) (seq : Seq) (mode : Mode) (hm : mode ≠ .ackOk) :
    let r := step s (.settle ch seq mode)
    r.2.isDone → (ch, seq) ∉ r.1.ctl.rel := by
  have hE : genCfg.ackErrRefunds = true := by decide
  have hT : genCfg.timeoutRefunds = true := by decide
  have hS : genCfg.refundSees = true := by decide
  exact settle_removes_failure genCfg hE hT hS s ch seq mode hm

/-- C19, last clause, full strength: for every state (in particular every state reachable from `init`) and every
processed success ack, error ack or timeout of (ch, seq), the relation record is gone afterwards.
Needs the generated fact `ackSuccessDeletePrefix = relationSetPrefix` — false on the unrepaired tree. -/
theorem relation_removed_always (s : State) (ch : Ch) (seq : Seq) (mode : Mode) :
    let r := step s (.settle ch seq mode)
    r.2.isDone → (ch, seq) ∉ r.1.ctl.rel := by
  have hfix : FxVerif.Gen.C19.ackSuccessDeletePrefix = FxVerif.Gen.C19.relationSetPrefix := by decide
  have hcall : genCfg.ackOkCallsAfter = true := by decide
  have hOk : genCfg.ackOkRemoves = true := by
    simp only [Cfg.ackOkRemoves, hcall, Bool.true_and, beq_iff_eq]
    exact hfix
  have hE : genCfg.ackErrRefunds = true := by decide
  have hT : genCfg.timeoutRefunds = true := by decide
  have hS : genCfg.refundSees = true := by decide
  exact settle_removes genCfg hOk hE hT hS s ch seq mode

/-- the same over reachable states, as the property is worded -/
theorem relation_removed_always_reachable (ops : List Op) (ch : Ch) (seq : Seq) (mode : Mode) :
    let r := step (run init ops) (.settle ch seq mode)
    r.2.isDone → (ch, seq) ∉ r.1.ctl.rel :=
  relation_removed_always (run init ops) ch seq mode

/-- the generated configuration is the reference configuration at the generated success-ack delete prefix -/
theorem genCfg_is_ref : genCfg = refCfg FxVerif.Gen.C19.ackSuccessDeletePrefix := by decide

/-- witness (tree independent, prefix as an explicit parameter): with the success-ack delete under prefix 7 the record
of a successfully acknowledged EVM-originated transfer is still there — and stays there for ever, see below -/
theorem success_ack_keeps_relation_witness :
    let ops := [Op.fund 5 .B 0 100, .send 0 5 .B 40, .settle 0 1 .ackOk]
    (0, 1) ∈ (runWith (refCfg 7) init ops).ctl.rel ∧
    (stepWith (refCfg 7) (runWith (refCfg 7) init [Op.fund 5 .B 0 100, .send 0 5 .B 40]) (.settle 0 1 .ackOk)).2.isDone := by
  refine ⟨by decide, ?_⟩
  exact ⟨60, 0, 0, [(0, 1)], by decide⟩

/-- with the delete under prefix 4 (the repaired call) the same run leaves no record -/
theorem success_ack_removes_relation_fixed :
    (runWith (refCfg 4) init [Op.fund 5 .B 0 100, .send 0 5 .B 40, .settle 0 1 .ackOk]).ctl.rel = [] := by decide

/-- general form of the defect: whenever the success-ack delete prefix differs from the prefix the record is written
under, a success ack of a committed transfer leaves the relation store exactly as it was -/
theorem success_ack_keeps_relation_general (cfg : Cfg) (hne : cfg.ackDelPrefix ≠ cfg.setPrefix) (s : State) (ch : Ch)
    (seq : Seq) : (stepWith cfg s (.settle ch seq .ackOk)).1.ctl.rel = s.ctl.rel := by
  exact settle_ackOk_keeps cfg hne s ch seq

/-- a stale record can never be removed later: once a transfer is settled its commitment is gone, and every later
ack / timeout of it is a no-op -/
theorem settled_is_final (cfg : Cfg) (s : State) (ch : Ch) (seq : Seq) (mode mode' : Mode) :
    let s' := (stepWith cfg s (.settle ch seq mode)).1
    stepWith cfg s' (.settle ch seq mode') = (s', .noop s'.ctl.rel) := by
  exact settle_twice cfg s ch seq mode mode'

-- non-vacuity: a `done` error ack, a `done` timeout and a `done` success ack exist on reachable states
example : (step (run init [.fund 5 .B 0 100, .send 0 5 .B 40]) (.settle 0 1 .ackErr)).2 = .done 100 0 0 [] := by decide
example : (step (run init [.fund 5 .B 0 100, .send 0 5 .B 40]) (.settle 0 1 .timeout)).2 = .done 100 0 0 [] := by decide
example : (step (run init [.fund 5 .B 0 100, .send 0 5 .B 40]) (.settle 0 1 .ackOk)).2.isDone :=
  ⟨60, 0, 0, _, rfl⟩
example : (step (run init [.fund 5 .B 0 100]) (.recv 0 .B .hex 9 7 .callok)).2 = .recv true 0 0 0 7 1 := by decide
example : (step (run init [.fund 5 .B 0 100]) (.recv 0 .X .hex 9 7 .none)).2 = .recv false 0 0 0 0 0 := by decide
example : (run init [.fund 5 .B 0 100, .send 0 5 .B 40, .settle 0 1 .ackErr]).ctl.refundLog = [⟨0, 1, 5, .B, 40, true⟩] := by
  decide

/-
Theorems of this file:
  recv_credit_or_error, recv_bech_nonnative_error, recv_memo_call,
  intermediate_sender_shape, intermediate_sender_preimage_injective, intermediate_sender_not_local,
  genCfg_sound, refund_exactly_once, evm_refund_credits_erc20,
  relation_removed_on_failure_partial, relation_removed_always, relation_removed_always_reachable,
  genCfg_is_ref, success_ack_keeps_relation_witness, success_ack_removes_relation_fixed,
  success_ack_keeps_relation_general, settled_is_final
On the unrepaired tree (ackSuccessDeletePrefix = 7) `relation_removed_always` (and its corollary
`relation_removed_always_reachable`) do not check; everything else does.
-/

end FxVerif.Props.C19
