import FxVerif.Model.C19
import FxVerif.Proofs.C19
import FxVerif.Proofs.C19Ledger
import FxVerif.Proofs.C19Genesis
/-!
# C19 — IBC transfer middleware: inbound credit or error, memo-call sender, refund exactly once, relation removed

Property theorems only.  `step = stepWith genCfg` and `genCfg` is computed from `FxVerif.Gen.C19`, which is regenerated
from `/repo` on every run; the facts a theorem relies on are discharged by `decide` *inside* its proof (through
`genCfg_recvOk`, `genCfg_sound`, `genCfg_removes`), so a change of the corresponding source shape stops the theorem from
checking.  Facts used: key prefixes written / deleted; the guard expression of `Keeper.OnRecvPacket` and the order of
its blocks; the expressions that flow into the relation key on send, success acknowledgement and refund (which END of
the channel, which sequence); whom `IbcRefund` credits; the arguments that flow into `IntermediateSender`; the key's
format string.

History of the tree: the success-ack clean-up deleted the wrong key prefix (repaired by 169429b) and
`IBCCoinToBaseCoin` asked `ManyToOne` before resolving a registered alias, so the refund of an EVM-started transfer of
an aliased token failed for ever once the voucher had bank metadata (repaired by c4392c5; `genCfg.aliasFirst` is now
true and `evm_refund_credits_erc20` has no such hypothesis any more; `alias_metadata_refund_stuck` states the defect
for an explicit configuration with `aliasFirst = false`).

Observation outside the property's text: the memo-call sender is derived from the packet's SOURCE channel (the id the
counterparty chose), so two counterparties that use the same channel id and sender string share one DERIVED account
(`memo_sender_collision_across_counterparties`); no LOCAL account can be impersonated (`memo_call_sender_not_local`,
which depends on the regenerated BODY of `IntermediateSender`: hash, no hand-through), which is what C19 states.

A refund can be TEMPORARILY impossible (token pair toggled off, erc20 module disabled): then the callback returns the
error, IBC core keeps the packet committed and the relayer retries later (`refund_waits_while_conversion_disabled`);
`refund_exactly_once` / `evm_refund_credits_erc20` depend on the regenerated fact that every caller on the refund path
hands its callee's error up (`refundErrorChain`).
-/
namespace FxVerif.Props.C19
open FxVerif.Model.C19 FxVerif.Proofs.C19

/-! ## 0. the regenerated configuration has the shape the theorems need -/

/-- `Keeper.OnRecvPacket`: the conversion block is guarded by exactly "the received denomination is not FX" (evaluated
on every denomination class), starts by demanding a hex receiver, calls `IBCCoinToEvm`, is followed by the memo block;
a coin is recognised as returning home by the packet's SOURCE channel; a keeper error becomes an error acknowledgement;
`IntermediateSender` has no early return that hands a hex or bech32 sender string through -/
theorem genCfg_recvOk : RecvOk genCfg := by
  refine ⟨by decide, by decide, ?_, by decide, by decide, by decide, by decide, by decide, by decide, ?_⟩
  · intro d
    cases d <;> simp [genCfg, FxVerif.Gen.C19.recvGuard, evalGuard, Denom.name?]
  · have hp : genCfg.parseProg = stdParseProg := by decide
    intro src dst pd
    rw [hp]
    exact hookDenom_std src dst pd

/-- the relation is recorded under the key of the transfer itself, both callbacks compute the key from the packet's
SOURCE channel and its sequence, and every caller on the refund path (middleware -> keeper -> hook -> IBCCoinRefund ->
IbcRefund -> ConvertCoin) hands its callee's error up to IBC core -/
theorem genCfg_sound : Sound genCfg :=
  ⟨by decide, by decide, by decide, by decide, by decide, by decide, by decide, by decide, by decide, by decide, by decide,
    by decide⟩

/-- every branch of `OnAcknowledgementPacket` / `OnTimeoutPacket` deletes under the prefix, channel end and sequence the
record was written under -/
theorem genCfg_removes : Removes genCfg :=
  ⟨by decide, by decide, by decide, by decide, by decide, by decide, by decide, by decide, by decide, by decide, by decide,
    by decide, by decide⟩

/-- order of the steps inside `IBCMiddleware.OnAcknowledgementPacket` / `OnTimeoutPacket` (regenerated): the wrapped ICS-20
application FIRST (it hands the coins back), then the keeper hook (it converts what was handed back), every error
returned to IBC core.  Since fix `d4b7c5e` the acknowledgement is decoded ONCE, and rejected unless it re-marshals to the
relayed bytes, BEFORE the application runs: bytes that carry both arms of the oneof (which the JSON decoder resolves in
map-iteration order) reach neither the application nor the hook, so the two can no longer disagree about one acknowledgement.  The model's `refundState` (`refundApp`, then `refundHook` on the resulting balances) and
`settleBy` are written for exactly this order: with the hook in front it would look for a voucher the sender does not hold
yet. -/
theorem genCfg_middleware_steps :
    FxVerif.Gen.C19.ackMiddlewareSteps =
      ["decode-ack:returned", "canonical-ack:returned", "app:returned", "decode-data:returned", "hook:returned"] ∧
    FxVerif.Gen.C19.timeoutMiddlewareSteps = ["app:returned", "decode-data:returned", "hook:returned"] := by decide


/-- `IBCMiddleware.OnAcknowledgementPacket` / `OnTimeoutPacket` as PROGRAMS (regenerated (step, error treatment) lists, in
statement order): the model does not assume an order — `settleAckState` / the timeout FOLD over these lists (`runMw`:
balances threaded through the steps in list order, a returned error aborts the run) —; this theorem states which lists the
tree has: decode once, demand the canonical encoding, application, packet data, keeper hook; every error returned. -/
theorem genCfg_middleware_prog :
    genCfg.ackSteps = stdAckSteps ∧ genCfg.timeoutSteps = stdTimeoutSteps ∧
    (∀ s l seq p w, settleAckState genCfg s l seq p w =
      runMw genCfg s l seq p (mwInOfAck genCfg w) FxVerif.Gen.C19.ackMiddlewareProg) ∧
    (∀ s l seq p, settleState genCfg s l seq p .timeout =
      runMw genCfg s l seq p (mwInOfTimeout genCfg) FxVerif.Gen.C19.timeoutMiddlewareProg) :=
  ⟨by decide, by decide, fun _ _ _ _ _ => rfl, fun _ _ _ _ => rfl⟩

/-- For EVERY configuration whose step lists are the standard ones, the fold is "the application's decision and refund,
then the hook's on the resulting balances" (`settleBy`), and nothing at all for bytes that do not decode or are not the
canonical encoding — whatever the two decoder runs make of them. -/
theorem standard_steps_are_app_then_hook (cfg : Cfg) (h : cfg.ackSteps = stdAckSteps) (s : State) (l : Ch) (seq : Seq) (p : Pkt)
    (w : AckWire) :
    settleAckState cfg s l seq p w =
      if !w.isCanonical then none else
      match cfg.appRefunds w with
      | none => none
      | some ar => settleBy cfg s l seq p ar (cfg.ackAct w) :=
  settleAckState_std cfg s l seq p w h

example : (refCfg 4).ackSteps = stdAckSteps := rfl

/-- … and the timeout: with the standard list it is the transfer application's refund followed by the hook's conversion of
what was handed back (`refundState`) -/
theorem standard_timeout_steps_are_app_then_hook (cfg : Cfg) (h : cfg.timeoutSteps = stdTimeoutSteps) (s : State) (l : Ch)
    (seq : Seq) (p : Pkt) : settleState cfg s l seq p .timeout = refundState cfg s l seq p cfg.timeoutRefunds :=
  runMw_std_timeout cfg s l seq p h

example : (refCfg 4).timeoutSteps = stdTimeoutSteps := rfl

/-! ## 1. inbound transfer: exact credit in ERC-20 form, or error acknowledgement and nothing changes -/

/-- For every state and every inbound packet addressed to a hex account, on any channel (whatever the counterparty calls
it), of any denomination class: either the acknowledgement is a success and
* FX: the receiver's FX balance grew by exactly `amt` (receiver other than the channel escrow account, from which the
  coins come), no balance of any other denomination changed for anybody, ERC-20 balances untouched;
* any other coin (native coin with a token pair returning home, voucher with a pair of its own, aliased voucher): the
  coin has an ERC-20 contract, the receiver's balance THERE grew by exactly `amt`, nobody else's ERC-20 balance changed,
  no balance of any denomination other than the received one (and, for the aliased token, its base) changed for
  anybody, and the receiver (other than the module accounts) holds exactly the bank coins it held before — in every
  denomination: nothing is left in bank form;
* the coin is not one without an ERC-20 representation, the amount is positive, the packet bookkeeping is untouched;
or the acknowledgement is an error and the state is exactly the old one. -/
theorem recv_credit_or_error (s : State) (l : Ch) (t : Tok) (to : Addr) (amt : Nat) (m : Memo) (snd : Nat) :
    let r := step s (.recv l t .hex to amt m snd)
    (r.2.isRecv true ∧ 0 < amt ∧ r.1.ctl = s.ctl ∧ t ≠ .U ∧ t ≠ .X ∧ t ≠ .Y ∧ (t = .A → genCfg.aliasFirst = true) ∧
      (t = .F →
        (to ≠ escrow l → sget r.1.bal.bank (to, Denom.fx) = sget s.bal.bank (to, Denom.fx) + amt) ∧
        (∀ a d, d ≠ Denom.fx → sget r.1.bal.bank (a, d) = sget s.bal.bank (a, d)) ∧
        r.1.bal.erc = s.bal.erc) ∧
      (t ≠ .F → ∃ et, ercTokOf t l = some et ∧
        sget r.1.bal.erc (to, et) = sget s.bal.erc (to, et) + amt ∧
        (∀ k, k ≠ (to, et) → sget r.1.bal.erc k = sget s.bal.erc k) ∧
        (∀ a d, d ≠ bankDenom t l → (t = .A → d ≠ Denom.base) → sget r.1.bal.bank (a, d) = sget s.bal.bank (a, d)) ∧
        (to ≠ transferMod → to ≠ erc20Mod → to ≠ escrow l → ∀ d, sget r.1.bal.bank (to, d) = sget s.bal.bank (to, d))))
    ∨ (r.2.isRecv false ∧ r.1 = s) :=
  recvWith_credit_or_error genCfg genCfg_recvOk s l t to amt m snd

/-- a coin other than FX sent to a bech32 (or malformed) receiver is always answered with an error acknowledgement,
state unchanged -/
theorem recv_bech_nonnative_error (s : State) (l : Ch) (t : Tok) (k : RKind) (to : Addr) (amt : Nat) (m : Memo) (snd : Nat)
    (ht : t ≠ .F) (hk : k ≠ .hex) :
    let r := step s (.recv l t k to amt m snd)
    r.2.isRecv false ∧ r.1 = s :=
  recvWith_nonhex_error genCfg genCfg_recvOk s l t k to amt m snd ht hk

/-- a reverting memo call makes the whole receive an error with nothing credited; a succeeding one is counted once and
ran as the account DERIVED from `data.Sender` and the channel end the generated argument flow names
(`memo_channel_end`: as the tree stands the packet's SOURCE channel, i.e. the id the counterparty chose) — never as a
local account, whatever the sender string is (hex or bech32 form of a local address included) -/
theorem recv_memo_call (s : State) (l : Ch) (t : Tok) (k : RKind) (to : Addr) (amt : Nat) (snd : Nat) :
    (let r := step s (.recv l t k to amt .callrev snd); r.2.isRecv false ∧ r.1 = s) ∧
    (let r := step s (.recv l t k to amt .callok snd);
      (r.2.isRecv true ∧ r.1.bal.marker = s.bal.marker + 1 ∧
        r.1.bal.caller = some (.derived (genCfg.memoChan.pick (cpOf s.ctl l) l) snd)) ∨
      (r.2.isRecv false ∧ r.1 = s)) := by
  have h := recvWith_memo genCfg genCfg_recvOk s l t k to amt snd
  have hs : genCfg.memoSender = true := by decide
  simpa [step, hs] using h

/-- the channel that flows into the memo-call sender is one of the two ends of the packet's channel -/
theorem memo_channel_end : genCfg.memoChan = .src ∨ genCfg.memoChan = .dst := by decide

/-- a memo call that moves its caller's funds (a value transfer) never succeeds: it runs as the derived account, which
holds nothing, whatever the packet's `sender` field names — the hex or bech32 address of a funded local account, of a
module account or of a contract included.  The packet is answered with an error acknowledgement and NO balance of ANY
account changes.  Depends on the regenerated body of `IntermediateSender` (no hand-through). -/
theorem recv_memo_pay_never_moves_local_funds (s : State) (l : Ch) (t : Tok) (k : RKind) (to : Addr) (amt : Nat) (snd : Nat) :
    let r := step s (.recv l t k to amt .callpay snd)
    r.2.isRecv false ∧ r.1 = s :=
  recvWith_memo_pay genCfg genCfg_recvOk s l t k to amt snd

/-- no receive, whatever its outcome, touches commitments, relation records, sequences or logs of outbound transfers -/
theorem recv_keeps_bookkeeping (s : State) (l : Ch) (t : Tok) (k : RKind) (to : Addr) (amt : Nat) (m : Memo) (snd : Nat) :
    (step s (.recv l t k to amt m snd)).1.ctl = s.ctl :=
  recvWith_ctl genCfg s l t k to amt m snd


/-! ## 1b. the denomination the middleware believes it received is the one the transfer application credited -/

/-- `parseIBCCoinDenom` (regenerated decision program, INTERPRETED by `hookDenom`) answers — for EVERY packet denomination
path: any number of hops, any base name (the chain's own `FX` included), on any channel with any pair of ids — exactly
the denomination under which the ibc-go transfer application credits the receiver (`appDenom`, modelled dependency).  So
the decision "is this the chain's own coin, or must it be moved into its ERC-20 form" is always taken about the coin
that was really credited: a foreign coin merely NAMED `FX`, or FX that arrives over another route, is a voucher for the
hook too. -/
theorem parse_recomputes_credited_denom (src dst : Ch) (pd : PDenom) :
    hookDenom genCfg.parseProg src dst pd = appDenom src dst pd :=
  genCfg_recvOk.parse src dst pd

/-- … in particular for the packet classes of the model: the hook sees `bankDenom t l` -/
theorem hook_sees_credited_denom (src l : Ch) (t : Tok) : hookSees genCfg src l t = some (bankDenom t l) :=
  hookSees_ok genCfg genCfg_recvOk.parse src l t

/-- only `FX` that really returns home (a path that is exactly our prefix in front of the bare name) is the chain's own coin
for the hook; every other path with base name `FX` is a voucher -/
theorem only_returning_fx_is_native (src dst : Ch) (hops : List Ch) :
    hookDenom genCfg.parseProg src dst ⟨hops, "FX"⟩ = .native "FX" ↔ hops = [src] := by
  rw [parse_recomputes_credited_denom]
  unfold appDenom stripHop
  cases hops with
  | nil => simp
  | cons h rest =>
    by_cases hh : h = src
    · subst hh
      cases rest <;> simp
    · simp [hh]

/-- why the WHOLE path must decide (tree independent): a "fast path" in front of the program that answers `FX` whenever the
BASE name of the path is `FX`.  A foreign coin that is merely named `FX` (class `W`, registered with an ERC-20 pair of its
own) addressed to a hex account is then acknowledged as a success with the amount left as a BANK voucher and nothing
credited in ERC-20 form; FX arriving over another route (class `Y`, not registered) is acknowledged as a success instead
of being rejected.  With the program of the tree the first is credited as ERC-20 and the second is an error
acknowledgement that changes nothing. -/
theorem base_name_fast_path_witness :
    let fast : Cfg := { refCfg 4 with parseProg := (.baseEq "FX", .const "FX") :: stdParseProg }
    let s := runWith (refCfg 4) init [Op.chan 0 1]
    (stepWith fast s (.recv 0 .W .hex 9 7 .none 0)).2 = .recv true 7 0 0 0 0 0 none ∧
    (stepWith (refCfg 4) s (.recv 0 .W .hex 9 7 .none 0)).2 = .recv true 0 7 0 7 7 0 none ∧
    (stepWith fast s (.recv 0 .Y .hex 9 7 .none 0)).2 = .recv true 7 0 0 0 0 0 none ∧
    stepWith (refCfg 4) s (.recv 0 .Y .hex 9 7 .none 0) = (s, .recv false 0 0 0 0 0 0 none) ∧
    -- genuine FX coming home is treated alike by both
    (let s' := runWith (refCfg 4) init [Op.chan 0 1, .fund 1 .F 0 100, .csend 0 1 .F 50, .settle 0 1 .ackOk]
     stepWith fast s' (.recv 0 .F .hex 2 9 .none 0) = stepWith (refCfg 4) s' (.recv 0 .F .hex 2 9 .none 0)) := by
  decide

/-! ## 2. the memo-call sender cannot be a local account -/

/-- the generated format string, argument order and hash arguments give `H (port ++ "/" ++ channel) sender` -/
theorem intermediate_sender_shape {α : Type} (H : List Char → List Char → α) (port channel sender : List Char) :
    intermediateSender H port channel sender = H (port ++ '/' :: channel) sender := by
  have hf : FxVerif.Gen.C19.intermediateSenderFmt.toList = ['%', 's', '/', '%', 's'] := by decide
  have ha : FxVerif.Gen.C19.intermediateSenderFmtArgs = ["sourcePort", "sourceChannel"] := by decide
  have hh : FxVerif.Gen.C19.intermediateSenderHashArgs = ["prefix", "[]byte(sender)"] := by decide
  simp [intermediateSender, senderPrefix, hf, ha, hh, sprintf, argVal]

/-- (a) pre-image injectivity: IBC identifiers contain no `/`, hence the hashed pair (prefix, sender) determines port,
channel and original sender -/
theorem intermediate_sender_preimage_injective (port channel sender port' channel' sender' : List Char)
    (hp : '/' ∉ port) (hp' : '/' ∉ port')
    (h : (senderPrefix port channel, sender) = (senderPrefix port' channel', sender')) :
    port = port' ∧ channel = channel' ∧ sender = sender' := by
  have hshape : ∀ p c : List Char, senderPrefix p c = p ++ '/' :: c := by
    intro p c
    have := intermediate_sender_shape (fun x _ => x) p c []
    simpa [intermediateSender, argVal, show FxVerif.Gen.C19.intermediateSenderHashArgs = ["prefix", "[]byte(sender)"] by decide]
      using this
  simp only [Prod.mk.injEq, hshape] at h
  have := prefix_inj port port' channel channel' hp hp' h.1
  exact ⟨this.1, this.2, h.2⟩

/-- (b) `H` is `address.Hash` (SHA-256 of SHA-256(typ) ++ key, truncated to 20 bytes), `acct` the derivation of a local
account address from a public key.  **Both hypotheses are cryptographic assumptions and are NOT proved here**:
`hInj` — collision resistance of `H`, idealised as injectivity; `hSep` — no cross-collision between `H` and
public-key-derived addresses.  Under them: memo-call senders derived from different (port, channel, original sender)
differ, and no derived sender equals a local account, so a memo call can never act with a local account's authority. -/
theorem intermediate_sender_not_local {α κ : Type} (H : List Char → List Char → α) (acct : κ → α)
    (hInj : ∀ x y x' y', H x y = H x' y' → x = x' ∧ y = y')
    (hSep : ∀ x y pk, H x y ≠ acct pk)
    (port channel sender : List Char) (hp : '/' ∉ port) :
    (∀ port' channel' sender', '/' ∉ port' →
        intermediateSender H port channel sender = intermediateSender H port' channel' sender' →
        port = port' ∧ channel = channel' ∧ sender = sender') ∧
    (∀ pk, intermediateSender H port channel sender ≠ acct pk) := by
  constructor
  · intro port' channel' sender' hp' h
    rw [intermediate_sender_shape, intermediate_sender_shape] at h
    obtain ⟨h1, h2⟩ := hInj _ _ _ _ h
    have := prefix_inj port port' channel channel' hp hp' h1
    exact ⟨this.1, this.2, h2⟩
  · intro pk
    rw [intermediate_sender_shape]
    exact hSep _ _ pk

-- the two hypotheses are jointly satisfiable (tagged disjoint union as the ideal hash)
example : ∃ (H : List Char → List Char → (List Char × List Char) ⊕ Nat) (acct : Nat → (List Char × List Char) ⊕ Nat),
    (∀ x y x' y', H x y = H x' y' → x = x' ∧ y = y') ∧ (∀ x y pk, H x y ≠ acct pk) :=
  ⟨fun x y => .inl (x, y), fun pk => .inr pk, by intro x y x' y' h; simpa using h, by intro x y pk h; cases h⟩

-- without the no-slash rule the pre-image is ambiguous: the hypothesis is needed
example : ['a', '/', 'b'] ++ '/' :: ['c'] = ['a'] ++ '/' :: ['b', '/', 'c'] := by decide

/-- (c) which packet fields reach `IntermediateSender` (regenerated argument flow `Keeper.OnRecvPacket` ->
`HandlerIbcCall` -> `IntermediateSender`): `data.Sender` and the port / channel of ONE end of the packet's channel —
as the tree stands the SOURCE end, i.e. the identifiers the COUNTERPARTY chose for its side —, and the regenerated BODY
of `IntermediateSender`: the result is the hash for EVERY sender string; `P` (how a sender string that happens to be a
local address would be parsed) plays no role because the body has no return in front of the hash -/
theorem memo_call_sender_flow {α : Type} (H : List Char → List Char → α) (P : List Char → Option α) (p : InPkt) :
    (genCfg.memoChan = .src → memoCallSender H P p = H (p.srcPort ++ '/' :: p.srcChannel) p.sender) ∧
    (genCfg.memoChan = .dst → memoCallSender H P p = H (p.dstPort ++ '/' :: p.dstChannel) p.sender) := by
  have hbody : genCfg.memoHashOnly = true := by decide
  have ha : FxVerif.Gen.C19.memoSenderArgs = ["packet.SourcePort", "packet.SourceChannel", "data.Sender"] ∨
      FxVerif.Gen.C19.memoSenderArgs = ["packet.GetSourcePort()", "packet.GetSourceChannel()", "data.Sender"] ∨
      FxVerif.Gen.C19.memoSenderArgs = ["packet.DestinationPort", "packet.DestinationChannel", "data.Sender"] ∨
      FxVerif.Gen.C19.memoSenderArgs = ["packet.GetDestPort()", "packet.GetDestChannel()", "data.Sender"] := by decide
  rcases ha with ha | ha | ha | ha <;>
    simp only [memoCallSender, intermediateSenderBody, hbody, ↓reduceIte, ha, List.map, inPktVal, intermediate_sender_shape] <;>
    simp [genCfg, chanSelOf, ha]

/-- (d) a memo call never runs as a local account — for EVERY packet, in particular one whose `sender` field is the hex
or bech32 address of a local account (`P` may map it to `acct pk`): the body of `IntermediateSender` hashes, it never
hands the named address through (same cryptographic hypothesis `hSep` as (b)) -/
theorem memo_call_sender_not_local {α κ : Type} (H : List Char → List Char → α) (P : List Char → Option α) (acct : κ → α)
    (hSep : ∀ x y pk, H x y ≠ acct pk) (p : InPkt) : ∀ pk, memoCallSender H P p ≠ acct pk := by
  intro pk
  rcases memo_channel_end with h | h
  · rw [(memo_call_sender_flow H P p).1 h]; exact hSep _ _ pk
  · rw [(memo_call_sender_flow H P p).2 h]; exact hSep _ _ pk

-- why the body matters: a body that hands a parsed address through runs the call as that local account
example : ∃ (H : List Char → List Char → Nat ⊕ Nat) (P : List Char → Option (Nat ⊕ Nat)) (acct : Nat → Nat ⊕ Nat),
    (∀ x y pk, H x y ≠ acct pk) ∧ (match P ['v'] with | some a => a | none => H [] ['v']) = acct 7 :=
  ⟨fun _ _ => .inl 0, fun _ => some (.inr 7), fun pk => .inr pk, ⟨fun _ _ _ h => (by cases h), rfl⟩⟩

/-- (e) full strength, for a tree that derives the sender from OUR end of the channel (`hdst`; false as the tree
stands): memo calls of packets that arrive on different local channels, or from different original senders, run as
different accounts (collision resistance `hInj` as in (b)) -/
theorem memo_sender_distinct_per_local_channel {α : Type} (H : List Char → List Char → α)
    (P : List Char → Option α)
    (hInj : ∀ x y x' y', H x y = H x' y' → x = x' ∧ y = y') (hdst : genCfg.memoChan = .dst) (p p' : InPkt)
    (hp : '/' ∉ p.dstPort) (hp' : '/' ∉ p'.dstPort)
    (hne : p.dstChannel ≠ p'.dstChannel ∨ p.sender ≠ p'.sender) : memoCallSender H P p ≠ memoCallSender H P p' := by
  intro h
  rw [(memo_call_sender_flow H P p).2 hdst, (memo_call_sender_flow H P p').2 hdst] at h
  obtain ⟨h1, h2⟩ := hInj _ _ _ _ h
  rcases hne with hne | hne
  · exact hne (prefix_inj _ _ _ _ hp hp' h1).2
  · exact hne h2

/-- (f) OBSERVATION about the tree as it stands (`hsrc`; reproduced on the real code, `fixes/C19-memo-sender-channel.md`;
outside C19's text, which speaks of LOCAL accounts): the derived sender does not depend on OUR channel.  Two packets that arrive on different local channels from two
counterparties which both call their end the same, with the same sender string, run as the same EVM account — for
every hash function. -/
theorem memo_sender_collision_across_counterparties {α : Type} (H : List Char → List Char → α)
    (P : List Char → Option α) (hsrc : genCfg.memoChan = .src) (p p' : InPkt)
    (hport : p.srcPort = p'.srcPort) (hch : p.srcChannel = p'.srcChannel) (hs : p.sender = p'.sender) :
    memoCallSender H P p = memoCallSender H P p' := by
  rw [(memo_call_sender_flow H P p).1 hsrc, (memo_call_sender_flow H P p').1 hsrc, hport, hch, hs]

-- … and such packets exist on different local channels
example : ∃ p p' : InPkt, p.dstChannel ≠ p'.dstChannel ∧ p.srcPort = p'.srcPort ∧ p.srcChannel = p'.srcChannel ∧ p.sender = p'.sender :=
  ⟨⟨['t'], ['c', '1'], ['t'], ['c', '0'], ['s']⟩, ⟨['t'], ['c', '1'], ['t'], ['c', '2'], ['s']⟩, by decide, rfl, rfl, rfl⟩

/-- what does hold as the tree stands: when distinct local channels have distinct counterparty ids (the extra hypothesis
`hcp`), memo calls of packets that arrive on different local channels run as different accounts -/
theorem memo_sender_distinct_per_local_channel_partial {α : Type} (H : List Char → List Char → α)
    (P : List Char → Option α)
    (hInj : ∀ x y x' y', H x y = H x' y' → x = x' ∧ y = y') (hsrc : genCfg.memoChan = .src) (p p' : InPkt)
    (hp : '/' ∉ p.srcPort) (hp' : '/' ∉ p'.srcPort)
    (hcp : p.dstChannel ≠ p'.dstChannel → p.srcChannel ≠ p'.srcChannel)
    (hne : p.dstChannel ≠ p'.dstChannel) : memoCallSender H P p ≠ memoCallSender H P p' := by
  intro h
  rw [(memo_call_sender_flow H P p).1 hsrc, (memo_call_sender_flow H P p').1 hsrc] at h
  obtain ⟨h1, _⟩ := hInj _ _ _ _ h
  exact hcp hne (prefix_inj _ _ _ _ hp hp' h1).2

/-! ## 3. refunds: exactly once, to the sender, in ERC-20 form -/

/-- For the state reached from `init` by ANY list of operations (any channel table, any interleaving on any number of
channels, equal sequence numbers on different channels, duplicated and replayed settlements):
* the refund log has no two entries for the same (local channel, sequence);
* a refunded transfer is no longer committed and was never acknowledged successfully (and vice versa);
* a refund of a transfer started from the EVM names that transfer's sender, token and amount, and for the aliased
  token it was made in ERC-20 form. -/
theorem refund_exactly_once (ops : List Op) :
    let c := (run init ops).ctl
    (c.refundLog.map RefundRec.key).Nodup ∧
    (∀ r ∈ c.refundLog, (∀ x ∈ c.commits, x.1 ≠ r.key) ∧ r.key ∉ c.ackedOk) ∧
    (∀ k ∈ c.ackedOk, ∀ r ∈ c.refundLog, r.key ≠ k) ∧
    (∀ r ∈ c.refundLog, ∀ e ∈ c.evmSent, r.key = e.key →
      r.sender = e.sender ∧ r.tok = e.tok ∧ r.amt = e.amt ∧ (e.tok = .A → r.erc20Form = true)) := by
  have h := run_inv genCfg genCfg_sound ops init inv_init
  refine ⟨h.nodup, fun r hr => ⟨h.rNC r hr, h.rNA r hr⟩, ?_, h.rE⟩
  intro k hk r hr he
  exact h.rNA r hr (he ▸ hk)

/-- The refund is real, not only logged: in any reachable state, an error acknowledgement or a timeout of an in-flight
EVM-originated transfer of the aliased token raises the sender's ERC-20 balance by exactly the sent amount, changes
nobody else's ERC-20 balance, leaves the sender (other than the module accounts) with exactly the bank coins he had —
in EVERY denomination —, appends exactly one log entry and removes exactly the transfer's own record — whether or not the
aliased voucher has bank metadata of its own (`IBCCoinToBaseCoin` resolves the alias first: regenerated fact, true since
c4392c5).  `hon`: the conversion of the token's pair is not switched off at that moment (otherwise the callback fails
and the packet waits: `refund_waits_while_conversion_disabled`).  Also depends on the regenerated fact that every
caller on the refund path hands its callee's error up to IBC core. -/
theorem evm_refund_credits_erc20 (ops : List Op) (e : SentRec) (mode : Mode) (hm : mode ≠ .ackOk)
    (he : e ∈ (run init ops).ctl.evmSent) (hB : e.tok = .A)
    (hc : ∃ x ∈ (run init ops).ctl.commits, x.1 = e.key)
    (hon : (run init ops).bal.paused = false ∧ (run init ops).bal.off.contains ETok.base = false) :
    let s := run init ops
    let r := step s (.settle e.ch e.seq mode)
    r.2.isDone ∧
    sget r.1.bal.erc (e.sender, ETok.base) = sget s.bal.erc (e.sender, ETok.base) + e.amt ∧
    (∀ k, k ≠ (e.sender, ETok.base) → sget r.1.bal.erc k = sget s.bal.erc k) ∧
    (e.sender ≠ transferMod → e.sender ≠ erc20Mod → ∀ d, sget r.1.bal.bank (e.sender, d) = sget s.bal.bank (e.sender, d)) ∧
    r.1.ctl.refundLog = ⟨e.ch, e.seq, e.sender, .A, e.amt, true⟩ :: s.ctl.refundLog ∧
    r.1.ctl.rel = dropRel s.ctl.rel (e.ch, e.seq) := by
  have h := run_inv genCfg genCfg_sound ops init inv_init
  have hE : genCfg.ackErrRefunds = true := by decide
  have hT : genCfg.timeoutRefunds = true := by decide
  have hTo : genCfg.refundToSender = true := by decide
  have haf : genCfg.aliasFirst = true := by decide
  exact settle_refund_credits genCfg genCfg_sound hE hT hTo (run init ops) e mode hm h he hB hc (Or.inl haf) hon

/-- Round trip: in any reachable state, a transfer of the aliased token started from the EVM that is then rejected or
times out leaves EVERY ERC-20 balance of EVERYBODY, every bank balance of the sender (other than the module accounts)
and the relation store exactly as they were before the transfer started: the refund gives back exactly what the send
took, in the form it took it, and nothing else.  (`hon` as in `evm_refund_credits_erc20`.) -/
theorem evm_send_refund_roundtrip (ops : List Op) (l : Ch) (a : Addr) (amt : Nat) (mode : Mode) (hm : mode ≠ .ackOk)
    (hon : (run init ops).bal.paused = false ∧ (run init ops).bal.off.contains ETok.base = false)
    (hok : (step (run init ops) (.send l a .A amt)).2 ≠ .fail) :
    let s := run init ops
    let r := step (step s (.send l a .A amt)).1 (.settle l (nextSeq s.ctl l) mode)
    r.2.isDone ∧ (∀ k, sget r.1.bal.erc k = sget s.bal.erc k) ∧
    (a ≠ transferMod → a ≠ erc20Mod → ∀ d, sget r.1.bal.bank (a, d) = sget s.bal.bank (a, d)) ∧
    r.1.ctl.rel = s.ctl.rel := by
  have h := run_inv genCfg genCfg_sound ops init inv_init
  have hE : genCfg.ackErrRefunds = true := by decide
  have hT : genCfg.timeoutRefunds = true := by decide
  have hTo : genCfg.refundToSender = true := by decide
  have haf : genCfg.aliasFirst = true := by decide
  exact send_refund_roundtrip genCfg genCfg_sound hE hT hTo (run init ops) h l a amt mode hm (Or.inl haf) hon hok

/-- A transfer that was NOT started from the EVM (plain `MsgTransfer` of FX or of a native coin, with or without a
token pair), and a transfer of FX — the EVM's own coin — started from the EVM, is refunded in the form it left in: in any reachable state a processed error acknowledgement / timeout puts
exactly the amount back on the sender's bank balance (sender other than the escrow account), changes no other
denomination of anybody, changes no ERC-20 balance, and logs a refund that is not in ERC-20 form — whatever EVM-started
transfers are in flight on whatever channels (their records are never mistaken for this transfer's). -/
theorem cosmos_refund_in_bank_form (ops : List Op) (l : Ch) (seq : Seq) (p : Pkt) (mode : Mode) (hm : mode ≠ .ackOk)
    (hlk : lookup (l, seq) (run init ops).ctl.commits = some p) (hev : p.evm = false ∨ p.tok = .F) :
    let s := run init ops
    let r := step s (.settle l seq mode)
    r.2.isDone →
      r.1.bal.erc = s.bal.erc ∧
      (p.sender ≠ escrow l → sget r.1.bal.bank (p.sender, bankDenom p.tok l) = sget s.bal.bank (p.sender, bankDenom p.tok l) + p.amt) ∧
      (∀ a d, d ≠ bankDenom p.tok l → sget r.1.bal.bank (a, d) = sget s.bal.bank (a, d)) ∧
      r.1.ctl.refundLog = ⟨l, seq, p.sender, p.tok, p.amt, false⟩ :: s.ctl.refundLog := by
  obtain ⟨_, hl⟩ := run_life genCfg genCfg_sound genCfg_removes ops init inv_init life_init
  have hE : genCfg.ackErrRefunds = true := by decide
  have hT : genCfg.timeoutRefunds = true := by decide
  have hG : genCfg.refundGuarded = true := by decide
  exact settle_refund_cosmos genCfg genCfg_sound hE hT hG (run init ops) l seq p mode hm hl hlk hev

/-- While the conversion of the aliased token's pair is switched off (governance toggled the pair, or disabled the erc20
module) the refund callback of an in-flight EVM-originated transfer returns its error in every reachable state: IBC
core rolls the relayer's transaction back, the state is unchanged, the packet stays committed with its record — and
once conversion is on again `evm_refund_credits_erc20` applies to the retry.  The refund is delayed, never lost and
never made in another form.  Depends on the regenerated fact that every caller on the refund path hands the error up. -/
theorem refund_waits_while_conversion_disabled (ops : List Op) (e : SentRec) (mode : Mode) (hm : mode ≠ .ackOk)
    (he : e ∈ (run init ops).ctl.evmSent) (hB : e.tok = .A)
    (hc : ∃ x ∈ (run init ops).ctl.commits, x.1 = e.key)
    (hoff : (run init ops).bal.paused = true ∨ (run init ops).bal.off.contains ETok.base = true) :
    let s := run init ops
    step s (.settle e.ch e.seq mode) = (s, .stuck s.ctl.rel) := by
  have h := run_inv genCfg genCfg_sound ops init inv_init
  have hE : genCfg.ackErrRefunds = true := by decide
  have hT : genCfg.timeoutRefunds = true := by decide
  have haf : genCfg.aliasFirst = true := by decide
  exact settle_refund_disabled genCfg genCfg_sound hE hT (run init ops) e mode hm h he hB hc (Or.inl haf) hoff

/-- why "the error is handed up" matters (tree independent): transfer of 40 started from the EVM, the pair is toggled off,
the timeout arrives.  With the error propagated the callback fails, nothing changes, and after the pair is toggled on
again the retry refunds 40 as ERC-20 and removes the record.  With the hook's error swallowed the timeout is
processed for good: the sender keeps the voucher in bank form, gets no ERC-20 back, and the record stays for ever. -/
theorem swallowed_refund_error_witness :
    let ops := [Op.chan 0 1, .fund 5 .A 0 100, .send 0 5 .A 40, .toggle .A 0, .settle 0 1 .timeout, .toggle .A 0,
      .settle 0 1 .timeout]
    let good := runWith (refCfg 4) init ops
    let bad := runWith { refCfg 4 with refundErrPropagates := false, refundCached := true } init ops
    sget good.bal.erc (5, ETok.base) = 100 ∧ sget good.bal.bank (5, Denom.vA 0) = 0 ∧ good.ctl.rel = [] ∧
      good.ctl.refundLog = [⟨0, 1, 5, .A, 40, true⟩] ∧
    sget bad.bal.erc (5, ETok.base) = 60 ∧ sget bad.bal.bank (5, Denom.vA 0) = 40 ∧ bad.ctl.rel = [(0, 1)] ∧
      bad.ctl.refundLog = [⟨0, 1, 5, .A, 40, false⟩] ∧ bad.ctl.commits = [] := by
  decide

/-- The defect repaired by c4392c5, for an explicit configuration that asks `ManyToOne` first (`haf`): when the aliased
voucher of the channel has bank metadata of its own (the transfer module writes it for every denom trace in
`InitGenesis` and in its `MigrateDenomMetadata` migration), the refund callback of an in-flight EVM-originated transfer
of the aliased token fails in every state reachable under that configuration, and fails again on every retry.
(`fixes/C19-alias-metadata-refund.md`; `genCfg.aliasFirst` is true on the repaired tree.) -/
theorem alias_metadata_refund_stuck (cfg : Cfg) (hs : Sound cfg) (hE : cfg.ackErrRefunds = true)
    (hT : cfg.timeoutRefunds = true) (haf : cfg.aliasFirst = false) (ops : List Op) (e : SentRec) (mode : Mode)
    (hm : mode ≠ .ackOk) (he : e ∈ (runWith cfg init ops).ctl.evmSent) (hB : e.tok = .A)
    (hc : ∃ x ∈ (runWith cfg init ops).ctl.commits, x.1 = e.key) (hmeta : e.ch ∈ (runWith cfg init ops).ctl.vmeta) :
    let s := runWith cfg init ops
    stepWith cfg s (.settle e.ch e.seq mode) = (s, .stuck s.ctl.rel) := by
  have h := run_inv cfg hs ops init inv_init
  exact settle_refund_stuck cfg hs hE hT (runWith cfg init ops) e mode hm h he hB hc ⟨haf, hmeta⟩

-- the hypotheses are satisfiable: the pre-fix reference configuration is sound
example : Sound (refCfg 4) ∧ (refCfg 4).aliasFirst = false := ⟨⟨rfl, rfl, rfl, rfl, rfl, rfl, rfl, rfl, rfl, by decide, rfl, rfl⟩, rfl⟩

/-- witness (tree independent): metadata on the voucher of channel 0, transfer of 40 started from the EVM, timeout -/
theorem alias_metadata_refund_stuck_witness :
    let ops := [Op.chan 0 1, .fund 5 .A 0 100, .vmeta 0, .send 0 5 .A 40]
    stepWith (refCfg 4) (runWith (refCfg 4) init ops) (.settle 0 1 .timeout) =
      (runWith (refCfg 4) init ops, .stuck [(0, 1)]) ∧
    (stepWith { refCfg 4 with aliasFirst := true } (runWith { refCfg 4 with aliasFirst := true } init ops)
      (.settle 0 1 .timeout)).2 = .done 100 0 0 0 100 100 [] := by
  constructor <;> decide

/-! ## 3b. acknowledgements as they are on the wire: the refund decision is made on the KIND of the acknowledgement -/

/-- The acknowledgement a counterparty writes is the JSON form of a protobuf oneof `{ bytes result; string error }`; its
wire shapes are: result with / without content, error with a reason / with an EMPTY reason, no arm set, bytes the codec
rejects.  Two pieces of code decide what a shape means: the ICS-20 transfer application (does it un-escrow / re-mint)
and the middleware's keeper hook (does it convert the refund back to ERC-20 and drop the record, or only drop the record).
Both are regenerated as decision programs — `Keeper.OnAcknowledgementPacket` of this repository and of the ibc-go version
named in go.mod — and interpreted on every shape.  For EVERY shape the codec accepts: the hook refunds exactly when the
application refunds, and runs the success clean-up otherwise.  In particular an error acknowledgement with an empty
reason is a failure for both, and a result without content or an acknowledgement with no arm is a success for both. -/
theorem ack_decision_agrees (w : AckWire) (hcan : w.isCanonical = true) (b : Bool) (h : genCfg.appRefunds w = some b) :
    genCfg.ackAct w = if b then .refund else .after :=
  ackAgrees_at genCfg (by decide) w hcan b h

/-- what the application decides, shape by shape (regenerated from the module cache): it refunds on the error arm —
whatever the text —, not on the result arm or on an acknowledgement with no arm, and fails on undecodable bytes -/
theorem app_ack_decision :
    genCfg.appRefunds (.error true) = some true ∧ genCfg.appRefunds (.error false) = some true ∧
    genCfg.appRefunds (.result true) = some false ∧ genCfg.appRefunds (.result false) = some false ∧
    genCfg.appRefunds .unset = some false ∧ genCfg.appRefunds .undecodable = none := by decide

/-- For every state: an acknowledgement on the wire that the application classifies (`b` = it refunds) is processed
EXACTLY as the settlement of that class — so every statement of this file about `.settle l seq .ackErr` / `.ackOk` holds
for every acknowledgement of that class, whatever its content.  Depends on the regenerated decision programs. -/
theorem wire_ack_settles_as_classified (s : State) (l : Ch) (seq : Seq) (w : AckWire) (hcan : w.isCanonical = true) (b : Bool)
    (h : genCfg.appRefunds w = some b) :
    step s (.ackw l seq w) = step s (.settle l seq (if b then .ackErr else .ackOk)) :=
  stepWith_ackw genCfg (by decide) (by decide) (by decide) (by decide) s l seq w hcan b h

/-- bytes the codec rejects: the callback returns an error, IBC core rolls the relayer's transaction back, nothing
changes and the packet stays committed (or there is no such packet) -/
theorem wire_ack_undecodable_changes_nothing (s : State) (l : Ch) (seq : Seq) :
    step s (.ackw l seq .undecodable) = (s, .stuck s.ctl.rel) ∨ step s (.ackw l seq .undecodable) = (s, .noop s.ctl.rel) :=
  stepWith_ackw_undecodable genCfg (by decide) s l seq .undecodable (Or.inl (by decide))

/-- C19, refund clause, for acknowledgements as they are on the wire: in any reachable state, EVERY error acknowledgement
of an in-flight EVM-originated transfer of the aliased token — with a reason or with an empty one — raises the sender's
ERC-20 balance by exactly the sent amount, changes nobody else's ERC-20 balance, leaves the sender's bank coins as they
were, logs exactly one refund in ERC-20 form and removes exactly the transfer's record (`hon` as in
`evm_refund_credits_erc20`). -/
theorem wire_error_ack_refunds_erc20 (ops : List Op) (e : SentRec) (nonEmpty : Bool)
    (he : e ∈ (run init ops).ctl.evmSent) (hB : e.tok = .A)
    (hc : ∃ x ∈ (run init ops).ctl.commits, x.1 = e.key)
    (hon : (run init ops).bal.paused = false ∧ (run init ops).bal.off.contains ETok.base = false) :
    let s := run init ops
    let r := step s (.ackw e.ch e.seq (.error nonEmpty))
    r.2.isDone ∧
    sget r.1.bal.erc (e.sender, ETok.base) = sget s.bal.erc (e.sender, ETok.base) + e.amt ∧
    (∀ k, k ≠ (e.sender, ETok.base) → sget r.1.bal.erc k = sget s.bal.erc k) ∧
    (e.sender ≠ transferMod → e.sender ≠ erc20Mod → ∀ d, sget r.1.bal.bank (e.sender, d) = sget s.bal.bank (e.sender, d)) ∧
    r.1.ctl.refundLog = ⟨e.ch, e.seq, e.sender, .A, e.amt, true⟩ :: s.ctl.refundLog ∧
    r.1.ctl.rel = dropRel s.ctl.rel (e.ch, e.seq) := by
  have hcl : genCfg.appRefunds (.error nonEmpty) = some true := by cases nonEmpty <;> decide
  have := wire_ack_settles_as_classified (run init ops) e.ch e.seq (.error nonEmpty) rfl true hcl
  simp only [↓reduceIte] at this
  have key := evm_refund_credits_erc20 ops e .ackErr (by decide) he hB hc hon
  simp only [← this] at key
  exact key

/-- … and every acknowledgement that is not an error — result with or without content, no arm set — of ANY committed
transfer changes no balance of anybody, refunds nothing, and removes exactly the record of that transfer -/
theorem wire_success_ack_only_removes_record (s : State) (l : Ch) (seq : Seq) (w : AckWire) (hcan : w.isCanonical = true)
    (hw : genCfg.appRefunds w = some false) :
    let r := step s (.ackw l seq w)
    r.1.bal = s.bal ∧ r.1.ctl.refundLog = s.ctl.refundLog ∧ (r.2.isDone → r.1.ctl.rel = dropRel s.ctl.rel (l, seq)) := by
  have := wire_ack_settles_as_classified s l seq w hcan false hw
  simp only [Bool.false_eq_true, ↓reduceIte] at this
  show (step s (.ackw l seq w)).1.bal = s.bal ∧ (step s (.ackw l seq w)).1.ctl.refundLog = s.ctl.refundLog ∧
    ((step s (.ackw l seq w)).2.isDone → (step s (.ackw l seq w)).1.ctl.rel = dropRel s.ctl.rel (l, seq))
  rw [this]
  refine ⟨?_, ?_, settle_frame genCfg genCfg_removes s l seq .ackOk⟩
  · simp only [step, stepWith, settle]
    cases lookup (l, seq) s.ctl.commits <;> first | rfl | simp [settleState]
  · simp only [step, stepWith, settle]
    cases lookup (l, seq) s.ctl.commits <;> first | rfl | simp [settleState, ackOkCtl]

-- non-vacuity: an in-flight EVM-originated transfer, acknowledged with an EMPTY error text: refunded as ERC-20, record gone
example : (step (run init [.chan 0 1, .fund 5 .A 0 100, .send 0 5 .A 40]) (.ackw 0 1 (.error false))).2 = .done 100 0 0 0 100 100 [] := by
  decide
example : (step (run init [.chan 0 1, .fund 5 .A 0 100, .send 0 5 .A 40]) (.ackw 0 1 (.result false))).2 = .done 60 0 0 0 60 60 [] := by
  decide
example : (step (run init [.chan 0 1, .fund 5 .A 0 100, .send 0 5 .A 40]) (.ackw 0 1 .unset)).2 = .done 60 0 0 0 60 60 [] := by
  decide
example : (step (run init [.chan 0 1, .fund 5 .A 0 100, .send 0 5 .A 40]) (.ackw 0 1 .undecodable)).2 = .stuck [(0, 1)] := by
  decide


/-- Bytes that DECODE but are not the canonical encoding of an acknowledgement — both arms of the oneof, another key order,
extra whitespace, escaped characters; whatever the application's decoder run (`a`) and the middleware's (`m`) make of
them, equal or different —: the callback returns an error before the application runs, IBC core rolls the relayer's
transaction back, NOTHING changes and the packet stays committed (or there is no such packet).  Depends on the
regenerated step list (the canonical check in front of the application, its error returned): fix `d4b7c5e`. -/
theorem non_canonical_ack_changes_nothing (s : State) (l : Ch) (seq : Seq) (a m : Nat) :
    step s (.ackw l seq (.nonCanonical a m)) = (s, .stuck s.ctl.rel) ∨
    step s (.ackw l seq (.nonCanonical a m)) = (s, .noop s.ctl.rel) :=
  stepWith_ackw_undecodable genCfg (by decide) s l seq (.nonCanonical a m) (Or.inr rfl)

/-- … so the transfer is still in flight and can still time out (or be acknowledged properly): in any reachable state, a
non-canonical acknowledgement of an in-flight EVM-originated transfer of the aliased token followed by its timeout (or
a proper error acknowledgement) refunds the sender in ERC-20 form exactly as if the non-canonical bytes had never been
relayed. -/
theorem non_canonical_ack_then_refund (ops : List Op) (e : SentRec) (a m : Nat) (mode : Mode) (hm : mode ≠ .ackOk)
    (he : e ∈ (run init ops).ctl.evmSent) (hB : e.tok = .A)
    (hc : ∃ x ∈ (run init ops).ctl.commits, x.1 = e.key)
    (hon : (run init ops).bal.paused = false ∧ (run init ops).bal.off.contains ETok.base = false) :
    let s := run init ops
    let s1 := (step s (.ackw e.ch e.seq (.nonCanonical a m))).1
    let r := step s1 (.settle e.ch e.seq mode)
    s1 = s ∧ r.2.isDone ∧
    sget r.1.bal.erc (e.sender, ETok.base) = sget s.bal.erc (e.sender, ETok.base) + e.amt ∧
    r.1.ctl.refundLog = ⟨e.ch, e.seq, e.sender, .A, e.amt, true⟩ :: s.ctl.refundLog ∧
    r.1.ctl.rel = dropRel s.ctl.rel (e.ch, e.seq) := by
  have h1 : (step (run init ops) (.ackw e.ch e.seq (.nonCanonical a m))).1 = run init ops := by
    rcases non_canonical_ack_changes_nothing (run init ops) e.ch e.seq a m with h | h <;> rw [h]
  have key := evm_refund_credits_erc20 ops e mode hm he hB hc hon
  simp only [h1]
  exact ⟨trivial, key.1, key.2.1, key.2.2.2.2.1, key.2.2.2.2.2⟩

/-- The same for EVERY configuration and EVERY step list of the shape "steps that are neither the application nor the hook,
then a canonical-encoding check whose error is returned, then anything": bytes the codec rejects and bytes that are not
the canonical encoding make the callback fail before the application or the hook has run — in whatever order those two
come afterwards, whatever they would decide.  (The repaired tree is the instance `pre = [decode-ack]`.) -/
theorem canonical_check_first_blocks (cfg : Cfg) (pre post : List (String × String))
    (h : cfg.ackSteps = pre ++ ("canonical-ack", "returned") :: post)
    (hpre : ∀ st ∈ pre, st.1 ≠ "app" ∧ st.1 ≠ "hook") (s : State) (l : Ch) (seq : Seq) (p : Pkt) (w : AckWire)
    (hw : w.isCanonical = false ∨ w = .undecodable) :
    settleAckState cfg s l seq p w = none := by
  unfold settleAckState runMw
  rw [h, mwFold_canonical_first cfg s.ctl l seq p _ ?_ pre post hpre]
  · rfl
  · rcases hw with hw | hw
    · simp [mwInOfAck, hw]
    · subst hw; rfl

-- the hypotheses are met by the regenerated list, with `pre = [decode-ack]`
example : genCfg.ackSteps = [("decode-ack", "returned")] ++ ("canonical-ack", "returned") :: [("app", "returned"), ("decode-data", "returned"), ("hook", "returned")] ∧
    (∀ st ∈ [(("decode-ack", "returned") : String × String)], st.1 ≠ "app" ∧ st.1 ≠ "hook") := by decide

-- non-vacuity: both-arms bytes on an in-flight transfer: stuck, then the timeout refunds 40 as ERC-20
example : (step (run init [.chan 0 1, .fund 5 .A 0 100, .send 0 5 .A 40]) (.ackw 0 1 (.nonCanonical 2 0))).2 = .stuck [(0, 1)] := by
  decide
example : (step (step (run init [.chan 0 1, .fund 5 .A 0 100, .send 0 5 .A 40]) (.ackw 0 1 (.nonCanonical 2 0))).1
    (.settle 0 1 .timeout)).2 = .done 100 0 0 0 100 100 [] := by
  decide

/-- why the canonical check must come FIRST (tree independent; the defect found in round 3 and repaired by `d4b7c5e`, as a
statement about step lists): the same acknowledgement bytes carrying both arms, read as an error by the application's
decoder run and as a result by the middleware's.  With the former list — application first, no canonical check — the
application hands the voucher back, the hook runs the success clean-up: the sender of an EVM-originated transfer keeps 40
in BANK form, gets no ERC-20 back and the record is gone for good.  With the standard list nothing happens and the later
timeout refunds 40 as ERC-20. -/
theorem both_arms_without_canonical_check_witness :
    let ops := [Op.chan 0 1, .fund 5 .A 0 100, .send 0 5 .A 40, .ackw 0 1 (.nonCanonical 2 0), .settle 0 1 .timeout]
    let oldSteps := [("app", "returned"), ("decode-ack", "returned"), ("decode-data", "returned"), ("hook", "returned")]
    let old : Cfg := { refCfg 4 with aliasFirst := true, ackSteps := oldSteps }
    let bad := runWith old init ops
    let good := runWith { refCfg 4 with aliasFirst := true } init ops
    sget bad.bal.erc (5, ETok.base) = 60 ∧ sget bad.bal.bank (5, Denom.vA 0) = 40 ∧ bad.ctl.rel = [] ∧
      bad.ctl.refundLog = [⟨0, 1, 5, .A, 40, false⟩] ∧
    sget good.bal.erc (5, ETok.base) = 100 ∧ sget good.bal.bank (5, Denom.vA 0) = 0 ∧ good.ctl.rel = [] ∧
      good.ctl.refundLog = [⟨0, 1, 5, .A, 40, true⟩] := by
  decide

/-- why the application must run BEFORE the hook (tree independent): with the two steps swapped the hook looks for the
voucher before the application has handed it back, its error is returned, and the error acknowledgement / timeout of an
EVM-originated transfer can never be processed: the state after any number of retries is the state before. -/
theorem hook_before_application_witness :
    let ops := [Op.chan 0 1, .fund 5 .A 0 100, .send 0 5 .A 40]
    let ackSwapped := [("decode-ack", "returned"), ("canonical-ack", "returned"), ("hook", "returned"), ("decode-data", "returned"), ("app", "returned")]
    let toSwapped := [("hook", "returned"), ("decode-data", "returned"), ("app", "returned")]
    let swapped : Cfg := { refCfg 4 with aliasFirst := true, ackSteps := ackSwapped, timeoutSteps := toSwapped }
    let s := runWith swapped init ops
    stepWith swapped s (.ackw 0 1 (.error true)) = (s, .stuck [(0, 1)]) ∧
    stepWith swapped s (.settle 0 1 .timeout) = (s, .stuck [(0, 1)]) ∧
    (stepWith { refCfg 4 with aliasFirst := true } s (.settle 0 1 .timeout)).2 = .done 100 0 0 0 100 100 [] := by
  decide

/-- why the KIND and not the TEXT must decide (tree independent): a hook that treats an acknowledgement as rejected only
when its error text is non-empty.  An ibc-go counterparty (reason always present) sees no difference; a counterparty that
answers `{"error":""}` makes the transfer application hand the voucher back while the hook runs the success clean-up:
the sender of an EVM-originated transfer keeps 40 in BANK form, gets no ERC-20 back, and the record is gone, so no retry
can ever convert it.  With the decision on the kind the same acknowledgement refunds 40 as ERC-20. -/
theorem empty_error_text_witness :
    let ops := [Op.chan 0 1, .fund 5 .A 0 100, .send 0 5 .A 40, .ackw 0 1 (.error false)]
    let byText : Cfg := { refCfg 4 with aliasFirst := true, ackProg := [(.errNonEmpty, .refund), (.not .errNonEmpty, .after)] }
    let byKind : Cfg := { refCfg 4 with aliasFirst := true }
    let bad := runWith byText init ops
    let good := runWith byKind init ops
    byText.ackAgrees = false ∧ byKind.ackAgrees = true ∧
    sget bad.bal.erc (5, ETok.base) = 60 ∧ sget bad.bal.bank (5, Denom.vA 0) = 40 ∧ bad.ctl.rel = [] ∧
      bad.ctl.refundLog = [⟨0, 1, 5, .A, 40, false⟩] ∧ bad.ctl.commits = [] ∧
    sget good.bal.erc (5, ETok.base) = 100 ∧ sget good.bal.bank (5, Denom.vA 0) = 0 ∧ good.ctl.rel = [] ∧
      good.ctl.refundLog = [⟨0, 1, 5, .A, 40, true⟩] ∧
    -- with a reason in the text the two hooks cannot be told apart
    runWith byText init [Op.chan 0 1, .fund 5 .A 0 100, .send 0 5 .A 40, .ackw 0 1 (.error true)] =
      runWith byKind init [Op.chan 0 1, .fund 5 .A 0 100, .send 0 5 .A 40, .ackw 0 1 (.error true)] := by
  decide

/-! ## 4. the relation record is removed on success, failure and timeout alike — that record and no other -/

/-- error acknowledgement and timeout: for every state and every processed (`done`) error ack / timeout of (l, seq), the
relation store afterwards is the old one minus exactly the record of (l, seq) -/
theorem relation_removed_on_failure_partial (s : State) (l : Ch) (seq : Seq) (mode : Mode) (hm : mode ≠ .ackOk) :
    let r := step s (.settle l seq mode)
    r.2.isDone → (l, seq) ∉ r.1.ctl.rel ∧ r.1.ctl.rel = dropRel s.ctl.rel (l, seq) := by
  have hE : genCfg.ackErrRefunds = true := by decide
  have hT : genCfg.timeoutRefunds = true := by decide
  have hS : genCfg.refundSees = true := by decide
  have hC : genCfg.refundChan = .src := by decide
  have hQ : genCfg.refundSeq = true := by decide
  have hP : genCfg.deleteReports = true := by decide
  intro r hd
  have hX : genCfg.refundErrPropagates = true := by decide
  have := settle_removes_failure genCfg hE hT hS hC hQ hP hX (by decide) s l seq mode hm hd
  refine ⟨?_, this⟩
  show (l, seq) ∉ (stepWith genCfg s (.settle l seq mode)).1.ctl.rel
  rw [this]; exact not_mem_dropRel _ _

/-- C19, last clause, full strength: for every state (in particular every state reachable from `init`) and every
processed success ack, error ack or timeout of (l, seq), the relation record is gone afterwards.
Needs the generated facts `ackSuccessDeletePrefix = relationSetPrefix` and "the success branch passes the packet's
SOURCE channel and its sequence". -/
theorem relation_removed_always (s : State) (l : Ch) (seq : Seq) (mode : Mode) :
    let r := step s (.settle l seq mode)
    r.2.isDone → (l, seq) ∉ r.1.ctl.rel :=
  settle_removes genCfg genCfg_removes s l seq mode

/-- … and no other record is touched: the relation store afterwards is the old one minus exactly the record of the
settled (local channel, sequence) — whatever other transfers are in flight, on whatever channels, with whatever
sequence numbers and counterparty channel ids -/
theorem settle_touches_only_its_record (s : State) (l : Ch) (seq : Seq) (mode : Mode) :
    let r := step s (.settle l seq mode)
    r.2.isDone → r.1.ctl.rel = dropRel s.ctl.rel (l, seq) :=
  settle_frame genCfg genCfg_removes s l seq mode

/-- the same over reachable states, as the property is worded -/
theorem relation_removed_always_reachable (ops : List Op) (l : Ch) (seq : Seq) (mode : Mode) :
    let r := step (run init ops) (.settle l seq mode)
    r.2.isDone → (l, seq) ∉ r.1.ctl.rel :=
  relation_removed_always (run init ops) l seq mode

/-- In every reachable state the relation store holds EXACTLY the records of the in-flight EVM-originated transfers of
the aliased token: no record is ever missing while its transfer is in flight, none outlives its transfer, none belongs
to anything else. -/
theorem relation_records_are_inflight (ops : List Op) (k : Ch × Seq) :
    let c := (run init ops).ctl
    k ∈ c.rel ↔ ∃ e ∈ c.evmSent, e.key = k ∧ e.tok = .A ∧ ∃ x ∈ c.commits, x.1 = k := by
  obtain ⟨hi, hl⟩ := run_life genCfg genCfg_sound genCfg_removes ops init inv_init life_init
  constructor
  · intro hk
    obtain ⟨x, hx, hxk, hev, hnF⟩ := hl.relC k hk
    obtain ⟨⟨e, he, hek, het⟩, htok⟩ := hl.cE x hx hev
    refine ⟨e, he, by rw [hek, hxk], ?_, x, hx, hxk⟩
    rcases htok with h | h
    · exact absurd h hnF
    · rw [het, h]
  · rintro ⟨e, he, hek, hA, x, hx, hxk⟩
    rw [← hek]
    exact hi.eRel e he hA ⟨x, hx, by rw [hxk, hek]⟩

/-- In every reachable state every transfer started from the EVM is in exactly one of three places: still committed,
acknowledged successfully, or refunded (at least one: this theorem; at most one: `refund_exactly_once`). -/
theorem evm_transfer_settled_one_way (ops : List Op) :
    let c := (run init ops).ctl
    ∀ e ∈ c.evmSent, (∃ x ∈ c.commits, x.1 = e.key) ∨ e.key ∈ c.ackedOk ∨ (∃ r ∈ c.refundLog, r.key = e.key) :=
  (run_life genCfg genCfg_sound genCfg_removes ops init inv_init life_init).2.eLife

/-- the generated configuration is the reference configuration at the generated success-ack delete prefix (and the two
facts the proposed repairs change: alias resolution order, channel end of the memo-call sender) -/
theorem genCfg_is_ref : genCfg = { refCfg FxVerif.Gen.C19.ackSuccessDeletePrefix with
    aliasFirst := genCfg.aliasFirst, memoChan := genCfg.memoChan } := by decide

/-- witness (tree independent, prefix as an explicit parameter): with the success-ack delete under prefix 7 the record
of a successfully acknowledged EVM-originated transfer is still there — and stays there for ever, see below -/
theorem success_ack_keeps_relation_witness :
    let ops := [Op.fund 5 .A 0 100, .send 0 5 .A 40, .settle 0 1 .ackOk]
    (0, 1) ∈ (runWith (refCfg 7) init ops).ctl.rel ∧
    (stepWith (refCfg 7) (runWith (refCfg 7) init [Op.fund 5 .A 0 100, .send 0 5 .A 40]) (.settle 0 1 .ackOk)).2.isDone := by
  refine ⟨by decide, ?_⟩
  exact ⟨60, 0, 0, 0, 60, 60, [(0, 1)], by decide⟩

/-- with the delete under prefix 4 (the repaired call) the same run leaves no record -/
theorem success_ack_removes_relation_fixed :
    (runWith (refCfg 4) init [Op.fund 5 .A 0 100, .send 0 5 .A 40, .settle 0 1 .ackOk]).ctl.rel = [] := by decide

/-- general form of the defect: whenever the success-ack delete prefix differs from the prefix the record is written
under, a success ack of a committed transfer leaves the relation store exactly as it was -/
theorem success_ack_keeps_relation_general (cfg : Cfg) (hne : cfg.ackDelPrefix ≠ cfg.setPrefix) (s : State) (l : Ch)
    (seq : Seq) : (stepWith cfg s (.settle l seq .ackOk)).1.ctl.rel = s.ctl.rel := by
  exact settle_ackOk_keeps cfg hne s l seq

/-- why the channel END matters (tree independent): our channel-0 <-> their channel-1, our channel-1 <-> their
channel-0, two EVM-started transfers in flight with the same sequence.  If the success branch deleted under the packet's
DESTINATION channel, acknowledging the transfer on channel 0 would leave its own record and delete the record of the
transfer on channel 1, whose later timeout is then refunded in bank form; with the source channel both are right. -/
theorem crossed_channels_wrong_end_witness :
    let ops := [Op.chan 0 1, .chan 1 0, .fund 5 .A 0 100, .fund 6 .A 1 100, .send 0 5 .A 40, .send 1 6 .A 30,
      .settle 0 1 .ackOk, .settle 1 1 .timeout]
    let bad := runWith { refCfg 4 with ackOkChan := .dst } init ops
    let good := runWith (refCfg 4) init ops
    bad.ctl.rel = [(0, 1)] ∧ bad.ctl.refundLog = [⟨1, 1, 6, .A, 30, false⟩] ∧ sget bad.bal.erc (6, ETok.base) = 70 ∧
      sget bad.bal.bank (6, Denom.base) = 30 ∧
    good.ctl.rel = [] ∧ good.ctl.refundLog = [⟨1, 1, 6, .A, 30, true⟩] ∧ sget good.bal.erc (6, ETok.base) = 100 ∧
      sget good.bal.bank (6, Denom.base) = 0 := by
  decide

/-- why the GUARD matters (tree independent): a native coin with a token pair comes home to a hex account.  Under the
guard `denom != FX` it is credited as ERC-20 and nothing stays in bank form; under a guard that only looks for the
`ibc/` prefix the acknowledgement is a success and the coin stays in bank form. -/
theorem returning_native_coin_guard_witness :
    let ops := [Op.chan 0 7, .fund 5 .N 0 100, .csend 0 5 .N 60, .settle 0 1 .ackOk]
    (stepWith (refCfg 4) (runWith (refCfg 4) init ops) (.recv 0 .N .hex 9 60 .none 0)).2 = .recv true 0 60 0 0 60 0 none ∧
    (stepWith { refCfg 4 with recvGuard := .hasPrefix "ibc/" } (runWith (refCfg 4) init ops) (.recv 0 .N .hex 9 60 .none 0)).2 =
      .recv true 60 0 0 0 0 0 none := by
  constructor <;> decide

/-- why the BODY of `IntermediateSender` matters (tree independent): account 1 holds FX; a packet whose `sender` field is
the hex address of account 1 (`10001`) carries a memo call that pays `payAmt` to the sink.  When the body hashes every
sender string the call runs as the (empty) derived account and fails: error acknowledgement, nothing changes.  With an
early return that hands a hex sender through, the call runs AS account 1 and its funds move. -/
theorem hex_sender_handed_through_witness :
    let ops := [Op.chan 0 1, .fund 1 .F 0 100, .csend 0 1 .F 50, .settle 0 1 .ackOk]
    let s := runWith (refCfg 4) init ops
    stepWith (refCfg 4) s (.recv 0 .F .hex 2 1 .callpay 10001) = (s, .recv false 0 0 50 0 0 0 none) ∧
    (let r := stepWith { refCfg 4 with memoHashOnly := false, memoPassHex := true } s (.recv 0 .F .hex 2 1 .callpay 10001)
     r.2 = .recv true 1 0 49 0 0 0 none ∧ sget r.1.bal.bank (1, Denom.fx) = 45 ∧ sget r.1.bal.bank (sink, Denom.fx) = 5) ∧
    (stepWith { refCfg 4 with memoHashOnly := false, memoPassHex := true } s (.recv 0 .F .hex 2 1 .callok 10001)).1.bal.caller =
      some (.loc 1) := by
  decide

/-- a processed settlement (or one that found nothing to process) is final: every later acknowledgement or timeout of
the same (channel, sequence), duplicated or replayed, is a no-op.  (A settlement whose callback failed was rolled back
by IBC core and can be retried: `alias_metadata_refund_stuck`.) -/
theorem settled_is_final (cfg : Cfg) (s : State) (l : Ch) (seq : Seq) (mode mode' : Mode)
    (hns : ¬ (stepWith cfg s (.settle l seq mode)).2.isStuck) :
    let s' := (stepWith cfg s (.settle l seq mode)).1
    stepWith cfg s' (.settle l seq mode') = (s', .noop s'.ctl.rel) := by
  exact settle_twice cfg s l seq mode mode' hns

/-! ## 5. the relation key -/

/-- the generated format string and argument order give `channel ++ "/" ++ decimal(sequence)` -/
theorem relation_key_text (channel : List Char) (sequence : Nat) :
    relKeyText channel sequence = channel ++ '/' :: Nat.toDigits 10 sequence := by
  have hf : FxVerif.Gen.C19.relationKeyFmt.toList = ['%', 's', '/', '%', 'd'] := by decide
  have ha : FxVerif.Gen.C19.relationKeyFmtArgs = ["#0", "#1"] := by decide
  simp [relKeyText, hf, ha, sprintfA, FArg.text]

/-- different (channel, sequence) pairs have different keys — for ALL channel strings: the decimal sequence contains
no `/`, so the key splits uniquely at its last `/` -/
theorem relation_key_injective (c c' : List Char) (n n' : Nat) (h : relKeyText c n = relKeyText c' n') :
    c = c' ∧ n = n' := by
  rw [relation_key_text, relation_key_text] at h
  have := suffix_inj c c' _ _ (slash_not_in_digits n) (slash_not_in_digits n') h
  exact ⟨this.1, toDigits_inj this.2⟩

/-- a transfer started from the EVM with a token other than FX records exactly its own (local channel, sequence); any
other successful transfer records nothing -/
theorem send_records_own_key (s : State) (l : Ch) (a : Addr) (t : Tok) (amt : Nat) :
    ((step s (.send l a t amt)).2 ≠ Out.fail →
      (step s (.send l a t amt)).1.ctl.rel = (if t = Tok.F then s.ctl.rel else (l, nextSeq s.ctl l) :: s.ctl.rel)) ∧
    (step s (.csend l a t amt)).1.ctl.rel = s.ctl.rel := by
  have h1 : genCfg.sendSetsRel = true := by decide
  have h2 : genCfg.sendKeyOwn = true := by decide
  constructor
  · simp only [step, stepWith, doSend]
    cases sendBal s.bal l a t amt true with
    | none => intro h; exact absurd rfl h
    | some b =>
      intro _
      by_cases hF : t = .F
      · simp [sendCtl, sendKey, hF]
      · simp [sendCtl, sendKey, hF, h1, h2]
  · simp only [step, stepWith, doSend]
    cases sendBal s.bal l a t amt false with
    | none => rfl
    | some b => simp [sendCtl, sendKey]

/-! ## 6. the ledger -/

/-- Every ERC-20 token in existence is backed, one to one, by a coin escrowed in the erc20 module account — in every
state reachable by ANY list of operations on user accounts (receives of every denomination class and outcome, EVM- and
cosmos-started transfers, success / error acknowledgements, timeouts, duplicated and failing settlements, on any
channels), for every token contract, and for EVERY configuration of the callbacks (the statement does not depend on the
regenerated facts): no credit and no refund ever mints an ERC-20 token without locking its coin, and none is ever
minted twice for one coin.  `supply t` is the sum of all ERC-20 balances of token `t`; `userOnly`: senders and receivers
are not module accounts (the bank keeper blocks those). -/
theorem erc20_supply_backed (cfg : Cfg) (ops : List Op) (hu : ∀ op ∈ ops, userOnly op) (t : ETok) :
    supply t (runWith cfg init ops).bal.erc = sget (runWith cfg init ops).bal.bank (erc20Mod, denomOfE t) :=
  (backed_run cfg ops init hu backed_init (fun _ hx => absurd hx List.not_mem_nil)).eq t

-- non-vacuity: a run with credits, a refund and a success acknowledgement; supply of the aliased token's ERC-20 is 130
example : (∀ op ∈ [Op.chan 0 1, .fund 5 .A 0 100, .fund 6 .A 0 70, .send 0 5 .A 40, .send 0 6 .A 30, .settle 0 1 .timeout,
      .settle 0 2 .ackOk, .recv 0 .V .hex 7 9 .none 0], userOnly op) ∧
    supply .base (run init [Op.chan 0 1, .fund 5 .A 0 100, .fund 6 .A 0 70, .send 0 5 .A 40, .send 0 6 .A 30,
      .settle 0 1 .timeout, .settle 0 2 .ackOk, .recv 0 .V .hex 7 9 .none 0]).bal.erc = 140 ∧
    supply (.v 0) (run init [Op.chan 0 1, .fund 5 .A 0 100, .fund 6 .A 0 70, .send 0 5 .A 40, .send 0 6 .A 30,
      .settle 0 1 .timeout, .settle 0 2 .ackOk, .recv 0 .V .hex 7 9 .none 0]).bal.erc = 9 := by
  refine ⟨?_, by decide, by decide⟩
  intro op hop
  simp only [List.mem_cons, List.not_mem_nil, or_false] at hop
  rcases hop with h | h | h | h | h | h | h | h <;> subst h <;> simp [userOnly, userAddr]

-- non-vacuity: `done` settlements, successful and failing receives of every class exist on reachable states
example : (step (run init [.chan 0 1, .fund 5 .A 0 100, .send 0 5 .A 40]) (.settle 0 1 .ackErr)).2 = .done 100 0 0 0 100 100 [] := by
  decide
example : (step (run init [.chan 0 1, .fund 5 .A 0 100, .send 0 5 .A 40]) (.settle 0 1 .timeout)).2 = .done 100 0 0 0 100 100 [] := by
  decide
example : (step (run init [.chan 0 1, .fund 5 .A 0 100, .send 0 5 .A 40]) (.settle 0 1 .ackOk)).2.isDone :=
  ⟨60, 0, 0, 0, 60, 60, _, rfl⟩
example : (stepWith (refCfg 4) (runWith (refCfg 4) init [.chan 0 1]) (.recv 0 .V .hex 9 7 .callok 1)).2 =
    .recv true 0 7 0 7 7 1 (some (.derived (some 1) 1)) := by decide
example : (stepWith { refCfg 4 with memoChan := .dst } (runWith (refCfg 4) init [.chan 0 1]) (.recv 0 .V .hex 9 7 .callok 1)).2 =
    .recv true 0 7 0 7 7 1 (some (.derived (some 0) 1)) := by decide
example : (step (run init [.chan 0 1]) (.recv 0 .V .hex 9 7 .callok 1)).2 =
    .recv true 0 7 0 7 7 1 (some (.derived (genCfg.memoChan.pick 1 0) 1)) := by decide
example : (step (run init [.chan 0 1]) (.recv 0 .X .hex 9 7 .none 0)).2 = .recv false 0 0 0 0 0 0 none := by decide
-- a foreign coin named like the chain's own, a multi-hop voucher with a pair: credited as ERC-20; FX over another route: rejected
example : (step (run init [.chan 0 1]) (.recv 0 .W .hex 9 7 .none 0)).2 = .recv true 0 7 0 7 7 0 none := by decide
example : (step (run init [.chan 0 1]) (.recv 0 .Z .hex 9 7 .none 0)).2 = .recv true 0 7 0 7 7 0 none := by decide
example : (step (run init [.chan 0 1]) (.recv 0 .Y .hex 9 7 .none 0)).2 = .recv false 0 0 0 0 0 0 none := by decide
example : (step (run init [.chan 0 1]) (.recv 0 .W .bech 9 7 .none 0)).2 = .recv false 0 0 0 0 0 0 none := by decide
example : (stepWith (refCfg 4) (runWith (refCfg 4) init [.chan 0 1]) (.recv 0 .A .hex 9 7 .none 0)).2 = .recv false 0 0 0 0 0 0 none := by
  decide
example : (stepWith { refCfg 4 with aliasFirst := true } (runWith (refCfg 4) init [.chan 0 1]) (.recv 0 .A .hex 9 7 .none 0)).2 =
    .recv true 0 7 0 7 7 0 none := by decide
example : (step (run init [.chan 0 7, .fund 5 .N 0 100, .csend 0 5 .N 60, .settle 0 1 .ackOk]) (.recv 0 .N .hex 9 60 .none 0)).2 =
    .recv true 0 60 0 0 60 0 none := by decide
example : (step (run init [.chan 0 7, .fund 5 .U 0 100, .csend 0 5 .U 60, .settle 0 1 .ackOk]) (.recv 0 .U .hex 9 60 .none 0)).2 =
    .recv false 0 0 60 0 0 0 none := by decide
example : (run init [.chan 0 1, .fund 5 .A 0 100, .send 0 5 .A 40, .settle 0 1 .ackErr]).ctl.refundLog = [⟨0, 1, 5, .A, 40, true⟩] := by
  decide

/-
Theorems of this file:
  genCfg_recvOk, genCfg_sound, genCfg_removes,
  recv_credit_or_error, recv_bech_nonnative_error, recv_memo_call, recv_keeps_bookkeeping,
  intermediate_sender_shape, intermediate_sender_preimage_injective, intermediate_sender_not_local,
  memo_channel_end, recv_memo_pay_never_moves_local_funds, memo_call_sender_flow, memo_call_sender_not_local, memo_sender_distinct_per_local_channel,
  memo_sender_collision_across_counterparties, memo_sender_distinct_per_local_channel_partial,
  refund_exactly_once, evm_refund_credits_erc20, evm_send_refund_roundtrip, cosmos_refund_in_bank_form, refund_waits_while_conversion_disabled, swallowed_refund_error_witness,
  hex_sender_handed_through_witness, alias_metadata_refund_stuck, alias_metadata_refund_stuck_witness,
  relation_removed_on_failure_partial, relation_removed_always, settle_touches_only_its_record,
  relation_removed_always_reachable, relation_records_are_inflight, evm_transfer_settled_one_way,
  genCfg_is_ref, success_ack_keeps_relation_witness, success_ack_removes_relation_fixed,
  success_ack_keeps_relation_general, crossed_channels_wrong_end_witness, returning_native_coin_guard_witness,
  settled_is_final, relation_key_text, relation_key_injective, send_records_own_key, erc20_supply_backed,
  ack_decision_agrees, app_ack_decision, wire_ack_settles_as_classified, wire_ack_undecodable_changes_nothing,
  wire_error_ack_refunds_erc20, wire_success_ack_only_removes_record, empty_error_text_witness, genCfg_middleware_steps,
  (round 4) genCfg_middleware_prog, standard_steps_are_app_then_hook, standard_timeout_steps_are_app_then_hook, parse_recomputes_credited_denom,
  hook_sees_credited_denom, only_returning_fx_is_native, base_name_fast_path_witness, non_canonical_ack_changes_nothing,
  non_canonical_ack_then_refund, canonical_check_first_blocks, both_arms_without_canonical_check_witness,
  hook_before_application_witness
-/

/-! ## 9. (round 5) the transfer application's credit as REGENERATED from ibc-go -/

/-- ibc-go's `Keeper.OnRecvPacket` (module cache, version of go.mod), translated path by path, is the two-path program:
a path that starts with the packet's SOURCE port / channel is un-escrowed under the rest of the path; every other path
is minted under the DESTINATION port / channel ++ path.  A change of ibc-go that credits another denomination, or
credits it another way, breaks this obligation. -/
theorem app_recv_program : FxVerif.Gen.C19.appRecvProg = stdAppRecvProg := by decide

/-- the former hand model of the application's choice (`appDenom`, until round 4 in the trusted base) IS what the
regenerated program answers — for EVERY denomination path (any number of hops, any base name) on every channel pair -/
theorem app_program_is_appDenom (src dst : Ch) (pd : PDenom) :
    appDenomBy FxVerif.Gen.C19.appRecvProg src dst pd = appDenom src dst pd := by
  rw [app_recv_program]; exact appDenomBy_std src dst pd

/-- `parseIBCCoinDenom` of fx-core (regenerated) and `OnRecvPacket` of ibc-go (regenerated), both INTERPRETED, answer the
same denomination on every path: the hook always decides about the coin the application really credited.  Both sides
of this equation are read off the source on every run. -/
theorem parse_recomputes_app_program (src dst : Ch) (pd : PDenom) :
    hookDenom genCfg.parseProg src dst pd = appDenomBy FxVerif.Gen.C19.appRecvProg src dst pd := by
  rw [app_program_is_appDenom]; exact parse_recomputes_credited_denom src dst pd

/-- the application un-escrows exactly the paths that return through the packet's source channel and mints all others -/
theorem app_unescrows_exactly_returning (src dst : Ch) (pd : PDenom) :
    appKindBy FxVerif.Gen.C19.appRecvProg src dst pd = if pd.hops.head? = some src then "unescrow" else "mint" := by
  rw [app_recv_program]; exact appKindBy_std src dst pd

/-- the two hand-written choices of the model's receive step (`recvApp`: the denomination `bankDenom t l` it credits,
and `returning t` = un-escrow instead of mint) are what the regenerated program says for every packet class, on every
channel pair -/
theorem app_credits_model_denom (src l : Ch) (t : Tok) :
    Denom.ofR (appDenomBy FxVerif.Gen.C19.appRecvProg src l (pktDenom t src)) = some (bankDenom t l) ∧
    appKindBy FxVerif.Gen.C19.appRecvProg src l (pktDenom t src) = (if returning t then "unescrow" else "mint") := by
  rw [app_recv_program]
  exact ⟨by rw [appDenomBy_std, appDenom_pkt, ofR_traceOf], appKindBy_pkt src l t⟩

example : appDenomBy FxVerif.Gen.C19.appRecvProg 7 0 ⟨[7, 3, 9], "FX"⟩ = .voucher [3, 9] "FX" ∧
    appDenomBy FxVerif.Gen.C19.appRecvProg 7 0 ⟨[3, 7], "FX"⟩ = .voucher [0, 3, 7] "FX" ∧
    appDenomBy FxVerif.Gen.C19.appRecvProg 7 0 ⟨[7], "FX"⟩ = .native "FX" := by decide

/-! ## 10. (round 5) genesis round trips -/

/-- EXACTLY ONCE survives a restart from an exported genesis.  For the state reached from the initial state by ANY list
of operations INTERLEAVED WITH ANY NUMBER OF GENESIS ROUND TRIPS of the erc20 module (whether or not they carry the
tracking records — `genesisCarries` is regenerated from `ExportGenesis` / `InitGenesis`): no two refunds for one (local
channel, sequence); a refunded transfer is no longer committed and never was acknowledged successfully, and vice versa;
a refund of a transfer the chain still tracks names its sender, token and amount and, for the aliased token, was made
in ERC-20 form.  (What a round trip that DROPS the records costs is the form of the refund of the transfers in flight
at that moment: `genesis_dropping_records_refunds_in_bank_form`.) -/
theorem refund_exactly_once_across_genesis (xs : List XOp) :
    let c := (xrun xinit xs).st.ctl
    (c.refundLog.map RefundRec.key).Nodup ∧
    (∀ r ∈ c.refundLog, (∀ x ∈ c.commits, x.1 ≠ r.key) ∧ r.key ∉ c.ackedOk) ∧
    (∀ k ∈ c.ackedOk, ∀ r ∈ c.refundLog, r.key ≠ k) ∧
    (∀ r ∈ c.refundLog, ∀ e ∈ c.evmSent, r.key = e.key →
      r.sender = e.sender ∧ r.tok = e.tok ∧ r.amt = e.amt ∧ (e.tok = .A → r.erc20Form = true)) := by
  have h := xrun_inv genCfg genCfg_sound genesisCarries FxVerif.Gen.C19.appRecvProg xs xinit inv_init
  refine ⟨h.nodup, fun r hr => ⟨h.rNC r hr, h.rNA r hr⟩, ?_, h.rE⟩
  intro k hk r hr he
  exact h.rNA r hr (he ▸ hk)

example : (xrun xinit [.op (.chan 0 1), .op (.fund 5 .A 0 100), .op (.send 0 5 .A 40), .genesis, .op (.settle 0 1 .timeout),
    .op (.settle 0 1 .ackErr)]).st.ctl.refundLog.length = 1 := by decide

/-- a genesis round trip touches nothing but the store of tracking records: balances, ERC-20 balances, packet
commitments, sequences and the logs are what they were -/
theorem genesis_keeps_everything_else (x : XState) :
    let r := xstep x .genesis
    r.1.st.bal = x.st.bal ∧ r.1.st.ctl.commits = x.st.ctl.commits ∧ r.1.st.ctl.next = x.st.ctl.next ∧
    r.1.st.ctl.refundLog = x.st.ctl.refundLog ∧ r.1.st.ctl.ackedOk = x.st.ctl.ackedOk := by
  have h := genesisCtl_frame genesisCarries x.st.ctl
  exact ⟨rfl, h.1, h.2.1, h.2.2.1, h.2.2.2.1⟩

/-- when the genesis state carries the tracking records a history with round trips IS the history without them — every theorem
of this file about `run init ops` then holds across restarts, for every configuration -/
theorem genesis_carrying_records_is_invisible (cfg : Cfg) (xs : List XOp) :
    (xrunWith cfg true FxVerif.Gen.C19.appRecvProg xinit xs).st = runWith cfg init (xs.filterMap XOp.op?) :=
  xrun_carried cfg _ xs xinit

/-- the ERC-20 refund across restarts.  PARTIAL: needs the extra hypothesis `genesisCarries = true` — the erc20 module's
`ExportGenesis` AND `InitGenesis` handle the tracking records — which does NOT hold for the tree as it is (finding
`genesis-drops-relations`, fixes/C19-genesis-relations.md; the generated facts are both `false`).  Under it the
statement of `evm_refund_credits_erc20` holds for every history with any number of genesis round trips. -/
theorem evm_refund_credits_erc20_across_genesis_partial (hcar : genesisCarries = true) (xs : List XOp) (e : SentRec) (mode : Mode)
    (hm : mode ≠ .ackOk) (he : e ∈ (xrun xinit xs).st.ctl.evmSent) (hB : e.tok = .A)
    (hc : ∃ x ∈ (xrun xinit xs).st.ctl.commits, x.1 = e.key)
    (hon : (xrun xinit xs).st.bal.paused = false ∧ (xrun xinit xs).st.bal.off.contains ETok.base = false) :
    let s := (xrun xinit xs).st
    let r := step s (.settle e.ch e.seq mode)
    r.2.isDone ∧
    sget r.1.bal.erc (e.sender, ETok.base) = sget s.bal.erc (e.sender, ETok.base) + e.amt ∧
    r.1.ctl.refundLog = ⟨e.ch, e.seq, e.sender, .A, e.amt, true⟩ :: s.ctl.refundLog ∧
    r.1.ctl.rel = dropRel s.ctl.rel (e.ch, e.seq) := by
  have hx : (xrun xinit xs).st = run init (xs.filterMap XOp.op?) := by
    unfold xrun; rw [hcar]; exact xrun_carried genCfg _ xs xinit
  rw [hx] at he hc hon ⊢
  obtain ⟨h1, h2, _, _, h5, h6⟩ := evm_refund_credits_erc20 (xs.filterMap XOp.op?) e mode hm he hB hc hon
  exact ⟨h1, h2, h5, h6⟩

-- the hypothesis is satisfiable (a tree whose genesis carries the records): the round trip is then the identity
example : (xrunWith (refCfg 4) true stdAppRecvProg xinit [.op (.chan 0 1), .op (.fund 5 .A 0 100), .op (.send 0 5 .A 40), .genesis]).st.ctl.rel
    = [(0, 1)] := by decide

/-- what a genesis round trip that DROPS the records costs, in ANY state: every transfer of the aliased token that is
committed at that moment is afterwards refunded (error acknowledgement or timeout, the callback succeeds) WITHOUT any
change of an ERC-20 balance, logged in bank form — the sender who paid with ERC-20 tokens gets bank coins back. -/
theorem genesis_dropping_records_refunds_in_bank_form (x : XState) (l : Ch) (seq : Seq) (p : Pkt) (mode : Mode) (hm : mode ≠ .ackOk)
    (hlk : lookup (l, seq) x.st.ctl.commits = some p) (hA : p.tok = .A) :
    let s := (xstepWith genCfg false FxVerif.Gen.C19.appRecvProg x .genesis).1.st
    let r := step s (.settle l seq mode)
    r.2.isDone ∧ r.1.bal.erc = x.st.bal.erc ∧
    r.1.ctl.refundLog = ⟨l, seq, p.sender, .A, p.amt, false⟩ :: x.st.ctl.refundLog := by
  have hE : genCfg.ackErrRefunds = true := by decide
  have hT : genCfg.timeoutRefunds = true := by decide
  have hG : genCfg.refundGuarded = true := by decide
  obtain ⟨h1, h2, h3, _⟩ := settle_refund_orphan genCfg genCfg_sound hE hT hG
    (xstepWith genCfg false FxVerif.Gen.C19.appRecvProg x .genesis).1.st l seq p mode hm hlk hA (by simp [xstepWith, genesisCtl])
  exact ⟨h1, h2, h3⟩

example : lookup (0, 1) (xrun xinit [.op (.chan 0 1), .op (.fund 5 .A 0 100), .op (.send 0 5 .A 40)]).st.ctl.commits =
    some ⟨5, .A, 40, true, 1⟩ := by decide

/-- the finding `genesis-drops-relations` as a statement (tree independent): the same history, the same timeout — with
the records dropped the sender of 40 ERC-20 tokens ends with 60 tokens and 40 BANK coins, with the records carried he
ends with his 100 tokens; the dropped transfer is remembered as an orphan. -/
theorem genesis_drops_relations_witness :
    let xs := [XOp.op (.chan 0 1), .op (.fund 5 .A 0 100), .op (.send 0 5 .A 40), .genesis]
    let dropped := xrunWith (refCfg 4) false stdAppRecvProg xinit xs
    let carried := xrunWith (refCfg 4) true stdAppRecvProg xinit xs
    (stepWith (refCfg 4) dropped.st (.settle 0 1 .timeout)).2 = .done 60 40 0 0 100 60 [] ∧
    (stepWith (refCfg 4) carried.st (.settle 0 1 .timeout)).2 = .done 100 0 0 0 100 100 [] ∧
    dropped.orphans = [⟨0, 1, 5, .A, 40⟩] ∧ carried.orphans = [] := by
  decide

/-- an orphan is exactly an EVM-originated transfer of the aliased token that was in flight when the records were dropped -/
theorem genesis_orphans_were_inflight (x : XState) (e : SentRec)
    (he : e ∈ (xstepWith genCfg false FxVerif.Gen.C19.appRecvProg x .genesis).1.orphans) (hnew : e ∉ x.orphans) :
    e ∈ x.st.ctl.evmSent ∧ e.tok = .A ∧ ∃ c ∈ x.st.ctl.commits, c.1 = e.key := by
  have : e ∈ orphansOf false x.st.ctl ++ x.orphans := he
  rcases List.mem_append.mp this with h | h
  · exact orphansOf_spec x.st.ctl e h
  · exact absurd h hnew

example : ∃ x : XState, ∃ e, e ∈ (xstepWith genCfg false FxVerif.Gen.C19.appRecvProg x .genesis).1.orphans ∧ e ∉ x.orphans :=
  ⟨xrun xinit [.op (.chan 0 1), .op (.fund 5 .A 0 100), .op (.send 0 5 .A 40)], ⟨0, 1, 5, .A, 40⟩, by decide, by decide⟩

end FxVerif.Props.C19
