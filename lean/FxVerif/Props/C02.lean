import FxVerif.Proofs.C01
import FxVerif.Proofs.C01Gen
import FxVerif.Proofs.C01R4
import FxVerif.Proofs.C01R5
/-!
# C02 — an event takes effect only with a 66 % power quorum of distinct registered oracles

Same model as C01 (`FxVerif.Model.C01`, guards and constants regenerated from the Go source into `FxVerif.Gen.C01`).
Theorems stated for `s : State` hold for EVERY state and operation; theorems about `reach p ops` hold for every history
`ops` (all vote orders, all interleavings with bond / add-delegate / slashing end blocks / governance removal / unbond)
and all module parameters `p`, hence for all oracle sets and stake distributions.
-/
namespace FxVerif.Props.C02
open FxVerif.Gen.C01 FxVerif.Model.C01 FxVerif.Proofs.C01

abbrev reach (p : Params) (ops : List Op) : State := run (init p) ops

/-! ## the constants and the shape of the tally are the ones in the source -/

/-- `TryAttestation` compares with `66 * LastTotalPower / 100` (truncating), read from the store, using `LT`, skipping
votes of unregistered addresses -/
theorem quorum_constants :
    votesThreshold = 66 ∧ votesDivisor = 100 ∧ tallyCmp = .lt ∧ tallyTotalFromStore = true ∧ tallySkipsUnregistered = true := by
  decide

/-- where the two sides of the comparison come from: the tally adds exactly `GetPower()` of every found voter, the recorded
total is the sum of `GetPower()` over the ONLINE oracles, and `GetPower` is the truncating quotient
`DelegateAmount / DefaultPowerReduction` — the same unit on both sides (`Oracle.power`, `onlinePower`, `votePower`) -/
theorem quorum_power_sources :
    tallyAddsGetPower = true ∧ totalSumsOnlineGetPower = true ∧ getPowerTruncates = true ∧ 0 < powerReduction := by decide

/-- the expression read off `TryAttestation` (helpers inlined) evaluates to `66 * total / 100` for EVERY total: multiply
first, then truncate — e.g. `(total / 100) * 66` does not satisfy this -/
theorem required_eq (total : Nat) : required total = 66 * total / 100 := by
  simp [required, requiredExpr, QExpr.eval, votesThreshold]

/-! ## 1. observed ⇒ quorum of the voters of that very attestation -/

/-- votes of addresses that are not registered oracles contribute nothing -/
theorem unregistered_vote_counts_zero (m : Map Oracle) (v : Nat) (h : m.get v = none) : powerOf m v = 0 := by
  simp [powerOf, h]

/-- a registered oracle's vote contributes exactly its power `stake / powerReduction` (truncating), online or not -/
theorem registered_vote_counts_power (m : Map Oracle) (v : Nat) (o : Oracle) (h : m.get v = some o) :
    powerOf m v = o.stake / powerReduction := by
  simp [powerOf, h, Oracle.power]

/-- Whenever a step marks an attestation observed — for every state and every claim — it is the attestation of the
claim just voted on (same nonce, same claim hash), for exactly the next nonce, it was not observed before, and the power
of its own vote list (registered voters only, at the current stakes) is at least `66 * lastTotalPower / 100`, the
recorded total and the registry being untouched by the step.  Every other observed attestation was observed before. -/
theorem observed_implies_quorum (s : State) (w i n h : Nat) (k : Kind) (e : Nat) (a' : Att)
    (ha : a' ∈ (step s (.claim w i n h k e)).1.atts) (hob : a'.observed = true) :
    (∃ b ∈ s.atts, b.observed = true ∧ b.nonce = a'.nonce ∧ b.hash = a'.hash) ∨
    (a'.nonce = n ∧ a'.hash = h ∧ n = s.lastObserved + 1 ∧
      66 * s.lastTotalPower / 100 ≤ votePower s.oracles a'.votes ∧
      (step s (.claim w i n h k e)).1.oracles = s.oracles ∧
      (step s (.claim w i n h k e)).1.lastTotalPower = s.lastTotalPower) := by
  simp only [step] at ha ⊢
  have hreg := claim_registry s w i n h k
  by_cases hok : (claimStep s w i n h k).2 = .ok
  · obtain ⟨a, orc, _, _, _, _, _, _, heq⟩ := claim_ok s w i n h k hok
    rw [heq] at ha
    rcases observed_attest s a n h k a' ha hob with h1 | ⟨h1, h2, _, h4, _, h6⟩
    · exact Or.inl h1
    · exact Or.inr ⟨h1, h2, h4, by rw [← required_eq]; exact h6, hreg.1, hreg.2.1⟩
  · rw [claim_not_ok s w i n h k hok] at ha
    exact Or.inl ⟨a', ha, hob, rfl, rfl⟩

/-- no operation other than a claim marks anything observed -/
theorem observed_only_by_claim (s : State) (op : Op) (hop : ∀ w i n h k e, op ≠ .claim w i n h k e) :
    (step s op).1.atts = s.atts := by
  cases op with
  | claim w i n h k e => exact absurd rfl (hop w i n h k e)
  | bond o b e a d => exact core_atts (bond_core s o b e a d).1
  | addDelegate o a d => exact core_atts (addDelegate_core s o a d).1
  | editBridger o b => exact core_atts (editBridger_core s o b).1
  | unbond o u bal d => exact core_atts (unbond_core s o u bal d)
  | gov l d => exact core_atts (gov_core s l d).1
  | endBlock l r => exact core_atts (endBlock_core s l r).1
  | exec n o c =>
    simp only [step]
    obtain ⟨P, L, h⟩ := exec_frame s n o c
    rw [h]

/-- power of the DISTINCT registered voters of a vote list -/
def distinctPower (m : Map Oracle) (votes : List Nat) : Nat := votePower m (dedup votes)

/-- same hypothesis as in C01: the tree keeps the per-oracle last nonce on unbond, or no oracle bonds again after
`UnbondedOracle` deleted its key -/
def NoRebond (p : Params) (ops : List Op) : Prop := unbondDeletesLastNonce = false ∨ noRebond (init p) ops = true

/-- PARTIAL (explicit hypothesis `NoRebond`: no unbond → re-bond of one oracle address in the history).  Then the attestation a step newly marks observed has a duplicate-free vote list, so no
oracle is counted twice: the DISTINCT registered voters of that very attestation hold at least `66 * lastTotalPower / 100`. -/
theorem observed_quorum_distinct_partial (p : Params) (ops : List Op) (hops : NoRebond p ops)
    (w i n h : Nat) (k : Kind) (e : Nat) (a' : Att)
    (ha : a' ∈ (step (reach p ops) (.claim w i n h k e)).1.atts) (hob : a'.observed = true)
    (hnew : ¬ ∃ b ∈ (reach p ops).atts, b.observed = true ∧ b.nonce = a'.nonce ∧ b.hash = a'.hash) :
    a'.votes.Nodup ∧ 66 * (reach p ops).lastTotalPower / 100 ≤ distinctPower (reach p ops).oracles a'.votes := by
  have hV0 : VInv (reach p ops) := by
    rcases hops with h0 | h0
    · exact vinv_run _ ops (noRebond_of_kept h0 _ ops rfl) (vinv_init p)
    · exact vinv_run _ ops h0 (vinv_init p)
  have hV := vinv_step (reach p ops) (.claim w i n h k e) rfl hV0
  have hnd := hV.v2.1 a' ha
  rcases observed_implies_quorum (reach p ops) w i n h k e a' ha hob with h1 | ⟨_, _, _, h4, _, _⟩
  · exact absurd h1 hnew
  · exact ⟨hnd, by rw [distinctPower, dedup_of_nodup hnd]; exact h4⟩

/-- FULL STRENGTH (no hypothesis on the history; holds because the extractor reads that `UnbondedOracle` keeps
`LastEventNonceByOracle`).  For EVERY history and every claim: the attestation the claim newly marks observed has a
duplicate-free vote list and its DISTINCT registered voters hold at least `66 * lastTotalPower / 100`. -/
theorem observed_quorum_distinct (p : Params) (ops : List Op)
    (w i n h : Nat) (k : Kind) (e : Nat) (a' : Att)
    (ha : a' ∈ (step (reach p ops) (.claim w i n h k e)).1.atts) (hob : a'.observed = true)
    (hnew : ¬ ∃ b ∈ (reach p ops).atts, b.observed = true ∧ b.nonce = a'.nonce ∧ b.hash = a'.hash) :
    a'.votes.Nodup ∧ 66 * (reach p ops).lastTotalPower / 100 ≤ distinctPower (reach p ops).oracles a'.votes :=
  observed_quorum_distinct_partial p ops (Or.inl (by decide)) w i n h k e a' ha hob hnew

/-- The full-strength statement (distinct voters reach the quorum in EVERY history) is FALSE of a tree whose
`UnbondedOracle` deletes the per-oracle last nonce (the pinned commit before the repair): after
`rebondWitness` the event of nonce 1 is observed although its only voter holds power 25 < 36 = 66·55/100 — its vote is
in the list twice (replayed on the real app: `corpus/C02/h_rebond_double_count.ops`). -/
theorem observed_quorum_distinct_false (hdel : unbondDeletesLastNonce = true) :
    ∃ p ops, ∃ a ∈ (reach p ops).atts, a.observed = true ∧
      distinctPower (reach p ops).oracles a.votes < 66 * (reach p ops).lastTotalPower / 100 := by
  let u : Nat := powerReduction
  refine ⟨{ threshold := u, multiple := 100, slashFrac := 0 },
    [ .gov [1, 2, 3, 4] true,
      .bond 1 101 201 (10 * u) true, .bond 2 102 202 (10 * u) true, .bond 3 103 203 (10 * u) true, .bond 4 104 204 (10 * u) true,
      .claim 101 101 1 0 .pending 1001, .gov [2, 3, 4] true, .endBlock [] true, .unbond 1 (decide (unbondUbdRule = .requireExists)) 0 true, .gov [1, 2, 3, 4] true,
      .bond 1 101 201 (25 * u) true, .claim 101 101 1 0 .pending 1001 ],
    ⟨1, 0, [1, 1], true⟩, ?_, rfl, ?_⟩
  · revert hdel; decide
  · revert hdel; decide

/-! ## 2. the recorded total is never below the combined power of the online oracles -/

theorem total_ge_online (p : Params) (ops : List Op) : onlinePower (reach p ops).oracles ≤ (reach p ops).lastTotalPower :=
  totalOk_run _ ops (by simp [TotalOk, init, onlinePower])

/-- the bar is therefore never weaker than 66 % of the live power -/
theorem required_ge_live (p : Params) (ops : List Op) :
    66 * onlinePower (reach p ops).oracles / 100 ≤ 66 * (reach p ops).lastTotalPower / 100 :=
  Nat.div_le_div_right (Nat.mul_le_mul_left _ (total_ge_online p ops))

/-- the property's last clause in one statement: for EVERY history and every claim, the attestation the claim newly marks
observed carries DISTINCT registered voters holding at least 66 % (truncated) of the combined power of the oracles that
are online at that moment -/
theorem observed_implies_live_quorum (p : Params) (ops : List Op) (w i n h : Nat) (k : Kind) (e : Nat) (a' : Att)
    (ha : a' ∈ (step (reach p ops) (.claim w i n h k e)).1.atts) (hob : a'.observed = true)
    (hnew : ¬ ∃ b ∈ (reach p ops).atts, b.observed = true ∧ b.nonce = a'.nonce ∧ b.hash = a'.hash) :
    66 * onlinePower (reach p ops).oracles / 100 ≤ distinctPower (reach p ops).oracles a'.votes :=
  Nat.le_trans (required_ge_live p ops) (observed_quorum_distinct p ops w i n h k e a' ha hob hnew).2

/-- where the total is refreshed: right after a successful bond / add-delegate, and after an end block that slashed or
stored an oracle set, it EQUALS the online power; a governance oracle update does not refresh it -/
theorem refresh_sites :
    refreshOnBond = true ∧ refreshOnAddDelegate = true ∧ refreshOnSlash = true ∧ refreshOnOracleSetRequest = true ∧
    refreshOnGovUpdate = false ∧ bondRefreshRule = .afterStore ∧ addDelegateRefreshRule = .afterStore := by decide

/-- a successful add-delegate — in particular one that only pays the slash amount and brings a slashed oracle back online
without moving any stake — leaves the recorded total EQUAL to the online power -/
theorem addDelegate_refreshes (s : State) (o a : Nat) (d : Bool) (hok : (step s (.addDelegate o a d)).2 = .ok) :
    (step s (.addDelegate o a d)).1.lastTotalPower = onlinePower (step s (.addDelegate o a d)).1.oracles := by
  have hr : addDelegateRefreshRule = .afterStore := by decide
  simp only [step] at hok ⊢; unfold addDelegateStep addDelegateTo at hok ⊢
  repeat' split
  all_goals simp_all [refresh, applyRefresh]

theorem bond_refreshes (s : State) (o b e a : Nat) (d : Bool) (hok : (step s (.bond o b e a d)).2 = .ok) :
    (step s (.bond o b e a d)).1.lastTotalPower = onlinePower (step s (.bond o b e a d)).1.oracles := by
  have hr : bondRefreshRule = .afterStore := by decide
  simp only [step] at hok ⊢; unfold bondStep at hok ⊢
  repeat' split
  all_goals simp_all [refresh, applyRefresh]

theorem endBlock_refreshes (s : State) (l : List Nat) (r : Bool) (h : l ≠ [] ∨ r = true) :
    (step s (.endBlock l r)).1.lastTotalPower = onlinePower (step s (.endBlock l r)).1.oracles := by
  simp only [step]; unfold endBlockStep
  have : ((refreshOnSlash && !l.isEmpty) || (refreshOnOracleSetRequest && r)) = true := by
    rcases h with h | h
    · cases l with
      | nil => exact absurd rfl h
      | cons x xs => simp [refreshOnSlash]
    · simp [h, refreshOnOracleSetRequest]
  simp [this, refresh]

/-! ## 3. a vote is admitted only from the bridger registered for an online oracle -/

theorem vote_requires_online_bridger (s : State) (w i n h : Nat) (k : Kind) (e : Nat)
    (hok : (step s (.claim w i n h k e)).2 = .ok) :
    ∃ a orc, s.byBridger.get (voter w i) = some a ∧ s.oracles.get a = some orc ∧ orc.online = true ∧
      (step s (.claim w i n h k e)).1.lastNonce.get a = some n := by
  simp only [step] at hok ⊢
  obtain ⟨a, orc, h1, h2, h3, _, _, _, heq⟩ := claim_ok s w i n h k hok
  exact ⟨a, orc, h1, h2, h3, by rw [heq, attest_lastNonce]; exact get_set_self _ _ _⟩

/-- `EditBridger` deletes the index entry of the OLD bridger before it overwrites the record's bridger (the order the
index invariant behind `voter_is_registered_bridger` depends on) -/
theorem edit_bridger_order : editBridgerDeletesOldIndexFirst = true := by decide

/-- in every reachable state the bridger index is consistent with the registry, so the accepted claim's bridger is THE
bridger registered in the record of the online oracle whose vote is recorded -/
theorem voter_is_registered_bridger (p : Params) (ops : List Op) (w i n h : Nat) (k : Kind) (e : Nat)
    (hok : (step (reach p ops) (.claim w i n h k e)).2 = .ok) :
    ∃ a orc, (reach p ops).byBridger.get (voter w i) = some a ∧ (reach p ops).oracles.get a = some orc ∧
      orc.online = true ∧ orc.bridger = voter w i := by
  obtain ⟨a, orc, h1, h2, h3, _⟩ := vote_requires_online_bridger (reach p ops) w i n h k e hok
  have hB : BInv (reach p ops) := binv_run _ ops (by intro b a hg; simp [init, Map.get] at hg)
  obtain ⟨orc', ho', hb'⟩ := hB _ _ h1
  rw [h2] at ho'; cases ho'
  exact ⟨a, orc, h1, h2, h3, hb'⟩

/-- a rejected claim changes nothing -/
theorem rejected_claim_no_effect (s : State) (w i n h : Nat) (k : Kind) (e : Nat)
    (hne : (step s (.claim w i n h k e)).2 ≠ .ok) : (step s (.claim w i n h k e)).1 = s := by
  simp only [step] at hne ⊢; exact claim_not_ok s w i n h k hne

/-! ## 4. who must sign a claim and whose vote it is -/

/-- what the source says: the transaction signer of `MsgClaim` is the wrapper's `bridger_address` (proto signer option),
the vote is looked up for the wrapped claim's bridger (`claim.GetClaimer()` in `MsgServer.Claim`) -/
theorem signer_and_voter_sources : claimSignerIsWrapperBridger = true ∧ claimVoterIsInnerBridger = true ∧
    claimVoterIsWrapperBridger = false := by decide

/-- PARTIAL (explicit hypothesis: `MsgClaim.ValidateBasic` rejects a wrapper bridger different from the wrapped claim's
bridger — the extracted fact `claimValidateBasicBindsSigner`, which is `false` on this tree): then for every state an
accepted claim's required signer is the bridger whose oracle's vote is recorded. -/
theorem signer_is_voter_partial (hbind : claimValidateBasicBindsSigner = true) (s : State) (w i n h : Nat) (k : Kind) (e : Nat)
    (hok : (step s (.claim w i n h k e)).2 = .ok) : requiredSigner w i = voter w i := by
  simp only [step] at hok
  obtain ⟨_, _, _, _, _, _, hvb, _⟩ := claim_ok s w i n h k hok
  have : w = i := by simpa [validateBasic, hbind] using hvb
  subst this
  simp [requiredSigner, voter]

/-- without that check the message-server level accepts a claim whose required signer is not the voter's bridger (the
harness shows the same on the real `ValidateBasic` + handler in-process, and that NO signed `MsgClaim` transaction is
accepted on this tree — `MsgClaim` lacks `UnpackInterfaces` —, so the mismatch is latent, not reachable by a transaction) -/
theorem signer_voter_mismatch_without_check (hno : claimValidateBasicBindsSigner = false) :
    ∃ (s : State) (w i n h : Nat) (k : Kind) (e : Nat),
      (step s (.claim w i n h k e)).2 = .ok ∧ requiredSigner w i ≠ voter w i := by
  refine ⟨{ oracles := [(1, ⟨102, 201, 0, true, 0⟩)], byBridger := [(102, 1)] }, 101, 102, 1, 0, .other, 0, ?_, ?_⟩
  · revert hno; decide
  · decide

/-! ## non-vacuity -/

/-- truncation boundary: total 101 → required 66 (66·101/100 = 66.66 truncated); 33 + 33 reaches it exactly -/
def boundary : List Op :=
  let u : Nat := powerReduction
  [ .gov [1, 2, 3] true,
    .bond 1 101 201 (35 * u) true, .bond 2 102 202 (33 * u + (u - 1)) true, .bond 3 103 203 (33 * u) true,
    .claim 102 102 1 0 .other 1001,
    .claim 103 103 1 0 .other 1001 ]

def wp : Params := { threshold := powerReduction, multiple := 100, slashFrac := 0 }

example : (reach wp boundary).lastTotalPower = 101 := by decide
example : required 101 = 66 := by decide
example : (reach wp boundary).lastObserved = 1 := by decide            -- 33 + 33 = 66 ≥ 66
example : (reach wp (boundary.take 5)).lastObserved = 0 := by decide   -- 33 < 66
example : NoRebond wp boundary := Or.inr (by decide)
/-- governance removal leaves the recorded total stale (strictly above the online power) -/
example : let s := reach wp [ .gov [1, 2, 3, 4] true, .bond 1 101 201 (10 * powerReduction) true,
      .bond 2 102 202 (10 * powerReduction) true, .bond 3 103 203 (10 * powerReduction) true,
      .bond 4 104 204 (10 * powerReduction) true, .gov [2, 3, 4] true ]
    s.lastTotalPower = 40 ∧ onlinePower s.oracles = 30 := by decide

/-! ## round 3 — states loaded from a genesis; histories with export / import restarts -/

/-- state reached from the empty genesis by a history that may contain export / import restarts at arbitrary points -/
abbrev greach (p : Params) (ops : List GOp) : State := grun (init p) ops

/-- what the source says about `InitGenesis` (statements that write a modelled prefix, in source order): the recorded total
is computed AFTER the loop that stores the oracle records, and the per-oracle last nonces are reconstructed AFTER the last
observed nonce (their fallback) and the attestations are in the store -/
theorem genesis_import_order :
    genesisImport = [.setParams, .setLastObserved, .setProposal, .loadOracles true true true, .refreshTotal, .loadAtts,
      .rebuildLastNonce] := by decide

/-- what `ExportGenesis` writes out of the modelled prefixes: oracle records, attestations, last observed nonce, proposal
list — not the parked claims, not the per-oracle last nonces -/
theorem genesis_export_fields :
    exportHasOracles = true ∧ exportHasAtts = true ∧ exportHasLastObserved = true ∧ exportHasProposal = true ∧
    exportHasPending = false ∧ exportHasLastNonce = false := by decide

/-- a chain started from ANY genesis (any oracle records, bonded or not, online or not, duplicates included) records exactly
the combined power of its online oracles -/
theorem genesis_total_eq_online (g : Genesis) :
    (importGenesis g).lastTotalPower = onlinePower (importGenesis g).oracles := import_total g

/-- `total_ge_online` for EVERY history with export / import restarts at arbitrary points -/
theorem total_ge_online_g (p : Params) (ops : List GOp) :
    onlinePower (greach p ops).oracles ≤ (greach p ops).lastTotalPower :=
  totalOk_grun _ ops (by simp [TotalOk, init, onlinePower])

/-- … and for every history that starts from an ARBITRARY genesis file -/
theorem total_ge_online_from_genesis (g : Genesis) (ops : List GOp) :
    onlinePower (grun (importGenesis g) ops).oracles ≤ (grun (importGenesis g) ops).lastTotalPower :=
  totalOk_grun _ ops (by unfold TotalOk; rw [genesis_total_eq_online]; exact Nat.le_refl _)

theorem required_ge_live_g (p : Params) (ops : List GOp) :
    66 * onlinePower (greach p ops).oracles / 100 ≤ 66 * (greach p ops).lastTotalPower / 100 :=
  Nat.div_le_div_right (Nat.mul_le_mul_left _ (total_ge_online_g p ops))

/-- THE ORDER MATTERS: the same statements with `SetLastTotalPower` in front of the oracle loop record a total of 0 for
every genesis, whatever oracles it contains (the store is still empty when the sum is taken) -/
theorem genesis_refresh_before_load_records_zero (g : Genesis) (r b e : Bool) :
    (importWith [.setParams, .setLastObserved, .setProposal, .refreshTotal, .loadOracles r b e, .loadAtts, .rebuildLastNonce] g).lastTotalPower = 0 := by
  have hf := loadOracles_frame r b e g.oracles (refresh { params := g.params, lastObserved := g.lastObserved, proposal := g.proposal })
  simp only [] at hf
  simp only [importWith, List.foldl, applyGen]
  rw [hf.2.2.2.2.2.2.1]
  rfl

/-- … so that `total_ge_online` fails for a genesis with one bonded online oracle -/
theorem genesis_order_witness :
    let g : Genesis := { oracles := [(1, ⟨101, 201, 10 * powerReduction, true, 0⟩)] }
    let s := importWith [.setParams, .setLastObserved, .setProposal, .refreshTotal, .loadOracles true true true, .loadAtts, .rebuildLastNonce] g
    s.lastTotalPower = 0 ∧ onlinePower s.oracles = 10 ∧ onlinePower (importGenesis g).oracles = 10 ∧ (importGenesis g).lastTotalPower = 10 := by
  decide

/-- FULL STRENGTH over histories with restarts: the attestation a claim newly marks observed has a duplicate-free vote list
and its DISTINCT registered voters hold at least `66 * lastTotalPower / 100` — although the per-oracle last nonces, which
keep an oracle from voting twice, are not exported but reconstructed from the votes by `InitGenesis` -/
theorem observed_quorum_distinct_g (p : Params) (ops : List GOp)
    (w i n h : Nat) (k : Kind) (e : Nat) (a' : Att)
    (ha : a' ∈ (step (greach p ops) (.claim w i n h k e)).1.atts) (hob : a'.observed = true)
    (hnew : ¬ ∃ b ∈ (greach p ops).atts, b.observed = true ∧ b.nonce = a'.nonce ∧ b.hash = a'.hash) :
    a'.votes.Nodup ∧ 66 * (greach p ops).lastTotalPower / 100 ≤ distinctPower (greach p ops).oracles a'.votes := by
  have hk : unbondDeletesLastNonce = false := by decide
  have hW := winv_step hk _ (.claim w i n h k e) (winv_grun hk _ ops (winv_init p))
  have hnd := hW.w2.1 a' ha
  rcases observed_implies_quorum (greach p ops) w i n h k e a' ha hob with h1 | ⟨_, _, _, h4, _, _⟩
  · exact absurd h1 hnew
  · exact ⟨hnd, by rw [distinctPower, dedup_of_nodup hnd]; exact h4⟩

theorem observed_implies_live_quorum_g (p : Params) (ops : List GOp) (w i n h : Nat) (k : Kind) (e : Nat) (a' : Att)
    (ha : a' ∈ (step (greach p ops) (.claim w i n h k e)).1.atts) (hob : a'.observed = true)
    (hnew : ¬ ∃ b ∈ (greach p ops).atts, b.observed = true ∧ b.nonce = a'.nonce ∧ b.hash = a'.hash) :
    66 * onlinePower (greach p ops).oracles / 100 ≤ distinctPower (greach p ops).oracles a'.votes :=
  Nat.le_trans (required_ge_live_g p ops) (observed_quorum_distinct_g p ops w i n h k e a' ha hob hnew).2

/-- the claim hash identifies the event: all six `ClaimHash` implementations cover the event nonce AND the external block
height, so votes that report another height for an event nonce go to another attestation (the harness votes such claims
and checks on the real keeper that the voters tallied together all claimed the event that took effect) -/
theorem claim_identity_covers_height : claimHashCoversHeight = true ∧ claimHashCoversNonce = true := by decide

/-! ### the recorded total after a governance oracle update (`UpdateProposalOracles` does not refresh it) -/

/-- a governance oracle update never changes the recorded total — whatever it removes -/
theorem gov_keeps_recorded_total (s : State) (l : List Nat) (d : Bool) :
    (step s (.gov l d)).1.lastTotalPower = s.lastTotalPower := by
  have hr : refreshOnGovUpdate = false := by decide
  simp only [step]; unfold govStep
  repeat' split
  all_goals simp_all

/-- what `UpdateProposalOracles` does to one oracle record: removed oracles go offline -/
def offIf (rm : Nat × Oracle → Bool) (p : Nat × Oracle) : Nat × Oracle := if rm p then (p.1, { p.2 with online := false }) else p

theorem onlinePower_split (m : Map Oracle) (rm : Nat × Oracle → Bool) :
    onlinePower (m.map (offIf rm)) + onlinePower (m.filter rm) = onlinePower m := by
  induction m with
  | nil => rfl
  | cons q t ih =>
    obtain ⟨k, o⟩ := q
    by_cases h : rm (k, o) = true
    · have e1 : offIf rm (k, o) = (k, { o with online := false }) := by simp [offIf, h]
      rw [List.map_cons, List.filter_cons_of_pos h, e1, onlinePower_cons, onlinePower_cons, onlinePower_cons]
      simp only [contrib, Bool.false_eq_true, if_false]
      omega
    · have e1 : offIf rm (k, o) = (k, o) := by simp [offIf, h]
      rw [List.map_cons, List.filter_cons_of_neg h, e1, onlinePower_cons, onlinePower_cons]
      omega

theorem gov_ok (s : State) (l : List Nat) (d : Bool) (hok : (govStep s l d).2 = .ok) :
    (govStep s l d).1.oracles = s.oracles.map (offIf (govRemoved s l)) ∧
    ¬ (0 < govDeleted s l ∧ govChangeThreshold * onlinePower s.oracles / 100 ≤ govDeleted s l) := by
  have hr : refreshOnGovUpdate = false := by decide
  unfold govStep at hok ⊢
  split at hok
  · simp at hok
  · split at hok
    · simp at hok
    · split at hok
      · simp at hok
      · rename_i h1 h2 h3
        rw [if_neg h1, if_neg h2, if_neg h3]
        simp only [hr, Bool.false_eq_true, if_false]
        refine ⟨rfl, ?_⟩
        intro hc
        apply h2
        simp [hc.1, hc.2]

/-- an accepted governance update takes exactly the online power of the removed oracles off the live power -/
theorem gov_removes_exactly (s : State) (l : List Nat) (d : Bool) (hok : (step s (.gov l d)).2 = .ok) :
    onlinePower (step s (.gov l d)).1.oracles + govDeleted s l = onlinePower s.oracles := by
  simp only [step] at hok ⊢
  rw [(gov_ok s l d hok).1]
  exact onlinePower_split s.oracles (govRemoved s l)

/-- LIVENESS after ONE update from a fresh total: a governance update is refused when it would take 30 % or more of the
online power away, so after one accepted update of a state whose recorded total is fresh the remaining online oracles
still hold more than the bar of the (now stale) recorded total: the quorum stays reachable -/
theorem one_gov_update_keeps_quorum_reachable (s : State) (l : List Nat) (d : Bool)
    (hfresh : s.lastTotalPower = onlinePower s.oracles) (hok : (step s (.gov l d)).2 = .ok) :
    66 * (step s (.gov l d)).1.lastTotalPower / 100 ≤ onlinePower (step s (.gov l d)).1.oracles := by
  have hex := gov_removes_exactly s l d hok
  rw [gov_keeps_recorded_total, hfresh]
  have hg : govChangeThreshold = 30 := by decide
  have hcap := (gov_ok s l d (by simpa only [step] using hok)).2
  rw [hg] at hcap
  omega

/-- … but NOT after two updates in a row with nothing refreshing the total in between (each below 30 % of the then online
power): five oracles of power 20, two removed — the bar stays 66 (of the recorded 100) while the three online oracles hold
60: no event can be observed until `SetLastTotalPower` runs (an end block with an oracle-set request, a bond, an
add-delegate).  The stale total only ever makes the bar HIGHER (`total_ge_online`): safety holds, liveness waits. -/
theorem two_gov_updates_can_block_quorum :
    ∃ p ops, onlinePower (reach p ops).oracles < 66 * (reach p ops).lastTotalPower / 100 ∧
      (reach p (ops ++ [.endBlock [] true])).lastTotalPower = onlinePower (reach p (ops ++ [.endBlock [] true])).oracles := by
  refine ⟨wp, [ .gov [1, 2, 3, 4, 5] true,
      .bond 1 101 201 (20 * powerReduction) true, .bond 2 102 202 (20 * powerReduction) true, .bond 3 103 203 (20 * powerReduction) true,
      .bond 4 104 204 (20 * powerReduction) true, .bond 5 105 205 (20 * powerReduction) true,
      .gov [1, 2, 3, 4] true, .gov [1, 2, 3] true ], ?_, ?_⟩ <;> decide

/-! ### non-vacuity of the round-3 statements -/

/-- a history with a restart: four oracles (35, 33, 20, 13), a vote on nonce 1, a governance removal (total stale),
export / import, the same oracle tries again (refused), a second vote reaches the refreshed bar -/
def restartDemo : List GOp :=
  let u : Nat := powerReduction
  [ .op (.gov [1, 2, 3, 4] true),
    .op (.bond 1 101 201 (35 * u) true), .op (.bond 2 102 202 (33 * u + (u - 1)) true), .op (.bond 3 103 203 (20 * u) true),
    .op (.bond 4 104 204 (13 * u) true),
    .op (.claim 102 102 1 0 .pending 1001),
    .op (.gov [1, 2, 3] true),          -- removal of oracle 4 (13 of 101 < 30 %): total stays 101 (stale), online 88
    .genesis,                           -- import: total refreshed to 88, last nonces rebuilt from the votes
    .op (.claim 102 102 1 0 .pending 1001),   -- refused: oracle 2 has voted for nonce 1
    .op (.claim 101 101 1 0 .pending 1001) ]  -- 33 + 35 = 68 ≥ 58 = 66·88/100

example : (greach wp (restartDemo.take 7)).lastTotalPower = 101 ∧ onlinePower (greach wp (restartDemo.take 7)).oracles = 88 := by decide
example : (greach wp (restartDemo.take 8)).lastTotalPower = 88 := by decide
example : (greach wp (restartDemo.take 8)).lastNonce = [(2, 1)] := by decide
example : (gstep (greach wp (restartDemo.take 8)) (.op (.claim 102 102 1 0 .pending 1001))).2 = .nonContiguous := by decide
example : (greach wp restartDemo).lastObserved = 1 := by decide
/-- the hypotheses of `one_gov_update_keeps_quorum_reachable` are satisfiable -/
example : let s := greach wp (restartDemo.take 6)
    s.lastTotalPower = onlinePower s.oracles ∧ (step s (.gov [1, 2, 3] true)).2 = .ok := by decide


/-! ## round 4 — the bridger index over restarts; who signs a claim TRANSACTION -/

/-- the oracle registry is key-unique and the bridger index is consistent with it in EVERY state reached with any number of
genesis export / import restarts (the import rebuilds the index from the exported records; consistency of the rebuilt index
follows from key-uniqueness of the registry alone — `binv_roundTrip`) -/
theorem bridger_index_consistent_g (p : Params) (ops : List GOp) :
    ((greach p ops).oracles.map Prod.fst).Nodup ∧
    ∀ b a, (greach p ops).byBridger.get b = some a → ∃ orc, (greach p ops).oracles.get a = some orc ∧ orc.bridger = b := by
  have h := rinv_grun _ ops (rinv_init p)
  exact ⟨h.ku, h.bi⟩

/-- `voter_is_registered_bridger` over restarts: an accepted claim's bridger is THE bridger registered in the record of the
online oracle whose vote is recorded — also after export / import -/
theorem voter_is_registered_bridger_g (p : Params) (ops : List GOp) (w i n h : Nat) (k : Kind) (e : Nat)
    (hok : (step (greach p ops) (.claim w i n h k e)).2 = .ok) :
    ∃ a orc, (greach p ops).byBridger.get (voter w i) = some a ∧ (greach p ops).oracles.get a = some orc ∧
      orc.online = true ∧ orc.bridger = voter w i := by
  obtain ⟨a, orc, h1, h2, h3, _⟩ := vote_requires_online_bridger (greach p ops) w i n h k e hok
  obtain ⟨orc', ho', hb'⟩ := (bridger_index_consistent_g p ops).2 _ _ h1
  rw [h2] at ho'; cases ho'
  exact ⟨a, orc, h1, h2, h3, hb'⟩

/-- a restart reproduces the registry record for record (what the harness compares: field `or`) -/
theorem genesis_reproduces_registry (p : Params) (ops : List GOp) :
    (roundTrip (greach p ops)).oracles = (greach p ops).oracles :=
  (roundTrip_registry _ (rinv_grun _ ops (rinv_init p)).ku).1

/-- … and REPAIRS an inconsistent index: after the import the index is consistent whatever it was before, as long as the
registry is key-unique (it is in every reachable state) -/
theorem genesis_rebuilds_bridger_index (s : State) (hK : (s.oracles.map Prod.fst).Nodup) :
    ∀ b a, (roundTrip s).byBridger.get b = some a → ∃ orc, (roundTrip s).oracles.get a = some orc ∧ orc.bridger = b :=
  binv_roundTrip s hK

/-- registered bridgers are unique: in every state reached with restarts, every oracle record's bridger is indexed to that very
oracle (converse of the index invariant), so no two records share a bridger -/
theorem bridger_unique_g (p : Params) (ops : List GOp) :
    (∀ a orc, (greach p ops).oracles.get a = some orc → (greach p ops).byBridger.get orc.bridger = some a) ∧
    (∀ a a' o o', (greach p ops).oracles.get a = some o → (greach p ops).oracles.get a' = some o' → o.bridger = o'.bridger → a = a') := by
  have h := rinv2_grun _ ops (rinv2_init p)
  exact ⟨h.ci, fun a a' o o' h1 h2 hb => cinv_inj h.ci h1 h2 hb⟩

/-- a restart is TRANSPARENT for claim admission: after export / import the bridger index answers every look-up exactly as
before (the store order may differ), the registry is the same record for record — so `checkBridgerIsOracle` accepts exactly
the same bridgers for exactly the same oracles, in every state reached with any number of earlier restarts -/
theorem genesis_reproduces_bridger_index (p : Params) (ops : List GOp) (b : Nat) :
    (roundTrip (greach p ops)).byBridger.get b = (greach p ops).byBridger.get b ∧
    (roundTrip (greach p ops)).oracles = (greach p ops).oracles := by
  have h := rinv2_grun _ ops (rinv2_init p)
  exact ⟨roundTrip_index _ h.ku h.bi h.ci b, (roundTrip_registry _ h.ku).1⟩

/-- uniqueness of bridgers is needed for that: with two records of one bridger the rebuilt index keeps the LAST record's
oracle where the live index may hold the first -/
theorem genesis_index_needs_unique_bridgers :
    let s : State := { oracles := [(1, ⟨101, 201, 0, true, 0⟩), (2, ⟨101, 202, 0, true, 0⟩)], byBridger := [(101, 1)] }
    s.byBridger.get 101 = some 1 ∧ (roundTrip s).byBridger.get 101 = some 2 := by decide

/-- key-uniqueness is needed: with two records under one oracle key the rebuilt index names a bridger that the (last-wins)
registry does not have -/
theorem genesis_index_needs_unique_keys :
    let s : State := { oracles := [(1, ⟨101, 201, 0, true, 0⟩), (1, ⟨102, 201, 0, true, 0⟩)] }
    (roundTrip s).byBridger.get 101 = some 1 ∧ ((roundTrip s).oracles.get 1).map Oracle.bridger = some 102 := by decide

/-- what the source says about claims and transactions: `MsgClaim` is a registered message but does not unpack its wrapped
claim (`UnpackInterfaces` absent), so after the wire round trip of a transaction the claim is nil and `ValidateBasic` fails;
no claim type is a transaction message on its own.  Claims reach `MsgServer.Claim` only in-process on this tree. -/
theorem claim_transaction_facts :
    msgClaimRegisteredAsMsg = true ∧ msgClaimUnpacksInterfaces = false ∧ claimTxDeliverable = false ∧
    directClaimMsgTypes = [] := by decide

/-- FULL STRENGTH at the transaction level: whenever a signed `MsgClaim` TRANSACTION is accepted, the account whose
signature it needed is the bridger whose oracle's vote is recorded.  Discharged from the regenerated facts: either no such
transaction is deliverable (this tree) or `ValidateBasic` binds the two.  A change that makes claims deliverable without
adding the binding check stops this proof (and the harness's `txclaim` stream then records the vote and reports it). -/
theorem signer_is_voter_tx (s : State) (w i n h : Nat) (k : Kind) (hok : (txClaimStep s w i n h k).2 = .ok) :
    requiredSigner w i = voter w i := by
  have hf : claimTxDeliverable = false ∨ claimValidateBasicBindsSigner = true := by decide
  rcases hf with hf | hf
  · simp [txClaimStep, hf] at hok
  · rcases txClaim_cases s w i n h k with e | e
    · rw [e] at hok; cases hok
    · rw [e] at hok
      exact signer_is_voter_partial hf s w i n h k 0 (by simpa [step] using hok)

/-- … and it is not vacuous in the other world: under the binding check an accepted transaction exists -/
theorem signer_is_voter_tx_nonvacuous (hd : claimTxDeliverable = true) :
    ∃ (s : State) (w i n h : Nat) (k : Kind), (txClaimStep s w i n h k).2 = .ok := by
  refine ⟨{ oracles := [(1, ⟨102, 201, 0, true, 0⟩)], byBridger := [(102, 1)] }, 102, 102, 1, 0, .other, ?_⟩
  revert hd; decide

/-! ### non-vacuity -/

/-- edit-bridger, unbond-free history with a restart: the index after the restart names the NEW bridger only -/
def indexDemo : List GOp :=
  let u : Nat := powerReduction
  [ .op (.gov [1, 2] true), .op (.bond 1 101 201 (50 * u) true), .op (.bond 2 102 202 (50 * u) true),
    .op (.editBridger 1 103), .genesis, .op (.claim 101 101 1 0 .other 1001), .op (.claim 103 103 1 0 .other 1001) ]

example : (greach wp (indexDemo.take 5)).byBridger = [(103, 1), (102, 2)] := by decide
example : (gstep (greach wp (indexDemo.take 5)) (.op (.claim 101 101 1 0 .other 1001))).2 = .noOracle := by decide
example : (gstep (greach wp (indexDemo.take 6)) (.op (.claim 103 103 1 0 .other 1001))).2 = .ok := by decide
/-- a corrupted index (bridger 999 → oracle 1) is repaired by the round trip -/
example : let s : State := { oracles := [(1, ⟨101, 201, 0, true, 0⟩)], byBridger := [(999, 1)] }
    (roundTrip s).byBridger = [(101, 1)] := by decide

/-! ## round 5 — "… have each voted for that very event" -/

/-- what an entry of the cast log says: `(o, n, h)` is cast by an operation exactly when that operation is an ACCEPTED claim
message for event nonce `n` with claim id `h`, submitted through the bridger that is registered for oracle `o` at that moment,
and `o` is a registered, online oracle -/
theorem cast_vote_is_accepted_claim (s : State) (op : GOp) (o n h : Nat) (hc : (o, n, h) ∈ castOf s op) :
    ∃ w i k e orc, op = .op (.claim w i n h k e) ∧ (step s (.claim w i n h k e)).2 = .ok ∧
      s.byBridger.get (voter w i) = some o ∧ s.oracles.get o = some orc ∧ orc.online = true := by
  cases op with
  | genesis => simp [castOf] at hc
  | op x =>
    cases x with
    | claim w i n' h' k e =>
      by_cases hok : (claimStep s w i n' h' k).2 = .ok
      · obtain ⟨a, orc, hga, hgo, hon, _⟩ := claim_ok s w i n' h' k hok
        simp only [castOf, step, hok, hga, List.mem_singleton, Prod.mk.injEq] at hc
        obtain ⟨rfl, rfl, rfl⟩ := hc
        exact ⟨w, i, k, e, orc, rfl, hok, hga, hgo, hon⟩
      · exfalso
        simp only [castOf, step] at hc
        split at hc
        · rename_i h1 _; exact hok h1
        · cases hc
    | bond => simp [castOf] at hc
    | addDelegate => simp [castOf] at hc
    | editBridger => simp [castOf] at hc
    | unbond => simp [castOf] at hc
    | gov => simp [castOf] at hc
    | endBlock => simp [castOf] at hc
    | exec => simp [castOf] at hc

/-- FULL STRENGTH, every history with restarts: every vote that sits on a stored attestation (event nonce, claim id) was cast by
an accepted claim message for THAT event nonce and THAT claim id (`castLog`: the accepted claims of the history, in order) —
no operation other than an accepted claim adds a vote, a vote never moves to another attestation, a genesis import reloads
the vote lists and adds nothing -/
theorem votes_are_cast_claims (p : Params) (ops : List GOp) (a : Att) (ha : a ∈ (greach p ops).atts) (o : Nat) (ho : o ∈ a.votes) :
    (o, a.nonce, a.hash) ∈ castLog (init p) ops := by
  have := cast_grun (init p) [] ops (cast_init p) a ha o ho
  simpa using this

/-- the property's first sentence, over whole histories with restarts: the attestation a claim newly marks observed has a
duplicate-free vote list, its DISTINCT registered voters hold at least `66 * lastTotalPower / 100`, and EVERY ONE of them
voted — by an accepted claim of its own — for that very event (same event nonce, same claim id) -/
theorem quorum_voted_for_that_very_event (p : Params) (ops : List GOp)
    (w i n h : Nat) (k : Kind) (e : Nat) (a' : Att)
    (ha : a' ∈ (step (greach p ops) (.claim w i n h k e)).1.atts) (hob : a'.observed = true)
    (hnew : ¬ ∃ b ∈ (greach p ops).atts, b.observed = true ∧ b.nonce = a'.nonce ∧ b.hash = a'.hash) :
    a'.votes.Nodup ∧ 66 * (greach p ops).lastTotalPower / 100 ≤ distinctPower (greach p ops).oracles a'.votes ∧
    ∀ o ∈ a'.votes, (o, a'.nonce, a'.hash) ∈ castLog (init p) (ops ++ [.op (.claim w i n h k e)]) := by
  obtain ⟨h1, h2⟩ := observed_quorum_distinct_g p ops w i n h k e a' ha hob hnew
  refine ⟨h1, h2, fun o ho => ?_⟩
  have hm : a' ∈ (greach p (ops ++ [GOp.op (.claim w i n h k e)])).atts := by
    show a' ∈ (grun (init p) (ops ++ [GOp.op (.claim w i n h k e)])).atts
    rw [grun_append]
    exact ha
  exact votes_are_cast_claims p (ops ++ [GOp.op (.claim w i n h k e)]) a' hm o ho

/-- the claim id stands for the WHOLE claim only if the hashed path determines every field: in the six `ClaimHash` format
strings the only identity fields that follow each other without a separator are a decimal number (`m.EventNonce`) followed by
an external address (`m.TokenContract`, validated: `0x…` / `T…`, never starting with a digit) — still uniquely decodable.  Any
other unseparated pair (e.g. hex call data directly followed by a decimal value) lets two different events share one
attestation: the votes for one are then tallied for the other (the harness votes such pairs — `applyLie` — and compares the
whole claims of the voters tallied together on the real keeper) -/
theorem claim_identity_fields_separated :
    ∀ x ∈ claimHashJoined, x.2.1 = "m.EventNonce" ∧ x.2.2 = "m.TokenContract" := by decide

/-- non-vacuity: in `restartDemo` the observed attestation of nonce 1 carries the votes of oracles 2 and 1, cast before and
after the restart -/
example : castLog (init wp) restartDemo = [(2, 1, 0), (1, 1, 0)] := by decide
example : (greach wp restartDemo).atts = [{ nonce := 1, hash := 0, votes := [2, 1], observed := true }] := by decide
/-- the hypotheses of `quorum_voted_for_that_very_event` are satisfiable (the last claim of `restartDemo` observes nonce 1) -/
example : let s := greach wp (restartDemo.take 9)
    (∃ a' ∈ (step s (.claim 101 101 1 0 .pending 1001)).1.atts, a'.observed = true) ∧
    ¬ ∃ b ∈ s.atts, b.observed = true := by decide
/-- a lying oracle's claim (another claim id for the same nonce) sits on its own attestation and is not in the cast log of the event -/
example : let ops := restartDemo.take 9 ++ [.op (.claim 103 103 1 24 .pending 1001)]
    (greach wp ops).lastObserved = 0 ∧ castLog (init wp) ops = [(2, 1, 0), (3, 1, 24)] := by decide

end FxVerif.Props.C02
