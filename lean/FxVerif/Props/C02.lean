import FxVerif.Proofs.C01
/-!
# C02 — an event takes effect only with a 66 % power quorum of distinct registered oracles

Same model as C01 (`FxVerif.Model.C01`, guards and constants regenerated from the Go source into `FxVerif.Gen.C01`).
Theorems stated for `s : State` hold for EVERY state and operation; theorems about `reach p ops` hold for every history
`ops` (all vote orders, all interleavings with bond / add-delegate / slashing end blocks / governance removal / unbond)
and all module parameters `p`, hence for all oracle sets and stake distributions.
-/
namespace FxVerif.Props.C02
open FxVerif.Gen.C01 FxVerif.Model.C01 FxVerif.Proofs.C01

abbrev reach (p : Params) (ops : List Op) : State := run (init p) ops

/-! ## the constants and the shape of the tally are the ones in the source -/

/-- `TryAttestation` compares with `66 * LastTotalPower / 100` (truncating), read from the store, using `LT`, skipping
votes of unregistered addresses -/
theorem quorum_constants :
    votesThreshold = 66 ∧ votesDivisor = 100 ∧ tallyCmp = .lt ∧ tallyTotalFromStore = true ∧ tallySkipsUnregistered = true := by
  decide

/-- where the two sides of the comparison come from: the tally adds exactly `GetPower()` of every found voter, the recorded
total is the sum of `GetPower()` over the ONLINE oracles, and `GetPower` is the truncating quotient
`DelegateAmount / DefaultPowerReduction` — the same unit on both sides (`Oracle.power`, `onlinePower`, `votePower`) -/
theorem quorum_power_sources :
    tallyAddsGetPower = true ∧ totalSumsOnlineGetPower = true ∧ getPowerTruncates = true ∧ 0 < powerReduction := by decide

/-- the expression read off `TryAttestation` (helpers inlined) evaluates to `66 * total / 100` for EVERY total: multiply
first, then truncate — e.g. `(total / 100) * 66` does not satisfy this -/
theorem required_eq (total : Nat) : required total = 66 * total / 100 := by
  simp [required, requiredExpr, QExpr.eval, votesThreshold]

/-! ## 1. observed ⇒ quorum of the voters of that very attestation -/

/-- votes of addresses that are not registered oracles contribute nothing -/
theorem unregistered_vote_counts_zero (m : Map Oracle) (v : Nat) (h : m.get v = none) : powerOf m v = 0 := by
  simp [powerOf, h]

/-- a registered oracle's vote contributes exactly its power `stake / powerReduction` (truncating), online or not -/
theorem registered_vote_counts_power (m : Map Oracle) (v : Nat) (o : Oracle) (h : m.get v = some o) :
    powerOf m v = o.stake / powerReduction := by
  simp [powerOf, h, Oracle.power]

/-- Whenever a step marks an attestation observed — for every state and every claim — it is the attestation of the
claim just voted on (same nonce, same claim hash), for exactly the next nonce, it was not observed before, and the power
of its own vote list (registered voters only, at the current stakes) is at least `66 * lastTotalPower / 100`, the
recorded total and the registry being untouched by the step.  Every other observed attestation was observed before. -/
theorem observed_implies_quorum (s : State) (w i n h : Nat) (k : Kind) (e : Nat) (a' : Att)
    (ha : a' ∈ (step s (.claim w i n h k e)).1.atts) (hob : a'.observed = true) :
    (∃ b ∈ s.atts, b.observed = true ∧ b.nonce = a'.nonce ∧ b.hash = a'.hash) ∨
    (a'.nonce = n ∧ a'.hash = h ∧ n = s.lastObserved + 1 ∧
      66 * s.lastTotalPower / 100 ≤ votePower s.oracles a'.votes ∧
      (step s (.claim w i n h k e)).1.oracles = s.oracles ∧
      (step s (.claim w i n h k e)).1.lastTotalPower = s.lastTotalPower) := by
  simp only [step] at ha ⊢
  have hreg := claim_registry s w i n h k
  by_cases hok : (claimStep s w i n h k).2 = .ok
  · obtain ⟨a, orc, _, _, _, _, _, _, heq⟩ := claim_ok s w i n h k hok
    rw [heq] at ha
    rcases observed_attest s a n h k a' ha hob with h1 | ⟨h1, h2, _, h4, _, h6⟩
    · exact Or.inl h1
    · exact Or.inr ⟨h1, h2, h4, by rw [← required_eq]; exact h6, hreg.1, hreg.2.1⟩
  · rw [claim_not_ok s w i n h k hok] at ha
    exact Or.inl ⟨a', ha, hob, rfl, rfl⟩

/-- no operation other than a claim marks anything observed -/
theorem observed_only_by_claim (s : State) (op : Op) (hop : ∀ w i n h k e, op ≠ .claim w i n h k e) :
    (step s op).1.atts = s.atts := by
  cases op with
  | claim w i n h k e => exact absurd rfl (hop w i n h k e)
  | bond o b e a d => exact core_atts (bond_core s o b e a d).1
  | addDelegate o a d => exact core_atts (addDelegate_core s o a d).1
  | editBridger o b => exact core_atts (editBridger_core s o b).1
  | unbond o u bal d => exact core_atts (unbond_core s o u bal d)
  | gov l d => exact core_atts (gov_core s l d).1
  | endBlock l r => exact core_atts (endBlock_core s l r).1
  | exec n o c =>
    simp only [step]
    obtain ⟨P, L, h⟩ := exec_frame s n o c
    rw [h]

/-- power of the DISTINCT registered voters of a vote list -/
def distinctPower (m : Map Oracle) (votes : List Nat) : Nat := votePower m (dedup votes)

/-- same hypothesis as in C01: the tree keeps the per-oracle last nonce on unbond, or no oracle bonds again after
`UnbondedOracle` deleted its key -/
def NoRebond (p : Params) (ops : List Op) : Prop := unbondDeletesLastNonce = false ∨ noRebond (init p) ops = true

/-- PARTIAL (explicit hypothesis `NoRebond`: no unbond → re-bond of one oracle address in the history).  Then the attestation a step newly marks observed has a duplicate-free vote list, so no
oracle is counted twice: the DISTINCT registered voters of that very attestation hold at least `66 * lastTotalPower / 100`. -/
theorem observed_quorum_distinct_partial (p : Params) (ops : List Op) (hops : NoRebond p ops)
    (w i n h : Nat) (k : Kind) (e : Nat) (a' : Att)
    (ha : a' ∈ (step (reach p ops) (.claim w i n h k e)).1.atts) (hob : a'.observed = true)
    (hnew : ¬ ∃ b ∈ (reach p ops).atts, b.observed = true ∧ b.nonce = a'.nonce ∧ b.hash = a'.hash) :
    a'.votes.Nodup ∧ 66 * (reach p ops).lastTotalPower / 100 ≤ distinctPower (reach p ops).oracles a'.votes := by
  have hV0 : VInv (reach p ops) := by
    rcases hops with h0 | h0
    · exact vinv_run _ ops (noRebond_of_kept h0 _ ops rfl) (vinv_init p)
    · exact vinv_run _ ops h0 (vinv_init p)
  have hV := vinv_step (reach p ops) (.claim w i n h k e) rfl hV0
  have hnd := hV.v2.1 a' ha
  rcases observed_implies_quorum (reach p ops) w i n h k e a' ha hob with h1 | ⟨_, _, _, h4, _, _⟩
  · exact absurd h1 hnew
  · exact ⟨hnd, by rw [distinctPower, dedup_of_nodup hnd]; exact h4⟩

/-- FULL STRENGTH (no hypothesis on the history; holds because the extractor reads that `UnbondedOracle` keeps
`LastEventNonceByOracle`).  For EVERY history and every claim: the attestation the claim newly marks observed has a
duplicate-free vote list and its DISTINCT registered voters hold at least `66 * lastTotalPower / 100`. -/
theorem observed_quorum_distinct (p : Params) (ops : List Op)
    (w i n h : Nat) (k : Kind) (e : Nat) (a' : Att)
    (ha : a' ∈ (step (reach p ops) (.claim w i n h k e)).1.atts) (hob : a'.observed = true)
    (hnew : ¬ ∃ b ∈ (reach p ops).atts, b.observed = true ∧ b.nonce = a'.nonce ∧ b.hash = a'.hash) :
    a'.votes.Nodup ∧ 66 * (reach p ops).lastTotalPower / 100 ≤ distinctPower (reach p ops).oracles a'.votes :=
  observed_quorum_distinct_partial p ops (Or.inl (by decide)) w i n h k e a' ha hob hnew

/-- The full-strength statement (distinct voters reach the quorum in EVERY history) is FALSE of a tree whose
`UnbondedOracle` deletes the per-oracle last nonce (the pinned commit before the repair): after
`rebondWitness` the event of nonce 1 is observed although its only voter holds power 25 < 36 = 66·55/100 — its vote is
in the list twice (replayed on the real app: `corpus/C02/h_rebond_double_count.ops`). -/
theorem observed_quorum_distinct_false (hdel : unbondDeletesLastNonce = true) :
    ∃ p ops, ∃ a ∈ (reach p ops).atts, a.observed = true ∧
      distinctPower (reach p ops).oracles a.votes < 66 * (reach p ops).lastTotalPower / 100 := by
  let u : Nat := powerReduction
  refine ⟨{ threshold := u, multiple := 100, slashFrac := 0 },
    [ .gov [1, 2, 3, 4] true,
      .bond 1 101 201 (10 * u) true, .bond 2 102 202 (10 * u) true, .bond 3 103 203 (10 * u) true, .bond 4 104 204 (10 * u) true,
      .claim 101 101 1 0 .pending 1001, .gov [2, 3, 4] true, .endBlock [] true, .unbond 1 (decide (unbondUbdRule = .requireExists)) 0 true, .gov [1, 2, 3, 4] true,
      .bond 1 101 201 (25 * u) true, .claim 101 101 1 0 .pending 1001 ],
    ⟨1, 0, [1, 1], true⟩, ?_, rfl, ?_⟩
  · revert hdel; decide
  · revert hdel; decide

/-! ## 2. the recorded total is never below the combined power of the online oracles -/

theorem total_ge_online (p : Params) (ops : List Op) : onlinePower (reach p ops).oracles ≤ (reach p ops).lastTotalPower :=
  totalOk_run _ ops (by simp [TotalOk, init, onlinePower])

/-- the bar is therefore never weaker than 66 % of the live power -/
theorem required_ge_live (p : Params) (ops : List Op) :
    66 * onlinePower (reach p ops).oracles / 100 ≤ 66 * (reach p ops).lastTotalPower / 100 :=
  Nat.div_le_div_right (Nat.mul_le_mul_left _ (total_ge_online p ops))

/-- the property's last clause in one statement: for EVERY history and every claim, the attestation the claim newly marks
observed carries DISTINCT registered voters holding at least 66 % (truncated) of the combined power of the oracles that
are online at that moment -/
theorem observed_implies_live_quorum (p : Params) (ops : List Op) (w i n h : Nat) (k : Kind) (e : Nat) (a' : Att)
    (ha : a' ∈ (step (reach p ops) (.claim w i n h k e)).1.atts) (hob : a'.observed = true)
    (hnew : ¬ ∃ b ∈ (reach p ops).atts, b.observed = true ∧ b.nonce = a'.nonce ∧ b.hash = a'.hash) :
    66 * onlinePower (reach p ops).oracles / 100 ≤ distinctPower (reach p ops).oracles a'.votes :=
  Nat.le_trans (required_ge_live p ops) (observed_quorum_distinct p ops w i n h k e a' ha hob hnew).2

/-- where the total is refreshed: right after a successful bond / add-delegate, and after an end block that slashed or
stored an oracle set, it EQUALS the online power; a governance oracle update does not refresh it -/
theorem refresh_sites :
    refreshOnBond = true ∧ refreshOnAddDelegate = true ∧ refreshOnSlash = true ∧ refreshOnOracleSetRequest = true ∧
    refreshOnGovUpdate = false ∧ bondRefreshRule = .afterStore ∧ addDelegateRefreshRule = .afterStore := by decide

/-- a successful add-delegate — in particular one that only pays the slash amount and brings a slashed oracle back online
without moving any stake — leaves the recorded total EQUAL to the online power -/
theorem addDelegate_refreshes (s : State) (o a : Nat) (d : Bool) (hok : (step s (.addDelegate o a d)).2 = .ok) :
    (step s (.addDelegate o a d)).1.lastTotalPower = onlinePower (step s (.addDelegate o a d)).1.oracles := by
  have hr : addDelegateRefreshRule = .afterStore := by decide
  simp only [step] at hok ⊢; unfold addDelegateStep addDelegateTo at hok ⊢
  repeat' split
  all_goals simp_all [refresh, applyRefresh]

theorem bond_refreshes (s : State) (o b e a : Nat) (d : Bool) (hok : (step s (.bond o b e a d)).2 = .ok) :
    (step s (.bond o b e a d)).1.lastTotalPower = onlinePower (step s (.bond o b e a d)).1.oracles := by
  have hr : bondRefreshRule = .afterStore := by decide
  simp only [step] at hok ⊢; unfold bondStep at hok ⊢
  repeat' split
  all_goals simp_all [refresh, applyRefresh]

theorem endBlock_refreshes (s : State) (l : List Nat) (r : Bool) (h : l ≠ [] ∨ r = true) :
    (step s (.endBlock l r)).1.lastTotalPower = onlinePower (step s (.endBlock l r)).1.oracles := by
  simp only [step]; unfold endBlockStep
  have : ((refreshOnSlash && !l.isEmpty) || (refreshOnOracleSetRequest && r)) = true := by
    rcases h with h | h
    · cases l with
      | nil => exact absurd rfl h
      | cons x xs => simp [refreshOnSlash]
    · simp [h, refreshOnOracleSetRequest]
  simp [this, refresh]

/-! ## 3. a vote is admitted only from the bridger registered for an online oracle -/

theorem vote_requires_online_bridger (s : State) (w i n h : Nat) (k : Kind) (e : Nat)
    (hok : (step s (.claim w i n h k e)).2 = .ok) :
    ∃ a orc, s.byBridger.get (voter w i) = some a ∧ s.oracles.get a = some orc ∧ orc.online = true ∧
      (step s (.claim w i n h k e)).1.lastNonce.get a = some n := by
  simp only [step] at hok ⊢
  obtain ⟨a, orc, h1, h2, h3, _, _, _, heq⟩ := claim_ok s w i n h k hok
  exact ⟨a, orc, h1, h2, h3, by rw [heq, attest_lastNonce]; exact get_set_self _ _ _⟩

/-- `EditBridger` deletes the index entry of the OLD bridger before it overwrites the record's bridger (the order the
index invariant behind `voter_is_registered_bridger` depends on) -/
theorem edit_bridger_order : editBridgerDeletesOldIndexFirst = true := by decide

/-- in every reachable state the bridger index is consistent with the registry, so the accepted claim's bridger is THE
bridger registered in the record of the online oracle whose vote is recorded -/
theorem voter_is_registered_bridger (p : Params) (ops : List Op) (w i n h : Nat) (k : Kind) (e : Nat)
    (hok : (step (reach p ops) (.claim w i n h k e)).2 = .ok) :
    ∃ a orc, (reach p ops).byBridger.get (voter w i) = some a ∧ (reach p ops).oracles.get a = some orc ∧
      orc.online = true ∧ orc.bridger = voter w i := by
  obtain ⟨a, orc, h1, h2, h3, _⟩ := vote_requires_online_bridger (reach p ops) w i n h k e hok
  have hB : BInv (reach p ops) := binv_run _ ops (by intro b a hg; simp [init, Map.get] at hg)
  obtain ⟨orc', ho', hb'⟩ := hB _ _ h1
  rw [h2] at ho'; cases ho'
  exact ⟨a, orc, h1, h2, h3, hb'⟩

/-- a rejected claim changes nothing -/
theorem rejected_claim_no_effect (s : State) (w i n h : Nat) (k : Kind) (e : Nat)
    (hne : (step s (.claim w i n h k e)).2 ≠ .ok) : (step s (.claim w i n h k e)).1 = s := by
  simp only [step] at hne ⊢; exact claim_not_ok s w i n h k hne

/-! ## 4. who must sign a claim and whose vote it is -/

/-- what the source says: the transaction signer of `MsgClaim` is the wrapper's `bridger_address` (proto signer option),
the vote is looked up for the wrapped claim's bridger (`claim.GetClaimer()` in `MsgServer.Claim`) -/
theorem signer_and_voter_sources : claimSignerIsWrapperBridger = true ∧ claimVoterIsInnerBridger = true ∧
    claimVoterIsWrapperBridger = false := by decide

/-- PARTIAL (explicit hypothesis: `MsgClaim.ValidateBasic` rejects a wrapper bridger different from the wrapped claim's
bridger — the extracted fact `claimValidateBasicBindsSigner`, which is `false` on this tree): then for every state an
accepted claim's required signer is the bridger whose oracle's vote is recorded. -/
theorem signer_is_voter_partial (hbind : claimValidateBasicBindsSigner = true) (s : State) (w i n h : Nat) (k : Kind) (e : Nat)
    (hok : (step s (.claim w i n h k e)).2 = .ok) : requiredSigner w i = voter w i := by
  simp only [step] at hok
  obtain ⟨_, _, _, _, _, _, hvb, _⟩ := claim_ok s w i n h k hok
  have : w = i := by simpa [validateBasic, hbind] using hvb
  subst this
  simp [requiredSigner, voter]

/-- without that check the message-server level accepts a claim whose required signer is not the voter's bridger (the
harness shows the same on the real `ValidateBasic` + handler in-process, and that NO signed `MsgClaim` transaction is
accepted on this tree — `MsgClaim` lacks `UnpackInterfaces` —, so the mismatch is latent, not reachable by a transaction) -/
theorem signer_voter_mismatch_without_check (hno : claimValidateBasicBindsSigner = false) :
    ∃ (s : State) (w i n h : Nat) (k : Kind) (e : Nat),
      (step s (.claim w i n h k e)).2 = .ok ∧ requiredSigner w i ≠ voter w i := by
  refine ⟨{ oracles := [(1, ⟨102, 201, 0, true, 0⟩)], byBridger := [(102, 1)] }, 101, 102, 1, 0, .other, 0, ?_, ?_⟩
  · revert hno; decide
  · decide

/-! ## non-vacuity -/

/-- truncation boundary: total 101 → required 66 (66·101/100 = 66.66 truncated); 33 + 33 reaches it exactly -/
def boundary : List Op :=
  let u : Nat := powerReduction
  [ .gov [1, 2, 3] true,
    .bond 1 101 201 (35 * u) true, .bond 2 102 202 (33 * u + (u - 1)) true, .bond 3 103 203 (33 * u) true,
    .claim 102 102 1 0 .other 1001,
    .claim 103 103 1 0 .other 1001 ]

def wp : Params := { threshold := powerReduction, multiple := 100, slashFrac := 0 }

example : (reach wp boundary).lastTotalPower = 101 := by decide
example : required 101 = 66 := by decide
example : (reach wp boundary).lastObserved = 1 := by decide            -- 33 + 33 = 66 ≥ 66
example : (reach wp (boundary.take 5)).lastObserved = 0 := by decide   -- 33 < 66
example : NoRebond wp boundary := Or.inr (by decide)
/-- governance removal leaves the recorded total stale (strictly above the online power) -/
example : let s := reach wp [ .gov [1, 2, 3, 4] true, .bond 1 101 201 (10 * powerReduction) true,
      .bond 2 102 202 (10 * powerReduction) true, .bond 3 103 203 (10 * powerReduction) true,
      .bond 4 104 204 (10 * powerReduction) true, .gov [2, 3, 4] true ]
    s.lastTotalPower = 40 ∧ onlinePower s.oracles = 30 := by decide

end FxVerif.Props.C02
