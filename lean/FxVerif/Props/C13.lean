import FxVerif.Proofs.C13Owed
import FxVerif.Proofs.C13StakeLe
import FxVerif.Proofs.C13Cap
/-!
# C13 — oracle registry one-to-one; stake recoverable; only missed signing is slashed

Theorems over the model `FxVerif.Model.C13` (which follows the Go code through the regenerated facts of `Gen/C13.lean`),
for *every* op list from `init` (induction) or for every state where no reachability is needed.
-/
namespace FxVerif.Props.C13
open FxVerif.Model.C13 FxVerif.Gen.C13 FxVerif.Proofs.C13

/-! ## obligations over the regenerated facts of the code -/

/-- the three slashing loops: `StartHeight > obj.Height → continue`, slash on a *missing* confirm, `SlashOracle` gets the
oracle address, window comparisons `maxHeight > set.Height` / half-open batch range / `call.BlockHeight <= maxHeight` -/
theorem slashing_code_facts : SlashCodeOk := by decide

/-- `BondedOracle` checks proposal membership, existing record, bridger index, external index, lower and upper stake bound
before any write; `EditBridger` checks the bridger index before any write; the re-activation path of `AddDelegate` sets
Online, resets StartHeight (for an offline oracle) and clears SlashTimes; `AddDelegate` checks proposal membership, that
the top-up covers an outstanding penalty, and both stake bounds before any write -/
theorem guard_code_facts : GuardCodeOk := by decide

/-- governance removal: 30 % power-change cap of the expected shape, list length bounded by `MaxOracleSize` -/
theorem cap_code_facts : powerChangeCap = 30 ∧ maxOracleSize = 100 ∧ capShapeOk = true := by decide

/-- the cap guard of `UpdateProposalOracles`, part by part, as read off the AST (not a substring test): the threshold is
`30 · totalPower / 100` of the power the loop itself summed over the ONLINE records (not the stored last total power), the
removed power is summed over the ONLINE records on the old list that the new list drops, the update is refused when that is
positive and `≥` the threshold, and the refusing `if` precedes `SetProposalOracle` and every `UnbondedOracleFromProposal` -/
theorem cap_guard_code_facts : CapCodeOk := by unfold CapCodeOk; decide

/-- `UnbondedOracle` refuses while an unbonding delegation still EXISTS — also one whose entries have reached their
completion time but have not been paid out by the staking end-blocker yet — and not when there is none -/
theorem unbond_code_fact : unbondUbdTest = .rejectIfExists := by decide

/-! ## registry -/

/-- **registry_bijective**: in every reachable state a record is stored under its own address, no two records share a
bridger or an external address, and the two indexes contain exactly the pairs the records define -/
theorem registry_bijective (p : Params) (bals : Store Nat Nat) (ops : List Op) :
    let s := run (init p bals) ops
    (∀ a o, Store.get s.oracles a = some o → o.addr = a) ∧
    (∀ a a' o o', Store.get s.oracles a = some o → Store.get s.oracles a' = some o' →
        (o.bridger = o'.bridger ∨ o.ext = o'.ext) → a = a') ∧
    (∀ b a, Store.get s.byBridger b = some a ↔ ∃ o, Store.get s.oracles a = some o ∧ o.bridger = b) ∧
    (∀ e a, Store.get s.byExt e = some a ↔ ∃ o, Store.get s.oracles a = some o ∧ o.ext = e) := by
  intro s
  have hi : Inv s := run_inv slashing_code_facts guard_code_facts ops _ (init_inv p bals)
  obtain ⟨⟨k, b, e⟩, _⟩ := hi
  refine ⟨k, ?_, b, e⟩
  intro a a' o o' h1 h2 h3
  rcases h3 with h3 | h3
  · have x1 := (b o.bridger a).mpr ⟨o, h1, rfl⟩
    have x2 := (b o.bridger a').mpr ⟨o', h2, h3.symm⟩
    rw [x1] at x2; injection x2
  · have x1 := (e o.ext a).mpr ⟨o, h1, rfl⟩
    have x2 := (e o.ext a').mpr ⟨o', h2, h3.symm⟩
    rw [x1] at x2; injection x2

/-- **bond_requires_approval_and_bounds**: a successful `BondedOracle` was for an address on the governance list, not yet
registered, with unused bridger / external address, and a stake inside `[threshold, threshold × multiple]` -/
theorem bond_requires_approval_and_bounds (s : State) (o b e v amt : Nat) (h : (bond s o b e v amt).2 = .ok) :
    s.proposal.contains o = true ∧ Store.get s.oracles o = none ∧ Store.get s.byBridger b = none ∧
    Store.get s.byExt e = none ∧ s.p.thr ≤ amt ∧ amt ≤ s.p.thr * s.p.mult := by
  obtain ⟨g1, g2, g3, g4, g5, g6, _⟩ := guard_code_facts
  unfold bond at h
  simp only [g1, g2, g3, g4, g5, g6, Bool.true_and] at h
  split at h
  · cases h
  · split at h
    · cases h
    · split at h
      · cases h
      · split at h
        · cases h
        · split at h
          · cases h
          · split at h
            · cases h
            · rename_i h1 h2 h3 h4 h5 h6
              refine ⟨by simpa using h1, by simpa [Store.has] using h2, by simpa [Store.has] using h3,
                by simpa [Store.has] using h4, by simpa using h5, by simpa using h6⟩

/-- topping up (and coming back online) also needs governance approval -/
theorem add_requires_approval (s : State) (o amt : Nat) (h : (addDelegate s o amt).2 = .ok) :
    s.proposal.contains o = true := by
  have a1 : addChecksProposal = true := guard_code_facts.2.2.2.2.2.2.2.1
  unfold addDelegate at h
  simp only [a1, Bool.true_and] at h
  split at h
  · cases h
  · rename_i h1; simpa using h1

/-- in every reachable state every recorded stake lies inside the configured bounds -/
theorem stake_within_bounds (p : Params) (bals : Store Nat Nat) (ops : List Op) (a : Nat) (o : Oracle)
    (h : Store.get (run (init p bals) ops).oracles a = some o) :
    (run (init p bals) ops).p.thr ≤ o.amount ∧ o.amount ≤ (run (init p bals) ops).p.thr * (run (init p bals) ops).p.mult := by
  have hi := run_inv slashing_code_facts guard_code_facts ops _ (init_inv p bals)
  exact (hi.recs a o h).2.2

/-! ## stake accounting -/

/-- **stake_accounting**: in every state reachable WITHOUT a validator slash (and with a positive stake threshold), for
every oracle record that governance has never removed (ghost `undel = 0`: nothing was ever undelegated from it by
`UpdateProposalOracles`): the recorded `DelegateAmount` is exactly what is delegated from the oracle's delegate address to
its `DelegateValidator`, and exactly what the oracle transferred by `BondedOracle` / `AddDelegate` (ghost `sent`, net of
the burned penalty).  Induction over the op list with the invariants `Inv`, `FitInv`, `StakeInv`. -/
theorem stake_accounting (p : Params) (bals : Store Nat Nat) (ops : List Op) (hthr : 0 < p.thr)
    (hops : ops.all noValSlash = true) (a : Nat) (r : Oracle)
    (hr : Store.get (run (init p bals) ops).oracles a = some r)
    (hnever : (ghOf (run (init p bals) ops) a).undel = 0) :
    Store.get (run (init p bals) ops).deleg (a, r.val) = some r.amount ∧
    (ghOf (run (init p bals) ops) a).sent = r.amount := by
  have hall := run_all slashing_code_facts guard_code_facts ops (init p bals) hthr hops
    ⟨init_inv p bals, init_fit p bals, init_stake p bals⟩
  exact hall.stake.acc a r hr hnever

/-- **stake_accounting_with_validator_slash**: for EVERY op list — validator slashing, governance removal and re-approval
included, no hypothesis on the threshold, no `undel = 0` hypothesis — and every oracle record: the recorded
`DelegateAmount` is exactly what the oracle transferred by `BondedOracle` / `AddDelegate` (ghost `sent`, net of the burned
penalty), and what is delegated on its behalf to its `DelegateValidator` is at most that (equal until a validator slash,
see `stake_accounting`; never more).  Induction over the op list with the invariants `Inv`, `FitInv`, `StakeLeInv`.

That a delegation EXISTS cannot be concluded from `undel = 0` once validators can be slashed (`slashedToZero` below): see
`stake_accounting_with_validator_slash_never_removed` for the hypothesis it needs. -/
theorem stake_accounting_with_validator_slash (p : Params) (bals : Store Nat Nat) (ops : List Op) (a : Nat) (r : Oracle)
    (hr : Store.get (run (init p bals) ops).oracles a = some r) :
    (∀ t, Store.get (run (init p bals) ops).deleg (a, r.val) = some t → t ≤ r.amount) ∧
    delegAmt (run (init p bals) ops) a r.val ≤ r.amount ∧
    (ghOf (run (init p bals) ops) a).sent = r.amount := by
  have hi := run_stakeLe slashing_code_facts guard_code_facts ops (init p bals) (init_inv p bals) (init_fit p bals)
    (init_stakeLe p bals)
  refine ⟨fun t ht => hi.le a r t hr ht, ?_, hi.sent a r hr⟩
  unfold delegAmt
  cases h : Store.get (run (init p bals) ops).deleg (a, r.val) with
  | none => simp
  | some t => simpa using hi.le a r t hr h

/-- … and for an oracle whose record governance has never removed along the history (`neverRemoved`: no
`UpdateProposalOracles` dropped `a` from the list while it was listed and registered — in particular when every governance
update of the history has `a` on its list, `neverRemoved_of_listed`), validator slashing included: a delegation from its
delegate address to its `DelegateValidator` exists, of at most the recorded `DelegateAmount` tokens (equal until a
validator slash, never more), and the recorded amount is exactly what the oracle transferred.
(The ghost `undel = 0` of `stake_accounting` is NOT enough here: a removal of a delegation that was slashed to 0 tokens
leaves `undel = 0`.) -/
theorem stake_accounting_with_validator_slash_never_removed (p : Params) (bals : Store Nat Nat) (ops : List Op) (a : Nat)
    (r : Oracle) (hr : Store.get (run (init p bals) ops).oracles a = some r)
    (hnever : neverRemoved a (init p bals) ops = true) :
    (∃ t, Store.get (run (init p bals) ops).deleg (a, r.val) = some t ∧ t ≤ r.amount) ∧
    (ghOf (run (init p bals) ops) a).sent = r.amount := by
  have hi := run_lek slashing_code_facts guard_code_facts a ops (init p bals) hnever (init_inv p bals) (init_fit p bals)
    (init_lek _ p bals)
  exact hi.acc a r rfl hr

/-- with validator slashing too: a delegate address only ever delegates to the validator its oracle record names, and an
oracle off the governance list has nothing delegated -/
theorem stake_only_to_recorded_validator_with_validator_slash (p : Params) (bals : Store Nat Nat) (ops : List Op) :
    (∀ o v t, Store.get (run (init p bals) ops).deleg (o, v) = some t →
      ∃ r, Store.get (run (init p bals) ops).oracles o = some r ∧ r.val = v) ∧
    (∀ a r, Store.get (run (init p bals) ops).oracles a = some r → a ∉ (run (init p bals) ops).proposal →
      Store.get (run (init p bals) ops).deleg (a, r.val) = none) := by
  have hi := run_stakeLe slashing_code_facts guard_code_facts ops (init p bals) (init_inv p bals) (init_fit p bals)
    (init_stakeLe p bals)
  exact ⟨hi.own, hi.out⟩

/-- a delegate address only ever delegates to the validator its oracle record names, and only while the record exists -/
theorem stake_only_to_recorded_validator (p : Params) (bals : Store Nat Nat) (ops : List Op) (hthr : 0 < p.thr)
    (hops : ops.all noValSlash = true) (o v t : Nat)
    (h : Store.get (run (init p bals) ops).deleg (o, v) = some t) :
    ∃ r, Store.get (run (init p bals) ops).oracles o = some r ∧ r.val = v := by
  have hall := run_all slashing_code_facts guard_code_facts ops (init p bals) hthr hops
    ⟨init_inv p bals, init_fit p bals, init_stake p bals⟩
  exact hall.stake.own o v t h

/-- an oracle that is off the governance list has nothing delegated any more: removal undelegated all of it (the stake is
in unbonding entries or already back at the delegate address, from where `stake_recoverable` pays it out) -/
theorem removed_oracle_has_no_delegation (p : Params) (bals : Store Nat Nat) (ops : List Op) (hthr : 0 < p.thr)
    (hops : ops.all noValSlash = true) (a : Nat) (r : Oracle)
    (hr : Store.get (run (init p bals) ops).oracles a = some r) (hoff : a ∉ (run (init p bals) ops).proposal) :
    Store.get (run (init p bals) ops).deleg (a, r.val) = none := by
  have hall := run_all slashing_code_facts guard_code_facts ops (init p bals) hthr hops
    ⟨init_inv p bals, init_fit p bals, init_stake p bals⟩
  exact hall.stake.out a r hr hoff

/-- every online oracle is on the governance list (so "only oracles approved by governance" hold stake that counts) -/
theorem online_requires_approval (p : Params) (bals : Store Nat Nat) (ops : List Op) (a : Nat) (r : Oracle)
    (hr : Store.get (run (init p bals) ops).oracles a = some r) (hon : r.online = true) :
    a ∈ (run (init p bals) ops).proposal := by
  have hf := run_fit slashing_code_facts guard_code_facts ops _ (init_fit p bals)
  exact hf.onl (a, r) (mem_of_get _ _ _ hr) hon

/-! ## the power-change cap of a governance update

`govUpdate` interprets the REGENERATED guard (`capRefuses`); with `cap_guard_code_facts` it says: -/

/-- **what the cap is measured against**: the threshold of the model's (= the code's) guard is 30 % of the combined power of
the ONLINE oracle records at the moment of the update, and the power held against it is the combined power of the online
records the update takes off the list -/
theorem cap_measured_against_online_power (s : State) (list : List Nat) :
    capThreshold s = 30 * totalOnlinePower s / 100 ∧ capRemoved s list = removedPower s list := by
  refine ⟨?_, capRemoved_eq cap_guard_code_facts s list⟩
  simp [capThreshold, capTotal_eq cap_guard_code_facts, cap_guard_code_facts.1, cap_guard_code_facts.2.1]

/-- **a change above the cap is refused, in every state**: a governance update that would take away online power `r > 0` with
`100·r ≥ 30·(online power)` fails and changes NOTHING (no list update, no undelegation, nobody taken offline) -/
theorem gov_update_refused_above_cap (s : State) (list : List Nat) (hpos : 0 < removedPower s list)
    (habove : 30 * totalOnlinePower s ≤ 100 * removedPower s list) :
    (govUpdate s list).1 = s ∧ (govUpdate s list).2 ≠ .ok := by
  have href : capRefuses s list = true :=
    (capRefuses_iff cap_guard_code_facts s list).mpr ⟨hpos, by omega⟩
  rcases govUpdate_cases s list with ⟨h1, h2, _⟩ | ⟨_, _, h3, _⟩
  · exact ⟨h1, h2⟩
  · rw [href] at h3; cases h3

/-- **a successful governance update stays below the cap, in every state**: the online power it takes away is 0 or strictly
less than 30 % of the online power before (`100·r < 30·total`); exactly that power goes offline — the online power after
plus the removed power is the online power before — so unless nothing was removed MORE THAN 70 % of the online power
remains online; and the list is at most `MaxOracleSize` long -/
theorem gov_update_ok_below_cap (s : State) (list : List Nat) (hok : (govUpdate s list).2 = .ok) :
    (removedPower s list = 0 ∨ 100 * removedPower s list < 30 * totalOnlinePower s) ∧
    totalOnlinePower (govUpdate s list).1 + removedPower s list = totalOnlinePower s ∧
    (totalOnlinePower (govUpdate s list).1 = totalOnlinePower s ∨
      70 * totalOnlinePower s < 100 * totalOnlinePower (govUpdate s list).1) ∧
    list.length ≤ maxOracleSize := by
  rcases govUpdate_cases s list with ⟨_, h2, _⟩ | ⟨_, hlen, hcap, s2, ho, hp, hres, hrp, _⟩
  · exact absurd hok h2
  · have hnot : ¬ (0 < removedPower s list ∧ 30 * totalOnlinePower s / 100 ≤ removedPower s list) := by
      intro h; have := (capRefuses_iff cap_guard_code_facts s list).mpr h; rw [this] at hcap; cases hcap
    have hsplit : totalOnlinePower (govUpdate s list).1 + removedPower s list = totalOnlinePower s := by
      have := online_split s.p (dropped s list) (Store.vals s.oracles)
      simp only [totalOnlinePower, onlineOracles, removedPower, hres, hrp, hp, ho, vals_mapVals]
      exact this
    have h1 : removedPower s list = 0 ∨ 100 * removedPower s list < 30 * totalOnlinePower s := by
      by_cases h0 : removedPower s list = 0
      · exact .inl h0
      · right
        have : ¬ 30 * totalOnlinePower s / 100 ≤ removedPower s list := fun h => hnot ⟨by omega, h⟩
        omega
    refine ⟨h1, hsplit, ?_, by omega⟩
    rcases h1 with h1 | h1
    · left; omega
    · right; omega

/-! ## penalty -/

/-- **penalty_le_stake** (any record, any parameters) -/
theorem penalty_le_stake (p : Params) (o : Oracle) : slashAmount p o ≤ o.amount := Nat.min_le_right _ _

/-- **penalty_charged_once**: in every reachable state the penalty counter is 0 or 1, and 0 for every online oracle — a
second missed signing cannot be charged before the first is paid -/
theorem penalty_charged_once (p : Params) (bals : Store Nat Nat) (ops : List Op) (a : Nat) (o : Oracle)
    (h : Store.get (run (init p bals) ops).oracles a = some o) :
    o.slashTimes ≤ 1 ∧ (o.online = true → o.slashTimes = 0) := by
  have hi := run_inv slashing_code_facts guard_code_facts ops _ (init_inv p bals)
  exact ⟨(hi.recs a o h).1, (hi.recs a o h).2.1⟩

/-! ## stake recoverable -/

/-- the state `UnbondedOracle` leaves behind -/
def unbonded (s : State) (o : Nat) (r : Oracle) : State :=
  { s with
    burned := s.burned + slashAmount s.p r
    dbal := Store.set s.dbal o 0
    bal := Store.set s.bal o (getBal s.bal o + (getBal s.dbal o - slashAmount s.p r))
    byExt := Store.erase s.byExt r.ext
    byBridger := Store.erase s.byBridger r.bridger
    oracles := Store.erase s.oracles o
    gh := Store.erase s.gh o }

/-- **stake_recoverable**: an oracle that is off the governance list and offline, whose unbonding entries have all
matured, and whose delegate address holds at least the penalty, unbonds successfully; it is paid the delegate-address
balance minus the penalty, the penalty is burned, the record and both index entries are gone — and a second unbond
fails (exactly once) -/
theorem stake_recoverable (s : State) (o : Nat) (r : Oracle)
    (hr : Store.get s.oracles o = some r) (hp : s.proposal.contains o = false) (hoff : r.online = false)
    (hmat : s.ubds.any (fun u => u.oracle == o && u.val == r.val) = false)
    (hbal : slashAmount s.p r ≤ getBal s.dbal o) :
    (unbond s o).2 = .ok ∧
    getBal (unbond s o).1.bal o = getBal s.bal o + (getBal s.dbal o - slashAmount s.p r) ∧
    getBal (unbond s o).1.dbal o = 0 ∧
    (unbond s o).1.burned = s.burned + slashAmount s.p r ∧
    Store.get (unbond s o).1.oracles o = none ∧
    Store.get (unbond s o).1.byBridger r.bridger = none ∧
    Store.get (unbond s o).1.byExt r.ext = none ∧
    (unbond (unbond s o).1 o).2 = .err "no-oracle" := by
  have hb : ∀ im, unbondBlocked false im = false := by intro im; simp [unbondBlocked, unbond_code_fact]
  have hlt : ¬ getBal s.dbal o < slashAmount s.p r := by omega
  have hp' : ¬ o ∈ s.proposal := by simpa using hp
  have e : unbond s o = (unbonded s o r, .ok) := by
    unfold unbond unbonded
    simp [hp', hr, hoff, hmat, hb, hlt]
  rw [e]
  refine ⟨rfl, by simp [unbonded, getBal, get_set], by simp [unbonded, getBal, get_set], rfl,
    by simp [unbonded, get_erase], by simp [unbonded, get_erase], by simp [unbonded, get_erase], ?_⟩
  unfold unbond
  simp [unbonded, hp', get_erase]

/-- **stake_recoverable, for reachable states, without a balance hypothesis**: in every state reachable without a
validator slash, an oracle that governance removed (off the list, offline), whose unbonding entries have all matured, and
that never came back online after a removal (ghost `reon = false`; the re-approval history is the known finding), unbonds
successfully and is paid the delegate-address balance minus the penalty — and that balance is at least the recorded
stake, so it gets back at least `DelegateAmount − penalty`.  The stake cannot get lost on the way: delegated + unbonding +
held by the delegate address ≥ recorded stake is an invariant (`OwedInv`), removal moves all of it into unbonding entries
(`StakeInv.out`), maturity moves it to the delegate address. -/
theorem stake_recoverable_reachable (p : Params) (bals : Store Nat Nat) (ops : List Op) (hthr : 0 < p.thr)
    (hops : ops.all noValSlash = true) (a : Nat) (r : Oracle)
    (hr : Store.get (run (init p bals) ops).oracles a = some r)
    (hoff : (run (init p bals) ops).proposal.contains a = false) (hoffl : r.online = false)
    (hmat : (run (init p bals) ops).ubds.all (fun u => u.oracle != a) = true)
    (hre : (ghOf (run (init p bals) ops) a).reon = false) :
    let s := run (init p bals) ops
    (unbond s a).2 = .ok ∧
    getBal (unbond s a).1.bal a = getBal s.bal a + (getBal s.dbal a - slashAmount s.p r) ∧
    r.amount ≤ getBal s.dbal a ∧
    Store.get (unbond s a).1.oracles a = none := by
  intro s
  have hall := run_all2 slashing_code_facts guard_code_facts ops (init p bals) hthr hops
    ⟨⟨init_inv p bals, init_fit p bals, init_stake p bals⟩, init_owed p bals⟩
  have hnin : a ∉ s.proposal := by simpa using hoff
  have hdel : Store.get s.deleg (a, r.val) = none := hall.all.stake.out a r hr hnin
  have how := hall.owed.ow a r hr hre
  have hub : ubdSum s a = 0 := by
    simp only [ubdSum]
    have : s.ubds.filter (fun u => u.oracle == a) = [] := by
      rw [List.filter_eq_nil_iff]
      intro u hu
      have := (List.all_eq_true.mp hmat) u hu
      simpa using this
    rw [this]; rfl
  have hda : delegAmt s a r.val = 0 := by simp only [delegAmt]; rw [hdel]; rfl
  have hbal : r.amount ≤ getBal s.dbal a := by
    have how' : r.amount ≤ delegAmt s a r.val + ubdSum s a + getBal s.dbal a := how
    rw [hda, hub] at how'; omega
  have hpend : s.ubds.any (fun u => u.oracle == a && u.val == r.val) = false := by
    rw [List.any_eq_false]
    intro u hu
    have := (List.all_eq_true.mp hmat) u hu
    have hne : ¬ u.oracle = a := by simpa using this
    simp [hne]
  have hsl : slashAmount s.p r ≤ getBal s.dbal a := Nat.le_trans (penalty_le_stake s.p r) hbal
  obtain ⟨h1, h2, _, _, h5, _⟩ := stake_recoverable s a r hr hoff hoffl hpend hsl
  exact ⟨h1, h2, hbal, h5⟩

/-! ### with validator slashing

A validator slash takes part of the stake away for good (that is what it is for); what the C13 code owes the oracle after
that is the rest.  The two theorems below hold for EVERY history, validator slashes included. -/

/-- **the only way a removed, matured oracle can fail to unbond is an uncovered penalty** (every state): off the list, offline,
no unbonding entry left — then `UnbondedOracle` either succeeds (`stake_recoverable`) or fails with "not sufficient slash
amount", changes nothing, and the delegate address holds less than the penalty; without validator slashing that cannot
happen (`stake_recoverable_reachable`: the balance is at least the recorded stake ≥ penalty), so it is exactly the case
"validator slash took more of the stake than the penalty leaves".  The record is then NOT lost: once the delegate address
has been topped up by the shortfall (`fund`, anybody can send coins there) the unbond succeeds and pays the balance minus
the penalty, i.e. 0 when the top-up was exactly the shortfall -/
theorem unbond_refused_only_for_unpaid_penalty (s : State) (o : Nat) (r : Oracle)
    (hr : Store.get s.oracles o = some r) (hp : s.proposal.contains o = false) (hoff : r.online = false)
    (hmat : s.ubds.any (fun u => u.oracle == o && u.val == r.val) = false) (hfail : (unbond s o).2 ≠ .ok) :
    getBal s.dbal o < slashAmount s.p r ∧ unbond s o = (s, .err "slash-short") ∧
    (unbond (step s (.fund o (slashAmount s.p r - getBal s.dbal o))).1 o).2 = .ok ∧
    getBal (unbond (step s (.fund o (slashAmount s.p r - getBal s.dbal o))).1 o).1.bal o = getBal s.bal o := by
  have hlt : getBal s.dbal o < slashAmount s.p r := by
    by_cases h : slashAmount s.p r ≤ getBal s.dbal o
    · exact absurd (stake_recoverable s o r hr hp hoff hmat h).1 hfail
    · omega
  have hb : ∀ im, unbondBlocked false im = false := by intro im; simp [unbondBlocked, unbond_code_fact]
  have hp' : ¬ o ∈ s.proposal := by simpa using hp
  refine ⟨hlt, ?_, ?_⟩
  · unfold unbond
    simp [hp', hr, hoff, hmat, hb, hlt]
  · have hd : getBal (step s (.fund o (slashAmount s.p r - getBal s.dbal o))).1.dbal o = slashAmount s.p r := by
      simp [step, getBal, get_set] at hlt ⊢; omega
    have h := stake_recoverable (step s (.fund o (slashAmount s.p r - getBal s.dbal o))).1 o r
      (by simpa [step] using hr) (by simpa [step] using hp) hoff (by simpa [step] using hmat)
      (by rw [hd]; exact Nat.le_refl _)
    refine ⟨h.1, ?_⟩
    rw [h.2.1, hd]
    simp [step]

/-- before maturity the unbond is refused and nothing changes (the record that entitles the oracle to its stake stays) -/
theorem unbond_waits_for_maturity (s : State) (o : Nat) (r : Oracle)
    (hr : Store.get s.oracles o = some r) (hp : s.proposal.contains o = false) (hoff : r.online = false)
    (hpend : s.ubds.any (fun u => u.oracle == o && u.val == r.val) = true) :
    unbond s o = (s, .err "ubd") := by
  have hb : ∀ im, unbondBlocked true im = true := by intro im; simp [unbondBlocked, unbond_code_fact]
  have hp' : ¬ o ∈ s.proposal := by simpa using hp
  unfold unbond
  simp [hp', hr, hoff, hpend, hb]

/-- a successful unbond never leaves an unbonding entry of the deleted record behind — in particular not one that has reached
its completion time but has not been paid out yet (the block whose time first reaches the completion time): the payout
of such an entry would arrive at a delegate address nobody can act for -/
theorem unbond_ok_leaves_no_unbonding_entry (s : State) (o : Nat) (r : Oracle) (hr : Store.get s.oracles o = some r)
    (h : (unbond s o).2 = .ok) : s.ubds.any (fun u => u.oracle == o && u.val == r.val) = false := by
  unfold unbond at h
  split at h
  · cases h
  · rw [hr] at h
    simp only at h
    split at h
    · cases h
    · split at h
      · cases h
      · rename_i hb
        simp only [unbondBlocked, unbond_code_fact] at hb
        simpa using hb

/-- **a successful unbond strands nothing in staking, for every history** (validator slashing, re-delegation, removal and
re-approval included): in every reachable state, when `UnbondedOracle` succeeds for `a` there is no delegation from its
delegate address to ANY validator (governance removal undelegated all of it, and a delegate address never delegates to a
validator other than the recorded one) and no unbonding entry towards its validator — so deleting the record abandons no
stake at the keyless delegate address -/
theorem unbond_ok_strands_nothing_reachable (p : Params) (bals : Store Nat Nat) (ops : List Op) (a : Nat) (r : Oracle)
    (hr : Store.get (run (init p bals) ops).oracles a = some r) (hok : (unbond (run (init p bals) ops) a).2 = .ok) :
    (∀ v, Store.get (unbond (run (init p bals) ops) a).1.deleg (a, v) = none) ∧
    (run (init p bals) ops).ubds.any (fun u => u.oracle == a && u.val == r.val) = false := by
  have hi := run_stakeLe slashing_code_facts guard_code_facts ops (init p bals) (init_inv p bals) (init_fit p bals)
    (init_stakeLe p bals)
  refine ⟨?_, unbond_ok_leaves_no_unbonding_entry _ a r hr hok⟩
  generalize run (init p bals) ops = s at hr hok hi
  have hnp : a ∉ s.proposal := by
    intro hin
    unfold unbond at hok
    simp [hin] at hok
  have hnone : ∀ v, Store.get s.deleg (a, v) = none := by
    intro v
    cases hd : Store.get s.deleg (a, v) with
    | none => rfl
    | some t =>
      obtain ⟨r', hr', hv⟩ := hi.own a v t hd
      rw [hr] at hr'; injection hr' with hr'; subst hr'; subst hv
      rw [hi.out a r hr hnp] at hd; cases hd
  have hsame : (unbond s a).1.deleg = s.deleg := by
    unfold unbond
    simp only
    repeat' split
    all_goals rfl
  intro v; rw [hsame]; exact hnone v

/-- an unbonding entry pays the *delegate address of its oracle* when the block time reaches its completion time -/
theorem maturity_pays_delegate_address (s : State) (t : Nat) (u : Ubd) (hu : s.ubds = [u]) (hc : u.completion ≤ t) :
    getBal (stakeMature s t).dbal u.oracle = getBal s.dbal u.oracle + u.balance ∧ (stakeMature s t).ubds = [] := by
  simp [stakeMature, hu, List.partition_eq_filter_filter, hc, getBal, get_set]

/-! ## slashing -/

/-- **slash_only_for_missed_signing**: if an online oracle is offline after a block, then at that block some oracle set /
batch / bridge call created at a height ≥ its start height was older than the signed window and had no stored confirm
carrying its external address -/
theorem slash_only_for_missed_signing (s : State) (dt a : Nat) (o o' : Oracle)
    (h0 : Store.get s.oracles a = some o) (hon : o.online = true)
    (h1 : Store.get (block s dt).1.oracles a = some o') (hoff : o'.online = false) :
    Missed s s.height o ∧ o'.slashTimes = o.slashTimes + 1 := by
  unfold block at h1
  split at h1
  · rw [h0] at h1; injection h1 with h1; subst h1; rw [hon] at hoff; cases hoff
  · rename_i s1 he
    obtain ⟨_, g, hg, hrel⟩ := endBlock_rel slashing_code_facts s s.height s1 he
    have : Store.get s1.oracles a = some o' := h1
    rw [hg, get_mapVals, h0] at this
    simp at this
    obtain ⟨_, _, _, _, _, _, h7⟩ := hrel o
    rw [this] at h7
    rcases h7 with h7 | h7
    · subst h7; rw [hon] at hoff; cases hoff
    · exact ⟨h7.2.2.2, h7.2.2.1⟩

/-- **confirmer_never_slashed**: an online oracle whose external address is on a stored confirm of every pending oracle
set, batch and bridge call is still online after the block -/
theorem confirmer_never_slashed (s : State) (dt a : Nat) (o o' : Oracle)
    (h0 : Store.get s.oracles a = some o) (hon : o.online = true)
    (hos : ∀ x ∈ s.osets, o.ext ∈ confExts s.osConf x.nonce)
    (hbt : ∀ x ∈ s.batches, o.ext ∈ confExts s.batchConf x.nonce)
    (hcl : ∀ x ∈ s.calls, o.ext ∈ confExts s.callConf x.nonce)
    (h1 : Store.get (block s dt).1.oracles a = some o') : o'.online = true := by
  cases hoff : o'.online with
  | true => rfl
  | false =>
    obtain ⟨⟨_, hm⟩, _⟩ := slash_only_for_missed_signing s dt a o o' h0 hon h1 hoff
    rcases hm with ⟨x, hx, _, _, hn⟩ | ⟨x, hx, _, _, hn⟩ | ⟨x, hx, _, _, hn⟩
    · exact absurd (hos x hx) hn
    · exact absurd (hbt x hx) hn
    · exact absurd (hcl x hx) hn

/-- an oracle that joined (or re-joined) after an object was created is never slashed for it: objects created before
its start height do not count as missed -/
theorem late_joiner_not_liable (s : State) (h : Nat) (o : Oracle)
    (hos : ∀ x ∈ s.osets, x.height < o.startHeight) (hbt : ∀ x ∈ s.batches, x.height < o.startHeight)
    (hcl : ∀ x ∈ s.calls, x.height < o.startHeight) : ¬ Missed s h o := by
  rintro ⟨_, ⟨x, hx, h1, _⟩ | ⟨x, hx, h1, _⟩ | ⟨x, hx, h1, _⟩⟩
  · have := hos x hx; omega
  · have := hbt x hx; omega
  · have := hcl x hx; omega

/-- **re-joining resets liability** (over the REGENERATED re-activation path of `AddDelegate`, `guard_code_facts`): a
slashed / removed oracle that comes back through a successful `AddDelegate` is online again, its penalty counter is
cleared, and its start height is the height of the re-join — not the height of its original bond -/
theorem rejoin_resets_liability (s : State) (o amt : Nat) (r : Oracle) (hr : Store.get s.oracles o = some r)
    (hoff : r.online = false) (h : (addDelegate s o amt).2 = .ok) :
    ∃ r', Store.get (addDelegate s o amt).1.oracles o = some r' ∧ r'.online = true ∧ r'.startHeight = s.height ∧
      r'.slashTimes = 0 ∧ r'.ext = r.ext := by
  have hre := reactivate_eq guard_code_facts
  have key : (addDelegate s o amt).2 = .ok → Store.get (addDelegate s o amt).1.oracles o =
      some (reactivate s.height { r with amount := r.amount + (amt - slashAmount s.p r) }) := by
    unfold addDelegate
    split
    · intro h; cases h
    · rw [hr]
      simp only
      split
      · intro h; cases h
      · split
        · intro h; cases h
        · split
          · intro h; cases h
          · split
            · intro h; cases h
            · split
              · intro h; cases h
              · intro _
                simp only [refreshPower]
                rw [get_set]; simp
  refine ⟨_, key h, ?_, ?_, ?_, ?_⟩ <;> simp [hre, hoff]

/-- … hence it is never penalised for an oracle set, batch or bridge call created before it re-joined, e.g. the oracle set
the chain emitted in the block of its own slash -/
theorem rejoined_not_liable_for_earlier_objects (s : State) (o amt : Nat) (r : Oracle)
    (hr : Store.get s.oracles o = some r) (hoff : r.online = false) (h : (addDelegate s o amt).2 = .ok)
    (t : State) (hh : Nat)
    (hos : ∀ x ∈ t.osets, x.height < s.height) (hbt : ∀ x ∈ t.batches, x.height < s.height)
    (hcl : ∀ x ∈ t.calls, x.height < s.height) :
    ∃ r', Store.get (addDelegate s o amt).1.oracles o = some r' ∧ ¬ Missed t hh r' := by
  obtain ⟨r', h1, _, h3, _, _⟩ := rejoin_resets_liability s o amt r hr hoff h
  exact ⟨r', h1, late_joiner_not_liable t hh r' (by rw [h3]; exact hos) (by rw [h3]; exact hbt) (by rw [h3]; exact hcl)⟩

/-- the end-blocker touches neither stake amounts nor balances nor delegations: slashing is only `online := false` and
`slashTimes + 1` (the penalty is charged later, by `AddDelegate` or `UnbondedOracle`) -/
theorem block_moves_no_stake (s : State) (dt : Nat) :
    (block s dt).1.bal = s.bal ∧ (block s dt).1.deleg = s.deleg ∧ (block s dt).1.burned = s.burned := by
  unfold block
  split
  · exact ⟨rfl, rfl, rfl⟩
  · rename_i s1 he
    obtain ⟨hc, _⟩ := endBlock_rel slashing_code_facts s s.height s1 he
    exact ⟨hc.bl, hc.dl, hc.bu⟩

/-! ## non-vacuity -/

def pEx : Params := ⟨100, 10, 8 * 10 ^ 17, 2, 10, 100, 10 ^ 17, 2⟩
def bEx : Store Nat Nat := [(0, 5000), (1, 5000), (2, 5000), (3, 5000)]

-- four oracles bond; governance removes oracle 0 (25 % < 30 %); after maturity it unbonds and gets its 100 back
def life : List Op := [.gov [0, 1, 2, 3], .bond 0 0 0 0 100, .bond 1 1 1 0 100, .bond 2 2 2 1 100, .bond 3 3 3 1 100,
  .gov [1, 2, 3], .block 101]
example : (run (init pEx bEx) life).oracles.length = 4 := by decide
example : getBal (run (init pEx bEx) life).dbal 0 = 100 ∧ (run (init pEx bEx) life).ubds = [] := by decide
example : (step (run (init pEx bEx) life) (.unbond 0)).2 = .ok := by decide
example : getBal (step (run (init pEx bEx) life) (.unbond 0)).1.bal 0 = 5000 := by decide
-- removing two of four equal oracles at once is refused by the 30 % cap
example : (step (run (init pEx bEx) (life.take 5)) (.gov [2, 3])).2 = .err "cap" := by decide
-- … `gov_update_refused_above_cap`: its hypotheses hold there (removed power 2·10 of 4·10 online: 100·20 ≥ 30·40), and the
-- hypothesis of `gov_update_ok_below_cap` holds for the removal of ONE of four (10 of 40: 100·10 < 30·40; 30 of 40 remain)
example : removedPower (run (init pEx bEx) (life.take 5)) [2, 3] = 20 ∧ totalOnlinePower (run (init pEx bEx) (life.take 5)) = 40 := by decide
example : (govUpdate (run (init pEx bEx) (life.take 5)) [1, 2, 3]).2 = .ok ∧
    removedPower (run (init pEx bEx) (life.take 5)) [1, 2, 3] = 10 ∧
    totalOnlinePower (govUpdate (run (init pEx bEx) (life.take 5)) [1, 2, 3]).1 = 30 := by decide
-- the boundary: with ten equal oracles the threshold is 30·100/100 = 30, so removing three (30 ≥ 30) is refused, two pass
def tenBals : Store Nat Nat := (List.range 10).map (fun i => (i, 5000))
def ten : List Op := .gov (List.range 10) :: (List.range 10).map (fun i => .bond i i i 0 100)
example : (step (run (init pEx tenBals) ten) (.gov [3, 4, 5, 6, 7, 8, 9])).2 = .err "cap" ∧
    (step (run (init pEx tenBals) ten) (.gov [2, 3, 4, 5, 6, 7, 8, 9])).2 = .ok := by decide
-- duplicate bridger / external address are refused
example : (step (run (init pEx bEx) (life.take 2)) (.bond 1 0 1 0 100)).2 = .err "bridger-bound" := by decide
example : (step (run (init pEx bEx) (life.take 2)) (.bond 1 1 0 0 100)).2 = .err "ext-bound" := by decide
-- a missed signing exists in a reachable state, and the hypotheses of `confirmer_never_slashed` are satisfiable
def aged : State := run (init pEx bEx) [.gov [0, 1], .bond 0 0 0 0 100, .bond 1 1 1 0 100, .mkcall, .conf .call 1 1 1 true, .block 5, .conf .os 1 0 0 true, .conf .os 1 1 1 true, .block 5, .block 5]
example : ((Store.get (block aged 5).1.oracles 0).map (·.online), (Store.get (block aged 5).1.oracles 1).map (·.online)) =
    (some false, some true) := by decide

-- stake_accounting: hypotheses satisfiable, and the `undel = 0` hypothesis cannot be dropped — the known finding as a
-- model witness: removal + re-approval + AddDelegate leaves DelegateAmount = 100 + 100 while only 100 is delegated
def reapproved : State := run (init pEx bEx) (life.take 6 ++ [.gov [0, 1, 2, 3], .add 0 100])
example : life.all noValSlash = true ∧ 0 < pEx.thr := by decide
example : (ghOf (run (init pEx bEx) (life.take 5)) 0).undel = 0 ∧
    Store.get (run (init pEx bEx) (life.take 5)).deleg (0, 0) = some 100 := by decide
example : ((Store.get reapproved.oracles 0).map (fun r => (r.amount, r.online)), Store.get reapproved.deleg (0, 0),
    (ghOf reapproved 0).undel) = (some (200, true), some 100, 100) := by decide

-- stake_accounting_with_validator_slash: after a 50 % slash of validator 0 oracle 0 is still recorded with 100, has sent
-- 100, and 50 < 100 is delegated; governance never removed it, so the `_never_removed` form applies as well
def slashedHalf : List Op := life.take 5 ++ [.valslash 0 1 2]
example : slashedHalf.all noValSlash = false ∧ neverRemoved 0 (init pEx bEx) slashedHalf = true ∧
    ((Store.get (run (init pEx bEx) slashedHalf).oracles 0).map (fun r => (r.amount, r.val)),
      Store.get (run (init pEx bEx) slashedHalf).deleg (0, 0), (ghOf (run (init pEx bEx) slashedHalf) 0).sent,
      (ghOf (run (init pEx bEx) slashedHalf) 0).undel) = (some (100, 0), some 50, 100, 0) := by decide
-- … and "`undel = 0` ⇒ a delegation exists" is FALSE with validator slashing, whatever the threshold: validator 0 is
-- slashed by 100 %, governance removes oracle 0 (undelegating 0 tokens, so `undel` stays 0), re-approves it, and
-- `AddDelegate` of 0 brings it back online: listed, online, `undel = 0`, recorded 100 — and nothing delegated
def slashedToZero : List Op := life.take 5 ++ [.valslash 0 1 1, .gov [1, 2, 3], .gov [0, 1, 2, 3], .add 0 0]
example : 0 < pEx.thr ∧ 0 ∈ (run (init pEx bEx) slashedToZero).proposal ∧
    ((Store.get (run (init pEx bEx) slashedToZero).oracles 0).map (fun r => (r.amount, r.val, r.online)),
      Store.get (run (init pEx bEx) slashedToZero).deleg (0, 0), (ghOf (run (init pEx bEx) slashedToZero) 0).undel,
      (ghOf (run (init pEx bEx) slashedToZero) 0).sent) = (some (100, 0, true), none, 0, 100) ∧
    neverRemoved 0 (init pEx bEx) slashedToZero = false := by decide

-- unbond_refused_only_for_unpaid_penalty: its hypotheses are met after a validator slash — oracle 0 (stake 100) misses a
-- bridge call and is slashed by the end-blocker (penalty 80 %), its validator is slashed by half, governance removes it,
-- the 50 that are left mature: `unbond` fails with slash-short (50 < 80); after a top-up of 30 it succeeds and pays 0
def shortfall : List Op := [.gov [0, 1, 2, 3], .bond 0 0 0 0 100, .bond 1 1 1 0 100, .bond 2 2 2 1 100, .bond 3 3 3 1 100,
  .mkcall, .conf .call 1 1 1 true, .conf .call 1 2 2 true, .conf .call 1 3 3 true, .block 5,
  .conf .os 1 1 1 true, .conf .os 1 2 2 true, .conf .os 1 3 3 true, .conf .os 1 0 0 true, .block 5, .block 5,
  .valslash 0 1 2, .gov [1, 2, 3], .block 101]
example : ((Store.get (run (init pEx bEx) shortfall).oracles 0).map (fun r => (r.online, r.slashTimes, slashAmount pEx r)),
    (run (init pEx bEx) shortfall).proposal.contains 0, (run (init pEx bEx) shortfall).ubds.any (fun u => u.oracle == 0),
    getBal (run (init pEx bEx) shortfall).dbal 0, (unbond (run (init pEx bEx) shortfall) 0).2) =
    (some (false, 1, 80), false, false, 50, .err "slash-short") := by decide
example : (unbond (step (run (init pEx bEx) shortfall) (.fund 0 30)).1 0).2 = .ok := by decide
-- unbond_ok_strands_nothing_reachable: `life` ends in a state in which oracle 0 unbonds successfully
example : (unbond (run (init pEx bEx) life) 0).2 = .ok := by decide

-- stake_recoverable_reachable: its hypotheses hold in the reachable state `life` (oracle 0 removed, matured)
example : (run (init pEx bEx) life).proposal.contains 0 = false ∧
    (run (init pEx bEx) life).ubds.all (fun u => u.oracle != 0) = true ∧ (ghOf (run (init pEx bEx) life) 0).reon = false ∧
    ((Store.get (run (init pEx bEx) life).oracles 0).map (·.online)) = some false := by decide

/-! ## round 5: governance removal executed inside a block -/

/-- **an offline oracle is left alone by a block**: the end-blocker changes nothing in the record of an oracle that is
offline when the block ends (no second penalty, start height and stake untouched), whatever is pending and however old -/
theorem offline_record_unchanged_by_block (s : State) (dt a : Nat) (o : Oracle)
    (h0 : Store.get s.oracles a = some o) (hoff : o.online = false) :
    Store.get (block s dt).1.oracles a = some o := by
  unfold block
  split
  · exact h0
  · rename_i s1 he
    obtain ⟨_, g, hg, hrel⟩ := endBlock_rel slashing_code_facts s s.height s1 he
    show Store.get s1.oracles a = some o
    rw [hg, get_mapVals, h0]
    obtain ⟨_, _, _, _, _, _, h7⟩ := hrel o
    rcases h7 with h7 | h7
    · simp [h7]
    · rw [hoff] at h7; cases h7.1

/-- **governance removal is not a penalty, also when it runs inside the block** (the message of a passed proposal executed by
the gov end-blocker, which precedes the crosschain end-blocker of the same block): a record the update drops is offline with
the SAME penalty counter, start height and stake after the block that follows the update, whatever objects it had left
unconfirmed -/
theorem gov_removed_not_penalised_in_block (s : State) (list : List Nat) (dt a : Nat) (o : Oracle)
    (hok : (govUpdate s list).2 = .ok) (h0 : Store.get s.oracles a = some o)
    (hd : dropped s list o = true) :
    Store.get (block (govUpdate s list).1 dt).1.oracles a = some { o with online := false } := by
  rcases govUpdate_cases s list with h | h
  · exact absurd hok h.2.1
  · obtain ⟨_, _, _, s2, ho, _, hrec, _, _⟩ := h
    apply offline_record_unchanged_by_block
    · rw [hrec, get_mapVals, ho, h0]; simp [hd]
    · rfl

-- non-vacuity: four bonded oracles, an unconfirmed bridge call, governance drops oracle 0 (25 % of the power); the call then ages
-- past the window: oracle 0 is offline with penalty counter 0, the three that stayed are slashed
def pR5 : Params := ⟨100, 10, 8 * 10 ^ 17, 2, 10, 100, 10 ^ 17, 2⟩
def sR5 : State := run (init pR5 [(0, 5000), (1, 5000), (2, 5000), (3, 5000)])
  [.gov [0, 1, 2, 3], .bond 0 0 0 0 100, .bond 1 1 1 0 100, .bond 2 2 2 0 100, .bond 3 3 3 0 100, .mkcall]
example : (govUpdate sR5 [1, 2, 3]).2 = .ok ∧ ((Store.get sR5.oracles 0).map (fun o => (o.online, dropped sR5 [1, 2, 3] o))) = some (true, true) := by decide
example : ((run (govUpdate sR5 [1, 2, 3]).1 [.block 5, .block 5, .block 5, .block 5]).oracles.map (fun p => (p.1, p.2.online, p.2.slashTimes))) =
    [(3, false, 1), (2, false, 1), (1, false, 1), (0, false, 0)] := by decide

end FxVerif.Props.C13
